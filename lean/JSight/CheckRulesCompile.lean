import JSight.CheckRulesSteps
/-!
`compileNode` + `CompileAllOf` + the compatibility check accept a rule set exactly when the statement's
conditions hold (`Consistent`): theorem `pipeline_iff`.
-/
namespace CR

theorem bind_ite {α β : Type} (b : Bool) (x : Option α) (f : α → Option β) :
    (if b = true then x else none).bind f = if b = true then x.bind f else none := by
  cases b <;> rfl

theorem isSome_ite {α : Type} (b : Bool) (x : Option α) :
    (if b = true then x else none).isSome = (b && x.isSome) := by
  cases b <;> simp

/-- the pipeline as a conjunction of step conditions on explicit intermediate maps -/
def pipelineOK (c : Ctx) (S : CMap) : Bool :=
  let m1 := falseConstraints S
  let m2 := orNext m1
  let m5 := typeNext m2
  let m6 := exMinNext m5
  let m7 := exMaxNext m6
  orOK c m1 && (enumOK m2 && (precOK m2 && (typeOK c m2 && (allowedOK m5 && (anyOK c m5 && (exMinOK m5 && (exMaxOK m6
    && (pairsOK m7 && (optOK c m7 && (emptyOK c m7 && (allOfOK c m7 && compatOK c (allOfNext m7))))))))))))

theorem pipeline_ok (c : Ctx) (S : CMap) :
    isOk (compile c S >>= allOfStep c >>= checkCompat c) = pipelineOK c S := by
  rw [isOk_eq]
  unfold compile pipelineOK
  simp only [toOpt_bind, toOpt_or, toOpt_enum, toOpt_prec, toOpt_type, toOpt_allowed, toOpt_any, toOpt_exMin,
    toOpt_exMax, toOpt_pairs, toOpt_opt, toOpt_empty, toOpt_allOf, toOpt_compat, bind_ite, isSome_ite,
    Option.isSome_some, Bool.and_true, Option.bind_some]

/-! ### well-formed inputs -/

/-- the JSON type of a node goes with its class (`NKind.ctx`, `memberCtx`) -/
def Ctx.wf (c : Ctx) : Bool :=
  match c.cls with
  | .literal => c.jt = .string || c.jt = .integer || c.jt = .float || c.jt = .boolean || c.jt = .null
  | .object => c.jt = .object
  | .array => c.jt = .array
  | .mixedValue => c.jt = .mixed
  | .mixed => true

/-- what every loaded rule set looks like before `compileNode`: no constraint of the kinds only the compiler adds,
a TypesList exactly with an `or` (of at least two members) -/
structure Shape (S : CMap) : Prop where
  any : S .any = none
  email : S .email = none
  uri : S .uri = none
  uuid : S .uuid = none
  date : S .date = none
  datetime : S .datetime = none
  orT : S.has .typesList = S.has .or
  orLen : S.has .or = true → 2 ≤ typesLen S
  allOfV : ∀ v, S .allOf = some v → ∃ ns, v = .allOf ns
  typeV : ∀ v, S .type = some v → ∃ tok gen, v = .type tok gen
  minV : ∀ a e, S .min = some (.num a e) → e = false
  maxV : ∀ a e, S .max = some (.num a e) → e = false

/-! ### lookups through the intermediate maps -/

theorem fc_fun (S : CMap) (k : CT) : falseConstraints S k =
    if (k = .nullable ∨ k = .const) ∧ S k = some (.flag false) then none else S k := by
  unfold falseConstraints
  by_cases hn : S .nullable = some (.flag false) <;> by_cases hc : S .const = some (.flag false)
    <;> simp only [hn, hc, if_true, if_false, CMap.del]
    <;> by_cases h1 : k = .nullable <;> by_cases h2 : k = .const <;> simp_all [CMap.del]

theorem fc_apply (S : CMap) (k : CT) (h1 : k ≠ .nullable) (h2 : k ≠ .const) : falseConstraints S k = S k := by
  rw [fc_fun]; simp [h1, h2]

theorem fc_has (S : CMap) (k : CT) : (falseConstraints S).has k = eff S k := by
  unfold CMap.has eff CMap.has
  rw [fc_fun]
  by_cases h : (k = .nullable ∨ k = .const) ∧ S k = some (.flag false)
  · rw [if_pos h]; obtain ⟨h1, h2⟩ := h
    rcases h1 with h1 | h1 <;> simp [h1] <;> simp [← h1, h2]
  · rw [if_neg h]
    by_cases h1 : k = .nullable
    · simp [h1] at h ⊢; simp [h]
    · by_cases h2 : k = .const
      · simp [h2] at h ⊢; simp [h]
      · simp [h1, h2]

theorem orNext_eq (m : CMap) : orNext m = m.del .or := by
  unfold orNext
  split
  · rfl
  · rename_i h
    funext k
    by_cases hk : k = .or
    · subst hk
      simp only [CMap.del, if_true]
      simpa [CMap.has] using h
    · simp [CMap.del, hk]

/-! ### counting = "no other rule" -/

def onlyHas (m : CMap) (A : List CT) : Bool := CT.all.all fun k => !m.has k || A.contains k

theorem onlyHas_fc (S : CMap) (A : List CT) : onlyHas (falseConstraints S) A = onlyRules S A := by
  unfold onlyHas onlyRules
  simp only [fc_has]

theorem onlyHas_absent {m : CMap} {A : List CT} (h : onlyHas m A = true) (k : CT) (hk : A.contains k = false) :
    m.has k = false := by
  have := (all_iff _).1 h k
  rw [hk] at this
  simpa using this

theorem count_or (m : CMap) (hor : m.has .or = true) (hty : m.has .typesList = true) :
    decide (m.len - 1 - bnat (m.has .or) - bnat (m.has .optional) - bnat (m.has .nullable) - bnat (m.has .type) = 0)
    = onlyHas m [.or, .typesList, .optional, .nullable, .type] := by
  rw [Bool.eq_iff_iff, decide_eq_true_iff]
  unfold onlyHas
  rw [len_unfold, all_unfold]
  have hb := bits m
  simp [hor, hty, ← bnat_eq_zero] at hb ⊢
  omega

theorem count_enum (m : CMap) (h : m.has .enum = true) :
    decide (m.len - 1 - bnat (m.has .optional) - bnat (m.has .const) - bnat (m.has .nullable) - bnat (m.has .type) = 0)
    = onlyHas m [.enum, .optional, .const, .nullable, .type] := by
  rw [Bool.eq_iff_iff, decide_eq_true_iff]
  unfold onlyHas
  rw [len_unfold, all_unfold]
  have hb := bits m
  simp [h, ← bnat_eq_zero] at hb ⊢
  omega

theorem count_user (m : CMap) (h : m.has .type = true) :
    decide (m.len - bnat (m.has .optional) - bnat (m.has .nullable) = 1)
    = onlyHas m [.type, .optional, .nullable] := by
  rw [Bool.eq_iff_iff, decide_eq_true_iff]
  unfold onlyHas
  rw [len_unfold, all_unfold]
  have hb := bits m
  simp [h, ← bnat_eq_zero] at hb ⊢
  omega

theorem count_any (m : CMap) (h : m.has .any = true) :
    decide (m.len - 1 - bnat (m.has .optional) - bnat (m.has .nullable) - bnat (m.has .const) = 0)
    = onlyHas m [.any, .optional, .nullable, .const] := by
  rw [Bool.eq_iff_iff, decide_eq_true_iff]
  unfold onlyHas
  rw [len_unfold, all_unfold]
  have hb := bits m
  simp [h, ← bnat_eq_zero] at hb ⊢
  omega

/-! ### the steps in terms of the rule set -/

theorem lookup_mem {α β : Type} [BEq α] [LawfulBEq α] (l : List (α × β)) (a : α) (b : β) (h : l.lookup a = some b) : (a, b) ∈ l := by
  induction l with
  | nil => simp at h
  | cons p l ih =>
    obtain ⟨a', b'⟩ := p
    simp only [List.lookup] at h
    by_cases e : a == a'
    · simp [e] at h; have := eq_of_beq e; subst this; subst h; simp
    · simp [e] at h; exact List.mem_cons_of_mem _ (ih h)

theorem ofBytes_ne_json_mixed (b : Bytes) : TyName.ofBytes b ≠ .json .mixed := by
  unfold TyName.ofBytes
  intro h
  split at h
  · cases h
  · cases hl : tyTable.lookup b with
    | none => rw [hl] at h; cases h
    | some v =>
      rw [hl] at h; simp at h; subst h
      have := lookup_mem _ _ _ hl
      revert this
      simp [tyTable]
theorem tyOf_ne_json_mixed (tok : Bytes) : tyOf tok ≠ .json .mixed := ofBytes_ne_json_mixed _

theorem eff_eq_has (S : CMap) (k : CT) (h1 : k ≠ .nullable) (h2 : k ≠ .const) : eff S k = S.has k := by
  simp [eff, h1, h2]

theorem typeTok_fc (S : CMap) : typeTok (falseConstraints S) = typeTok S := by
  unfold typeTok; rw [fc_apply S .type (by decide) (by decide)]
theorem typesUsers_fc (S : CMap) : typesUsers (falseConstraints S) = typesUsers S := by
  unfold typesUsers; rw [fc_apply S .typesList (by decide) (by decide)]
theorem typeTok_del (m : CMap) (k : CT) (h : k ≠ .type) : typeTok (m.del k) = typeTok m := by
  unfold typeTok; rw [del_other m (Ne.symm h)]
theorem typesUsers_del (m : CMap) (k : CT) (h : k ≠ .typesList) : typesUsers (m.del k) = typesUsers m := by
  unfold typesUsers; rw [del_other m (Ne.symm h)]

theorem rawIs_fc (S : CMap) (q : Bytes) : rawIs (falseConstraints S) q = rawIs S q := by
  unfold rawIs; rw [typeTok_fc]
theorem usersAny_fc (S : CMap) : usersAny (falseConstraints S) = usersAny S := by
  unfold usersAny; rw [typesUsers_fc]

theorem N_or (c : Ctx) (S : CMap) (hS : Shape S) : orOK c (falseConstraints S) = combOr c S := by
  unfold orOK combOr orUsers isContainer
  rw [rawIs_fc, usersAny_fc, fc_apply S .or (by decide) (by decide)]
  by_cases hor : S.has .or = true
  · have h1 : (falseConstraints S).has .or = true := by rw [fc_has, eff_eq_has _ _ (by decide) (by decide)]; exact hor
    have h2 : (falseConstraints S).has .typesList = true := by
      rw [fc_has, eff_eq_has _ _ (by decide) (by decide), hS.orT]; exact hor
    rw [count_or _ h1 h2, onlyHas_fc, h1, h2, hor]
    simp
  · have h1 : (falseConstraints S).has .or = false := by
      rw [fc_has, eff_eq_has _ _ (by decide) (by decide)]; simpa using hor
    simp [h1, hor]
theorem del_absent (m : CMap) (k : CT) (h : m.has k = false) : m.del k = m := by
  funext k'
  by_cases hk : k' = k
  · subst hk; simp only [CMap.del, if_true]; exact ((has_false_iff _ _).1 h).symm
  · simp [CMap.del, hk]

/-- the map after `orConstraint` -/
def m2 (S : CMap) : CMap := orNext (falseConstraints S)

theorem m2_eq (S : CMap) : m2 S = (falseConstraints S).del .or := orNext_eq _

theorem m2_has (S : CMap) (k : CT) (hk : k ≠ .or) : (m2 S).has k = eff S k := by
  rw [m2_eq, has_del_other _ hk, fc_has]
theorem m2_has_or (S : CMap) : (m2 S).has .or = false := by rw [m2_eq]; simp
theorem m2_apply (S : CMap) (k : CT) (hk : k ≠ .or) (h1 : k ≠ .nullable) (h2 : k ≠ .const) : m2 S k = S k := by
  rw [m2_eq, del_other _ hk, fc_apply _ _ h1 h2]
theorem m2_noOr (S : CMap) (h : S.has .or = false) : m2 S = falseConstraints S := by
  rw [m2_eq]; apply del_absent; rw [fc_has, eff_eq_has _ _ (by decide) (by decide)]; exact h
theorem typeTok_m2 (S : CMap) : typeTok (m2 S) = typeTok S := by
  rw [m2_eq, typeTok_del _ _ (by decide), typeTok_fc]
theorem typesUsers_m2 (S : CMap) : typesUsers (m2 S) = typesUsers S := by
  rw [m2_eq, typesUsers_del _ _ (by decide), typesUsers_fc]
theorem rawIs_m2 (S : CMap) (q : Bytes) : rawIs (m2 S) q = rawIs S q := by unfold rawIs; rw [typeTok_m2]
theorem typesLen_m2 (S : CMap) : typesLen (m2 S) = typesLen S := by unfold typesLen; rw [typesUsers_m2]

theorem onlyRules_absent {S : CMap} {A : List CT} (h : onlyRules S A = true) (k : CT) (hk : A.contains k = false) :
    eff S k = false := by
  rw [← onlyHas_fc] at h
  rw [← fc_has]; exact onlyHas_absent h k hk

/-- with `or` present and alone, there is no enum rule -/
theorem combOr_noEnum {c : Ctx} {S : CMap} (h : combOr c S = true) (hor : S.has .or = true) : S.has .enum = false := by
  unfold combOr at h
  simp only [hor, Bool.not_true, Bool.false_or, Bool.and_eq_true] at h
  have := onlyRules_absent h.1.1.1.2 .enum (by decide)
  rwa [eff_eq_has _ _ (by decide) (by decide)] at this

theorem N_enum (c : Ctx) (S : CMap) (h : combOr c S = true) : enumOK (m2 S) = combEnum S := by
  unfold enumOK combEnum
  rw [rawIs_m2, m2_has _ _ (by decide), eff_eq_has _ _ (by decide) (by decide)]
  by_cases hen : S.has .enum = true
  · have hor : S.has .or = false := by
      by_cases hor : S.has .or = true
      · have := combOr_noEnum h hor; rw [hen] at this; cases this
      · simpa using hor
    have h1 : (m2 S).has .enum = true := by rw [m2_has _ _ (by decide), eff_eq_has _ _ (by decide) (by decide)]; exact hen
    rw [count_enum _ h1, m2_noOr _ hor, onlyHas_fc, hen]
  · simp at hen; simp [hen]

theorem N_prec (S : CMap) : precOK (m2 S) = PrecisionOnlyDecimal S := by
  unfold precOK PrecisionOnlyDecimal tyName
  rw [m2_has _ _ (by decide), eff_eq_has _ _ (by decide) (by decide), typeTok_m2]
  cases typeTok S with
  | none => simp
  | some p => obtain ⟨tok, gen⟩ := p; simp


theorem hasKind_eq (c : Ctx) : hasKind c = (!decide (c.cls = .mixed) && !decide (c.cls = .mixedValue)) := by
  unfold hasKind; cases c.cls <;> simp

theorem typeTok_has {S : CMap} {tok : Bytes} {gen : Bool} (h : typeTok S = some (tok, gen)) : S.has .type = true := by
  unfold typeTok at h
  cases hT : S .type with
  | none => rw [hT] at h; cases h
  | some v => simp [CMap.has, hT]

/-- `or` (alone) next to a `type` rule: the rule says "mixed" -/
theorem combOr_ty {c : Ctx} {S : CMap} (h : combOr c S = true) (hor : S.has .or = true) {tok : Bytes} {gen : Bool}
    (hT : typeTok S = some (tok, gen)) : tyOf tok = .mixed := by
  unfold combOr at h
  simp only [hor, Bool.not_true, Bool.false_or, Bool.and_eq_true] at h
  have := h.1.1.1.1
  unfold rawIs at this
  rw [hT] at this
  simp at this
  subst this
  decide

theorem typesLen_noOr {S : CMap} (hS : Shape S) (hor : S.has .or = false) : typesLen S = 0 := by
  have : S .typesList = none := by
    have := hS.orT; rw [hor] at this; exact (has_false_iff _ _).1 this
  unfold typesLen typesUsers; rw [this]

theorem N_type (c : Ctx) (S : CMap) (hc : c.wf = true) (hS : Shape S) (h : combOr c S = true) :
    typeOK c (m2 S) = (TypeFits c S && combUser c S) := by
  unfold typeOK TypeFits combUser tyName
  rw [typeTok_m2]
  cases hT : typeTok S with
  | none => simp
  | some p =>
    obtain ⟨tok, gen⟩ := p
    simp only [Option.map_some, Option.some.injEq]
    generalize hty : tyOf tok = ty
    cases ty with
    | user =>
      have hor : S.has .or = false := by
        by_cases hor : S.has .or = true
        · have := combOr_ty h hor hT; rw [hty] at this; cases this
        · simpa using hor
      have h1 : (m2 S).has .type = true := by
        rw [m2_has _ _ (by decide), eff_eq_has _ _ (by decide) (by decide)]; exact typeTok_has hT
      have h2 : (m2 S).has .typesList = false := by
        rw [m2_has _ _ (by decide), eff_eq_has _ _ (by decide) (by decide), hS.orT]; exact hor
      simp only [tyCond, tyFits]
      rw [count_user _ h1, h2, m2_noOr _ hor, onlyHas_fc]
      simp [isContainer]
    | mixed =>
      simp only [tyCond, tyFits, typesLen_m2]
      by_cases hor : S.has .or = true
      · have := hS.orLen hor; simp [hor, this]
      · simp at hor; simp [hor, typesLen_noOr hS hor]
    | enum =>
      simp only [tyCond, tyFits, m2_has _ _ (by decide : CT.enum ≠ CT.or), eff_eq_has _ _ (by decide : CT.enum ≠ CT.nullable) (by decide : CT.enum ≠ CT.const), hasKind_eq]
      cases S.has .enum <;> cases hm : decide (c.cls = .mixed) <;> cases hv : decide (c.cls = .mixedValue) <;> simp
    | any =>
      have : (m2 S).has .any = false := by
        rw [m2_has _ _ (by decide), eff_eq_has _ _ (by decide) (by decide)]; exact (has_false_iff _ _).2 hS.any
      simp [tyCond, tyFits, this]
    | decimal =>
      simp only [tyCond, tyFits, m2_has _ _ (by decide : CT.precision ≠ CT.or), eff_eq_has _ _ (by decide : CT.precision ≠ CT.nullable) (by decide : CT.precision ≠ CT.const), hasKind_eq, realTypeOK]
      cases S.has .precision <;> cases hm : decide (c.cls = .mixed) <;> cases hv : decide (c.cls = .mixedValue) <;> simp
    | email =>
      have : (m2 S).has .email = false := by
        rw [m2_has _ _ (by decide), eff_eq_has _ _ (by decide) (by decide)]; exact (has_false_iff _ _).2 hS.email
      simp only [tyCond, tyFits, this, hasKind_eq, realTypeOK]
      cases hm : decide (c.cls = .mixed) <;> cases hv : decide (c.cls = .mixedValue) <;> simp
    | uri =>
      have : (m2 S).has .uri = false := by
        rw [m2_has _ _ (by decide), eff_eq_has _ _ (by decide) (by decide)]; exact (has_false_iff _ _).2 hS.uri
      simp only [tyCond, tyFits, this, hasKind_eq, realTypeOK]
      cases hm : decide (c.cls = .mixed) <;> cases hv : decide (c.cls = .mixedValue) <;> simp
    | uuid =>
      have : (m2 S).has .uuid = false := by
        rw [m2_has _ _ (by decide), eff_eq_has _ _ (by decide) (by decide)]; exact (has_false_iff _ _).2 hS.uuid
      simp only [tyCond, tyFits, this, hasKind_eq, realTypeOK]
      cases hm : decide (c.cls = .mixed) <;> cases hv : decide (c.cls = .mixedValue) <;> simp
    | date =>
      have : (m2 S).has .date = false := by
        rw [m2_has _ _ (by decide), eff_eq_has _ _ (by decide) (by decide)]; exact (has_false_iff _ _).2 hS.date
      simp only [tyCond, tyFits, this, hasKind_eq, realTypeOK]
      cases hm : decide (c.cls = .mixed) <;> cases hv : decide (c.cls = .mixedValue) <;> simp
    | datetime =>
      have : (m2 S).has .datetime = false := by
        rw [m2_has _ _ (by decide), eff_eq_has _ _ (by decide) (by decide)]; exact (has_false_iff _ _).2 hS.datetime
      simp only [tyCond, tyFits, this, hasKind_eq, realTypeOK]
      cases hm : decide (c.cls = .mixed) <;> cases hv : decide (c.cls = .mixedValue) <;> simp
    | json t =>
      have ht : t ≠ .mixed := fun e => tyOf_ne_json_mixed tok (by rw [hty, e])
      simp only [tyCond, tyFits, hasKind_eq]
      unfold Ctx.wf at hc
      cases hcls : c.cls <;> rw [hcls] at hc <;> simp at hc ⊢
      all_goals (try (constructor <;> intro e <;> exact e.symm))
      · rw [hc]; exact ht
    | unknown => simp [tyCond, tyFits]

/-- the map after `typeConstraint` -/
def m5 (S : CMap) : CMap := typeNext (m2 S)

theorem tyAdd_mem {ty : TyName} {k : CT} (h : tyAdd ty = some k) :
    k = .any ∨ k = .email ∨ k = .uri ∨ k = .uuid ∨ k = .date ∨ k = .datetime ∨ k = .typesList := by
  cases ty <;> simp [tyAdd] at h <;> simp [← h]

theorem typeNext_other (m : CMap) (k : CT) (hk : k ≠ .type)
    (h : ∀ tok gen, typeTok m = some (tok, gen) → tyAdd (tyOf tok) ≠ some k) : typeNext m k = m k := by
  unfold typeNext
  cases hT : typeTok m with
  | none => rfl
  | some p =>
    obtain ⟨tok, gen⟩ := p
    simp only
    have := h tok gen hT
    cases ha : tyAdd (tyOf tok) with
    | none => simp [CMap.del, hk]
    | some k' =>
      have hne : k ≠ k' := fun e => this (by rw [ha, e])
      simp [CMap.del, CMap.set, hk, hne]

theorem typeNext_type (m : CMap) (h : ∀ v, m .type = some v → ∃ tok gen, v = .type tok gen) : typeNext m .type = none := by
  unfold typeNext
  cases hT : typeTok m with
  | none =>
    simp only
    unfold typeTok at hT
    cases hv : m .type with
    | none => rfl
    | some v =>
      obtain ⟨tok, gen, e⟩ := h v hv
      rw [hv, e] at hT; cases hT
  | some p =>
    obtain ⟨tok, gen⟩ := p
    simp only
    cases ha : tyAdd (tyOf tok) <;> simp [CMap.del]

theorem typeNext_added (m : CMap) (k : CT) {tok : Bytes} {gen : Bool} (hT : typeTok m = some (tok, gen))
    (ha : tyAdd (tyOf tok) = some k) : typeNext m k = some (tyAddVal (tyOf tok)) := by
  unfold typeNext
  rw [hT]
  simp only [ha]
  have : k ≠ .type := by rcases tyAdd_mem ha with h | h | h | h | h | h | h <;> simp [h]
  simp [CMap.del, CMap.set, this]

/-- plain keys: untouched by `typeConstraint` -/
theorem m5_plain (S : CMap) (k : CT) (h0 : k ≠ .or) (h1 : k ≠ .type) (h2 : k ≠ .typesList) (h3 : k ≠ .any) (h4 : k ≠ .email)
    (h5 : k ≠ .uri) (h6 : k ≠ .uuid) (h7 : k ≠ .date) (h8 : k ≠ .datetime) : m5 S k = falseConstraints S k := by
  unfold m5
  rw [typeNext_other _ k h1, m2_eq, del_other _ h0]
  intro tok gen _ ha
  rcases tyAdd_mem ha with h | h | h | h | h | h | h <;> simp_all

theorem m5_has_plain (S : CMap) (k : CT) (h0 : k ≠ .or) (h1 : k ≠ .type) (h2 : k ≠ .typesList) (h3 : k ≠ .any) (h4 : k ≠ .email)
    (h5 : k ≠ .uri) (h6 : k ≠ .uuid) (h7 : k ≠ .date) (h8 : k ≠ .datetime) : (m5 S).has k = eff S k := by
  unfold CMap.has; rw [m5_plain S k h0 h1 h2 h3 h4 h5 h6 h7 h8]; exact fc_has S k

theorem m5_has_or (S : CMap) : (m5 S).has .or = false := by
  unfold CMap.has m5
  rw [typeNext_other _ .or (by decide), m2_eq]; simp
  intro tok gen _ ha
  rcases tyAdd_mem ha with h | h | h | h | h | h | h <;> simp at h


/-- the constraint the type rule adds -/
def addedKey (S : CMap) : Option CT := (typeTok S).bind fun p => tyAdd (tyOf p.1)

theorem m5_has_added (S : CMap) (k : CT) (h0 : k ≠ .or) (h1 : k ≠ .type) (hk : falseConstraints S k = none) :
    (m5 S).has k = decide (addedKey S = some k) := by
  unfold CMap.has m5 addedKey
  cases hT : typeTok S with
  | none =>
    have : typeTok (m2 S) = none := by rw [typeTok_m2]; exact hT
    rw [typeNext_other _ k h1 (by intro tok gen h; rw [this] at h; cases h), m2_eq, del_other _ h0, hk]
    simp
  | some p =>
    obtain ⟨tok, gen⟩ := p
    have hT2 : typeTok (m2 S) = some (tok, gen) := by rw [typeTok_m2]; exact hT
    simp only [Option.bind_some]
    by_cases ha : tyAdd (tyOf tok) = some k
    · rw [typeNext_added _ k hT2 ha]; simp [ha]
    · rw [typeNext_other _ k h1 (by intro tok' gen' h; rw [hT2] at h; cases h; exact ha), m2_eq, del_other _ h0, hk]
      simp [ha]

theorem fc_none (S : CMap) (k : CT) (h : S k = none) : falseConstraints S k = none := by
  rw [fc_fun, h]; simp

theorem isFormat_added (ty : TyName) :
    (decide (tyAdd ty = some CT.email) || decide (tyAdd ty = some CT.uri) || decide (tyAdd ty = some CT.uuid) ||
      decide (tyAdd ty = some CT.date) || decide (tyAdd ty = some CT.datetime)) = ty.isFormat := by
  cases ty <;> simp [tyAdd, TyName.isFormat]

theorem isAny_added (ty : TyName) : decide (tyAdd ty = some CT.any) = decide (some ty = some TyName.any) := by
  cases ty <;> simp [tyAdd]

theorem hasFormat_m5 (S : CMap) (hS : Shape S) :
    hasFormat (m5 S) = (match typeTok S with | some (tok, _) => (tyOf tok).isFormat | none => false) := by
  unfold hasFormat
  rw [m5_has_added S .email (by decide) (by decide) (fc_none _ _ hS.email),
      m5_has_added S .uri (by decide) (by decide) (fc_none _ _ hS.uri),
      m5_has_added S .uuid (by decide) (by decide) (fc_none _ _ hS.uuid),
      m5_has_added S .date (by decide) (by decide) (fc_none _ _ hS.date),
      m5_has_added S .datetime (by decide) (by decide) (fc_none _ _ hS.datetime)]
  unfold addedKey
  cases typeTok S with
  | none => simp
  | some p => obtain ⟨tok, gen⟩ := p; simp only [Option.bind_some]; exact isFormat_added _

theorem m5_has_any (S : CMap) (hS : Shape S) : (m5 S).has .any = decide (tyName S = some .any) := by
  rw [m5_has_added S .any (by decide) (by decide) (fc_none _ _ hS.any)]
  unfold addedKey tyName
  cases typeTok S with
  | none => simp
  | some p => obtain ⟨tok, gen⟩ := p; simp only [Option.bind_some, Option.map_some]; exact isAny_added _

theorem m2_type (S : CMap) : m2 S .type = S .type := m2_apply S .type (by decide) (by decide) (by decide)

theorem m5_has_type (S : CMap) (hS : Shape S) : (m5 S).has .type = false := by
  unfold CMap.has m5
  rw [typeNext_type]; rfl
  intro v hv; rw [m2_type] at hv; exact hS.typeV v hv

/-- presence after `typeConstraint`, for every key -/
theorem m5_has_all (S : CMap) (hS : Shape S) (k : CT) :
    (m5 S).has k = (if k = .type ∨ k = .or then false else if addedKey S = some k then true else eff S k) := by
  by_cases h1 : k = .type
  · subst h1; simp [m5_has_type S hS]
  · by_cases h0 : k = .or
    · subst h0; simp [m5_has_or]
    · simp only [h1, h0, or_self, if_false]
      by_cases ha : addedKey S = some k
      · simp only [ha, if_true]
        unfold addedKey at ha
        cases hT : typeTok S with
        | none => rw [hT] at ha; cases ha
        | some p =>
          obtain ⟨tok, gen⟩ := p
          rw [hT] at ha; simp only [Option.bind_some] at ha
          have hT2 : typeTok (m2 S) = some (tok, gen) := by rw [typeTok_m2]; exact hT
          unfold CMap.has m5; rw [typeNext_added _ k hT2 ha]; rfl
      · simp only [ha, if_false]
        unfold CMap.has m5
        rw [typeNext_other _ k h1, m2_eq, del_other _ h0]
        · exact fc_has S k
        · intro tok gen hT ha'
          rw [typeTok_m2] at hT
          apply ha; unfold addedKey; rw [hT]; exact ha'

theorem tyName_some {S : CMap} {t : TyName} (h : tyName S = some t) : ∃ tok gen, typeTok S = some (tok, gen) ∧ tyOf tok = t := by
  unfold tyName at h
  cases hT : typeTok S with
  | none => rw [hT] at h; cases h
  | some p => obtain ⟨tok, gen⟩ := p; rw [hT] at h; simp at h; exact ⟨tok, gen, rfl, h⟩

theorem N_allowed_any (c : Ctx) (S : CMap) (hS : Shape S) (h : combOr c S = true) :
    (allowedOK (m5 S) && anyOK c (m5 S)) = (FormatExcludesLengthRegex S && combAny c S) := by
  unfold allowedOK anyOK FormatExcludesLengthRegex combAny
  rw [hasFormat_m5 S hS]
  by_cases hany : tyName S = some .any
  · obtain ⟨tok, gen, hT, hty⟩ := tyName_some hany
    have hadd : addedKey S = some .any := by unfold addedKey; rw [hT]; simp [hty, tyAdd]
    have hor : S.has .or = false := by
      by_cases hor : S.has .or = true
      · have := combOr_ty h hor hT; rw [hty] at this; cases this
      · simpa using hor
    have hanyhas : (m5 S).has .any = true := by rw [m5_has_any S hS]; simp [hany]
    have hSany : eff S .any = false := by
      rw [eff_eq_has _ _ (by decide) (by decide)]; exact (has_false_iff _ _).2 hS.any
    have hSor : eff S .or = false := by rw [eff_eq_has _ _ (by decide) (by decide)]; exact hor
    rw [count_any _ hanyhas]
    unfold onlyHas onlyRules
    rw [all_unfold, all_unfold]
    simp only [m5_has_all S hS, hadd, hT, hty, hany]
    simp [TyName.isFormat, isContainer, hSany, hSor]
    cases eff S .const <;> simp
  · have hanyhas : (m5 S).has .any = false := by rw [m5_has_any S hS]; simp [hany]
    rw [hanyhas,
      m5_has_plain S .minLength (by decide) (by decide) (by decide) (by decide) (by decide) (by decide) (by decide) (by decide) (by decide),
      m5_has_plain S .maxLength (by decide) (by decide) (by decide) (by decide) (by decide) (by decide) (by decide) (by decide) (by decide),
      m5_has_plain S .regex (by decide) (by decide) (by decide) (by decide) (by decide) (by decide) (by decide) (by decide) (by decide),
      eff_eq_has S .minLength (by decide) (by decide), eff_eq_has S .maxLength (by decide) (by decide),
      eff_eq_has S .regex (by decide) (by decide)]
    unfold tyName at hany ⊢
    cases hT : typeTok S with
    | none => simp
    | some p => obtain ⟨tok, gen⟩ := p; rw [hT] at hany; simp at hany; simp [hany]


def setEx (x : Option CV) : Option CV :=
  match x with
  | some (.num v _) => some (.num v true)
  | x => x

theorem setExclusive_apply (m : CMap) (k k' : CT) : setExclusive m k k' = if k' = k then setEx (m k) else m k' := by
  unfold setExclusive setEx
  cases h : m k with
  | none => by_cases hk : k' = k <;> simp [hk, h]
  | some v =>
    cases v <;> by_cases hk : k' = k <;> simp [hk, h, CMap.set]

theorem exMinNext_apply (m : CMap) (k : CT) : exMinNext m k =
    if k = .exclusiveMinimum then none
    else if k = .min ∧ m .exclusiveMinimum = some (.flag true) then setEx (m .min) else m k := by
  unfold exMinNext
  cases h : m .exclusiveMinimum with
  | none =>
    by_cases h1 : k = .exclusiveMinimum
    · subst h1; simp [h]
    · simp [h1]
  | some v =>
    by_cases h1 : k = .exclusiveMinimum
    · subst h1; simp [CMap.del]
    · by_cases hv : v = .flag true
      · subst hv
        simp only [CMap.del, h1, if_false, if_true, setExclusive_apply]
        by_cases h2 : k = .min <;> simp [h2]
      · simp [CMap.del, h1, hv]

theorem exMaxNext_apply (m : CMap) (k : CT) : exMaxNext m k =
    if k = .exclusiveMaximum then none
    else if k = .max ∧ m .exclusiveMaximum = some (.flag true) then setEx (m .max) else m k := by
  unfold exMaxNext
  cases h : m .exclusiveMaximum with
  | none =>
    by_cases h1 : k = .exclusiveMaximum
    · subst h1; simp [h]
    · simp [h1]
  | some v =>
    by_cases h1 : k = .exclusiveMaximum
    · subst h1; simp [CMap.del]
    · by_cases hv : v = .flag true
      · subst hv
        simp only [CMap.del, h1, if_false, if_true, setExclusive_apply]
        by_cases h2 : k = .max <;> simp [h2]
      · simp [CMap.del, h1, hv]

theorem setEx_isSome (x : Option CV) : (setEx x).isSome = x.isSome := by
  unfold setEx; split <;> simp

/-- the maps after the exclusive steps -/
def m6 (S : CMap) : CMap := exMinNext (m5 S)
def m7 (S : CMap) : CMap := exMaxNext (m6 S)

theorem m7_apply (S : CMap) (k : CT) : m7 S k =
    if k = .exclusiveMaximum ∨ k = .exclusiveMinimum then none
    else if k = .max ∧ m5 S .exclusiveMaximum = some (.flag true) then setEx (m5 S .max)
    else if k = .min ∧ m5 S .exclusiveMinimum = some (.flag true) then setEx (m5 S .min)
    else m5 S k := by
  unfold m7 m6
  rw [exMaxNext_apply]
  by_cases h1 : k = .exclusiveMaximum
  · simp [h1]
  · simp only [h1, if_false, false_or]
    rw [exMinNext_apply (m5 S) .exclusiveMaximum, exMinNext_apply (m5 S) .max, exMinNext_apply (m5 S) k]
    by_cases h2 : k = .exclusiveMinimum
    · subst h2; simp
    · by_cases h3 : k = .max
      · subst h3; simp
      · simp [h2, h3]

theorem m7_has (S : CMap) (k : CT) : (m7 S).has k =
    if k = .exclusiveMaximum ∨ k = .exclusiveMinimum then false else (m5 S).has k := by
  unfold CMap.has
  rw [m7_apply]
  by_cases h1 : k = .exclusiveMaximum ∨ k = .exclusiveMinimum
  · simp [h1]
  · simp only [h1, if_false]
    split
    · rename_i h; rw [setEx_isSome, h.1]
    · split
      · rename_i h; rw [setEx_isSome, h.1]
      · rfl

theorem m6_has (S : CMap) (k : CT) : (m6 S).has k = if k = .exclusiveMinimum then false else (m5 S).has k := by
  unfold CMap.has m6
  rw [exMinNext_apply]
  by_cases h1 : k = .exclusiveMinimum
  · simp [h1]
  · simp only [h1, if_false]
    split
    · rename_i h; rw [setEx_isSome, h.1]
    · rfl

/-- a plain key keeps its value up to the end of `compileNode` -/
theorem m5_val (S : CMap) (k : CT) (h0 : k ≠ .or) (h1 : k ≠ .type) (h2 : k ≠ .typesList) (h3 : k ≠ .any) (h4 : k ≠ .email)
    (h5 : k ≠ .uri) (h6 : k ≠ .uuid) (h7 : k ≠ .date) (h8 : k ≠ .datetime) (h9 : k ≠ .nullable) (h10 : k ≠ .const) :
    m5 S k = S k := by
  rw [m5_plain S k h0 h1 h2 h3 h4 h5 h6 h7 h8, fc_apply S k h9 h10]

theorem m5_hasv (S : CMap) (k : CT) (h0 : k ≠ .or) (h1 : k ≠ .type) (h2 : k ≠ .typesList) (h3 : k ≠ .any) (h4 : k ≠ .email)
    (h5 : k ≠ .uri) (h6 : k ≠ .uuid) (h7 : k ≠ .date) (h8 : k ≠ .datetime) (h9 : k ≠ .nullable) (h10 : k ≠ .const) :
    (m5 S).has k = S.has k := by
  unfold CMap.has; rw [m5_val S k h0 h1 h2 h3 h4 h5 h6 h7 h8 h9 h10]

theorem N_ex (S : CMap) : (exMinOK (m5 S) && exMaxOK (m6 S)) = ExclusiveHasBound S := by
  unfold exMinOK exMaxOK ExclusiveHasBound
  rw [m6_has, m6_has]
  simp only [show CT.exclusiveMaximum ≠ CT.exclusiveMinimum by decide, show CT.max ≠ CT.exclusiveMinimum by decide, if_false]
  rw [m5_hasv S .exclusiveMinimum (by decide) (by decide) (by decide) (by decide) (by decide) (by decide) (by decide) (by decide) (by decide) (by decide) (by decide),
      m5_hasv S .exclusiveMaximum (by decide) (by decide) (by decide) (by decide) (by decide) (by decide) (by decide) (by decide) (by decide) (by decide) (by decide),
      m5_hasv S .min (by decide) (by decide) (by decide) (by decide) (by decide) (by decide) (by decide) (by decide) (by decide) (by decide) (by decide),
      m5_hasv S .max (by decide) (by decide) (by decide) (by decide) (by decide) (by decide) (by decide) (by decide) (by decide) (by decide) (by decide)]

theorem pairNum_setEx (e1 e2 : Bool) (a b : Option CV) (ha : ∀ v e, a = some (.num v e) → e = false)
    (hb : ∀ v e, b = some (.num v e) → e = false) :
    pairNumOK (if e1 then setEx a else a) (if e2 then setEx b else b) = numPairOK (e1 || e2) a b := by
  cases a with
  | none => cases e1 <;> cases e2 <;> simp [pairNumOK, numPairOK, setEx]
  | some va =>
    cases b with
    | none => cases e1 <;> cases e2 <;> cases va <;> simp [pairNumOK, numPairOK, setEx]
    | some vb =>
      cases va <;> cases vb <;> cases e1 <;> cases e2 <;> simp [pairNumOK, numPairOK, setEx]
      all_goals (
        rename_i x ex y ey
        have h1 := ha x ex rfl
        have h2 := hb y ey rfl
        subst h1; subst h2; simp)

theorem N_pairs (S : CMap) (hS : Shape S) : pairsOK (m7 S) = PairsOrdered S := by
  unfold pairsOK PairsOrdered strictPair
  rw [m7_apply S .min, m7_apply S .max, m7_apply S .minLength, m7_apply S .maxLength, m7_apply S .minItems, m7_apply S .maxItems]
  simp only [show ¬ (CT.min = CT.exclusiveMaximum ∨ CT.min = CT.exclusiveMinimum) by decide,
    show ¬ (CT.max = CT.exclusiveMaximum ∨ CT.max = CT.exclusiveMinimum) by decide,
    show ¬ (CT.minLength = CT.exclusiveMaximum ∨ CT.minLength = CT.exclusiveMinimum) by decide,
    show ¬ (CT.maxLength = CT.exclusiveMaximum ∨ CT.maxLength = CT.exclusiveMinimum) by decide,
    show ¬ (CT.minItems = CT.exclusiveMaximum ∨ CT.minItems = CT.exclusiveMinimum) by decide,
    show ¬ (CT.maxItems = CT.exclusiveMaximum ∨ CT.maxItems = CT.exclusiveMinimum) by decide,
    show CT.min ≠ CT.max by decide, show CT.max ≠ CT.min by decide,
    show CT.minLength ≠ CT.max by decide, show CT.minLength ≠ CT.min by decide,
    show CT.maxLength ≠ CT.max by decide, show CT.maxLength ≠ CT.min by decide,
    show CT.minItems ≠ CT.max by decide, show CT.minItems ≠ CT.min by decide,
    show CT.maxItems ≠ CT.max by decide, show CT.maxItems ≠ CT.min by decide,
    if_false, false_and, true_and]
  rw [m5_val S .min (by decide) (by decide) (by decide) (by decide) (by decide) (by decide) (by decide) (by decide) (by decide) (by decide) (by decide),
      m5_val S .max (by decide) (by decide) (by decide) (by decide) (by decide) (by decide) (by decide) (by decide) (by decide) (by decide) (by decide),
      m5_val S .minLength (by decide) (by decide) (by decide) (by decide) (by decide) (by decide) (by decide) (by decide) (by decide) (by decide) (by decide),
      m5_val S .maxLength (by decide) (by decide) (by decide) (by decide) (by decide) (by decide) (by decide) (by decide) (by decide) (by decide) (by decide),
      m5_val S .minItems (by decide) (by decide) (by decide) (by decide) (by decide) (by decide) (by decide) (by decide) (by decide) (by decide) (by decide),
      m5_val S .maxItems (by decide) (by decide) (by decide) (by decide) (by decide) (by decide) (by decide) (by decide) (by decide) (by decide) (by decide),
      m5_val S .exclusiveMinimum (by decide) (by decide) (by decide) (by decide) (by decide) (by decide) (by decide) (by decide) (by decide) (by decide) (by decide),
      m5_val S .exclusiveMaximum (by decide) (by decide) (by decide) (by decide) (by decide) (by decide) (by decide) (by decide) (by decide) (by decide) (by decide)]
  have := pairNum_setEx (decide (S .exclusiveMinimum = some (.flag true))) (decide (S .exclusiveMaximum = some (.flag true)))
    (S .min) (S .max) hS.minV hS.maxV
  simp only [decide_eq_true_eq] at this
  rw [this]

theorem m7_val (S : CMap) (k : CT) (h0 : k ≠ .or) (h1 : k ≠ .type) (h2 : k ≠ .typesList) (h3 : k ≠ .any) (h4 : k ≠ .email)
    (h5 : k ≠ .uri) (h6 : k ≠ .uuid) (h7 : k ≠ .date) (h8 : k ≠ .datetime) (h9 : k ≠ .nullable) (h10 : k ≠ .const)
    (h11 : k ≠ .exclusiveMaximum) (h12 : k ≠ .exclusiveMinimum) (h13 : k ≠ .max) (h14 : k ≠ .min) : m7 S k = S k := by
  rw [m7_apply]
  simp only [h11, h12, h13, h14, or_self, if_false, false_and]
  exact m5_val S k h0 h1 h2 h3 h4 h5 h6 h7 h8 h9 h10

theorem N_opt (c : Ctx) (S : CMap) : optOK c (m7 S) = (!S.has .optional || c.isProp) := by
  unfold optOK CMap.has
  rw [m7_val S .optional (by decide) (by decide) (by decide) (by decide) (by decide) (by decide) (by decide) (by decide) (by decide) (by decide) (by decide) (by decide) (by decide) (by decide) (by decide)]
  cases (S .optional).isSome <;> cases c.isProp <;> rfl

theorem N_empty (c : Ctx) (S : CMap) : emptyOK c (m7 S) = EmptyArrayCounts c S := by
  unfold emptyOK EmptyArrayCounts
  rw [m7_val S .minItems (by decide) (by decide) (by decide) (by decide) (by decide) (by decide) (by decide) (by decide) (by decide) (by decide) (by decide) (by decide) (by decide) (by decide) (by decide),
      m7_val S .maxItems (by decide) (by decide) (by decide) (by decide) (by decide) (by decide) (by decide) (by decide) (by decide) (by decide) (by decide) (by decide) (by decide) (by decide) (by decide)]

theorem N_allOf (c : Ctx) (S : CMap) (hS : Shape S) :
    allOfOK c (m7 S) = (AllOfNamesSomething S && (!S.has .allOf || decide (c.cls = .object))) := by
  unfold allOfOK AllOfNamesSomething CMap.has
  rw [m7_val S .allOf (by decide) (by decide) (by decide) (by decide) (by decide) (by decide) (by decide) (by decide) (by decide) (by decide) (by decide) (by decide) (by decide) (by decide) (by decide)]
  cases h : S .allOf with
  | none => simp
  | some v =>
    obtain ⟨ns, e⟩ := hS.allOfV v h
    subst e; simp

/-- the map the compatibility check sees -/
def mF (S : CMap) : CMap := allOfNext (m7 S)

theorem allOfNext_has (m : CMap) (k : CT) (hk : k ≠ .allOf) : (allOfNext m).has k = m.has k := by
  unfold allOfNext
  split
  · exact has_del_other _ hk
  · rfl

theorem allOfNext_allOf (m : CMap) (h : ∀ v, m .allOf = some v → ∃ ns, v = .allOf ns) : (allOfNext m).has .allOf = false := by
  unfold allOfNext
  cases hv : m .allOf with
  | none => simp [CMap.has, hv]
  | some v => obtain ⟨ns, e⟩ := h v hv; subst e; simp

theorem mF_has (S : CMap) (hS : Shape S) (k : CT) : (mF S).has k =
    if k = .allOf ∨ k = .exclusiveMaximum ∨ k = .exclusiveMinimum ∨ k = .type ∨ k = .or then false
    else if addedKey S = some k then true else eff S k := by
  unfold mF
  have hall : m7 S .allOf = S .allOf :=
    m7_val S .allOf (by decide) (by decide) (by decide) (by decide) (by decide) (by decide) (by decide) (by decide) (by decide) (by decide) (by decide) (by decide) (by decide) (by decide) (by decide)
  by_cases hk : k = .allOf
  · subst hk
    simp only [true_or, if_true]
    apply allOfNext_allOf
    rw [hall]; exact hS.allOfV
  · rw [allOfNext_has _ _ hk, m7_has, m5_has_all S hS]
    by_cases h1 : k = .exclusiveMaximum <;> by_cases h2 : k = .exclusiveMinimum <;> by_cases h3 : k = .type
      <;> by_cases h4 : k = .or <;> simp [hk, h1, h2, h3, h4]


theorem addedKey_cases (S : CMap) : addedKey S = none ∨ addedKey S = some .any ∨ addedKey S = some .email
    ∨ addedKey S = some .uri ∨ addedKey S = some .uuid ∨ addedKey S = some .date ∨ addedKey S = some .datetime
    ∨ addedKey S = some .typesList := by
  cases h : addedKey S with
  | none => simp
  | some k =>
    unfold addedKey at h
    cases hT : typeTok S with
    | none => rw [hT] at h; cases h
    | some p =>
      obtain ⟨tok, gen⟩ := p
      rw [hT] at h; simp only [Option.bind_some] at h
      rcases tyAdd_mem h with e | e | e | e | e | e | e <;> simp [e]

/-- a format added by the type rule: the rule names that format -/
theorem addedKey_fmt {S : CMap} {k : CT} (h : addedKey S = some k) (hk : k = .email ∨ k = .uri ∨ k = .uuid ∨ k = .date ∨ k = .datetime) :
    ∃ tok gen, typeTok S = some (tok, gen) ∧ (tyOf tok).isFormat = true := by
  unfold addedKey at h
  cases hT : typeTok S with
  | none => rw [hT] at h; cases h
  | some p =>
    obtain ⟨tok, gen⟩ := p
    rw [hT] at h; simp only [Option.bind_some] at h
    refine ⟨tok, gen, rfl, ?_⟩
    generalize tyOf tok = ty at h
    cases ty <;> simp [tyAdd] at h <;> simp [TyName.isFormat] <;> (subst h; simp at hk)

theorem fits_fmt {c : Ctx} {S : CMap} (hk : hasKind c = true) (hTF : TypeFits c S = true) {tok : Bytes} {gen : Bool}
    (hT : typeTok S = some (tok, gen)) (hf : (tyOf tok).isFormat = true) : c.jt = .string := by
  unfold TypeFits at hTF
  rw [hT] at hTF
  simp only at hTF
  generalize tyOf tok = ty at hTF hf
  cases ty <;> simp [TyName.isFormat] at hf <;> simp [tyFits, hk] at hTF <;> exact hTF

theorem wf_object {c : Ctx} (hc : c.wf = true) (h : c.cls = .object) : c.jt = .object := by
  unfold Ctx.wf at hc; rw [h] at hc; simpa using hc

theorem compat_iff (c : Ctx) (S : CMap) (hc : c.wf = true) (hS : Shape S) (hk : hasKind c = true)
    (hTF : TypeFits c S = true) (hEx : ExclusiveHasBound S = true)
    (hAO : (!S.has .allOf || decide (c.cls = .object)) = true) :
    (CT.all.all fun k => !(mF S).has k || compat k c.jt) = (CT.all.all fun k => !eff S k || compat k c.jt) := by
  rw [Bool.eq_iff_iff, all_iff, all_iff]
  unfold ExclusiveHasBound at hEx
  simp only [Bool.and_eq_true, Bool.or_eq_true, Bool.not_eq_true', decide_eq_true_eq] at hEx hAO
  obtain ⟨hEx1, hEx2⟩ := hEx
  constructor
  · intro H k
    by_cases hE : eff S k = true
    · have key : ∀ k', eff S k' = true → ¬(k' = .allOf ∨ k' = .exclusiveMaximum ∨ k' = .exclusiveMinimum ∨ k' = .type ∨ k' = .or)
          → compat k' c.jt = true := by
        intro k' hE' hn
        have := H k'
        rw [mF_has S hS, if_neg hn] at this
        have h2 : (if addedKey S = some k' then true else eff S k') = true := by split <;> simp [hE']
        rw [h2] at this; simpa using this
      by_cases hsp : (k = .allOf ∨ k = .exclusiveMaximum ∨ k = .exclusiveMinimum ∨ k = .type ∨ k = .or)
      · rcases hsp with rfl | rfl | rfl | rfl | rfl
        · rw [eff_eq_has _ _ (by decide) (by decide)] at hE
          rcases hAO with h | h
          · rw [hE] at h; cases h
          · simp [compat, wf_object hc h]
        · rw [eff_eq_has _ _ (by decide) (by decide)] at hE
          rcases hEx2 with h | h
          · rw [hE] at h; cases h
          · have := key .max (by rw [eff_eq_has _ _ (by decide) (by decide)]; exact h) (by decide)
            simp only [compat] at this ⊢
            simp [this]
        · rw [eff_eq_has _ _ (by decide) (by decide)] at hE
          rcases hEx1 with h | h
          · rw [hE] at h; cases h
          · have := key .min (by rw [eff_eq_has _ _ (by decide) (by decide)]; exact h) (by decide)
            simp only [compat] at this ⊢
            simp [this]
        · simp [compat]
        · simp [compat]
      · simp [key k hE hsp]
    · simp at hE; simp [hE]
  · intro H k
    rw [mF_has S hS]
    by_cases hsp : (k = .allOf ∨ k = .exclusiveMaximum ∨ k = .exclusiveMinimum ∨ k = .type ∨ k = .or)
    · simp [hsp]
    · rw [if_neg hsp]
      by_cases ha : addedKey S = some k
      · rw [if_pos ha]
        have hstr : (k = .email ∨ k = .uri ∨ k = .uuid ∨ k = .date ∨ k = .datetime) → c.jt = .string := by
          intro hf
          obtain ⟨tok, gen, hT, hfm⟩ := addedKey_fmt ha hf
          exact fits_fmt hk hTF hT hfm
        unfold addedKey at ha
        cases hT : typeTok S with
        | none => rw [hT] at ha; cases ha
        | some p =>
          obtain ⟨tok, gen⟩ := p
          rw [hT] at ha; simp only [Option.bind_some] at ha
          rcases tyAdd_mem ha with e | e | e | e | e | e | e <;> subst e <;> simp [compat] <;> (apply hstr; simp)
      · rw [if_neg ha]; exact H k


theorem pipelineOK_eq (c : Ctx) (S : CMap) : pipelineOK c S =
    (orOK c (falseConstraints S) && (enumOK (m2 S) && (precOK (m2 S) && (typeOK c (m2 S) && ((allowedOK (m5 S) && anyOK c (m5 S))
      && ((exMinOK (m5 S) && exMaxOK (m6 S)) && (pairsOK (m7 S) && (optOK c (m7 S) && (emptyOK c (m7 S)
      && (allOfOK c (m7 S) && compatOK c (mF S)))))))))))  := by
  simp only [pipelineOK, m2, m5, m6, m7, mF, Bool.and_assoc]

theorem compatOK_applies (c : Ctx) (S : CMap) (hc : c.wf = true) (hS : Shape S)
    (hTF : TypeFits c S = true) (hEx : ExclusiveHasBound S = true)
    (hAO : (!S.has .allOf || decide (c.cls = .object)) = true) :
    compatOK c (mF S) = (!hasKind c || CT.all.all fun k => !eff S k || compat k c.jt) := by
  unfold compatOK
  by_cases hk : hasKind c = true
  · rw [compat_iff c S hc hS hk hTF hEx hAO, hk]
    rw [hasKind_eq] at hk
    simp only [Bool.and_eq_true, Bool.not_eq_true'] at hk
    rw [hk.1, hk.2]; simp
  · simp only [Bool.not_eq_true] at hk
    rw [hk]
    rw [hasKind_eq] at hk
    cases h1 : decide (c.cls = .mixed) <;> cases h2 : decide (c.cls = .mixedValue) <;> simp [h1, h2] at hk ⊢

theorem assemble (a b c d e f g i j tf ex ao x y : Bool) (hxy : tf = true → ex = true → ao = true → x = y) :
    (a && (b && ((tf && c) && ((d && e) && (ex && (f && (g && (i && ((j && ao) && x))))))))) =
    ((y && g && ao) && f && ex && b && d && (true && a && e && c) && tf && i && j) := by
  cases tf <;> cases ex <;> cases ao
  all_goals first
    | (have := hxy rfl rfl rfl; subst this; cases a <;> cases b <;> cases c <;> cases d <;> cases e <;> cases f <;> cases g <;> cases i <;> cases j <;> cases x <;> rfl)
    | (cases a <;> cases b <;> cases c <;> cases d <;> cases e <;> cases f <;> cases g <;> cases i <;> cases j <;> cases x <;> cases y <;> rfl)

/-- `compileNode`, `CompileAllOf` and the compatibility check accept a rule set exactly when the statement's
conditions hold -/
theorem pipeline_iff (c : Ctx) (S : CMap) (hc : c.wf = true) (hS : Shape S) : pipelineOK c S = Consistent c S := by
  rw [pipelineOK_eq, N_or c S hS]
  by_cases h : combOr c S = true
  · rw [N_enum c S h, N_prec, N_type c S hc hS h, N_allowed_any c S hS h, N_ex, N_pairs S hS, N_opt, N_empty, N_allOf c S hS, h]
    unfold Consistent CombinatorsAlone Applies
    rw [h]
    simp only [Bool.true_and]
    exact assemble _ _ _ _ _ _ _ _ _ _ _ _ _ _ (compatOK_applies c S hc hS)
  · simp at h
    unfold Consistent CombinatorsAlone
    simp [h]


/-- (B): the compiler, `CompileAllOf` and the compatibility check on a loaded rule set -/
theorem compile_iff (c : Ctx) (S : CMap) (hc : c.wf = true) (hS : Shape S) :
    isOk (compile c S >>= allOfStep c >>= checkCompat c) = Consistent c S := by
  rw [pipeline_ok, pipeline_iff c S hc hS]

end CR
