import JSight.SchemaRunOK
import JSight.SchemaQ
/-!
# The JSight schema scanner model never crashes

Model: `JSight/SchemaScan.lean` (`dispatch` = one call of the current step function) and
`JSight/SchemaRun.lean` (`processFound`, `shiftFound`, `next`, `events`, `scanAll`, `lengthLoop`, `length`).
Errors of kind `.crash _` stand for Go runtime panics ("Reading from empty stack (…)", "Incorrect ending
of the lexical event", "Unexpected context", "Incorrect annotation begin in stack") and for exhaustion of
the fuel parameters that make the definitions total.

Invariant (`Inv`, file `SchemaInv.lean`): let the *effective stack* be the lexeme types of `stack` after
all queued `finds` have been applied to it (each closing lexeme must match the opener on top).  Then
* the queued `finds` do apply cleanly, and `ctx :: ctxStack` lists exactly the open containers of the
  effective stack (object / array, plus `shortcut` for a type shortcut at the root) above `initial`;
* `Good step eff ret` holds, a grammar relating the step function, the effective stack and the return
  stack: object states sit on `objB`, array states on `arrB`, key states on `keyB :: objB`, token states
  on `litB` resp. `tsB :: mixB` over a *value holder* (root, `valB :: objB …`, `itemB :: arrB …`);
  containers may also sit directly on an annotation marker (`inlAnnB` / `mlAnnB`), and every marker is
  paired with one entry of `ret` - a step from which an annotation can start - that is itself `Good` for
  the stack below the marker; comment states, `\u` escape states and annotation-start states have their
  return step on top of `ret`, and that step is `Good` for the same stack; the guard closure wraps a
  non-guard `Good` step.

Proof structure: `dispatch_ok` (SchemaStep.lean; one byte: `Inv` and no queued finds ⟹ `Inv` or a
structured error, re-dispatch depth ≤ 4), `shiftFound_cons` (SchemaShift.lean), frame property `dispatchQ`
(SchemaQ.lean; index/finds bookkeeping of one byte), `next_A` / `next_B` / `eof_next` (progress measure
`Phi = 8·(size+1−index) + |finds| + [inside comment]` before the end of input, number of closable openers
`eofLen ≤ 2` after it), `events_ok` / `lengthLoop_ok` (induction on fuel).
-/
namespace SchemaScan

/-- **C-schema-nocrash (scanner).** For every byte string the model of the JSight schema scanner either
delivers its events or fails with one of the structured errors (`invalidChar`, `invalidKeyChar`,
`annotationNotAllowed`, `unexpectedEOF`): no stack underflow, no mismatched closing lexeme, and none of
the fuel bounds is ever reached. -/
theorem scanAll_no_crash (bs : List UInt8) : ∀ e, scanAll bs = .error e → e.isCrash = false :=
  scanAll_no_crash_of dispatchQ bs

/-- The same for `Length()` (length-computing mode). -/
theorem length_no_crash (bs : List UInt8) : ∀ e, length bs = .error e → e.isCrash = false :=
  length_no_crash_of dispatchQ bs

end SchemaScan

#print axioms SchemaScan.dispatch_ok
#print axioms SchemaScan.dispatchQ
#print axioms SchemaScan.scanAll_no_crash
#print axioms SchemaScan.length_no_crash
