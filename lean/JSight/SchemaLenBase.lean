import JSight.SchemaEventsTree
/-!
Schema scanner model (`SchemaScan`), `Length()`: fuel-free machinery.

* `Len.Path data s evs s'` : from `s` the scanner delivers `evs` and is then in `s'` — a *syntactic* chain of
  `Next()` results and silent byte reads (unlike `Steps`, it does not need the run to terminate, so it can be used
  when arbitrary foreign text follows);
* `Len.LenRun data s len n k` : `lengthLoop` from `s` with current length `len` returns `n` after `k` calls of `Next()`;
* `Len.cfgL lc …` : the plain-JSON scanner state with an arbitrary `lengthComputing` flag.
-/
namespace SchemaScan
namespace Len

/-! ### errors of `Next()`, fuel-free -/

/-- the model's own guard against running out of fuel (never a result of the real scanner) -/
def fuelErr : Err := .crash "next: fuel exhausted"

theorem nextBody_monoE (data : Array Cls) (k k' : Sc → M (Option (Sc × Ev)))
    (hk : ∀ s e, k s = .error e → e ≠ fuelErr → k' s = .error e) (s : Sc) (e : Err)
    (h : nextBody data k s = .error e) (he : e ≠ fuelErr) : nextBody data k' s = .error e := by
  unfold nextBody at h ⊢
  cases h1 : shiftFound data s with
  | error e1 => rw [h1] at h; exact h
  | ok o =>
    rw [h1] at h
    cases o with
    | some p => cases h
    | none =>
      simp only [] at h ⊢
      by_cases hlt : s.index < data.size
      · simp only [hlt, if_true] at h ⊢
        cases h2 : dispatch 8 s.step { s with index := s.index + 1 } data[s.index]! data[s.index + 1]? data[s.index + 1 + 1]? with
        | error e2 => rw [h2] at h; exact h
        | ok s1 =>
          rw [h2] at h
          simp only [] at h ⊢
          cases h3 : shiftFound data s1 with
          | error e3 => rw [h3] at h; exact h
          | ok o2 =>
            rw [h3] at h
            cases o2 with
            | some p => cases h
            | none => exact hk _ _ h he
      · simp only [hlt, if_false] at h ⊢
        exact h

theorem next_monoE1 (data : Array Cls) : ∀ (nf : Nat) (s : Sc) (e : Err),
    next data nf s = .error e → e ≠ fuelErr → next data (nf + 1) s = .error e
  | 0, s, e, h, he => by rw [next_zero] at h; cases h; exact absurd rfl he
  | nf + 1, s, e, h, he => by
    rw [next_succ] at h ⊢
    exact nextBody_monoE data _ _ (next_monoE1 data nf) s e h he

theorem next_monoE (data : Array Cls) (nf m : Nat) (s : Sc) (e : Err)
    (h : next data nf s = .error e) (he : e ≠ fuelErr) (hm : nf ≤ m) : next data m s = .error e := by
  induction m with
  | zero => have : nf = 0 := by omega
            subst this; exact h
  | succ m ih =>
    by_cases hle : nf ≤ m
    · exact next_monoE1 data m s e (ih hle) he
    · have : nf = m + 1 := by omega
      subst this; exact h

/-- `Next()` from `s` fails with the scanner error `e` -/
def NextErr (data : Array Cls) (s : Sc) (e : Err) : Prop :=
  e ≠ fuelErr ∧ ∃ nf, nf ≤ data.size - s.index + 2 ∧ next data nf s = .error e

theorem NextErr.next {data : Array Cls} {s : Sc} {e : Err} (h : NextErr data s e) :
    SchemaScan.next data (3 * data.size + 16) s = .error e := by
  obtain ⟨he, nf, hb, hn⟩ := h
  exact next_monoE data nf _ s e hn he (by omega)

/-! ### paths -/

inductive Path (data : Array Cls) : Sc → List Ev → Sc → Prop
  | refl (s : Sc) : Path data s [] s
  | read {s s1 s' : Sc} {evs : List Ev} :
      (∀ r, NextOk data s1 r → NextOk data s r) → (∀ e, NextErr data s1 e → NextErr data s e) →
      Path data s1 evs s' → Path data s evs s'
  | ev {s s1 s' : Sc} {e : Ev} {evs : List Ev} :
      NextOk data s (some (s1, e)) → Path data s1 evs s' → Path data s (e :: evs) s'

theorem Path.trans {data : Array Cls} {s s1 s2 : Sc} {a b : List Ev}
    (h1 : Path data s a s1) (h2 : Path data s1 b s2) : Path data s (a ++ b) s2 := by
  induction h1 with
  | refl _ => exact h2
  | read hl hle _ ih => exact Path.read hl hle (ih h2)
  | ev hn _ ih => exact Path.ev hn (ih h2)

theorem Path.cast {data : Array Cls} {s s1 s1' : Sc} {evs evs' : List Ev} (h : Path data s evs s1) (he : evs = evs')
    (hs : s1 = s1') : Path data s evs' s1' := he ▸ hs ▸ h

theorem emits_lift {data : Array Cls} {s s1 : Sc} (hl : ∀ r, NextOk data s1 r → NextOk data s r) {l : List Ev}
    (h : Emits data s1 l) : Emits data s l := by
  cases h with
  | nil hn => exact Emits.nil (hl _ hn)
  | cons hn h' => exact Emits.cons (hl _ hn) h'

/-- a path in front of a terminating run (the link to `Emits`) -/
theorem Path.emits {data : Array Cls} {s s1 : Sc} {a b : List Ev}
    (h1 : Path data s a s1) (h2 : Emits data s1 b) : Emits data s (a ++ b) := by
  induction h1 with
  | refl _ => exact h2
  | read hl _ _ ih => exact emits_lift hl (ih h2)
  | ev hn _ ih => exact Emits.cons hn (ih h2)

theorem nextOk_shift {data : Array Cls} {s s' : Sc} {t : LexT} {rest : List LexT} {e : Ev}
    (hf : s.finds = t :: rest) (hp : processFound data { s with finds := rest } t = .ok (s', e)) :
    NextOk data s (some (s', e)) := by
  refine ⟨1, by omega, ?_⟩
  rw [next_succ]
  unfold nextBody shiftFound
  rw [hf]
  simp only [bind, Except.bind, hp]
  rfl

/-- a queued lexeme is delivered -/
theorem Path.shift {data : Array Cls} {s s' : Sc} {t : LexT} {rest : List LexT} {e : Ev}
    (hf : s.finds = t :: rest) (hp : processFound data { s with finds := rest } t = .ok (s', e)) :
    Path data s [e] s' :=
  Path.ev (nextOk_shift hf hp) (Path.refl _)

/-- one byte is read (whatever it queues): the results of `Next()` are those of the state after the byte -/
theorem nextOk_read {data : Array Cls} {s s1 : Sc} {c : Cls}
    (hf : s.finds = []) (hc : data[s.index]? = some c)
    (hd : dispatch 8 s.step { s with index := s.index + 1 } c data[s.index + 1]? data[s.index + 1 + 1]? = .ok s1)
    (hi : s1.index = s.index + 1) : ∀ r, NextOk data s1 r → NextOk data s r := by
  obtain ⟨hlt, hget⟩ := Array.getElem?_eq_some_iff.mp hc
  have hbang : data[s.index]! = c := by rw [getElem!_pos data s.index hlt]; exact hget
  have key : ∀ nf r, 1 ≤ nf → next data nf s1 = .ok r → next data (nf + 1) s = .ok r := by
    intro nf r h1 hn
    rw [next_succ]
    unfold nextBody
    have hs : shiftFound data s = .ok none := by unfold shiftFound; rw [hf]; rfl
    rw [hs]
    simp only [hlt, if_true, hbang, hd]
    obtain ⟨m, rfl⟩ : ∃ m, nf = m + 1 := ⟨nf - 1, by omega⟩
    rw [next_succ] at hn
    unfold nextBody at hn
    cases h3 : shiftFound data s1 with
    | error e => rw [h3] at hn; cases hn
    | ok o =>
      rw [h3] at hn
      cases o with
      | some p => exact hn
      | none =>
        simp only []
        rw [next_succ]
        unfold nextBody
        rw [h3]
        exact hn
  intro r ⟨nf, hb, hn⟩
  have h1 : 1 ≤ nf := by
    cases nf with
    | zero => rw [next_zero] at hn; cases hn
    | succ n => omega
  exact ⟨nf + 1, by rw [hi] at hb; omega, key nf r h1 hn⟩

theorem nextErr_read {data : Array Cls} {s s1 : Sc} {c : Cls}
    (hf : s.finds = []) (hc : data[s.index]? = some c)
    (hd : dispatch 8 s.step { s with index := s.index + 1 } c data[s.index + 1]? data[s.index + 1 + 1]? = .ok s1)
    (hi : s1.index = s.index + 1) : ∀ e, NextErr data s1 e → NextErr data s e := by
  obtain ⟨hlt, hget⟩ := Array.getElem?_eq_some_iff.mp hc
  have hbang : data[s.index]! = c := by rw [getElem!_pos data s.index hlt]; exact hget
  have key : ∀ nf e, 1 ≤ nf → next data nf s1 = .error e → next data (nf + 1) s = .error e := by
    intro nf e h1 hn
    rw [next_succ]
    unfold nextBody
    have hs : shiftFound data s = .ok none := by unfold shiftFound; rw [hf]; rfl
    rw [hs]
    simp only [hlt, if_true, hbang, hd]
    obtain ⟨m, rfl⟩ : ∃ m, nf = m + 1 := ⟨nf - 1, by omega⟩
    rw [next_succ] at hn
    unfold nextBody at hn
    cases h3 : shiftFound data s1 with
    | error e3 => rw [h3] at hn; exact hn
    | ok o =>
      rw [h3] at hn
      cases o with
      | some p => cases hn
      | none =>
        simp only []
        rw [next_succ]
        unfold nextBody
        rw [h3]
        exact hn
  intro e ⟨he, nf, hb, hn⟩
  have h1 : 1 ≤ nf := by
    cases nf with
    | zero => rw [next_zero] at hn; cases hn; exact absurd rfl he
    | succ n => omega
  exact ⟨he, nf + 1, by rw [hi] at hb; omega, key nf e h1 hn⟩

theorem Path.readByte {data : Array Cls} {s s1 : Sc} {c : Cls}
    (hf : s.finds = []) (hc : data[s.index]? = some c)
    (hd : dispatch 8 s.step { s with index := s.index + 1 } c data[s.index + 1]? data[s.index + 1 + 1]? = .ok s1)
    (hi : s1.index = s.index + 1) : Path data s [] s1 :=
  Path.read (nextOk_read hf hc hd hi) (nextErr_read hf hc hd hi) (Path.refl _)

theorem Path.drain {data : Array Cls} : ∀ (fs : List LexT) (s s' : Sc) (evs : List Ev),
    s.finds = fs → drainL data fs s = .ok (s', evs) → Path data s evs s'
  | [], s, s', evs, _, h => by
    simp only [drainL, pure, Except.pure] at h
    cases h
    exact Path.refl s
  | t :: rest, s, s', evs, hf, h => by
    simp only [drainL] at h
    cases hp : processFound data { s with finds := rest } t with
    | error e => rw [hp] at h; cases h
    | ok p =>
      obtain ⟨s1, e⟩ := p
      rw [hp] at h
      simp only [] at h
      cases hd : drainL data rest s1 with
      | error e => rw [hd] at h; cases h
      | ok q =>
        obtain ⟨s2, es⟩ := q
        rw [hd] at h
        simp only [] at h
        have h1 := Path.shift hf hp
        have h2 := Path.drain rest s1 s2 es (processFound_finds hp).1 hd
        cases h
        exact Path.trans h1 h2

/-- one byte: dispatch, then deliver everything it queued -/
theorem Path.byte {data : Array Cls} {s s1 s2 : Sc} {c : Cls} {evs : List Ev}
    (hf : s.finds = []) (hc : data[s.index]? = some c)
    (hd : ∀ p1 p2, dispatch 8 s.step { s with index := s.index + 1 } c p1 p2 = .ok s1)
    (hi : s1.index = s.index + 1)
    (hdr : drainL data s1.finds s1 = .ok (s2, evs)) : Path data s evs s2 := by
  have h1 := Path.readByte hf hc (hd _ _) hi
  have h2 := Path.drain s1.finds s1 s2 evs rfl hdr
  exact Path.trans h1 h2

/-- end of input with nothing open -/
theorem nextOk_done {data : Array Cls} {s : Sc} (hf : s.finds = []) (hi : data.size ≤ s.index) (hs : s.stack = []) :
    NextOk data s none :=
  match Emits.done hf hi hs with
  | .nil hn => hn

/-! ### `lengthLoop`, fuel-free -/

/-- the length after an event that is not `end-top` -/
def upd (data : Array Cls) (e : Ev) : Nat := if e.e == data.size then e.e else e.e + 1

def lenAfter (data : Array Cls) : List Ev → Nat → Nat
  | [], len => len
  | e :: es, _ => lenAfter data es (upd data e)

def noTop (evs : List Ev) : Bool := evs.all (fun e => e.ty != .endTop)

theorem noTop_append (a b : List Ev) : noTop (a ++ b) = (noTop a && noTop b) := by
  simp [noTop, List.all_append]

theorem lenAfter_append (data : Array Cls) : ∀ (a b : List Ev) (len : Nat),
    lenAfter data (a ++ b) len = lenAfter data b (lenAfter data a len)
  | [], _, _ => rfl
  | _ :: a, b, _ => by simp only [List.cons_append, lenAfter]; exact lenAfter_append data a b _

/-- `lengthLoop` from `s` with current length `len` returns `n`, calling `Next()` `k` times -/
inductive LenRun (data : Array Cls) : Sc → Nat → Nat → Nat → Prop
  | eof {s : Sc} {len : Nat} : NextOk data s none → LenRun data s len len 1
  | top {s s' : Sc} {e : Ev} {len : Nat} : NextOk data s (some (s', e)) → e.ty = .endTop →
      LenRun data s len (if s'.hasTrailing then e.e - 1 else e.e) 1
  | ev {s s' : Sc} {e : Ev} {len n k : Nat} : NextOk data s (some (s', e)) → e.ty ≠ .endTop →
      LenRun data s' (upd data e) n k → LenRun data s len n (k + 1)

theorem lengthLoop_of_lenRun {data : Array Cls} {s : Sc} {len n k : Nat} (h : LenRun data s len n k) :
    ∀ fuel, k ≤ fuel → lengthLoop data fuel s len = .ok n := by
  induction h with
  | eof hn =>
    intro fuel hf
    obtain ⟨f, rfl⟩ : ∃ f, fuel = f + 1 := ⟨fuel - 1, by omega⟩
    rw [lengthLoop]
    simp only [bind, Except.bind, hn.next]
    rfl
  | top hn ht =>
    intro fuel hf
    obtain ⟨f, rfl⟩ : ∃ f, fuel = f + 1 := ⟨fuel - 1, by omega⟩
    rw [lengthLoop]
    simp only [bind, Except.bind, hn.next, ht]
    rfl
  | @ev s s' e len n k hn ht _ ih =>
    intro fuel hf
    obtain ⟨f, rfl⟩ : ∃ f, fuel = f + 1 := ⟨fuel - 1, by omega⟩
    rw [lengthLoop]
    simp only [bind, Except.bind, hn.next]
    have : (e.ty == LexT.endTop) = false := by simpa using ht
    simp only [this]
    exact ih f (by omega)

theorem LenRun.lift {data : Array Cls} {s s1 : Sc} (hl : ∀ r, NextOk data s1 r → NextOk data s r)
    {len n k : Nat} (h : LenRun data s1 len n k) : LenRun data s len n k := by
  cases h with
  | eof hn => exact LenRun.eof (hl _ hn)
  | top hn ht => exact LenRun.top (hl _ hn) ht
  | ev hn ht h' => exact LenRun.ev (hl _ hn) ht h'

/-- a path of events without `end-top` in front of a length run -/
theorem Path.lenRun {data : Array Cls} {s s' : Sc} {evs : List Ev} (hp : Path data s evs s') :
    noTop evs = true → ∀ (len n k : Nat), LenRun data s' (lenAfter data evs len) n k →
      LenRun data s len n (k + evs.length) := by
  induction hp with
  | refl _ => intro _ len n k h; exact h
  | read hl _ _ ih => intro hnt len n k h; exact (ih hnt len n k h).lift hl
  | @ev s s1 s' e evs hn _ ih =>
    intro hnt len n k h
    simp only [noTop, List.all_cons, Bool.and_eq_true, bne_iff_ne, ne_eq] at hnt
    have := ih (by simpa [noTop] using hnt.2) (upd data e) n k (by simpa [lenAfter] using h)
    exact LenRun.ev hn hnt.1 this

/-! ### plain-JSON scanner states with an arbitrary `lengthComputing` flag -/

def cfgL (lc : Bool) (st : St) (ret : List St) (K : List (LexT × Nat)) (u : Bool) (i : Nat) (CS : List Ctx) (cx : Ctx)
    (al : Bool) : Sc :=
  { step := st, ret := ret, stack := K, ctxStack := CS, ctx := cx, finds := [], index := i, ann := .none, unf := u,
    lengthComputing := lc, boundaryQuote := false, allowAnnotation := al, hasTrailing := false }

theorem cfgL_false : @cfgL false = @cfg := rfl

end Len
end SchemaScan
