import JSight.BridgeCR
/-!
Bridge (A)∩(B), basics: the two vocabularies agree (rule names, Boolean / count / type-name readers), duplicate
detection of `enum` items, the items of an `or` value.
-/
namespace BridgeCR
open Compile

/-! ### names -/

theorem sb_minLength : sb "minLength" = CR.n_minLength := by decide +kernel
theorem sb_maxLength : sb "maxLength" = CR.n_maxLength := by decide +kernel
theorem sb_min : sb "min" = CR.n_min := by decide +kernel
theorem sb_max : sb "max" = CR.n_max := by decide +kernel
theorem sb_exclusiveMinimum : sb "exclusiveMinimum" = CR.n_exclusiveMinimum := by decide +kernel
theorem sb_exclusiveMaximum : sb "exclusiveMaximum" = CR.n_exclusiveMaximum := by decide +kernel
theorem sb_type : sb "type" = CR.n_type := by decide +kernel
theorem sb_precision : sb "precision" = CR.n_precision := by decide +kernel
theorem sb_optional : sb "optional" = CR.n_optional := by decide +kernel
theorem sb_minItems : sb "minItems" = CR.n_minItems := by decide +kernel
theorem sb_maxItems : sb "maxItems" = CR.n_maxItems := by decide +kernel
theorem sb_additionalProperties : sb "additionalProperties" = CR.n_additionalProperties := by decide +kernel
theorem sb_nullable : sb "nullable" = CR.n_nullable := by decide +kernel
theorem sb_regex : sb "regex" = CR.n_regex := by decide +kernel
theorem sb_const : sb "const" = CR.n_const := by decide +kernel
theorem sb_or : sb "or" = CR.n_or := by decide +kernel
theorem sb_enum : sb "enum" = CR.n_enum := by decide +kernel
theorem sb_allOf : sb "allOf" = CR.n_allOf := by decide +kernel

theorem knownRules_eq : knownRules = CR.rnameTable.map (·.1) := by decide +kernel

/-- the bytes of a rule name -/
def rbytes : CR.RName → Bytes
  | .minLength => CR.n_minLength | .maxLength => CR.n_maxLength | .min => CR.n_min | .max => CR.n_max
  | .exclusiveMinimum => CR.n_exclusiveMinimum | .exclusiveMaximum => CR.n_exclusiveMaximum | .type => CR.n_type
  | .precision => CR.n_precision | .optional => CR.n_optional | .minItems => CR.n_minItems | .maxItems => CR.n_maxItems
  | .additionalProperties => CR.n_additionalProperties | .nullable => CR.n_nullable | .regex => CR.n_regex
  | .const => CR.n_const | .or => CR.n_or | .enum => CR.n_enum | .allOf => CR.n_allOf

theorem ofBytes_rbytes (r : CR.RName) : CR.RName.ofBytes (rbytes r) = some r := by
  cases r <;> decide +kernel

theorem lookup_some_mem {α β : Type} [BEq α] [LawfulBEq α] : (l : List (α × β)) → (a : α) → (b : β) →
    l.lookup a = some b → (a, b) ∈ l
  | [], _, _, h => by simp [List.lookup] at h
  | (k, v) :: l, a, b, h => by
    simp only [List.lookup] at h
    split at h
    · rename_i he
      have : a = k := by simpa using he
      subst this
      simp at h
      subst h
      simp
    · exact List.mem_cons_of_mem _ (lookup_some_mem l a b h)

theorem lookup_none_not_mem {α β : Type} [BEq α] [LawfulBEq α] : (l : List (α × β)) → (a : α) →
    l.lookup a = none → a ∉ l.map (·.1)
  | [], _, _ => by simp
  | (k, v) :: l, a, h => by
    simp only [List.lookup] at h
    split at h
    · simp at h
    · rename_i he
      have hne : a ≠ k := by simpa using he
      have := lookup_none_not_mem l a h
      simp only [List.map_cons, List.mem_cons, not_or]
      exact ⟨hne, this⟩

/-- a name the table knows IS the bytes of its rule -/
theorem ofBytes_some (a : Bytes) (r : CR.RName) (h : CR.RName.ofBytes a = some r) : a = rbytes r := by
  have hm := lookup_some_mem CR.rnameTable a r h
  simp only [CR.rnameTable, List.mem_cons, Prod.mk.injEq, List.mem_nil_iff, or_false] at hm
  rcases hm with ⟨h1, h2⟩ | ⟨h1, h2⟩ | ⟨h1, h2⟩ | ⟨h1, h2⟩ | ⟨h1, h2⟩ | ⟨h1, h2⟩ | ⟨h1, h2⟩ | ⟨h1, h2⟩ | ⟨h1, h2⟩ |
    ⟨h1, h2⟩ | ⟨h1, h2⟩ | ⟨h1, h2⟩ | ⟨h1, h2⟩ | ⟨h1, h2⟩ | ⟨h1, h2⟩ | ⟨h1, h2⟩ | ⟨h1, h2⟩ | ⟨h1, h2⟩ <;>
    (subst h1; subst h2; rfl)

theorem ofBytes_none_iff (a : Bytes) : CR.RName.ofBytes a = none ↔ knownRules.contains a = false := by
  rw [knownRules_eq]
  constructor
  · intro h
    have := lookup_none_not_mem CR.rnameTable a h
    simpa using this
  · intro h
    cases hh : CR.RName.ofBytes a with
    | none => rfl
    | some r =>
      have := lookup_some_mem CR.rnameTable a r hh
      have hm : a ∈ CR.rnameTable.map (·.1) := List.mem_map.2 ⟨(a, r), this, rfl⟩
      simp only [List.contains_eq_mem, decide_eq_false_iff_not] at h
      exact absurd hm h

theorem rbytes_inj (r s : CR.RName) (h : rbytes r = rbytes s) : r = s := by
  have h1 := ofBytes_rbytes r
  rw [h, ofBytes_rbytes] at h1
  exact (Option.some.inj h1).symm

/-! ### readers -/

theorem parseBool_eq (b : Bytes) : Compile.parseBool b = CR.parseBool b := by
  unfold Compile.parseBool CR.parseBool
  have e1 : RulesF.sTrue = CR.t_true := rfl
  have e2 : RulesF.sFalse = CR.t_false := rfl
  rw [e1, e2]
  by_cases h1 : b = CR.t_true
  · simp [h1]
  · by_cases h2 : b = CR.t_false
    · simp [h2]
    · simp [h1, h2]

theorem isNameByte_eq (c : UInt8) : Compile.isNameByte c = CR.isNameByte c := by
  unfold Compile.isNameByte CR.isNameByte
  generalize (48 ≤ c && c ≤ 57) = a
  generalize (65 ≤ c && c ≤ 90) = b
  generalize (97 ≤ c && c ≤ 122) = d
  generalize (c == 45) = e
  generalize (c == 95) = f
  cases a <;> cases b <;> cases d <;> cases e <;> cases f <;> rfl

theorem isUserTypeName_eq (b : Bytes) : Compile.isUserTypeName b = CR.isUserTypeName b := by
  have : Compile.isNameByte = CR.isNameByte := funext isNameByte_eq
  match b with
  | [] => rfl
  | [_] => simp [Compile.isUserTypeName, CR.isUserTypeName]
  | a :: c :: rest =>
    by_cases ha : a = 64
    · subst ha
      simp only [Compile.isUserTypeName, CR.isUserTypeName, this]
    · simp [Compile.isUserTypeName, CR.isUserTypeName, ha]

theorem parseUint_none (b : Bytes) : Compile.parseUint b = none ↔ CR.parseUint b = none := by
  unfold Compile.parseUint CR.parseUint
  have : Compile.isDigit = CR.isDigit := rfl
  rw [this]
  split <;> simp_all

/-- digits only: the value stays below `10 ^ (number of digits)` -/
theorem foldl_digits_lt : (ds : List UInt8) → ds.all Compile.isDigit = true → (acc k : Nat) → acc < 10 ^ k →
    ds.foldl (fun a c => a * 10 + (c.toNat - 48)) acc < 10 ^ (k + ds.length)
  | [], _, acc, k, h => by simpa using h
  | d :: ds, hd, acc, k, h => by
    simp only [List.all_cons, Bool.and_eq_true] at hd
    have hdig : d.toNat - 48 ≤ 9 := by
      have := hd.1
      simp only [Compile.isDigit, Bool.and_eq_true, decide_eq_true_eq] at this
      have h2 : d.toNat ≤ 57 := by
        have := this.2
        exact UInt8.le_iff_toNat_le.mp this
      omega
    have hstep : acc * 10 + (d.toNat - 48) < 10 ^ (k + 1) := by
      have : 10 ^ (k + 1) = 10 ^ k * 10 := by rw [Nat.pow_succ]
      omega
    have := foldl_digits_lt ds hd.2 (acc * 10 + (d.toNat - 48)) (k + 1) hstep
    simp only [List.foldl_cons, List.length_cons]
    have e : k + 1 + ds.length = k + (ds.length + 1) := by omega
    rw [e] at this
    exact this

theorem foldl_mod_eq : (ds : List UInt8) → ds.all Compile.isDigit = true → (acc k : Nat) → acc < 10 ^ k →
    k + ds.length ≤ 19 →
    ds.foldl (fun u c => (u * 10 + (c.toNat - 48)) % 18446744073709551616) acc
      = ds.foldl (fun a c => a * 10 + (c.toNat - 48)) acc
  | [], _, _, _, _, _ => rfl
  | d :: ds, hd, acc, k, h, hk => by
    simp only [List.all_cons, Bool.and_eq_true] at hd
    have hdig : d.toNat - 48 ≤ 9 := by
      have := hd.1
      simp only [Compile.isDigit, Bool.and_eq_true, decide_eq_true_eq] at this
      have h2 : d.toNat ≤ 57 := UInt8.le_iff_toNat_le.mp this.2
      omega
    have hstep : acc * 10 + (d.toNat - 48) < 10 ^ (k + 1) := by
      have : 10 ^ (k + 1) = 10 ^ k * 10 := by rw [Nat.pow_succ]
      omega
    simp only [List.length_cons] at hk
    have hle : 10 ^ (k + 1) ≤ 10 ^ 19 := Nat.pow_le_pow_right (by decide) (by omega)
    have hsmall : acc * 10 + (d.toNat - 48) < 18446744073709551616 := by
      have : (10 : Nat) ^ 19 < 18446744073709551616 := by decide
      omega
    simp only [List.foldl_cons, Nat.mod_eq_of_lt hsmall]
    exact foldl_mod_eq ds hd.2 _ (k + 1) hstep (by omega)

/-- up to 18 digits the 64-bit wrap-around of `Bytes.ParseUint` is not reached: the two readers agree -/
theorem parseUint_eq (b : Bytes) (h : b.length ≤ 18) : CR.parseUint b = Compile.parseUint b := by
  unfold Compile.parseUint CR.parseUint
  have e : CR.isDigit = Compile.isDigit := rfl
  rw [e]
  split
  · rfl
  · rename_i hc
    have hall : b.all Compile.isDigit = true := by
      cases hh : b.all Compile.isDigit <;> simp_all
    rw [foldl_mod_eq b hall 0 0 (by decide) (by omega)]

end BridgeCR
