import JSight.CheckRules
/-!
# C08 specification: the statement as independent conditions over the SET of rules

"Check succeeds on a schema iff every rule is known, appears once and applies to the kind of node it annotates
(numeric rules on numbers, length and regex on strings, item counts on arrays, additionalProperties and allOf on
objects, optional only on object properties), paired bounds are ordered (min<=max, strictly when either is
exclusive; minLength<=maxLength; minItems<=maxItems), exclusive flags have their bound, precision is used only
with decimal, format types exclude length/regex rules, and enum, or, any and type references are not combined
with foreign rules."

Nothing here follows the order of the annotation or of the compiler's steps:

* `Known`, `Once`, `ValuesOK` speak about the rules one by one (name known; names pairwise different; the value is
  of the kind the rule takes — a count, a number, a Boolean, a type name, a list of members … — `readRule`);
* the other conditions speak about the rule SET READ AS A PARTIAL FUNCTION (`readSet`: constraint ↦ value, looked
  up by name, no order): `Applies`, `PairsOrdered`, `ExclusiveHasBound`, `PrecisionOnlyDecimal`,
  `FormatExcludesLengthRegex`, `CombinatorsAlone`, `TypeFits`, `EmptyArrayCounts`, `AllOfNamesSomething`.

Shared with the model (vocabulary, `CheckRules.lean`): how a name / token is read (`RName.ofBytes`, `tyOf`,
`parseBool`, `parseUint`, `RulesF.number`, `Unquote`), the applicability table `compat`, the node description `Ctx`.

Calibration (as in harness/x/c08, decisions [C1]..[C23]): a false-valued `nullable` / `const` counts as absent for
everything but `Once` (`eff`); the `type` rule must name the kind of the example (`TypeFits`); an `or` member's
rule-set is an annotation without a node kind (`Consistent memberCtx`: no `Applies`); item counts on an EMPTY array
example must be 0; `type: "mixed"` / `"enum"` next to `or` / `enum` must be written exactly so.
-/
namespace CR

/-! ### one rule, read -/

/-- the value of a literal-valued rule, read: `none` = not a value this rule takes -/
def readLit (env : Env) (r : RName) (tok : Bytes) : Option CV :=
  match r with
  | .minLength | .maxLength | .minItems | .maxItems => (parseUint tok).map .nat
  | .precision => (parseUint tok).bind fun n => if n = 0 then none else some (.nat n)
  | .min | .max => (RulesF.number tok).map (.num · false)
  | .exclusiveMinimum | .exclusiveMaximum | .optional | .nullable | .const => (parseBool tok).map .flag
  | .type => some (.type tok false)
  | .additionalProperties => if addPropsOK tok then some .unit else none
  | .regex => if tok ∈ env.okRegex then some .unit else none
  | .or | .enum | .allOf => none

def Val.isLit : Val → Bool | .lit _ => true | _ => false
def Val.tok : Val → Bytes | .lit t => t | _ => []

/-- an `enum` value: a list of literals, pairwise different as (value, kind), or the name of an enum rule -/
def enumValueOK (env : Env) : Val → Bool
  | .arr items => items.all Val.isLit && decide ((items.map fun v => enumKey v.tok).Nodup)
  | .ref name => decide (name ∈ env.enumRules)
  | _ => false

def typeNameTokOK (tok : Bytes) : Bool := Unquote.inQuotes tok && isUserTypeName (Unquote.unquote tok)

/-- an `allOf` value: a quoted type name or a list of them -/
def allOfValueOK : Val → Bool
  | .lit tok => typeNameTokOK tok
  | .arr items => items.all fun v => v.isLit && typeNameTokOK v.tok
  | _ => false

def allOfNames : Val → List Bytes
  | .lit tok => [Unquote.unquote tok]
  | .arr items => items.map fun v => Unquote.unquote v.tok
  | _ => []

/-- one rule of a member rule-set of an `or`, read -/
def readSetRule (env : Env) (e : Rule) : Option (List (CT × CV)) :=
  match RName.ofBytes e.1 with
  | some .enum => if enumValueOK env e.2 then some [(.enum, .unit)] else none
  | some .or | some .allOf | none => none
  | some r => match e.2 with
    | .lit tok => (readLit env r tok).map fun v => [(r.ct, v)]
    | _ => none

/-- a rule set read as a partial function: the value bound to constraint `k` (looked up, no order) -/
def readSet (rd : Rule → Option (List (CT × CV))) (rs : List Rule) : CMap :=
  fun k => rs.findSome? fun e => (rd e).bind fun bs => bs.lookup k

/-! ### the conditions on a rule set `S` -/

/-- [C1] effectively present: present and not a false-valued nullable / const -/
def eff (S : CMap) (k : CT) : Bool :=
  S.has k && !((k = .nullable || k = .const) && S k = some (.flag false))

/-- the type the `type` rule names -/
def tyName (S : CMap) : Option TyName := (typeTok S).map fun p => tyOf p.1

/-- no effective rule outside `allowed` -/
def onlyRules (S : CMap) (allowed : List CT) : Bool := CT.all.all fun k => !eff S k || allowed.contains k

def isContainer (c : Ctx) : Bool := c.isBranch
def hasKind (c : Ctx) : Bool := c.cls = .literal || c.cls = .object || c.cls = .array

/-- every rule applies to the kind of node it annotates; optional only on object properties; allOf only on objects
(also where the node has no JSON kind of its own) -/
def Applies (c : Ctx) (S : CMap) : Bool :=
  (!hasKind c || CT.all.all fun k => !eff S k || compat k c.jt) && (!S.has .optional || c.isProp)
    && (!S.has .allOf || c.cls = .object)

def strictPair (S : CMap) : Bool :=
  S .exclusiveMinimum = some (.flag true) || S .exclusiveMaximum = some (.flag true)

def numPairOK (strict : Bool) (x y : Option CV) : Bool :=
  match x, y with
  | some (.num a _), some (.num b _) => if strict then decide (a.cmp b = .lt) else decide (a.cmp b ≠ .gt)
  | _, _ => true

def natPairOK (x y : Option CV) : Bool :=
  match x, y with
  | some (.nat a), some (.nat b) => decide (a ≤ b)
  | _, _ => true

/-- paired bounds are ordered (min/max strictly when either is exclusive) -/
def PairsOrdered (S : CMap) : Bool :=
  numPairOK (strictPair S) (S .min) (S .max) && natPairOK (S .minLength) (S .maxLength)
    && natPairOK (S .minItems) (S .maxItems)

/-- exclusive flags have their bound -/
def ExclusiveHasBound (S : CMap) : Bool :=
  (!S.has .exclusiveMinimum || S.has .min) && (!S.has .exclusiveMaximum || S.has .max)

/-- precision is used only with decimal (no type rule: decimal is implied) -/
def PrecisionOnlyDecimal (S : CMap) : Bool :=
  !S.has .precision || tyName S = none || tyName S = some .decimal

/-- format types exclude length / regex rules -/
def FormatExcludesLengthRegex (S : CMap) : Bool :=
  !(match tyName S with | some t => t.isFormat | none => false)
    || !(S.has .minLength || S.has .maxLength || S.has .regex)

def orUsers (S : CMap) : Bool := usersAny S

/-- `or` stands alone (next to it only optional, nullable and `type: "mixed"` written so); only on an EMPTY container and
then without a user type among the members; a user-written `or` on a shortcut node names no user type -/
def combOr (c : Ctx) (S : CMap) : Bool :=
  !S.has .or ||
    (rawIs S q_mixed && onlyRules S [.or, .typesList, .optional, .nullable, .type]
     && !(isContainer c && decide (c.children ≠ 0)) && !(isContainer c && orUsers S)
     && !(decide (c.cls = .mixedValue) && decide (S .or = some (.or false)) && orUsers S))

/-- `enum` stands alone (next to it only optional, nullable, const and `type: "enum"` written so) -/
def combEnum (S : CMap) : Bool :=
  !S.has .enum || (rawIs S q_enum && onlyRules S [.enum, .optional, .const, .nullable, .type])

/-- `type: "any"` stands alone (optional, nullable); a container with that type is empty -/
def combAny (c : Ctx) (S : CMap) : Bool :=
  !(tyName S = some .any) ||
    (onlyRules S [.type, .optional, .nullable] && !(isContainer c && decide (c.children ≠ 0)))

/-- a type reference stands alone (optional, nullable), not on a container; on a shortcut node it is the node's own -/
def combUser (c : Ctx) (S : CMap) : Bool :=
  !(tyName S = some .user) ||
    (onlyRules S [.type, .optional, .nullable] && !isContainer c
     && !(decide (c.cls = .mixedValue) && (match typeTok S with | some (_, gen) => !gen | none => false)))

/-- enum, or, any and type references are not combined with foreign rules -/
def CombinatorsAlone (c : Ctx) (S : CMap) : Bool :=
  combOr c S && combEnum S && combAny c S && combUser c S

/-- does the type name `t` fit the node and the other rules -/
def tyFits (c : Ctx) (S : CMap) (t : TyName) : Bool :=
  match t with
  | .unknown => false
  | .mixed => S.has .or
  | .enum => S.has .enum && (!hasKind c || realTypeOK .enum c.jt)
  | .decimal => S.has .precision && (!hasKind c || c.jt = .float)
  | .any => true
  | .user => true
  | .json t => c.cls = .mixed || (hasKind c && c.jt = t)
  | .email | .uri | .uuid | .date | .datetime => !hasKind c || c.jt = .string

/-- the `type` rule names the kind of the example, or a type whose own rule is present -/
def TypeFits (c : Ctx) (S : CMap) : Bool :=
  match typeTok S with
  | none => true
  | some (tok, _) => tyFits c S (tyOf tok)

/-- [C11] item counts on an empty array example -/
def EmptyArrayCounts (c : Ctx) (S : CMap) : Bool :=
  !(c.cls = .array && c.children = 0) ||
    (!countNonZero (S .minItems) && !countNonZero (S .maxItems))

/-- allOf names at least one type -/
def AllOfNamesSomething (S : CMap) : Bool :=
  match S .allOf with | some (.allOf ns) => !ns.isEmpty | _ => true

/-- the statement's conditions on a read rule set -/
def Consistent (c : Ctx) (S : CMap) : Bool :=
  Applies c S && PairsOrdered S && ExclusiveHasBound S && PrecisionOnlyDecimal S && FormatExcludesLengthRegex S
    && CombinatorsAlone c S && TypeFits c S && EmptyArrayCounts c S && AllOfNamesSomething S

/-! ### `or` members -/

def namesOf (rs : List Rule) : List Bytes := rs.map (·.1)

/-- a member rule-set is an annotation of its own: known rules, once each, well-formed values, consistent — it has
no node kind ([C22]) and is no object property -/
def memberSetOK (env : Env) (rs : List Rule) : Bool :=
  !rs.isEmpty && rs.all (fun e => (readSetRule env e).isSome) && decide ((namesOf rs).Nodup)
    && Consistent memberCtx (readSet (readSetRule env) rs)

/-- a rule-set that is just `{type: "@name"}` is that type -/
def memberSetIsUser (rs : List Rule) : Bool :=
  match rs with
  | [e] => RName.ofBytes e.1 = some .type && (match e.2 with | .lit tok => tyOf tok = .user | _ => false)
  | _ => false

/-- a member: a quoted type name (a user type, or a type that can stand alone), or a rule-set -/
def memberOK (env : Env) (c : Ctx) : Val → Bool
  | .lit tok => Unquote.inQuotes tok &&
      (isUserTypeName (Unquote.unquote tok)
       || Consistent memberCtx (CMap.empty.set .type (.type (Unquote.unquote tok) false)))
  | .obj rs => c.cls ≠ .mixedValue && memberSetOK env rs
  | _ => false

def memberIsUser : Val → Bool
  | .lit tok => isUserTypeName (Unquote.unquote tok)
  | .obj rs => memberSetIsUser rs
  | _ => false

/-- an `or` value: a list of at least two members -/
def orValueOK (env : Env) (c : Ctx) : Val → Bool
  | .arr items => decide (2 ≤ items.length) && items.all (memberOK env c)
  | _ => false

def orValueUsers : Val → List Bool
  | .arr items => items.map memberIsUser
  | _ => []

/-! ### the annotation of a node -/

/-- one rule of the annotation, read: the constraint(s) it stands for; `none` = unknown name or ill-formed value -/
def readRule (env : Env) (c : Ctx) (e : Rule) : Option (List (CT × CV)) :=
  match RName.ofBytes e.1 with
  | some .or => if orValueOK env c e.2 then some [(.typesList, .types (orValueUsers e.2)), (.or, .or false)] else none
  | some .enum => if enumValueOK env e.2 then some [(.enum, .unit)] else none
  | some .allOf => if allOfValueOK e.2 then some [(.allOf, .allOf (allOfNames e.2))] else none
  | none => none
  | some r => match e.2 with
    | .lit tok => (readLit env r tok).map fun v => [(r.ct, v)]
    | _ => none

def Node.env (n : Node) : Env := { okRegex := n.okRegex, enumRules := n.enumRules }

/-- every rule is known -/
def Known (n : Node) : Bool := n.rules.all fun e => (RName.ofBytes e.1).isSome
/-- … appears once -/
def Once (n : Node) : Bool := decide ((namesOf n.rules).Nodup)
/-- … and has a value of the kind it takes -/
def ValuesOK (n : Node) : Bool := n.rules.all fun e => (readRule n.env n.ctx e).isSome

def hasRule (n : Node) (r : RName) : Bool := n.rules.any fun e => RName.ofBytes e.1 = some r

/-- what a shortcut node stands for: `@t` is a type reference, `@a | @b` an `or` -/
def shortcutSet : NKind → CMap := initMap

/-- the rule set of the node: what its shortcut stands for, and its annotation -/
def ruleSet (n : Node) : CMap :=
  fun k => match readSet (readRule n.env n.ctx) n.rules k with
    | some v => some v
    | none => shortcutSet n.kind k

/-- on a `@t` node an `or` rule widens the reference ([C20]): the reference then reads `type: "mixed"` -/
def ruleSetW (n : Node) : CMap :=
  match n.kind with
  | .typeRef _ => if hasRule n .or then (ruleSet n).set .type (.type q_mixed true) else ruleSet n
  | _ => ruleSet n

/-- a shortcut already is a `type` (`@t`) / an `or` (`@a | @b`): the annotation may not repeat it -/
def ShortcutNotRepeated (n : Node) : Bool :=
  match n.kind with
  | .typeRef _ => !hasRule n .type
  | .orShortcut _ => !hasRule n .or
  | _ => true

/-- C08: the rules of the node are acceptable -/
def specOK (n : Node) : Bool :=
  Known n && Once n && ValuesOK n && ShortcutNotRepeated n && Consistent n.ctx (ruleSetW n)

/-- the class around known finding K-C08-ref-type-or: `type` rules on a shortcut node, where
`MixedValueNode.AddConstraint` replaces instead of checking for a duplicate -/
def refTypeClass (n : Node) : Bool :=
  match n.kind with
  | .typeRef _ => hasRule n .type
  | .orShortcut _ => decide (2 ≤ (n.rules.filter fun e => RName.ofBytes e.1 = some .type).length)
  | _ => false

/-- an or shortcut `@a | @b` names at least two types (there is a `|`) -/
def NKind.wf : NKind → Bool
  | .orShortcut us => decide (2 ≤ us.length)
  | _ => true

end CR
