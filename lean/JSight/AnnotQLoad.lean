import JSight.AnnotQObj
import JSight.AnnotLoad
/-!
Annotations with QUOTED rule names and LIST values, loader level: `Loader.step` folded over `annEvsQ`. The literal node
gets one rule per rule of the object, in written order: the name span is the key-end span (quote to quote for a quoted
name), the value span runs from the first to the last byte of the value (bracket to bracket for a list, which the rule
loader passes through `embContainer` — only when the rule's name, as `nameOf` reads it, is `or` / `enum` / `allOf`).
-/
namespace SchemaScan

/-- the rule name's span, as the key-end event carries it -/
def QRule.span (r : QRule) (p : Nat) : Nat × Nat := (r.c.nameOff p, r.keyEnd p)

def spansRulesQ : Nat → QRule → List QRule → List (Nat × Nat)
  | p, r, [] => [r.span p]
  | p, r, r' :: rs => r.span p :: spansRulesQ (p + r.c.render.length + 1) r' rs

def QObj.spans (o : Nat) : QObj → List (Nat × Nat)
  | .empty _ => []
  | .rules r rs _ => spansRulesQ (o + 1) r rs

end SchemaScan

namespace Loader
open SchemaScan (Ev LexT Ann Cls CRule CObj QRule QObj QV CItem nlEvs rulesEvsQ tcEvs annEvsQ tailEvs spansRulesQ
  vspansRules citemsEvs renderCItems)

/-! ### single events of a list value -/

theorem st_value_embC (src : Array UInt8) (m : Mode) (hm : m ≠ .default) (nd : Node) (rn : Nat × Nat) (pl x y : Nat)
    (h : isEmbName src rn = true) :
    step src (annSt m .value nd rn pl) ⟨.arrB, x, y⟩
      = .ok (annSt m (.embContainer 1) { nd with rules := nd.rules ++ [.inl rn], ruleVals := nd.ruleVals ++ [none] } rn pl) := by
  simp only [isEmbName] at h
  cases m with
  | default => exact absurd rfl hm
  | inline => simp only [step, annSt, ruleLoad, h]; rfl
  | multi => simp only [step, annSt, ruleLoad, h]; rfl

/-- a list value under a name that is not `or` / `enum` / `allOf`: error 802 at the bracket -/
theorem st_value_list_plain (src : Array UInt8) (m : Mode) (hm : m ≠ .default) (nd : Node) (rn : Nat × Nat) (pl x y : Nat)
    (h : isEmbName src rn = false) :
    step src (annSt m .value nd rn pl) ⟨.arrB, x, y⟩ = .error (.ruleValueType x) := by
  simp only [isEmbName] at h
  cases m with
  | default => exact absurd rfl hm
  | inline => simp only [step, annSt, ruleLoad, h]; rfl
  | multi => simp only [step, annSt, ruleLoad, h]; rfl

theorem st_embC_skip (src : Array UInt8) (m : Mode) (hm : m ≠ .default) (nd : Node) (rn : Nat × Nat) (pl : Nat) (t : LexT)
    (ht : t = .itemB ∨ t = .litB ∨ t = .litE ∨ t = .itemE) (x y : Nat) :
    step src (annSt m (.embContainer 1) nd rn pl) ⟨t, x, y⟩ = .ok (annSt m (.embContainer 1) nd rn pl) := by
  cases m with
  | default => exact absurd rfl hm
  | inline => rcases ht with rfl | rfl | rfl | rfl <;> rfl
  | multi => rcases ht with rfl | rfl | rfl | rfl <;> rfl

theorem st_embC_arrE (src : Array UInt8) (m : Mode) (hm : m ≠ .default) (nd : Node) (rn : Nat × Nat) (pl x y : Nat) :
    step src (annSt m (.embContainer 1) nd rn pl) ⟨.arrE, x, y⟩
      = .ok (annSt m .valueEnd { nd with ruleVals := nd.ruleVals.dropLast ++ [some (x, y)] } rn pl) := by
  cases m with
  | default => exact absurd rfl hm
  | inline => rfl
  | multi => rfl

theorem renderCItems_cons_length (w1 t w2 : List Cls) (its : List CItem) :
    (renderCItems ((w1, t, w2) :: its)).length
      = w1.length + t.length + w2.length + (if its.isEmpty then 0 else 1) + (renderCItems its).length := by
  cases its with
  | nil => simp [renderCItems]; omega
  | cons i2 r2 => simp [renderCItems]; omega

theorem renderCItems_pos : ∀ (its : List CItem), 0 < (renderCItems its).length
  | [] => by simp [renderCItems]
  | (w1, t, w2) :: its => by
    have := renderCItems_pos its
    rw [renderCItems_cons_length]; omega

/-- the items of a list value: the rule loader waits for the closing bracket and records the span -/
theorem citems_fold (src : Array UInt8) (m : Mode) (hm : m ≠ .default) (nd : Node) (rn : Nat × Nat) (pl v : Nat) :
    ∀ (items : List CItem) (o : Nat),
    Fold src (citemsEvs v o items) (annSt m (.embContainer 1) nd rn pl)
      (annSt m .valueEnd { nd with ruleVals := nd.ruleVals.dropLast ++ [some (v, o + (renderCItems items).length - 1)] } rn pl)
  | [], o => by
    refine (Fold.one (st_embC_arrE src m hm nd rn pl v o)).cast rfl ?_
    simp [renderCItems]
  | (w1, t, w2) :: its, o => by
    have f1 := nl_fold src m hm (.embContainer 1) rfl nd rn pl w1 o
    have f2 := nl_fold src m hm (.embContainer 1) rfl nd rn pl w2 (o + w1.length + t.length)
    have ih := citems_fold src m hm nd rn pl v its
      (o + w1.length + t.length + w2.length + (if its.isEmpty then 0 else 1))
    have mid : Fold src [⟨.itemB, o + w1.length, o + w1.length⟩, ⟨.litB, o + w1.length, o + w1.length⟩,
        ⟨.litE, o + w1.length, o + w1.length + t.length - 1⟩, ⟨.itemE, o + w1.length, o + w1.length + t.length - 1⟩]
        (annSt m (.embContainer 1) nd rn pl) (annSt m (.embContainer 1) nd rn pl) :=
      Fold.cons (st_embC_skip src m hm nd rn pl _ (Or.inl rfl) _ _)
        (Fold.cons (st_embC_skip src m hm nd rn pl _ (Or.inr (Or.inl rfl)) _ _)
          (Fold.cons (st_embC_skip src m hm nd rn pl _ (Or.inr (Or.inr (Or.inl rfl))) _ _)
            (Fold.one (st_embC_skip src m hm nd rn pl _ (Or.inr (Or.inr (Or.inr rfl))) _ _))))
    refine (Fold.trans f1 (Fold.trans mid (Fold.trans f2 ih))).cast ?_ ?_
    · simp [citemsEvs]
    · have hp := renderCItems_pos its
      have e : o + w1.length + t.length + w2.length + (if its.isEmpty then 0 else 1) + (renderCItems its).length - 1
          = o + (renderCItems ((w1, t, w2) :: its)).length - 1 := by rw [renderCItems_cons_length]; omega
      rw [e]

/-! ### one rule -/

/-- a list value sits under a name the loader reads as `or` / `enum` / `allOf` -/
def embOK (src : Array UInt8) (r : QRule) (p : Nat) : Prop :=
  ∀ w0 items, r.v = .list w0 items → isEmbName src (r.span p) = true

theorem rule_foldQ (src : Array UInt8) (m : Mode) (hm : m ≠ .default) (nd : Node) (rn : Nat × Nat) (pl : Nat)
    (a : Ann) (r : QRule) (hv : r.Valid a) (p : Nat) (hemb : embOK src r p) :
    Fold src (r.evs p) (annSt m .keyOrObjectEnd nd rn pl)
      (annSt m .keyOrObjectEnd { nd with rules := nd.rules ++ [.inl (r.span p)], ruleVals := nd.ruleVals ++ [some (r.c.vspan p)] }
        (r.span p) pl) := by
  have f1 := nl_fold src m hm .keyOrObjectEnd rfl nd rn pl r.c.b1 p
  have f3 := nl_fold src m hm .valueBegin rfl nd (r.span p) pl r.c.b3 (r.c.nameOff p + r.c.name.length + r.c.n2 + 1)
  have f5 := nl_fold src m hm .keyOrObjectEnd rfl
    { nd with rules := nd.rules ++ [.inl (r.span p)], ruleVals := nd.ruleVals ++ [some (r.c.vspan p)] }
    (r.span p) pl r.c.b4 (r.c.valOff p + r.c.val.length)
  have key : Fold src [⟨.keyB, r.c.nameOff p, r.c.nameOff p⟩, ⟨.keyE, r.c.nameOff p, r.keyEnd p⟩]
      (annSt m .keyOrObjectEnd nd rn pl) (annSt m .valueBegin nd (r.span p) pl) :=
    Fold.cons (st_keyB src m hm nd rn pl _ _) (Fold.one (st_keyE src m hm nd rn pl _ _))
  have mid : Fold src (r.v.openEvs (r.c.valOff p) ++ r.v.closeEvs (r.c.valOff p) (r.c.valOff p + r.c.val.length - 1))
      (annSt m .valueBegin nd (r.span p) pl)
      (annSt m .keyOrObjectEnd { nd with rules := nd.rules ++ [.inl (r.span p)], ruleVals := nd.ruleVals ++ [some (r.c.vspan p)] }
        (r.span p) pl) := by
    cases hvk : r.v with
    | lit =>
      show Fold src [⟨.valB, r.c.valOff p, r.c.valOff p⟩, ⟨.litB, r.c.valOff p, r.c.valOff p⟩,
        ⟨.litE, r.c.valOff p, r.c.valOff p + r.c.val.length - 1⟩, ⟨.valE, r.c.valOff p, r.c.valOff p + r.c.val.length - 1⟩] _ _
      refine Fold.cons (st_valB src m hm nd _ pl _ _) ?_
      cases h : isEmbName src (r.span p) with
      | true =>
        exact Fold.cons (st_value_emb src m hm nd _ pl _ _ h) (Fold.cons
          ((st_emb_litE src m hm _ _ pl _ _).trans (by simp [CRule.vspan]))
          (Fold.one (st_valE src m hm _ _ pl _ _)))
      | false =>
        exact Fold.cons (st_value_plain src m hm nd _ pl _ _ h) (Fold.cons (st_lit_litE src m hm _ _ pl _ _)
          (Fold.one (st_valE src m hm _ _ pl _ _)))
    | list w0 items =>
      have hval := hv.2.2.2.1
      rw [hvk] at hval
      obtain ⟨hve, _, _⟩ := hval
      have h := hemb w0 items hvk
      have g1 := Fold.one (st_valB src m hm nd (r.span p) pl (r.c.valOff p) (r.c.valOff p))
      have g2 := Fold.one (st_value_embC src m hm nd (r.span p) pl (r.c.valOff p) (r.c.valOff p) h)
      have g3 := nl_fold src m hm (.embContainer 1) rfl
        { nd with rules := nd.rules ++ [.inl (r.span p)], ruleVals := nd.ruleVals ++ [none] } (r.span p) pl w0 (r.c.valOff p + 1)
      have g4 := citems_fold src m hm
        { nd with rules := nd.rules ++ [.inl (r.span p)], ruleVals := nd.ruleVals ++ [none] } (r.span p) pl (r.c.valOff p)
        items (r.c.valOff p + 1 + w0.length)
      have g5 := Fold.one (st_valE src m hm
        { nd with rules := nd.rules ++ [.inl (r.span p)],
                  ruleVals := (nd.ruleVals ++ [none]).dropLast ++
                    [some (r.c.valOff p, r.c.valOff p + 1 + w0.length + (renderCItems items).length - 1)] }
        (r.span p) pl (r.c.valOff p) (r.c.valOff p + r.c.val.length - 1))
      refine (Fold.trans g1 (Fold.trans g2 (Fold.trans g3 (Fold.trans g4 g5)))).cast ?_ ?_
      · simp [QV.openEvs, QV.closeEvs]
      · have hl : r.c.val.length = 1 + w0.length + (renderCItems items).length := by
          rw [hve]; simp only [List.length_cons, List.length_append]; omega
        have e : r.c.valOff p + 1 + w0.length + (renderCItems items).length - 1 = r.c.valOff p + r.c.val.length - 1 := by
          omega
        simp only [List.dropLast_concat, CRule.vspan, e]
  refine (Fold.trans f1 (Fold.trans key (Fold.trans f3 (Fold.trans mid f5)))).cast ?_ rfl
  simp [QRule.evs, QRule.openEvs, QRule.closeEvs]

/-! ### the rules, the object, the annotated scalar -/

def embOKRules (src : Array UInt8) : Nat → QRule → List QRule → Prop
  | p, r, [] => embOK src r p
  | p, r, r' :: rs => embOK src r p ∧ embOKRules src (p + r.c.render.length + 1) r' rs

def embOKObj (src : Array UInt8) (o : Nat) : QObj → Prop
  | .empty _ => True
  | .rules r rs _ => embOKRules src (o + 1) r rs

theorem rules_foldQ (src : Array UInt8) (m : Mode) (hm : m ≠ .default) (pl : Nat) (a : Ann) : ∀ (rs : List QRule)
    (r : QRule), SchemaScan.ValidRulesQ a r rs → ∀ (nd : Node) (rn : Nat × Nat) (p : Nat), embOKRules src p r rs →
    ∃ rn', Fold src (rulesEvsQ p r rs) (annSt m .keyOrObjectEnd nd rn pl)
      (annSt m .keyOrObjectEnd (addSpans nd (spansRulesQ p r rs) (vspansRules p r.c (rs.map QRule.c))) rn' pl)
  | [], r, hv, nd, rn, p, he =>
    ⟨r.span p, (rule_foldQ src m hm nd rn pl a r hv.1 p he).cast rfl (by simp [addSpans, spansRulesQ, vspansRules])⟩
  | r' :: rs, r, hv, nd, rn, p, he => by
    obtain ⟨rn', ih⟩ := rules_foldQ src m hm pl a rs r' ⟨hv.2 r' (by simp), fun z hz => hv.2 z (by simp [hz])⟩
      { nd with rules := nd.rules ++ [.inl (r.span p)], ruleVals := nd.ruleVals ++ [some (r.c.vspan p)] }
      (r.span p) (p + r.c.render.length + 1) he.2
    refine ⟨rn', (Fold.trans (rule_foldQ src m hm nd rn pl a r hv.1 p he.1) ih).cast rfl ?_⟩
    rw [addSpans_cons]; rfl

theorem obj_foldQ (src : Array UInt8) (m : Mode) (hm : m ≠ .default) (pl : Nat) (a : Ann) (ob : QObj) (hv : ob.Valid a)
    (o : Nat) (he : embOKObj src o ob) (nd : Node) (rn : Nat × Nat) :
    ∃ rn', Fold src (ob.evs o) (annSt m .keyOrObjectEnd nd rn pl)
      (annSt m .commentTextBegin (addSpans nd (ob.spans o) (ob.c.vspans o)) rn' pl) := by
  cases ob with
  | empty b0 =>
    refine ⟨rn, ?_⟩
    have f1 := nl_fold src m hm .keyOrObjectEnd rfl nd rn pl b0 (o + 1)
    have f2 := Fold.one (st_objE src m hm nd rn pl o (o + 1 + b0.length))
    exact (Fold.trans f1 f2).cast (by simp [QObj.evs])
      (by simp [QObj.spans, QObj.c, CObj.vspans, addSpans])
  | rules r rs tc =>
    obtain ⟨rn', f1⟩ := rules_foldQ src m hm pl a rs r hv.1 nd rn (o + 1) he
    have f2 : Fold src (tcEvs (o + 1 + (SchemaScan.renderRules r.c (rs.map QRule.c)).length) tc)
        (annSt m .keyOrObjectEnd (addSpans nd (spansRulesQ (o + 1) r rs) (vspansRules (o + 1) r.c (rs.map QRule.c))) rn' pl)
        (annSt m .keyOrObjectEnd (addSpans nd (spansRulesQ (o + 1) r rs) (vspansRules (o + 1) r.c (rs.map QRule.c))) rn' pl) := by
      cases tc with
      | none => exact Fold.nil _ _
      | some b5 => exact nl_fold src m hm .keyOrObjectEnd rfl _ rn' pl b5 _
    have f3 := Fold.one (st_objE src m hm
      (addSpans nd (spansRulesQ (o + 1) r rs) (vspansRules (o + 1) r.c (rs.map QRule.c))) rn' pl o
      (o + 1 + (SchemaScan.renderRules r.c (rs.map QRule.c) ++ SchemaScan.renderTc tc).length))
    exact ⟨rn', (Fold.trans f1 (Fold.trans f2 f3)).cast (by simp [QObj.evs])
      (by simp [QObj.spans, QObj.c, CObj.vspans])⟩

/-- **the loader on the events of an annotated scalar** (quoted names, list values): one node, the rules named by the
key-end spans in written order, each with the span of its value -/
theorem annot_foldQ (src : Array UInt8) (a : Ann) (ha : a.isAnn = true) (tok s1 s2 : List Cls) (ob : QObj)
    (hv : ob.Valid a) (he : embOKObj src (SchemaScan.objOff tok s1 s2) ob) (s3 tl : List Cls) :
    ∃ st, Fold src (annEvsQ a tok s1 s2 ob s3 tl) {} st ∧ st.root = some 0 ∧
      st.nodes = #[addSpans { kind := .lit, parent := none, value := some (0, tok.length - 1) }
        (ob.spans (SchemaScan.objOff tok s1 s2)) (ob.c.vspans (SchemaScan.objOff tok s1 s2))] := by
  have hm := @modeOf_ne a
  have f1 : Fold src [⟨.litB, 0, 0⟩, ⟨.litE, 0, tok.length - 1⟩,
      ⟨a.B, SchemaScan.annOff tok s1, SchemaScan.annOff tok s1 + 1⟩] {} _ := st_open src a ha _ _ _
  have f2 := nl_fold src (modeOf a) hm .begin rfl { kind := .lit, parent := none, value := some (0, tok.length - 1) }
    (0, 0) 1 s2 (SchemaScan.annOff tok s1 + 2)
  have f3 := Fold.one (st_objB src (modeOf a) hm { kind := .lit, parent := none, value := some (0, tok.length - 1) }
    (0, 0) 1 (SchemaScan.objOff tok s1 s2) (SchemaScan.objOff tok s1 s2))
  obtain ⟨rn', f4⟩ := obj_foldQ src (modeOf a) hm 1 a ob hv (SchemaScan.objOff tok s1 s2) he
    { kind := .lit, parent := none, value := some (0, tok.length - 1) } (0, 0)
  have f5 := nl_fold src (modeOf a) hm .commentTextBegin rfl
    (addSpans { kind := .lit, parent := none, value := some (0, tok.length - 1) } (ob.spans (SchemaScan.objOff tok s1 s2))
      (ob.c.vspans (SchemaScan.objOff tok s1 s2)))
    rn' 1 s3 (SchemaScan.objOff tok s1 s2 + 1 + ob.c.body.length + 1)
  have htail : ∃ x y rest, tailEvs (SchemaScan.annOff tok s1) (SchemaScan.tailOff tok s1 s2 ob.c s3) a tl
      = ⟨a.E, x, y⟩ :: rest ∧ ∀ e ∈ rest, e.ty = .newLine := by
    cases a with
    | none => simp [Ann.isAnn] at ha
    | multi => exact ⟨_, _, _, rfl, nlEvs_ty _ _⟩
    | inline =>
      cases tl with
      | nil => exact ⟨_, _, [], rfl, by simp⟩
      | cons c w =>
        refine ⟨_, _, _, rfl, ?_⟩
        intro e he
        simp only [List.mem_cons] at he
        rcases he with rfl | he
        · rfl
        · exact nlEvs_ty _ _ e he
  obtain ⟨x, y, rest, hte, hrest⟩ := htail
  have f6 := Fold.one (st_annE src a ha .commentTextBegin
    (addSpans { kind := .lit, parent := none, value := some (0, tok.length - 1) } (ob.spans (SchemaScan.objOff tok s1 s2))
      (ob.c.vspans (SchemaScan.objOff tok s1 s2)))
    rn' 1 x y)
  obtain ⟨st, f7, hn, hr⟩ := nl_fold_default src rest
    { annSt (modeOf a) .commentTextBegin
        (addSpans { kind := .lit, parent := none, value := some (0, tok.length - 1) }
          (ob.spans (SchemaScan.objOff tok s1 s2)) (ob.c.vspans (SchemaScan.objOff tok s1 s2))) rn' 1 with mode := .default }
    hrest rfl
  refine ⟨st, ?_, by rw [hr]; rfl, by rw [hn]; rfl⟩
  have := Fold.trans f1 (Fold.trans f2 (Fold.trans f3 (Fold.trans f4 (Fold.trans f5 (Fold.trans f6 f7)))))
  refine this.cast ?_ rfl
  simp [annEvsQ, hte]

end Loader
