import JSight.Ast
import JSight.Loader
import JSight.RulesFull
import JSight.SchemaRun
/-!
C16 at TEXT level: schema text → AST, as `GetAST()` hands it out.

`astOfText : List UInt8 → Except AErr AstNode` = schema scanner model → loader model (`Loader.loadText`) → the AST
that `Schema.load()` builds from the loaded nodes with `buildASTNode()` (`notations/jschema/jschema.go`), i.e. the
`ASTNode()` methods of `internal/schema/*_node.go`, `astNodeFromNode` / `getASTNodeSchemaType` / `collectASTRules`
(`internal/schema/ast.go`) and the `ASTNode()` methods of the constraints (`internal/schema/constraint/c_*.go`) with
what the constraint constructors keep of the rule value (`NewConstraintFromRule`, the embedded loaders of `enum`,
`or` (type names and rule-sets), `allOf`, the shortcut constraints of `loader/shortcut.go`).

Per node: key + IsKeyShortcut, TokenType, Value, SchemaType (through `Ast.schemaType`), the rules as an ORDERED
list of (name, rule node), the note, the children in source order.

Rule VALUES are re-read from the spans the loader model keeps (`Node.ruleVals`); the values of `enum` / `or` /
`allOf` are re-read from the scanner model's events that lie inside the value's span (the same events the
library's embedded loaders consume).

Contract (tied by the harness command `c16-text`):
* `.ok ast`      — if the real `GetAST()` returns an AST it is `ast` (`GetAST` also runs the later phases
                   CompileBasic … CheckRecursion and withholds the AST when one of them fails; those phases are the
                   subject of `Compile` / C01 / C04 / C08 / C09, not of this model);
* `.error (.err reply)` — scanner / loader error (`ERR code pos`), the real `GetAST()` fails with it;
* `.error (.unsup why)` — nothing is claimed: a rule value a constraint constructor refuses (or may refuse), a rule
                   the model does not read (manual `type` / `or` on a type shortcut), an empty schema.
-/
namespace AstText
open Loader (NK Node St slice trimSpaces nameOf keyText)
open SchemaScan (Ev LexT)

abbrev Bytes := List UInt8

def sb (s : String) : Bytes := s.toUTF8.toList

/-- bytes ↦ `String`, injectively (one character per byte) -/
def keyStr (bs : Bytes) : String := String.ofList (bs.map fun b => Char.ofNat b.toNat)
def strBytes (s : String) : Bytes := s.toList.map fun c => UInt8.ofNat c.toNat

inductive Src | manual | generated
  deriving DecidableEq, Repr

/-- `jschema.RuleASTNode`: TokenType, Value, Comment, Source, Properties (ordered), Items -/
inductive RNode
  | mk (tok : String) (value comment : Bytes) (src : Src) (props : List (Bytes × RNode)) (items : List RNode)

/-- `jschema.ASTNode`: Key, IsKeyShortcut, TokenType, SchemaType, Value, Comment, Rules (ordered), Children -/
inductive AstNode
  | mk (key : Bytes) (isKeyShortcut : Bool) (tok : String) (schemaType value comment : Bytes)
      (rules : List (Bytes × RNode)) (children : List AstNode)

inductive AErr
  | err (reply : String)
  | unsup (why : String)
  deriving Repr

abbrev M := Except AErr

def unsup {α : Type} (why : String) : M α := .error (.unsup why)

/-- `newRuleASTNode(t, v, s)` -/
def leaf (tok : String) (v : Bytes) (s : Src := .manual) : RNode := .mk tok v [] s [] []

/-! ### small readers of rule values (as the constraint constructors read them) -/

def isDigit (c : UInt8) : Bool := 48 ≤ c && c ≤ 57

/-- a decimal numeral `ParseUint` reads back to the same text with `FormatUint` (no leading zero, no overflow) -/
def canonUint (v : Bytes) : Bool :=
  !v.isEmpty && v.all isDigit && v.length ≤ 18 && (v.length == 1 || v.head? != some 48)

def isNameByte (c : UInt8) : Bool :=
  (48 ≤ c && c ≤ 57) || (65 ≤ c && c ≤ 90) || (97 ≤ c && c ≤ 122) || c == 45 || c == 95

/-- `Bytes.IsUserTypeName` -/
def isUserTypeName (b : Bytes) : Bool :=
  match b with
  | 64 :: c :: rest => (c :: rest).all isNameByte
  | _ => false

def unq (b : Bytes) : Bytes := Unquote.unquote b

def uintRules : List Bytes := ["minLength", "maxLength", "minItems", "maxItems", "precision"].map sb
def numRules : List Bytes := ["min", "max"].map sb
def boolRules : List Bytes := ["exclusiveMinimum", "exclusiveMaximum", "optional", "nullable", "const"].map sb

/-- `jschema.IsValidType` -/
def validTypes : List Bytes :=
  ["string", "integer", "float", "decimal", "boolean", "object", "array", "null", "email", "uri", "uuid", "date",
   "datetime", "enum", "mixed", "any", "comment"].map sb

/-- no `\'` escape (the library's `Unquote` reads it, `encoding/json` does not) -/
def noAposEsc : Bytes → Bool
  | [] => true
  | [_] => true
  | c :: d :: rest => if c == 92 then (d != 39 && noAposEsc rest) else noAposEsc (d :: rest)

/-- `NewRegex`: `json.Unmarshal` of the string token -/
def regexVal (v : Bytes) : Option Bytes :=
  if Unquote.inQuotes v && noAposEsc ((v.drop 1).dropLast) then Unquote.body (v.length + 1) ((v.drop 1).dropLast)
  else none

/-- `NewConstraintFromRule(name, v).ASTNode()` for the fifteen rules with a literal value; `v` = the literal token -/
def scalarRule (name v : Bytes) : M RNode :=
  if uintRules.contains name then
    if canonUint v && !(name == sb "precision" && v == sb "0") then pure (leaf "number" v)
    else unsup "value of a count rule"
  else if numRules.contains name then
    match RulesF.number v with
    | some _ => pure (leaf "number" v)
    | none => unsup "value of min / max"
  else if boolRules.contains name then
    if v == RulesF.sTrue || v == RulesF.sFalse then pure (leaf "boolean" v) else unsup "value of a boolean rule"
  else if name == sb "type" then
    let t := unq v
    pure (leaf (if isUserTypeName t then "reference" else "string") t)
  else if name == sb "regex" then
    match regexVal v with
    | some r => pure (leaf "string" r)
    | none => unsup "value of regex"
  else if name == sb "additionalProperties" then
    let t := unq v
    if t == sb "true" || t == sb "false" then pure (leaf "boolean" t)
    else if t == sb "any" || isUserTypeName t || validTypes.contains t then pure (leaf "string" t)
    else unsup "value of additionalProperties"
  else unsup "unknown rule"

/-! ### the values of `enum`, `allOf`, `or`: re-read from the scanner events inside the value's span -/

def tokOf (src : Array UInt8) (e : Ev) : Bytes := slice src e.b e.e

/-- the events the embedded loader of a rule value is fed: those inside the value's span, without new-line events
(`loadEmbeddedValue` drops them) and without the value-begin / value-end pair of the rule itself -/
def embEvs (evs : List Ev) (sp : Nat × Nat) : List Ev :=
  evs.filter fun ev => sp.1 ≤ ev.b && ev.e ≤ sp.2 && ev.ty != .newLine
    && !((ev.ty == .valB || ev.ty == .valE) && ev.b == sp.1)

def kindTok : Rules.Kind → String
  | .i => "number" | .f => "number" | .s => "string" | .b => "boolean" | .n => "null"

def kindName : Rules.Kind → String
  | .i => "integer" | .f => "float" | .s => "string" | .b => "boolean" | .n => "null"

def setComment (c : Bytes) : RNode → RNode
  | .mk t v _ s p i => .mk t v c s p i

/-- `enumValueLoader` behind `[`: items (value, kind) for the duplicate check, the item nodes (reversed), the rest -/
def enumItems (src : Array UInt8) : Nat → List Ev → List (Bytes × Rules.Kind) → List RNode → M (List RNode × List Ev)
  | 0, _, _, _ => unsup "enum: fuel"
  | fuel + 1, evs, seen, acc =>
    match evs with
    | ⟨.arrE, _, _⟩ :: rest => pure (acc.reverse, rest)
    | ⟨.itemB, _, _⟩ :: ⟨.litB, _, _⟩ :: ⟨.litE, b, e⟩ :: ⟨.itemE, _, _⟩ :: rest =>
      match RulesF.enumItem (slice src b e) with
      | none => unsup "enum: item kind"
      | some (v, k) =>
        if seen.contains (v, k) then unsup "enum: duplicate item"
        else enumItems src fuel rest ((v, k) :: seen) (leaf (kindTok k) v :: acc)
    | ⟨.inlAnnB, _, _⟩ :: ⟨.inlTxtB, _, _⟩ :: ⟨.inlTxtE, b, e⟩ :: ⟨.inlAnnE, _, _⟩ :: rest =>
      match acc with
      | [] => enumItems src fuel rest seen acc
      | last :: acc' => enumItems src fuel rest seen (setComment (slice src b e) last :: acc')
    | _ => unsup "enum: value"

/-- the `enum` constraint's AST node from the events of its value; returns the events behind the value -/
def enumValue (src : Array UInt8) (evs : List Ev) : M (RNode × List Ev) :=
  match evs with
  | ⟨.arrB, _, _⟩ :: rest => do
    let (items, rest') ← enumItems src (rest.length + 1) rest [] []
    pure (.mk "array" [] [] .manual [] items, rest')
  | ⟨.mixB, _, _⟩ :: ⟨.tsB, _, _⟩ :: ⟨.tsE, b, e⟩ :: rest =>
    -- `enum: @name`: the named rule must exist (AddRule); its values are not expanded in the AST
    pure (leaf "reference" (trimSpaces (slice src b e)), match rest with | ⟨.mixE, _, _⟩ :: r => r | r => r)
  | _ => unsup "enum: value"

/-- `AllOf.Append` -/
def allOfName (tok : Bytes) : M Bytes :=
  if Unquote.inQuotes tok && isUserTypeName (unq tok) then pure (unq tok) else unsup "allOf: name"

def allOfItems (src : Array UInt8) : List Ev → List Bytes → M (List Bytes)
  | [⟨.arrE, _, _⟩], acc => pure acc.reverse
  | ⟨.itemB, _, _⟩ :: ⟨.litB, _, _⟩ :: ⟨.litE, b, e⟩ :: ⟨.itemE, _, _⟩ :: rest, acc => do
    let n ← allOfName (slice src b e)
    allOfItems src rest (n :: acc)
  | _, _ => unsup "allOf: value"

/-- `AllOf.ASTNode()` -/
def allOfNode (names : List Bytes) : RNode :=
  match names with
  | [n] => leaf "reference" n
  | ns => .mk "array" [] [] .manual [] (ns.map fun n => leaf "reference" n)

def allOfValue (src : Array UInt8) (evs : List Ev) : M RNode :=
  match evs with
  | [⟨.litB, _, _⟩, ⟨.litE, b, e⟩] => do
    let n ← allOfName (slice src b e)
    pure (allOfNode [n])
  | ⟨.arrB, _, _⟩ :: rest => do
    let ns ← allOfItems src rest []
    pure (allOfNode ns)
  | _ => unsup "allOf: value"

/-- schema type names an `or` member may name directly (`typeConstraintForJSONTypes` on the member's own type:
`mixed`, `enum`, `decimal` need companions a bare name does not have) -/
def orTypeNames : List Bytes :=
  ["string", "integer", "float", "boolean", "object", "array", "null", "email", "uri", "uuid", "date", "datetime",
   "any"].map sb

/-- `orValueLoader.literal` -/
def orLiteral (tok : Bytes) : M RNode :=
  if !Unquote.inQuotes tok then unsup "or: item kind"
  else
    let v := unq tok
    if isUserTypeName v then pure (leaf "reference" v)
    else if orTypeNames.contains v then pure (leaf "string" v)
    else unsup "or: type name"

/-- `orRuleSetLoader` behind `{`: the properties (reversed), the rest behind `}` -/
def ruleSetProps (src : Array UInt8) : Nat → List Ev → List (Bytes × RNode) → M (List (Bytes × RNode) × List Ev)
  | 0, _, _ => unsup "or: fuel"
  | fuel + 1, evs, acc =>
    match evs with
    | ⟨.objE, _, _⟩ :: rest => if acc.isEmpty then unsup "or: empty rule-set" else pure (acc.reverse, rest)
    | ⟨.keyB, _, _⟩ :: ⟨.keyE, kb, ke⟩ :: ⟨.valB, _, _⟩ :: rest =>
      let name := nameOf src (kb, ke)
      if acc.any (·.1 == name) then unsup "or: duplicate rule in a rule-set"
      else if name == sb "enum" then
        match enumValue src rest with
        | .error e => .error e
        | .ok (n, rest') =>
          match rest' with
          | ⟨.valE, _, _⟩ :: rest'' => ruleSetProps src fuel rest'' ((name, n) :: acc)
          | _ => unsup "or: rule-set"
      else
        match rest with
        | ⟨.litB, _, _⟩ :: ⟨.litE, b, e⟩ :: ⟨.valE, _, _⟩ :: rest' =>
          match scalarRule name (slice src b e) with
          | .error e => .error e
          | .ok n => ruleSetProps src fuel rest' ((name, n) :: acc)
        | _ => unsup "or: rule-set value"
    | _ => unsup "or: rule-set"

/-- `orValueLoader` behind `[` -/
def orItems (src : Array UInt8) : Nat → List Ev → List RNode → M (List RNode)
  | 0, _, _ => unsup "or: fuel"
  | fuel + 1, evs, acc =>
    match evs with
    | [⟨.arrE, _, _⟩] => if acc.length < 2 then unsup "or: fewer than two members" else pure acc.reverse
    | ⟨.itemB, _, _⟩ :: ⟨.litB, _, _⟩ :: ⟨.litE, b, e⟩ :: ⟨.itemE, _, _⟩ :: rest =>
      match orLiteral (slice src b e) with
      | .error e => .error e
      | .ok n => orItems src fuel rest (n :: acc)
    | ⟨.itemB, _, _⟩ :: ⟨.objB, _, _⟩ :: rest =>
      match ruleSetProps src (rest.length + 1) rest [] with
      | .error e => .error e
      | .ok (props, rest') =>
        match rest' with
        | ⟨.itemE, _, _⟩ :: rest'' => orItems src fuel rest'' (.mk "object" [] [] .manual props [] :: acc)
        | _ => unsup "or: value"
    | _ => unsup "or: value"

/-- `TypesList.ASTNode()` of a manual `or` -/
def orValue (src : Array UInt8) (evs : List Ev) : M RNode :=
  match evs with
  | ⟨.arrB, _, _⟩ :: rest => do
    let items ← orItems src (rest.length + 1) rest []
    pure (.mk "array" [] [] .manual [] items)
  | _ => unsup "or: value"

/-- names of a type shortcut `@a | @b`: `strings.Split(val, "|")`, each `TrimSpace`d -/
def splitPipe (b : Bytes) : List Bytes :=
  let rec go : List UInt8 → Bytes → List Bytes
    | [], cur => [trimSpaces cur.reverse]
    | c :: cs, cur => if c == 124 then trimSpaces cur.reverse :: go cs [] else go cs (c :: cur)
  go b []

/-! ### one rule of a node -/

/-- the rule as the loader model recorded it (name token span or synthesised name; span of the value) ↦
(name, AST node) -/
def ruleAst (src : Array UInt8) (evs : List Ev) (kind : NK) :
    Sum (Nat × Nat) String × Option (Nat × Nat) → M (Bytes × RNode)
  | (.inr s, some sp) =>
    let txt := slice src sp.1 sp.2
    if s == "type" then
      -- `addTypeShortcut`: NewType(TrimSpace(val), generated)
      let t := unq (trimSpaces txt)
      pure (sb "type", leaf (if isUserTypeName t then "reference" else "string") t .generated)
    else if s == "or" then
      -- `addORShortcut`: a generated types list, each name as a `string` item
      pure (sb "or", .mk "array" [] [] .generated [] ((splitPipe txt).map fun n => leaf "string" n .generated))
    else unsup "synthesised rule"
  | (.inr _, none) => unsup "synthesised rule without value"
  | (.inl _, none) => unsup "rule value missing"
  | (.inl nsp, some sp) =>
    let name := nameOf src nsp
    if kind == .mixed && (name == sb "type" || name == sb "or") then unsup "type / or rule on a type shortcut"
    else if name == sb "enum" then do
      let (n, _) ← enumValue src (embEvs evs sp)
      pure (name, n)
    else if name == sb "allOf" then do
      let n ← allOfValue src (embEvs evs sp)
      pure (name, n)
    else if name == sb "or" then do
      let n ← orValue src (embEvs evs sp)
      pure (name, n)
    else do
      let n ← scalarRule name (slice src sp.1 sp.2)
      pure (name, n)

def rulesAst (src : Array UInt8) (evs : List Ev) (kind : NK) :
    List (Sum (Nat × Nat) String × Option (Nat × Nat)) → List (Bytes × RNode) → M (List (Bytes × RNode))
  | [], acc => pure acc.reverse
  | r :: rs, acc =>
    match ruleAst src evs kind r with
    | .error e => .error e
    | .ok (name, n) =>
      -- a second constraint of one type: `AddConstraint` panics (501)
      if acc.any (·.1 == name) then unsup "duplicate rule" else rulesAst src evs kind rs ((name, n) :: acc)

/-- the constraint kinds `getASTNodeSchemaType` looks at, from the rule list of the AST -/
def ckOf (r : Bytes × RNode) : Ast.CK :=
  if r.1 == sb "enum" then .enum
  else if r.1 == sb "or" then .or
  else if r.1 == sb "type" then (match r.2 with | .mk _ v _ _ _ _ => .type (keyStr v))
  else if r.1 == sb "precision" then .precision
  else .other (keyStr r.1)

/-- `getASTNodeSchemaType` -/
def schemaTypeOf (rules : List (Bytes × RNode)) (jsonKind : String) : Bytes :=
  strBytes (Ast.schemaType (rules.map ckOf) (keyStr (sb jsonKind)))

def noteSpan (src : Array UInt8) : Option (Nat × Nat) → Bytes
  | some (b, e) => trimSpaces (slice src b e)
  | none => []

/-- `SetComment(lex.Value().TrimSpaces())` -/
def noteOf (src : Array UInt8) (n : Node) : Bytes := noteSpan src n.comment

def hasPipe (bs : Bytes) : Bool := bs.any (· == 124)

/-- the fields of one node that do not depend on its children: TokenType, SchemaType, Value, Comment, Rules -/
structure Own where
  tok : String
  schemaType : Bytes
  value : Bytes
  comment : Bytes
  rules : List (Bytes × RNode)

/-- `astNodeFromNode` + the node-kind specific part of the `ASTNode()` methods -/
def ownOf (src : Array UInt8) (evs : List Ev) (n : Node) : M Own := do
  let rules ← rulesAst src evs n.kind (n.rules.zip n.ruleVals) []
  if n.rules.length != n.ruleVals.length then unsup "rule table"
  match n.kind with
  | .obj => pure ⟨"object", schemaTypeOf rules "object", [], noteOf src n, rules⟩
  | .arr => pure ⟨"array", schemaTypeOf rules "array", [], noteOf src n, rules⟩
  | .lit =>
    match n.value with
    | none => unsup "literal without value"
    | some (b, e) =>
      let tok := slice src b e
      match RulesF.kindOfTok tok with
      | none => unsup "literal kind"
      | some k => pure ⟨kindTok k, schemaTypeOf rules (kindName k), unq tok, noteOf src n, rules⟩
  | .mixed =>
    match n.value with
    | none => unsup "shortcut without value"
    | some (b, e) =>
      let v := trimSpaces (slice src b e)
      pure ⟨"reference", if hasPipe v then sb "mixed" else v, v, noteOf src n, rules⟩

/-- the AST below node `i`; `key` = what the parent object says about it. Fuel: the table's size bounds the depth. -/
def astAt (src : Array UInt8) (evs : List Ev) (nodes : Array Node) : Nat → Nat → Bytes × Bool → M AstNode
  | 0, _, _ => unsup "depth"
  | fuel + 1, i, key =>
    match nodes[i]? with
    | none => unsup "node index"
    | some n =>
      match ownOf src evs n with
      | .error e => .error e
      | .ok o =>
        let keys : List (Bytes × Bool) :=
          if n.kind == .obj then n.keys.map (keyText src) else n.children.map fun _ => ([], false)
        if keys.length != n.children.length then unsup "keys / children"
        else
          match (n.children.zip keys).mapM (fun ck => astAt src evs nodes fuel ck.1 ck.2) with
          | .error e => .error e
          | .ok kids => pure (.mk key.1 key.2 o.tok o.schemaType o.value o.comment o.rules kids)

/-- the AST of a loaded table -/
def astOfTable (src : Array UInt8) (evs : List Ev) (st : St) : M AstNode :=
  match st.root with
  | none => unsup "empty schema"
  | some r => astAt src evs st.nodes (st.nodes.size + 1) r ([], false)

/-- the scanner model's events of the whole text (used only for the values of `enum` / `or` / `allOf`) -/
def eventsOf (bs : Bytes) : List Ev :=
  match SchemaScan.scanAll bs with
  | .ok evs => evs
  | .error _ => []

/-- **schema text → AST** -/
def astOfText (bs : Bytes) : M AstNode :=
  match Loader.loadText bs with
  | .error e => .error (.err e)
  | .ok st => astOfTable bs.toArray (eventsOf bs) st

end AstText
