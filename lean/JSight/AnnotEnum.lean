import JSight.AnnotDoc
/-!
C18, route B: the schema scanner model on an annotation whose rule object is `{enum: [ literal, … ]}` behind a
top-level scalar — `value blanks // blanks { blanks enum spaces : blanks [ items ] blanks } blanks <tail>` and the
`/* … */` form. Byte classes; the single-byte facts of `dispatch` inside an array inside an annotation, the runs, the
event list `enumAnnEvs`, and `enumAnn_emits`.
-/
namespace SchemaScan

variable {data : Array Cls}

/-! ### single bytes -/

/-- `[` where a rule value is expected -/
theorem aval_arr (f : Nat) (a : Ann) (r : List St)
    (K : List (LexT × Nat)) (i : Nat) (CS : List Ctx) (cx : Ctx) (al : Bool) (p1 p2 : Option Cls) :
    dispatch (f + 1) .objValue (cfgA a .objValue r K false i CS cx al) .lbrack p1 p2
      = .ok { cfgA a .arrItemOrEmpty r K false i (cx :: CS) { ty := .array } al with finds := [.valB, .arrB] } := by
  cases a <;> (unfold dispatch; rfl)

/-- the states of an array that look for the next item -/
def itemSt : St → Bool | .arrItemOrEmpty | .arrItem => true | _ => false

theorem aarr_sp (f : Nat) (a : Ann) (ha : a.isAnn = true) (st : St) (h : itemSt st = true) (c : Cls)
    (hc : c.isSpTab = true) (r : List St)
    (K : List (LexT × Nat)) (i : Nat) (CS : List Ctx) (cx : Ctx) (al : Bool) (p1 p2 : Option Cls) :
    dispatch (f + 1) st (cfgA a st r K false i CS cx al) c p1 p2 = .ok (cfgA a st r K false i CS cx al) := by
  cases a <;> simp [Ann.isAnn] at ha <;> cases st <;> simp [itemSt] at h <;>
    cases c <;> simp [Cls.isSpTab] at hc <;> (unfold dispatch; rfl)

theorem aarr_nl (f : Nat) (st : St) (h : itemSt st = true) (r : List St)
    (K : List (LexT × Nat)) (i : Nat) (CS : List Ctx) (cx : Ctx) (al : Bool) (p1 p2 : Option Cls) :
    dispatch (f + 1) st (cfgA .multi st r K false i CS cx al) .nl p1 p2
      = .ok { cfgA .multi st r K false i CS cx al with finds := [.newLine] } := by
  cases st <;> simp [itemSt] at h <;> (unfold dispatch; rfl)

/-- first byte of an item's literal -/
theorem aitem_start (f : Nat) (a : Ann) (ha : a.isAnn = true) (st : St) (h : itemSt st = true) (c : Cls) (st0 : St)
    (u0 : Bool) (hl : litStart c = some (st0, u0)) (r : List St)
    (K : List (LexT × Nat)) (i : Nat) (CS : List Ctx) (cx : Ctx) (al : Bool) (p1 p2 : Option Cls) :
    dispatch (f + 1) st (cfgA a st r K false i CS cx al) c p1 p2
      = .ok { cfgA a st0 r K u0 i CS cx al with finds := [.itemB, .litB] } := by
  cases a <;> simp [Ann.isAnn] at ha <;> cases st <;> simp [itemSt] at h <;>
    cases c <;> simp [litStart] at hl <;> obtain ⟨rfl, rfl⟩ := hl <;> (unfold dispatch; rfl)

/-- `]` of an empty list -/
theorem aarr_rbrack_empty (f : Nat) (a : Ann) (ha : a.isAnn = true) (r : List St) (x : LexT × Nat)
    (K : List (LexT × Nat)) (i : Nat) (c0 : Ctx) (CS : List Ctx) (cx : Ctx) (al : Bool) (p1 p2 : Option Cls) :
    dispatch (f + 1) .arrItemOrEmpty (cfgA a .arrItemOrEmpty r (x :: K) false i (c0 :: CS) cx al) .rbrack p1 p2
      = .ok { cfgA a .endValue r (x :: K) false i CS c0 al with finds := [.arrE] } := by
  cases a <;> simp [Ann.isAnn] at ha <;> (unfold dispatch; rfl)

/-- `stateEndValue` behind the literal of an item: the literal and the item are closed -/
theorem ev_closeA_item (f : Nat) (a : Ann) (st : St) (r : List St) (b b2 : Nat) (R : List (LexT × Nat)) (i : Nat)
    (CS : List Ctx) (cx : Ctx) (al : Bool) (c : Cls) (p1 p2 : Option Cls) :
    endValue f (cfgA a st r ((.litB, b) :: (.itemB, b2) :: R) false i CS cx al) c p1 p2
      = dispatch f .afterItem
          { cfgA a .afterItem r ((.litB, b) :: (.itemB, b2) :: R) false i CS cx al with finds := [.litE, .itemE] } c p1 p2 := by
  unfold endValue dispatch'; rfl

theorem aaftI_sp (f : Nat) (a : Ann) (c : Cls) (hc : c.isSpTab = true) (r : List St)
    (K : List (LexT × Nat)) (i : Nat) (CS : List Ctx) (cx : Ctx) (al : Bool) (fs : List LexT) (p1 p2 : Option Cls) :
    dispatch (f + 1) .afterItem { cfgA a .afterItem r K false i CS cx al with finds := fs } c p1 p2
      = .ok { cfgA a .afterItem r K false i CS cx al with finds := fs } := by
  cases c <;> simp [Cls.isSpTab] at hc <;> cases a <;> (unfold dispatch; rfl)

theorem aaftI_nl (f : Nat) (r : List St)
    (K : List (LexT × Nat)) (i : Nat) (CS : List Ctx) (cx : Ctx) (al : Bool) (fs : List LexT) (p1 p2 : Option Cls) :
    dispatch (f + 1) .afterItem { cfgA .multi .afterItem r K false i CS cx al with finds := fs } .nl p1 p2
      = .ok { cfgA .multi .afterItem r K false i CS cx al with finds := fs ++ [.newLine] } := by
  unfold dispatch; rfl

theorem aaftI_comma (f : Nat) (a : Ann) (r : List St)
    (K : List (LexT × Nat)) (i : Nat) (CS : List Ctx) (cx : Ctx) (al : Bool) (fs : List LexT) (p1 p2 : Option Cls) :
    dispatch (f + 1) .afterItem { cfgA a .afterItem r K false i CS cx al with finds := fs } .comma p1 p2
      = .ok { cfgA a .arrItem r K false i CS cx al with finds := fs } := by
  cases a <;> (unfold dispatch; rfl)

theorem aaftI_rbrack (f : Nat) (a : Ann) (ha : a.isAnn = true) (r : List St) (x : LexT × Nat)
    (K : List (LexT × Nat)) (i : Nat) (c0 : Ctx) (CS : List Ctx) (cx : Ctx) (al : Bool) (fs : List LexT)
    (p1 p2 : Option Cls) :
    dispatch (f + 1) .afterItem { cfgA a .afterItem r (x :: K) false i (c0 :: CS) cx al with finds := fs } .rbrack p1 p2
      = .ok { cfgA a .endValue r (x :: K) false i CS c0 al with finds := fs ++ [.arrE] } := by
  cases a <;> simp [Ann.isAnn] at ha <;> (unfold dispatch; rfl)

/-- `stateEndValue` behind the closing bracket of a rule value: the value is closed -/
theorem ev_closeA_val (f : Nat) (a : Ann) (r : List St) (b2 : Nat) (R : List (LexT × Nat)) (i : Nat)
    (CS : List Ctx) (cx : Ctx) (al : Bool) (c : Cls) (p1 p2 : Option Cls) :
    endValue f (cfgA a .endValue r ((.valB, b2) :: R) false i CS cx al) c p1 p2
      = dispatch f .afterValue
          { cfgA a .afterValue r ((.valB, b2) :: R) false i CS cx al with finds := [.valE] } c p1 p2 := by
  unfold endValue dispatch'; rfl

/-- `}` directly behind the closing bracket (the value's end still queued) -/
theorem aaft_rbrace_val (f : Nat) (a : Ann) (ha : a.isAnn = true) (r : List St) (b2 o y : Nat)
    (R : List (LexT × Nat)) (i : Nat) (c0 : Ctx) (CS : List Ctx) (cx : Ctx) (al : Bool) (p1 p2 : Option Cls) :
    dispatch (f + 1) .afterValue
        { cfgA a .afterValue r ((.valB, b2) :: (.objB, o) :: (a.B, y) :: R) false i (c0 :: CS) cx al with
          finds := [.valE] } .rbrace p1 p2
      = .ok { cfgA a a.prefixSt r ((.valB, b2) :: (.objB, o) :: (a.B, y) :: R) false i CS c0 al with
          finds := [.valE, .objE] } := by
  cases a <;> simp [Ann.isAnn] at ha <;> (unfold dispatch; rfl)

/-! ### blanks between the items -/

theorem arr_blank_run (a : Ann) (ha : a.isAnn = true) : ∀ (ws : List Cls), ABlank a ws → ∀ (st : St), itemSt st = true →
    ∀ (r : List St) (K : List (LexT × Nat)) (i : Nat) (CS : List Ctx) (cx : Ctx) (al : Bool), At data i ws →
    Steps data (cfgA a st r K false i CS cx al) (nlEvs i ws) (cfgA a st r K false (i + ws.length) CS cx al)
  | [], _, st, _, r, K, i, CS, cx, al, _ => Steps.refl _ _
  | c :: ws, hw, st, hl, r, K, i, CS, cx, al, hat => by
    obtain ⟨hc, hat'⟩ := hat
    rcases okBlank_cases hw.head with hs | ⟨rfl, rfl⟩
    · have ih := arr_blank_run a ha ws hw.tail st hl r K (i + 1) CS cx al hat'
      have h1 : Steps data (cfgA a st r K false i CS cx al) [] (cfgA a st r K false (i + 1) CS cx al) :=
        cfgA_byte hc (fun p1 p2 => aarr_sp 7 a ha st hl c hs r K (i + 1) CS cx al p1 p2) rfl rfl
      have := Steps.trans h1 ih
      simp only [nlEvs, if_neg (sptab_ne_nl hs), List.nil_append, List.length_cons]
      rw [show i + (ws.length + 1) = i + 1 + ws.length by omega]
      exact this
    · have ih := arr_blank_run .multi ha ws hw.tail st hl r K (i + 1) CS cx al hat'
      have h1 : Steps data (cfgA .multi st r K false i CS cx al) [⟨.newLine, i, i⟩]
          (cfgA .multi st r K false (i + 1) CS cx al) :=
        cfgA_byte hc (fun p1 p2 => aarr_nl 7 st hl r K (i + 1) CS cx al p1 p2) rfl rfl
      have := Steps.trans h1 ih
      simp only [nlEvs, if_true, List.length_cons]
      rw [show i + (ws.length + 1) = i + 1 + ws.length by omega]
      exact this

theorem aft_blank_run (a : Ann) (ha : a.isAnn = true) : ∀ (ws : List Cls), ABlank a ws →
    ∀ (r : List St) (K : List (LexT × Nat)) (i : Nat) (CS : List Ctx) (cx : Ctx) (al : Bool), At data i ws →
    Steps data (cfgA a .afterItem r K false i CS cx al) (nlEvs i ws) (cfgA a .afterItem r K false (i + ws.length) CS cx al)
  | [], _, r, K, i, CS, cx, al, _ => Steps.refl _ _
  | c :: ws, hw, r, K, i, CS, cx, al, hat => by
    obtain ⟨hc, hat'⟩ := hat
    rcases okBlank_cases hw.head with hs | ⟨rfl, rfl⟩
    · have ih := aft_blank_run a ha ws hw.tail r K (i + 1) CS cx al hat'
      have h1 : Steps data (cfgA a .afterItem r K false i CS cx al) [] (cfgA a .afterItem r K false (i + 1) CS cx al) :=
        cfgA_byte hc (fun p1 p2 => aaftI_sp 7 a c hs r K (i + 1) CS cx al [] p1 p2) rfl rfl
      have := Steps.trans h1 ih
      simp only [nlEvs, if_neg (sptab_ne_nl hs), List.nil_append, List.length_cons]
      rw [show i + (ws.length + 1) = i + 1 + ws.length by omega]
      exact this
    · have ih := aft_blank_run .multi ha ws hw.tail r K (i + 1) CS cx al hat'
      have h1 : Steps data (cfgA .multi .afterItem r K false i CS cx al) [⟨.newLine, i, i⟩]
          (cfgA .multi .afterItem r K false (i + 1) CS cx al) :=
        cfgA_byte hc (fun p1 p2 => aaftI_nl 7 r K (i + 1) CS cx al [] p1 p2) rfl rfl
      have := Steps.trans h1 ih
      simp only [nlEvs, if_true, List.length_cons]
      rw [show i + (ws.length + 1) = i + 1 + ws.length by omega]
      exact this

/-! ### one item -/

/-- blanks, then the token: up to its last byte -/
theorem item_open (a : Ann) (ha : a.isAnn = true) (w1 tok : List Cls) (hw1 : ABlank a w1) (htok : IsScalar tok)
    {st : St} (hst : itemSt st = true) (x : St) (K : List (LexT × Nat)) (p : Nat) (CS : List Ctx) (cx : Ctx) (al : Bool)
    (hat : At data p (w1 ++ tok)) :
    ∃ stE, PV stE = true ∧
      Steps data (cfgA a st [x] K false p CS cx al)
        (nlEvs p w1 ++ [⟨.itemB, p + w1.length, p + w1.length⟩, ⟨.litB, p + w1.length, p + w1.length⟩])
        (cfgA a stE [x] ((.litB, p + w1.length) :: (.itemB, p + w1.length) :: K) false (p + w1.length + tok.length)
          CS cx al) := by
  obtain ⟨c, tl, st0, unf0, stE, rfl, hs, hr, hp⟩ := htok
  rw [At_append] at hat
  obtain ⟨hat1, hc0, hattl⟩ := hat
  have s1 := arr_blank_run a ha w1 hw1 st hst [x] K p CS cx al hat1
  have s2 : Steps data (cfgA a st [x] K false (p + w1.length) CS cx al)
      [⟨.itemB, p + w1.length, p + w1.length⟩, ⟨.litB, p + w1.length, p + w1.length⟩]
      (cfgA a st0 [x] ((.litB, p + w1.length) :: (.itemB, p + w1.length) :: K) unf0 (p + w1.length + 1) CS cx al) :=
    cfgA_byte hc0 (fun p1 p2 => aitem_start 7 a ha st hst c st0 unf0 hs [x] K _ CS cx al p1 p2) rfl rfl
  have hr' := silentRun_ret tl st0 [] unf0 stE [] false x hr
  have s3 := tok_runA a tl st0 [x] unf0 stE [x] false hr'
    ((.litB, p + w1.length) :: (.itemB, p + w1.length) :: K) (p + w1.length + 1) CS cx al hattl
  refine ⟨stE, hp, (Steps.trans (Steps.trans s1 s2) s3).cast (by simp) (cfgA_congr rfl ?_)⟩
  simp only [List.length_cons]; omega

/-- the byte behind an item's literal is a blank -/
theorem iclose_blank (a : Ann) (ha : a.isAnn = true) {st : St} (hst : PV st = true) (c : Cls) (hc : a.okBlank c = true)
    (x : St) (b b2 : Nat) (K : List (LexT × Nat)) (i : Nat) (CS : List Ctx) (cx : Ctx) (al : Bool)
    (hcat : data[i]? = some c) :
    Steps data (cfgA a st [x] ((.litB, b) :: (.itemB, b2) :: K) false i CS cx al)
      ([⟨.litE, b, i - 1⟩, ⟨.itemE, b2, i - 1⟩] ++ nlEvs i [c])
      (cfgA a .afterItem [x] K false (i + 1) CS cx al) := by
  rcases okBlank_cases hc with hs | ⟨rfl, rfl⟩
  · refine (cfgA_byte hcat (fun p1 p2 =>
      (pv_dispatch 7 st hst c (by cases c <;> simp [Cls.isSpTab] at hs <;> rfl) _ p1 p2).trans
        ((ev_closeA_item 7 a st [x] b b2 K (i + 1) CS cx al c p1 p2).trans
          (aaftI_sp 6 a c hs [x] _ (i + 1) CS cx al _ p1 p2))) rfl rfl).cast ?_ rfl
    show [(⟨LexT.litE, b, i + 1 - 1 - 1⟩ : Ev), ⟨LexT.itemE, b2, i + 1 - 1 - 1⟩] = _
    simp [nlEvs, sptab_ne_nl hs]
  · refine (cfgA_byte hcat (fun p1 p2 =>
      (pv_dispatch 7 st hst .nl rfl _ p1 p2).trans
        ((ev_closeA_item 7 .multi st [x] b b2 K (i + 1) CS cx al .nl p1 p2).trans
          (aaftI_nl 6 [x] _ (i + 1) CS cx al _ p1 p2))) rfl rfl).cast ?_ rfl
    show [(⟨LexT.litE, b, i + 1 - 1 - 1⟩ : Ev), ⟨LexT.itemE, b2, i + 1 - 1 - 1⟩, ⟨LexT.newLine, i + 1 - 1, i + 1 - 1⟩] = _
    simp [nlEvs]

/-- blanks behind an item's literal, then `,` -/
theorem item_close_comma (a : Ann) (ha : a.isAnn = true) {st : St} (hst : PV st = true) (w2 : List Cls)
    (hw2 : ABlank a w2) (x : St) (b b2 : Nat) (K : List (LexT × Nat)) (i : Nat) (CS : List Ctx) (cx : Ctx) (al : Bool)
    (hat : At data i (w2 ++ [Cls.comma])) :
    Steps data (cfgA a st [x] ((.litB, b) :: (.itemB, b2) :: K) false i CS cx al)
      (⟨.litE, b, i - 1⟩ :: ⟨.itemE, b2, i - 1⟩ :: nlEvs i w2)
      (cfgA a .arrItem [x] K false (i + w2.length + 1) CS cx al) := by
  cases w2 with
  | nil =>
    exact cfgA_byte hat.1 (fun p1 p2 =>
      (pv_dispatch 7 st hst .comma rfl _ p1 p2).trans
        ((ev_closeA_item 7 a st [x] b b2 K (i + 1) CS cx al .comma p1 p2).trans
          (aaftI_comma 6 a [x] _ (i + 1) CS cx al _ p1 p2))) rfl rfl
  | cons c w =>
    rw [At_append] at hat
    obtain ⟨⟨hc, hatw⟩, hcomma, _⟩ := hat
    have s1 := iclose_blank a ha hst c hw2.head x b b2 K i CS cx al hc
    have s2 := aft_blank_run a ha w hw2.tail [x] K (i + 1) CS cx al hatw
    have s3 : Steps data (cfgA a .afterItem [x] K false (i + 1 + w.length) CS cx al) []
        (cfgA a .arrItem [x] K false (i + 1 + w.length + 1) CS cx al) :=
      cfgA_byte (by rw [show i + 1 + w.length = i + (w.length + 1) by omega]; exact hcomma)
        (fun p1 p2 => aaftI_comma 7 a [x] K _ CS cx al [] p1 p2) rfl rfl
    refine (Steps.trans (Steps.trans s1 s2) s3).cast ?_ (cfgA_congr rfl ?_)
    · simp [nlEvs]
    · simp only [List.length_cons]; omega

/-- blanks behind the last item's literal, then `]` -/
theorem item_close_rbrack (a : Ann) (ha : a.isAnn = true) {st : St} (hst : PV st = true) (w2 : List Cls)
    (hw2 : ABlank a w2) (x : St) (b b2 v : Nat) (K : List (LexT × Nat)) (i : Nat) (c0 : Ctx) (CS : List Ctx) (cx : Ctx)
    (al : Bool) (hat : At data i (w2 ++ [Cls.rbrack])) :
    Steps data (cfgA a st [x] ((.litB, b) :: (.itemB, b2) :: (.arrB, v) :: K) false i (c0 :: CS) cx al)
      (⟨.litE, b, i - 1⟩ :: ⟨.itemE, b2, i - 1⟩ :: (nlEvs i w2 ++ [⟨.arrE, v, i + w2.length⟩]))
      (cfgA a .endValue [x] K false (i + w2.length + 1) CS c0 al) := by
  cases w2 with
  | nil =>
    exact cfgA_byte hat.1 (fun p1 p2 =>
      (pv_dispatch 7 st hst .rbrack rfl _ p1 p2).trans
        ((ev_closeA_item 7 a st [x] b b2 _ (i + 1) (c0 :: CS) cx al .rbrack p1 p2).trans
          (aaftI_rbrack 6 a ha [x] _ _ (i + 1) c0 CS cx al _ p1 p2))) rfl rfl
  | cons c w =>
    rw [At_append] at hat
    obtain ⟨⟨hc, hatw⟩, hrb, _⟩ := hat
    have s1 := iclose_blank a ha hst c hw2.head x b b2 ((.arrB, v) :: K) i (c0 :: CS) cx al hc
    have s2 := aft_blank_run a ha w hw2.tail [x] ((.arrB, v) :: K) (i + 1) (c0 :: CS) cx al hatw
    have s3 : Steps data (cfgA a .afterItem [x] ((.arrB, v) :: K) false (i + 1 + w.length) (c0 :: CS) cx al)
        [⟨.arrE, v, i + 1 + w.length⟩] (cfgA a .endValue [x] K false (i + 1 + w.length + 1) CS c0 al) :=
      cfgA_byte (by rw [show i + 1 + w.length = i + (w.length + 1) by omega]; exact hrb)
        (fun p1 p2 => aaftI_rbrack 7 a ha [x] (.arrB, v) K _ c0 CS cx al [] p1 p2) rfl rfl
    refine (Steps.trans (Steps.trans s1 s2) s3).cast ?_ (cfgA_congr rfl ?_)
    · simp only [nlEvs, List.length_cons, List.cons_append, List.nil_append, List.append_assoc, List.append_nil]
      rw [show i + (w.length + 1) = i + 1 + w.length by omega]
    · simp only [List.length_cons]; omega

/-! ### the items of the list -/

/-- blanks, token, blanks -/
abbrev CItem := List Cls × List Cls × List Cls

/-- the items with their separating commas, and the closing bracket -/
def renderCItems : List CItem → List Cls
  | [] => [.rbrack]
  | (w1, t, w2) :: its => w1 ++ (t ++ (w2 ++ ((if its.isEmpty then [] else [Cls.comma]) ++ renderCItems its)))

def CItemsValid (a : Ann) (its : List CItem) : Prop :=
  ∀ it ∈ its, ABlank a it.1 ∧ IsScalar it.2.1 ∧ ABlank a it.2.2

/-- events of the items that start at `o`, then the end of the array opened at `v` -/
def citemsEvs (v : Nat) : Nat → List CItem → List Ev
  | o, [] => [⟨.arrE, v, o⟩]
  | o, (w1, t, w2) :: its =>
    nlEvs o w1 ++ (⟨.itemB, o + w1.length, o + w1.length⟩ :: ⟨.litB, o + w1.length, o + w1.length⟩ ::
      ⟨.litE, o + w1.length, o + w1.length + t.length - 1⟩ :: ⟨.itemE, o + w1.length, o + w1.length + t.length - 1⟩ ::
      (nlEvs (o + w1.length + t.length) w2 ++
        citemsEvs v (o + w1.length + t.length + w2.length + (if its.isEmpty then 0 else 1)) its))

theorem citems_run (a : Ann) (ha : a.isAnn = true) (x : St) (v : Nat) (K : List (LexT × Nat)) (c0 : Ctx)
    (CS : List Ctx) (cx : Ctx) (al : Bool) : ∀ (its : List CItem), CItemsValid a its → ∀ {st : St}, itemSt st = true →
    (its = [] → st = .arrItemOrEmpty) → ∀ (o : Nat), At data o (renderCItems its) →
    Steps data (cfgA a st [x] ((.arrB, v) :: K) false o (c0 :: CS) cx al) (citemsEvs v o its)
      (cfgA a .endValue [x] K false (o + (renderCItems its).length) CS c0 al)
  | [], _, st, _, hst, o, hat => by
    rw [hst rfl]
    exact cfgA_byte hat.1 (fun p1 p2 => aarr_rbrack_empty 7 a ha [x] (.arrB, v) K _ c0 CS cx al p1 p2) rfl rfl
  | (w1, t, w2) :: its, hv, st, hst, _, o, hat => by
    obtain ⟨hw1, htk, hw2⟩ : ABlank a w1 ∧ IsScalar t ∧ ABlank a w2 := hv (w1, t, w2) (by simp)
    have hv' : CItemsValid a its := fun z hz => hv z (by simp [hz])
    have e : renderCItems ((w1, t, w2) :: its)
        = (w1 ++ t) ++ ((w2 ++ [if its.isEmpty then Cls.rbrack else Cls.comma]) ++
            (if its.isEmpty then [] else renderCItems its)) := by
      cases its with
      | nil => simp [renderCItems]
      | cons i2 r2 => simp [renderCItems]
    rw [e, At_append] at hat
    obtain ⟨hat1, hat2⟩ := hat
    rw [At_append] at hat2
    obtain ⟨hat2, hat3⟩ := hat2
    obtain ⟨stE, hp, s1⟩ := item_open a ha w1 t hw1 htk hst x ((.arrB, v) :: K) o (c0 :: CS) cx al hat1
    have hl1 : o + (w1 ++ t).length = o + w1.length + t.length := by simp only [List.length_append]; omega
    rw [hl1] at hat2 hat3
    cases its with
    | nil =>
      simp only [List.isEmpty_nil, if_true] at hat2
      have s2 := item_close_rbrack a ha hp w2 hw2 x (o + w1.length) (o + w1.length) v K (o + w1.length + t.length)
        c0 CS cx al hat2
      refine (Steps.trans s1 s2).cast ?_ (cfgA_congr rfl ?_)
      · simp [citemsEvs]
      · simp [renderCItems]; omega
    | cons i2 r2 =>
      simp only [List.isEmpty_cons, Bool.false_eq_true, if_false] at hat2 hat3
      have s2 := item_close_comma a ha hp w2 hw2 x (o + w1.length) (o + w1.length) ((.arrB, v) :: K)
        (o + w1.length + t.length) (c0 :: CS) cx al hat2
      have hl2 : o + w1.length + t.length + (w2 ++ [Cls.comma]).length = o + w1.length + t.length + w2.length + 1 := by
        simp only [List.length_append, List.length_cons, List.length_nil]; omega
      rw [hl2] at hat3
      have s3 := citems_run a ha x v K c0 CS cx al (i2 :: r2) hv' (st := .arrItem) rfl (by intro h; cases h)
        (o + w1.length + t.length + w2.length + 1) hat3
      refine (Steps.trans (Steps.trans s1 s2) s3).cast ?_ (cfgA_congr rfl ?_)
      · simp [citemsEvs, List.append_assoc]
      · simp [renderCItems]; omega

/-! ### the rule `enum: [ … ]` and its object -/

/-- from the place where the rule may start to the state that looks for its value -/
theorem rule_key_run (a : Ann) (ha : a.isAnn = true) (b1 name : List Cls) (n2 : Nat) (b3 : List Cls)
    (hb1 : ABlank a b1) (hname : IsName name) (hb3 : ABlank a b3) {st : St} (hst : keySt st = true)
    (x : St) (K : List (LexT × Nat)) (p : Nat) (CS : List Ctx) (cx : Ctx) (al : Bool)
    (hat : At data p (b1 ++ (name ++ (List.replicate n2 Cls.sp ++ (Cls.colon :: b3))))) :
    Steps data (cfgA a st [x] K false p CS cx al)
      (nlEvs p b1 ++ (⟨.keyB, p + b1.length, p + b1.length⟩ ::
        ⟨.keyE, p + b1.length, p + b1.length + name.length + n2 - 1⟩ ::
        nlEvs (p + b1.length + name.length + n2 + 1) b3))
      (cfgA a .objValue [x] K false (p + b1.length + name.length + n2 + 1 + b3.length) CS cx al) := by
  obtain ⟨hne, hname⟩ := hname
  rw [At_append, At_append, At_append] at hat
  obtain ⟨hat1, hatn, hatsp, hatc⟩ := hat
  obtain ⟨hcolon, hat3⟩ := hatc
  simp only [List.length_replicate] at hcolon hat3
  have s1 := ablank_run a ha b1 hb1 st (keySt_aLoop hst) [x] K p CS cx al hat1
  cases hn : name with
  | nil => exact absurd hn hne
  | cons n0 ns =>
    rw [hn] at hatn hname
    obtain ⟨hn0, hatns⟩ := hatn
    have s2 : Steps data (cfgA a (wsSt st b1) [x] K false (p + b1.length) CS cx al)
        [⟨.keyB, p + b1.length, p + b1.length⟩]
        (cfgA a .annKey [x] ((.keyB, p + b1.length) :: K) false (p + b1.length + 1) CS cx al) :=
      cfgA_byte hn0 (fun p1 p2 => akey_first 7 a ha _ (keySt_wsSt hst b1) n0 (hname n0 (by simp)) [x] K
        (p + b1.length + 1) CS cx al p1 p2) rfl rfl
    have s3 := name_run a ns (fun c hc => hname c (by simp [hc])) [x] ((.keyB, p + b1.length) :: K)
      (p + b1.length + 1) CS cx al hatns
    have s4 : Steps data (cfgA a .annKey [x] ((.keyB, p + b1.length) :: K) false (p + b1.length + 1 + ns.length) CS cx al)
        [⟨.keyE, p + b1.length, p + b1.length + (ns.length + 1) + n2 - 1⟩]
        (cfgA a .objValue [x] K false (p + b1.length + (ns.length + 1) + n2 + 1) CS cx al) := by
      simp only [hn, List.length_cons] at hatsp hcolon
      cases h2 : n2 with
      | zero =>
        rw [h2] at hcolon
        have hc' : data[p + b1.length + 1 + ns.length]? = some .colon := by
          rw [show p + b1.length + 1 + ns.length = p + b1.length + (ns.length + 1) + 0 by omega]; exact hcolon
        refine (cfgA_byte hc' (fun p1 p2 => annKey_colon 5 a .annKey rfl [x] (p + b1.length) K _ CS cx al p1 p2)
          rfl rfl).cast ?_ (cfgA_congr rfl ?_)
        · show [(⟨LexT.keyE, p + b1.length, p + b1.length + 1 + ns.length + 1 - 1 - 1⟩ : Ev)] = _
          rw [show p + b1.length + 1 + ns.length + 1 - 1 - 1 = p + b1.length + (ns.length + 1) + 0 - 1 by omega]
        · show p + b1.length + 1 + ns.length + 1 = _
          omega
      | succ m =>
        rw [h2] at hatsp hcolon
        obtain ⟨hsp0, hsps⟩ := replicate_sp_at hatsp
        have hsp0' : data[p + b1.length + 1 + ns.length]? = some .sp := by
          rw [show p + b1.length + 1 + ns.length = p + b1.length + (ns.length + 1) by omega]; exact hsp0
        have t1 : Steps data (cfgA a .annKey [x] ((.keyB, p + b1.length) :: K) false
            (p + b1.length + 1 + ns.length) CS cx al) []
            (cfgA a .annKeyAfter [x] ((.keyB, p + b1.length) :: K) false (p + b1.length + 1 + ns.length + 1) CS cx al) :=
          cfgA_byte hsp0' (fun p1 p2 => annKey_sp 7 a [x] _ _ CS cx al p1 p2) rfl rfl
        have t2 := spaces_run a m [x] ((.keyB, p + b1.length) :: K) (p + b1.length + 1 + ns.length + 1) CS cx al
          (by rw [show p + b1.length + 1 + ns.length + 1 = p + b1.length + (ns.length + 1) + 1 by omega]; exact hsps)
        have hc' : data[p + b1.length + 1 + ns.length + 1 + m]? = some .colon := by
          rw [show p + b1.length + 1 + ns.length + 1 + m = p + b1.length + (ns.length + 1) + (m + 1) by omega]
          exact hcolon
        have t3 := cfgA_byte (a := a) (st := .annKeyAfter) (r := [x]) (K := (.keyB, p + b1.length) :: K) (u := false)
          (CS := CS) (cx := cx) (al := al) hc'
          (fun p1 p2 => annKey_colon 5 a .annKeyAfter rfl [x] (p + b1.length) K _ CS cx al p1 p2) rfl rfl
        refine (Steps.trans (Steps.trans t1 t2) t3).cast ?_ (cfgA_congr rfl ?_)
        · show [(⟨LexT.keyE, p + b1.length, p + b1.length + 1 + ns.length + 1 + m + 1 - 1 - 1⟩ : Ev)] = _
          rw [show p + b1.length + 1 + ns.length + 1 + m + 1 - 1 - 1 = p + b1.length + (ns.length + 1) + (m + 1) - 1 by omega]
        · show p + b1.length + 1 + ns.length + 1 + m + 1 = _
          omega
    simp only [hn, List.length_cons] at hat3
    have s5 := ablank_run a ha b3 hb3 .objValue rfl [x] K (p + b1.length + (ns.length + 1) + n2 + 1) CS cx al hat3
    rw [wsSt_eq (by simp)] at s5
    refine (Steps.trans (Steps.trans (Steps.trans (Steps.trans s1 s2) s3) s4) s5).cast ?_ (cfgA_congr rfl ?_)
    · simp [List.length_cons]
    · simp only [List.length_cons]

/-- blanks behind the closing bracket of the list, then `}` -/
theorem arr_close_rbrace (a : Ann) (ha : a.isAnn = true) (b4 : List Cls) (hb4 : ABlank a b4) (x : St) (v o y : Nat)
    (R : List (LexT × Nat)) (i : Nat) (c0 : Ctx) (CS : List Ctx) (cx : Ctx) (al : Bool)
    (hat : At data i (b4 ++ [Cls.rbrace])) :
    Steps data (cfgA a .endValue [x] ((.valB, v) :: (.objB, o) :: (a.B, y) :: R) false i (c0 :: CS) cx al)
      (⟨.valE, v, i - 1⟩ :: (nlEvs i b4 ++ [⟨.objE, o, i + b4.length⟩]))
      (cfgA a a.prefixSt [x] ((a.B, y) :: R) false (i + b4.length + 1) CS c0 al) := by
  cases b4 with
  | nil =>
    exact cfgA_byte hat.1 (fun p1 p2 =>
      (pv_dispatch 7 .endValue rfl .rbrace rfl _ p1 p2).trans
        ((ev_closeA_val 7 a [x] v _ (i + 1) (c0 :: CS) cx al .rbrace p1 p2).trans
          (aaft_rbrace_val 6 a ha [x] v o y R (i + 1) c0 CS cx al p1 p2))) rfl rfl
  | cons c w =>
    rw [At_append] at hat
    obtain ⟨⟨hc, hatw⟩, hrb, _⟩ := hat
    have s1 : Steps data (cfgA a .endValue [x] ((.valB, v) :: (.objB, o) :: (a.B, y) :: R) false i (c0 :: CS) cx al)
        ([⟨.valE, v, i - 1⟩] ++ nlEvs i [c])
        (cfgA a .afterValue [x] ((.objB, o) :: (a.B, y) :: R) false (i + 1) (c0 :: CS) cx al) := by
      rcases okBlank_cases hb4.head with hs | ⟨rfl, rfl⟩
      · refine (cfgA_byte hc (fun p1 p2 =>
          (pv_dispatch 7 .endValue rfl c (by cases c <;> simp [Cls.isSpTab] at hs <;> rfl) _ p1 p2).trans
            ((ev_closeA_val 7 a [x] v _ (i + 1) (c0 :: CS) cx al c p1 p2).trans
              (aaft_sp 6 a c hs [x] _ (i + 1) (c0 :: CS) cx al _ p1 p2))) rfl rfl).cast ?_ rfl
        show [(⟨LexT.valE, v, i + 1 - 1 - 1⟩ : Ev)] = _
        simp [nlEvs, sptab_ne_nl hs]
      · refine (cfgA_byte hc (fun p1 p2 =>
          (pv_dispatch 7 .endValue rfl .nl rfl _ p1 p2).trans
            ((ev_closeA_val 7 .multi [x] v _ (i + 1) (c0 :: CS) cx al .nl p1 p2).trans
              (aaft_nl 6 [x] _ (i + 1) (c0 :: CS) cx al _ p1 p2))) rfl rfl).cast ?_ rfl
        show [(⟨LexT.valE, v, i + 1 - 1 - 1⟩ : Ev), ⟨LexT.newLine, i + 1 - 1, i + 1 - 1⟩] = _
        simp [nlEvs]
    have s2 := ablank_run a ha w hb4.tail .afterValue rfl [x] ((.objB, o) :: (a.B, y) :: R) (i + 1) (c0 :: CS) cx al hatw
    rw [wsSt_eq (by simp)] at s2
    have s3 : Steps data (cfgA a .afterValue [x] ((.objB, o) :: (a.B, y) :: R) false (i + 1 + w.length) (c0 :: CS) cx al)
        [⟨.objE, o, i + 1 + w.length⟩] (cfgA a a.prefixSt [x] ((a.B, y) :: R) false (i + 1 + w.length + 1) CS c0 al) :=
      cfgA_byte (by rw [show i + 1 + w.length = i + (w.length + 1) by omega]; exact hrb)
        (fun p1 p2 => aobj_rbrace 7 a ha .afterValue (Or.inr rfl) [x] o y R _ c0 CS cx al p1 p2) rfl rfl
    refine (Steps.trans (Steps.trans s1 s2) s3).cast ?_ (cfgA_congr rfl ?_)
    · simp only [nlEvs, List.length_cons, List.cons_append, List.nil_append, List.append_assoc, List.append_nil]
      rw [show i + (w.length + 1) = i + 1 + w.length by omega]
    · simp only [List.length_cons]; omega

/-- the rule object `{ b1 name n2 : b3 [ w0 items ] b4 }` -/
structure EObj where
  b1 : List Cls
  name : List Cls
  n2 : Nat
  b3 : List Cls
  w0 : List Cls
  items : List CItem
  b4 : List Cls

def EObj.Valid (a : Ann) (e : EObj) : Prop :=
  ABlank a e.b1 ∧ IsName e.name ∧ ABlank a e.b3 ∧ ABlank a e.w0 ∧ CItemsValid a e.items ∧ ABlank a e.b4

/-- the text between `{` and `}` -/
def EObj.body (e : EObj) : List Cls :=
  e.b1 ++ (e.name ++ (List.replicate e.n2 Cls.sp ++ (Cls.colon :: (e.b3 ++ (Cls.lbrack :: (e.w0 ++
    (renderCItems e.items ++ e.b4)))))))

/-- offset of `[` for an object whose `{` stands at `o` -/
def EObj.arrOff (e : EObj) (o : Nat) : Nat := o + 1 + e.b1.length + e.name.length + e.n2 + 1 + e.b3.length

/-- the events of the object whose `{` stands at `o` (behind the object-begin event) -/
def EObj.evs (e : EObj) (o : Nat) : List Ev :=
  nlEvs (o + 1) e.b1 ++ (⟨.keyB, o + 1 + e.b1.length, o + 1 + e.b1.length⟩ ::
    ⟨.keyE, o + 1 + e.b1.length, o + 1 + e.b1.length + e.name.length + e.n2 - 1⟩ ::
    (nlEvs (o + 1 + e.b1.length + e.name.length + e.n2 + 1) e.b3 ++
      (⟨.valB, e.arrOff o, e.arrOff o⟩ :: ⟨.arrB, e.arrOff o, e.arrOff o⟩ ::
        (nlEvs (e.arrOff o + 1) e.w0 ++ (citemsEvs (e.arrOff o) (e.arrOff o + 1 + e.w0.length) e.items ++
          (⟨.valE, e.arrOff o, e.arrOff o + 1 + e.w0.length + (renderCItems e.items).length - 1⟩ ::
            (nlEvs (e.arrOff o + 1 + e.w0.length + (renderCItems e.items).length) e.b4 ++
              [⟨.objE, o, o + 1 + e.body.length⟩])))))))

theorem EObj.body_length (e : EObj) :
    e.body.length = e.b1.length + e.name.length + e.n2 + 1 + e.b3.length + 1 + e.w0.length
      + (renderCItems e.items).length + e.b4.length := by
  simp only [EObj.body, List.length_append, List.length_cons, List.length_replicate]; omega

/-- the rule object from behind its `{` to behind its `}` -/
theorem eobj_run (a : Ann) (ha : a.isAnn = true) (e : EObj) (hv : e.Valid a)
    (x : St) (o y : Nat) (R : List (LexT × Nat)) (c0 : Ctx) (CS : List Ctx) (cx : Ctx) (al : Bool)
    (hat : At data (o + 1) (e.body ++ [Cls.rbrace])) :
    Steps data (cfgA a .objKeyOrEmpty [x] ((.objB, o) :: (a.B, y) :: R) false (o + 1) (c0 :: CS) cx al) (e.evs o)
      (cfgA a a.prefixSt [x] ((a.B, y) :: R) false (o + 1 + e.body.length + 1) CS c0 al) := by
  obtain ⟨hb1, hname, hb3, hw0, hits, hb4⟩ := hv
  have esplit : e.body ++ [Cls.rbrace]
      = (e.b1 ++ (e.name ++ (List.replicate e.n2 Cls.sp ++ (Cls.colon :: e.b3)))) ++
          (Cls.lbrack :: (e.w0 ++ (renderCItems e.items ++ (e.b4 ++ [Cls.rbrace])))) := by
    simp [EObj.body]
  rw [esplit, At_append] at hat
  obtain ⟨hat1, hlb, hat2⟩ := hat
  have hl1 : o + 1 + (e.b1 ++ (e.name ++ (List.replicate e.n2 Cls.sp ++ (Cls.colon :: e.b3)))).length = e.arrOff o := by
    simp only [EObj.arrOff, List.length_append, List.length_cons, List.length_replicate]; omega
  rw [hl1] at hlb hat2
  rw [At_append] at hat2
  obtain ⟨hatw0, hat3⟩ := hat2
  rw [At_append] at hat3
  obtain ⟨hatits, hatb4⟩ := hat3
  have s1 := rule_key_run a ha e.b1 e.name e.n2 e.b3 hb1 hname hb3 (st := .objKeyOrEmpty) rfl x
    ((.objB, o) :: (a.B, y) :: R) (o + 1) (c0 :: CS) cx al hat1
  have hoff : o + 1 + e.b1.length + e.name.length + e.n2 + 1 + e.b3.length = e.arrOff o := rfl
  rw [hoff] at s1
  have s2 : Steps data (cfgA a .objValue [x] ((.objB, o) :: (a.B, y) :: R) false (e.arrOff o) (c0 :: CS) cx al)
      [⟨.valB, e.arrOff o, e.arrOff o⟩, ⟨.arrB, e.arrOff o, e.arrOff o⟩]
      (cfgA a .arrItemOrEmpty [x] ((.arrB, e.arrOff o) :: (.valB, e.arrOff o) :: (.objB, o) :: (a.B, y) :: R) false
        (e.arrOff o + 1) (cx :: c0 :: CS) { ty := .array } al) :=
    cfgA_byte hlb (fun p1 p2 => aval_arr 7 a [x] _ (e.arrOff o + 1) (c0 :: CS) cx al p1 p2) rfl rfl
  have s3 := arr_blank_run a ha e.w0 hw0 .arrItemOrEmpty rfl [x]
    ((.arrB, e.arrOff o) :: (.valB, e.arrOff o) :: (.objB, o) :: (a.B, y) :: R) (e.arrOff o + 1) (cx :: c0 :: CS)
    { ty := .array } al hatw0
  have s4 := citems_run a ha x (e.arrOff o) ((.valB, e.arrOff o) :: (.objB, o) :: (a.B, y) :: R) cx (c0 :: CS)
    { ty := .array } al e.items hits (st := .arrItemOrEmpty) rfl (fun _ => rfl) (e.arrOff o + 1 + e.w0.length) hatits
  have s5 := arr_close_rbrace a ha e.b4 hb4 x (e.arrOff o) o y R
    (e.arrOff o + 1 + e.w0.length + (renderCItems e.items).length) c0 CS cx al hatb4
  refine (Steps.trans (Steps.trans (Steps.trans (Steps.trans s1 s2) s3) s4) s5).cast ?_ (cfgA_congr rfl ?_)
  · simp only [EObj.evs, List.append_assoc, List.cons_append, List.nil_append]
    have hE : e.arrOff o + 1 + e.w0.length + (renderCItems e.items).length + e.b4.length = o + 1 + e.body.length := by
      rw [EObj.body_length]; unfold EObj.arrOff; omega
    rw [hE]
  · simp only [EObj.body_length]; unfold EObj.arrOff; omega

/-! ### the whole text -/

/-- the text of a top-level scalar annotated with `{enum: [ … ]}` -/
def enumAnnText (a : Ann) (tok s1 s2 : List Cls) (e : EObj) (s3 tl : List Cls) : List Cls :=
  tok ++ (s1 ++ (Cls.slash :: a.mark :: (s2 ++ (Cls.lbrace :: (e.body ++ (Cls.rbrace :: (s3 ++ tl)))))))

/-- its events -/
def enumAnnEvs (a : Ann) (tok s1 s2 : List Cls) (e : EObj) (s3 tl : List Cls) : List Ev :=
  ⟨.litB, 0, 0⟩ :: ⟨.litE, 0, tok.length - 1⟩ :: ⟨a.B, annOff tok s1, annOff tok s1 + 1⟩ ::
    (nlEvs (annOff tok s1 + 2) s2 ++ (⟨.objB, objOff tok s1 s2, objOff tok s1 s2⟩ ::
      (e.evs (objOff tok s1 s2) ++ (nlEvs (objOff tok s1 s2 + 1 + e.body.length + 1) s3 ++
        tailEvs (annOff tok s1) (objOff tok s1 s2 + 1 + e.body.length + 1 + s3.length) a tl))))

/-- **the events of a top-level scalar annotated with an inline enum list**, inline (`a = .inline`) or multi-line -/
theorem enumAnn_emits (a : Ann) (ha : a.isAnn = true) (tok : List Cls) (htok : IsScalar tok) (s1 : List Cls)
    (hs1 : IsSpTabs s1) (s2 : List Cls) (hs2 : ABlank a s2) (e : EObj) (he : e.Valid a) (s3 : List Cls)
    (hs3 : ABlank a s3) (tl : List Cls) (htl : ATail a tl) :
    Emits (enumAnnText a tok s1 s2 e s3 tl).toArray {} (enumAnnEvs a tok s1 s2 e s3 tl) := by
  obtain ⟨D, hD⟩ : ∃ D, D = (enumAnnText a tok s1 s2 e s3 tl).toArray := ⟨_, rfl⟩
  rw [← hD]
  have hsize : D.size = (enumAnnText a tok s1 s2 e s3 tl).length := by rw [hD]; simp
  have hat : At D 0 (enumAnnText a tok s1 s2 e s3 tl) := hD ▸ At_toArray _ [] _ rfl
  have e0 : enumAnnText a tok s1 s2 e s3 tl
      = (tok ++ (s1 ++ [Cls.slash, a.mark])) ++ (s2 ++ (Cls.lbrace :: ((e.body ++ [Cls.rbrace]) ++ (s3 ++ tl)))) := by
    simp [enumAnnText]
  rw [e0, At_append] at hat
  obtain ⟨hat1, hat2⟩ := hat
  have hlen : (tok ++ (s1 ++ [Cls.slash, a.mark])).length = annOff tok s1 + 2 := by
    simp only [annOff, List.length_append, List.length_cons, List.length_nil]; omega
  rw [hlen, Nat.zero_add, At_append] at hat2
  obtain ⟨hats2, hlb, hat3⟩ := hat2
  rw [At_append] at hat3
  obtain ⟨hatob, hat4⟩ := hat3
  rw [At_append] at hat4
  obtain ⟨hats3, hattl⟩ := hat4
  have r1 := ann_open_run a ha tok htok s1 hs1 hat1
  have r2 := ablank_run a ha s2 hs2 a.startSt (by cases a <;> simp [Ann.isAnn] at ha <;> rfl) [.endTop]
    [(a.B, annOff tok s1)] (annOff tok s1 + 2) [] { ty := .initial } true hats2
  rw [wsSt_eq (by cases a <;> simp [Ann.startSt])] at r2
  have r3 : Steps D
      (cfgA a a.startSt [.endTop] [(a.B, annOff tok s1)] false (annOff tok s1 + 2 + s2.length) [] { ty := .initial } true)
      [⟨.objB, annOff tok s1 + 2 + s2.length, annOff tok s1 + 2 + s2.length⟩]
      (cfgA a .objKeyOrEmpty [.endTop] [(.objB, annOff tok s1 + 2 + s2.length), (a.B, annOff tok s1)] false
        (annOff tok s1 + 2 + s2.length + 1) [{ ty := .initial }] { ty := .object } true) :=
    cfgA_byte hlb (fun p1 p2 => ann_lbrace 6 a ha [.endTop] _ _ [] _ true p1 p2) rfl rfl
  have r4 := eobj_run a ha e he .endTop (annOff tok s1 + 2 + s2.length) (annOff tok s1) [] { ty := .initial } []
    { ty := .object } true hatob
  have hl2 : annOff tok s1 + 2 + s2.length + 1 + (e.body ++ [Cls.rbrace]).length
      = annOff tok s1 + 2 + s2.length + 1 + e.body.length + 1 := by
    simp only [List.length_append, List.length_cons, List.length_nil]; omega
  rw [hl2] at hats3 hattl
  have r5 := ablank_run a ha s3 hs3 a.prefixSt (by cases a <;> simp [Ann.isAnn] at ha <;> rfl) [.endTop]
    [(a.B, annOff tok s1)] (annOff tok s1 + 2 + s2.length + 1 + e.body.length + 1) [] { ty := .initial } true hats3
  rw [wsSt_eq (by cases a <;> simp [Ann.prefixSt])] at r5
  have r6 := atail_run a tl htl (annOff tok s1) (annOff tok s1 + 2 + s2.length + 1 + e.body.length + 1 + s3.length)
    [] { ty := .initial } true hattl
    (by
      rw [hsize]
      simp only [enumAnnText, annOff, List.length_append, List.length_cons]
      omega)
  have := (Steps.trans (Steps.trans (Steps.trans (Steps.trans r1 r2) r3) r4) r5).emits r6
  simpa [enumAnnEvs, objOff, annOff, Nat.add_assoc] using this

end SchemaScan
