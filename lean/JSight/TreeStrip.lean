import JSight.TreeEvents
/-! JSON values without layout (`JT`), `strip`, and the event types a value denotes. -/
namespace JsonScan

/-- JSON values without layout -/
inductive JT
  | scalar (tok : List Cls)
  | arr (items : List JT)
  | obj (members : List (List Cls × JT))

mutual
def strip : JA → JT
  | .scalar tok => .scalar tok
  | .arr _ items => .arr (stripItems items)
  | .obj _ members => .obj (stripMembers members)
def stripItems : List (List Cls × JA × List Cls) → List JT
  | [] => []
  | (_, v, _) :: its => strip v :: stripItems its
def stripMembers : List (List Cls × List Cls × List Cls × List Cls × JA × List Cls) → List (List Cls × JT)
  | [] => []
  | (_, k, _, _, v, _) :: ms => (k, strip v) :: stripMembers ms
end

mutual
/-- the event types a value denotes -/
def tys : JT → List LexT
  | .scalar _ => [.litB, .litE]
  | .arr its => .arrB :: tysItems its
  | .obj ms => .objB :: tysMembers ms
def tysItems : List JT → List LexT
  | [] => [.arrE]
  | v :: its => .itemB :: (tys v ++ .itemE :: tysItems its)
def tysMembers : List (List Cls × JT) → List LexT
  | [] => [.objE]
  | (_, v) :: ms => .keyB :: .keyE :: .valB :: (tys v ++ .valE :: tysMembers ms)
end

mutual
theorem evs_types : (o : Nat) → (v : JA) → (evsAt o v).map (·.ty) = tys (strip v)
  | o, .scalar tok => by simp [evsAt, strip, tys]
  | o, .arr ws0 items => by simp [evsAt, strip, tys, evsItems_types o (o + 1 + ws0.length) items]
  | o, .obj ws0 members => by simp [evsAt, strip, tys, evsMembers_types o (o + 1 + ws0.length) members]
theorem evsItems_types : (a o : Nat) → (its : List (List Cls × JA × List Cls)) →
    (evsItems a o its).map (·.ty) = tysItems (stripItems its)
  | a, o, [] => by simp [evsItems, stripItems, tysItems]
  | a, o, (w1, v, w2) :: its => by
    simp only [evsItems, stripItems, tysItems, List.map_cons, List.map_append, evs_types (o + w1.length) v]
    rw [evsItems_types a _ its]
theorem evsMembers_types : (a o : Nat) → (ms : List (List Cls × List Cls × List Cls × List Cls × JA × List Cls)) →
    (evsMembers a o ms).map (·.ty) = tysMembers (stripMembers ms)
  | a, o, [] => by simp [evsMembers, stripMembers, tysMembers]
  | a, o, (w1, k, w2, w3, v, w4) :: ms => by
    simp only [evsMembers, stripMembers, tysMembers, List.map_cons, List.map_append,
      evs_types (o + w1.length + k.length + w2.length + 1 + w3.length) v]
    rw [evsMembers_types a _ ms]
end

end JsonScan
