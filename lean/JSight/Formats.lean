/-! C02 prototype: the two string formats the library implements itself or through a fixed layout:
`uuid` (in-repo parser) and `date` (`time.Parse("2006-01-02")`). -/
namespace Formats

def isHexB (c : UInt8) : Bool := (48 ≤ c && c ≤ 57) || (65 ≤ c && c ≤ 70) || (97 ≤ c && c ≤ 102)
def lowerB (c : UInt8) : UInt8 := if 65 ≤ c && c ≤ 90 then c + 32 else c

def byteAt (b : List UInt8) (i : Nat) : UInt8 := b.getD i 0

/-- xxxxxxxx-xxxx-xxxx-xxxx-xxxxxxxxxxxx at the start of `b` (anything may follow) -/
def stdForm (b : List UInt8) : Bool :=
  byteAt b 8 == 45 && byteAt b 13 == 45 && byteAt b 18 == 45 && byteAt b 23 == 45 &&
  [0, 2, 4, 6, 9, 11, 14, 16, 19, 21, 24, 26, 28, 30, 32, 34].all (fun x => isHexB (byteAt b x) && isHexB (byteAt b (x + 1)))

def uuidOK (b : List UInt8) : Bool :=
  if b.length == 36 then stdForm b
  else if b.length == 45 then (b.take 9).map lowerB == "urn:uuid:".toUTF8.toList && stdForm (b.drop 9)
  else if b.length == 38 then byteAt b 0 == 123 && byteAt b 37 == 125 && stdForm (b.drop 1)
  else if b.length == 32 then b.all isHexB
  else false

def isDig (c : UInt8) : Bool := 48 ≤ c && c ≤ 57
def dig (c : UInt8) : Nat := c.toNat - 48
def isLeap (y : Nat) : Bool := y % 4 == 0 && (y % 100 != 0 || y % 400 == 0)
def daysIn (m y : Nat) : Nat :=
  if m == 2 then (if isLeap y then 29 else 28)
  else if m == 4 || m == 6 || m == 9 || m == 11 then 30 else 31

/-- `time.Parse("2006-01-02", s)` succeeds -/
def dateOK (b : List UInt8) : Bool :=
  b.length == 10 &&
  [0, 1, 2, 3, 5, 6, 8, 9].all (fun i => isDig (byteAt b i)) && byteAt b 4 == 45 && byteAt b 7 == 45 &&
  (let y := dig (byteAt b 0) * 1000 + dig (byteAt b 1) * 100 + dig (byteAt b 2) * 10 + dig (byteAt b 3)
   let m := dig (byteAt b 5) * 10 + dig (byteAt b 6)
   let d := dig (byteAt b 8) * 10 + dig (byteAt b 9)
   1 ≤ m && m ≤ 12 && 1 ≤ d && d ≤ daysIn m y)

end Formats
