import JSight.ATreeThm
import JSight.KeysInd5
/-! C15 / C13, raw keys: `tree_loads_keys` — the text of a well-formed annotated tree loads into the table the tree denotes WITH ITS KEY TOKENS (`ATree.tableK`). -/
namespace AT.K
open SchemaScan (Cls classify Ev LexT St Ctx CK VCtx PV wsLoop cmtLoop nlSt nlAl keySt keyAl closersOf)
open SchemaScan.Len (ATok Tok TC arun astep aslot slotStep closePV noML isObjKey nlStep mlSlot pendOfK annLoop cxA endStOf
  renderAToks Complete endClosers)
open Loader (XNode xfresh Fold NK)
open Loader.K (LS dec)

mutual
theorem value_all : (v : ATree) → ValueStmt v
  | .scalar tok an => value_scalar tok an
  | .arr an its => value_arr an its (items_all its)
  | .obj an ms => value_obj an ms (members_all ms)
theorem items_all : (its : AItems) → ItemsStmt its
  | .nil g => items_nil g
  | .cons g1 v g2 c rest => items_cons g1 v g2 c rest (value_all v) (items_all rest)
theorem members_all : (ms : AMembers) → MembersStmt ms
  | .nil g => members_nil g
  | .cons g1 k g2 g3 v g4 c rest => members_cons g1 k g2 g3 v g4 c rest (value_all v) (members_all rest)
end


theorem loads_root (i : Nat) (e : Ev) (k : NK) (hp : Loader.plainTy e.ty = true) (he : Loader.kindOfLex e.ty = some k)
    (last : Option Nat) (pl : Nat) (root : Option Nat) :
    Loads i [] [e] ⟨[], none, last, pl, root⟩ ⟨[xfresh k none], some 0, some 0, pl + 1, some 0⟩ := by
  intro src st _ hl
  obtain ⟨st', s, l⟩ := Loader.K.X_root src hl e k hp he
  exact ⟨st', Fold.one s, l⟩

/-- what the root theorems deliver: the token-level scan of the whole text and the loader's run over its events -/
def RootStmt (w0 : Gap) (t : ATree) (w1 : Gap) : Prop :=
  ∃ c' evs a', arun TC.init ((docToks w0 t w1).map BTok.cls) = some (c', evs) ∧ Complete c' ∧ endClosers c' = [] ∧
    Loads 0 (docText w0 t w1) evs ⟨[], none, none, 0, none⟩ a' ∧ a'.AL = t.tableK ∧ a'.root = some 0


theorem root_arr (w0 : Gap) (an : Option (Gap × Annot)) (its : AItems) (w1 : Gap)
    (hl : lineOK w0 (.arr an its) = true) (hw : TokOK (docToks w0 (.arr an its) w1)) : RootStmt w0 (.arr an its) w1 := by
  unfold lineOK at hl
  simp only [Bool.and_eq_true, Option.isSome_iff_exists] at hl
  obtain ⟨⟨r, hchk⟩, _⟩ := hl
  simp only [ATree.chk] at hchk
  simp only [docToks, ATree.toks] at hw
  obtain ⟨hw0, hw⟩ := tokOK_append hw
  obtain ⟨hwt, hw1⟩ := tokOK_append hw
  obtain ⟨_, hwt⟩ := tokOK_cons hwt
  obtain ⟨hwh, hwt⟩ := tokOK_append hwt
  obtain ⟨hwi, _⟩ := tokOK_append hwt
  cases hh : headChk true (gapPl 0 w0 + 1) an with
  | none => rw [hh] at hchk; simp at hchk
  | some r1 =>
    obtain ⟨ak1, pl1⟩ := r1
    rw [hh] at hchk
    simp only at hchk
    cases hci : its.chk .first ak1 pl1 with
    | none => rw [hci] at hchk; simp at hchk
    | some pl2 =>
      -- the layout before the tree
      have s0 := gap_seg w0 TC.init ⟨[], none, none, 0, none⟩ rfl (fun _ => rfl)
      have gf0 := gap_facts w0 TC.init
      generalize gapTC TC.init w0 = c0 at s0 gf0
      obtain ⟨st0, g0, K0, i0, CS0, cx0, al0⟩ := c0
      have h0st : st0 = .foundRoot := by have := gf0.st; simp only at this; rw [this]; cases Gap.hasNl w0 <;> rfl
      have h0K : K0 = [] := gf0.K
      have h0CS : CS0 = [] := gf0.CS
      have h0al : al0 = true := gf0.al rfl
      subst h0st h0K h0CS h0al
      -- the opening bracket
      have s1 : Seg ⟨.foundRoot, g0, [], i0, [], cx0, true⟩ [.lbrack]
          ⟨.arrItemOrEmpty, false, [(.arrB, i0)], i0 + 1, [cx0], { ty := .array }, true⟩
          ⟨[], none, none, gapPl 0 w0, none⟩ ⟨[] ++ [xfresh .arr none], some 0, some 0, gapPl 0 w0 + 1, some 0⟩ :=
        Seg.tok (t := .lbrack) (step_lbrack .root g0 [] i0 [] cx0 true)
          ((loads_root i0 ⟨.arrB, i0, i0⟩ .arr rfl rfl none _ none).mono _) rfl
      obtain ⟨c2, s2, h2st, h2K, h2CS, h2al⟩ := head_seg an
        ⟨.arrItemOrEmpty, false, [(.arrB, i0)], i0 + 1, [cx0], { ty := .array }, true⟩
        (Or.inl rfl) rfl rfl true (gapPl 0 w0 + 1) ak1 pl1 hh (fun _ => rfl) hwh [] (xfresh .arr none) (some 0)
      obtain ⟨c3, last3, s3, h3st, h3K, h3CS⟩ := items_all its .first c2 h2st (by rw [h2K]; rfl) ak1 pl1 pl2 hci h2al hwi
        [] (annX (an.map (·.2)) (xfresh .arr none)) [] (some 0) (some 0) (by rw [annX_kind]; rfl) (by rw [annX_waiting]; rfl)
      have A := s0.trans (s1.trans (s2.trans s3))
      obtain ⟨⟨evsA, scA, ldA⟩, idxA⟩ := A
      obtain ⟨st3, g3, K3, i3, CS3, cx3, al3⟩ := c3
      simp only at h3st h3K h3CS
      rw [h2K] at h3K
      rw [h2CS] at h3CS
      subst h3K h3CS
      have hstep := step_rbrack st3 h3st g3 i0 [] i3 cx0 [] cx3 al3
      obtain ⟨c', evsT, hrun, hcomp, hend, hnl⟩ := tail_run ⟨.endValue, false, [], i3 + 1, [], cx0, !cx3.arrayHasItem⟩ rfl rfl rfl w1
      have htot := scA (BTok.cls .rbrack :: (gapToks w1).map BTok.cls) (by simp)
      rw [show arun ⟨st3, g3, [(.arrB, i0)], i3, [cx0], cx3, al3⟩ (BTok.cls .rbrack :: (gapToks w1).map BTok.cls)
          = some (c', [⟨.arrE, i0, i3⟩] ++ evsT) by
        simp only [arun]; rw [show BTok.cls .rbrack = .base .rbrack from rfl, hstep]; simp only [hrun]; rfl] at htot
      refine ⟨c', evsA ++ ([⟨.arrE, i0, i3⟩] ++ evsT),
        ⟨(.arr an its : ATree).tableK, none, last3, (if evsT = [] then pl2 else 0), some 0⟩, ?_, hcomp, hend, ?_, rfl, rfl⟩
      · simpa [docToks, ATree.toks, pre, List.append_assoc] using htot
      · have l1 := loads_end' false (TC.init.i + (bytesOf (gapToks w0 ++ ([BTok.lbrack] ++ (headToks an ++ its.toks)))).length) i0 i3 [] ({ annX (an.map (·.2)) (xfresh .arr none) with
            children := (annX (an.map (·.2)) (xfresh .arr none)).children ++ its.idx (0 + 1 + 0) } : XNode)
          ([] ++ its.nodesK 0 (0 + 1 + 0)) last3 pl2 (some 0) (by simp only [annX_kind]; rfl)
          (by simp only [annX_waiting]; rfl) none (by simp only [annX_parent]; rfl)
        have l2 : ∀ o AL, Loads o [] evsT ⟨AL, none, last3, pl2, some 0⟩
            ⟨AL, none, last3, (if evsT = [] then pl2 else 0), some 0⟩ := by
          intro o AL src st _ hls
          exact Loader.K.X_nls src evsT hls hnl
        have l12 := (l1.seq (l2 _ _)).mono (bytesOf (.rbrack :: gapToks w1))
        have := ldA.trans (l12 : Loads _ _ _ _ _)
        simp only [docText, docToks, ATree.toks, ATree.tableK, ATree.nodesK] at this ⊢
        simpa [bytesOf_append, bytesOf, TC.init, annX_children, xfresh, List.append_assoc] using this

theorem root_obj (w0 : Gap) (an : Option (Gap × Annot)) (ms : AMembers) (w1 : Gap)
    (hl : lineOK w0 (.obj an ms) = true) (hw : TokOK (docToks w0 (.obj an ms) w1)) : RootStmt w0 (.obj an ms) w1 := by
  unfold lineOK at hl
  simp only [Bool.and_eq_true, Option.isSome_iff_exists] at hl
  obtain ⟨⟨r, hchk⟩, _⟩ := hl
  simp only [ATree.chk] at hchk
  simp only [docToks, ATree.toks] at hw
  obtain ⟨hw0, hw⟩ := tokOK_append hw
  obtain ⟨hwt, hw1⟩ := tokOK_append hw
  obtain ⟨_, hwt⟩ := tokOK_cons hwt
  obtain ⟨hwh, hwt⟩ := tokOK_append hwt
  obtain ⟨hwi, _⟩ := tokOK_append hwt
  cases hh : headChk true (gapPl 0 w0 + 1) an with
  | none => rw [hh] at hchk; simp at hchk
  | some r1 =>
    obtain ⟨ak1, pl1⟩ := r1
    rw [hh] at hchk
    simp only at hchk
    cases hci : ms.chk .first [] ak1 pl1 with
    | none => rw [hci] at hchk; simp at hchk
    | some pl2 =>
      -- the layout before the tree
      have s0 := gap_seg w0 TC.init ⟨[], none, none, 0, none⟩ rfl (fun _ => rfl)
      have gf0 := gap_facts w0 TC.init
      generalize gapTC TC.init w0 = c0 at s0 gf0
      obtain ⟨st0, g0, K0, i0, CS0, cx0, al0⟩ := c0
      have h0st : st0 = .foundRoot := by have := gf0.st; simp only at this; rw [this]; cases Gap.hasNl w0 <;> rfl
      have h0K : K0 = [] := gf0.K
      have h0CS : CS0 = [] := gf0.CS
      have h0al : al0 = true := gf0.al rfl
      subst h0st h0K h0CS h0al
      -- the opening bracket
      have s1 : Seg ⟨.foundRoot, g0, [], i0, [], cx0, true⟩ [.lbrace]
          ⟨.objKeyOrEmpty, false, [(.objB, i0)], i0 + 1, [cx0], { ty := .object }, true⟩
          ⟨[], none, none, gapPl 0 w0, none⟩ ⟨[] ++ [xfresh .obj none], some 0, some 0, gapPl 0 w0 + 1, some 0⟩ :=
        Seg.tok (t := .lbrace) (step_lbrace .root g0 [] i0 [] cx0 true)
          ((loads_root i0 ⟨.objB, i0, i0⟩ .obj rfl rfl none _ none).mono _) rfl
      obtain ⟨c2, s2, h2st, h2K, h2CS, h2al⟩ := head_seg an
        ⟨.objKeyOrEmpty, false, [(.objB, i0)], i0 + 1, [cx0], { ty := .object }, true⟩
        (Or.inr rfl) rfl rfl true (gapPl 0 w0 + 1) ak1 pl1 hh (fun _ => rfl) hwh [] (xfresh .obj none) (some 0)
      obtain ⟨c3, last3, s3, h3st, h3K, h3CS⟩ := members_all ms .first c2 h2st (by rw [h2K]; rfl) ak1 pl1 pl2
        [] (annX (an.map (·.2)) (xfresh .obj none)) (by rw [annX_keys]; exact hci) h2al hwi [] (some 0) (some 0) (by rw [annX_kind]; rfl) (by rw [annX_waiting]; rfl)
      have A := s0.trans (s1.trans (s2.trans s3))
      obtain ⟨⟨evsA, scA, ldA⟩, idxA⟩ := A
      obtain ⟨st3, g3, K3, i3, CS3, cx3, al3⟩ := c3
      simp only at h3st h3K h3CS
      rw [h2K] at h3K
      rw [h2CS] at h3CS
      subst h3K h3CS
      obtain ⟨al4, hstep⟩ := step_rbrace st3 h3st g3 i0 [] i3 cx0 [] cx3 al3
      obtain ⟨c', evsT, hrun, hcomp, hend, hnl⟩ := tail_run ⟨.endValue, false, [], i3 + 1, [], cx0, al4⟩ rfl rfl rfl w1
      have htot := scA (BTok.cls .rbrace :: (gapToks w1).map BTok.cls) (by simp)
      rw [show arun ⟨st3, g3, [(.objB, i0)], i3, [cx0], cx3, al3⟩ (BTok.cls .rbrace :: (gapToks w1).map BTok.cls)
          = some (c', [⟨.objE, i0, i3⟩] ++ evsT) by
        simp only [arun]; rw [show BTok.cls .rbrace = .base .rbrace from rfl, hstep]; simp only [hrun]; rfl] at htot
      refine ⟨c', evsA ++ ([⟨.objE, i0, i3⟩] ++ evsT),
        ⟨(.obj an ms : ATree).tableK, none, last3, (if evsT = [] then pl2 else 0), some 0⟩, ?_, hcomp, hend, ?_, rfl, rfl⟩
      · simpa [docToks, ATree.toks, pre, List.append_assoc] using htot
      · have l1 := loads_end' true (TC.init.i + (bytesOf (gapToks w0 ++ ([BTok.lbrace] ++ (headToks an ++ ms.toks)))).length) i0 i3 [] ({ annX (an.map (·.2)) (xfresh .obj none) with
            children := (annX (an.map (·.2)) (xfresh .obj none)).children ++ ms.idx (0 + 1 + 0), keys := (annX (an.map (·.2)) (xfresh .obj none)).keys ++ ms.rkeys } : XNode)
          ([] ++ ms.nodesK 0 (0 + 1 + 0)) last3 pl2 (some 0) (by simp only [annX_kind]; rfl)
          (by simp only [annX_waiting]; rfl) none (by simp only [annX_parent]; rfl)
        have l2 : ∀ o AL, Loads o [] evsT ⟨AL, none, last3, pl2, some 0⟩
            ⟨AL, none, last3, (if evsT = [] then pl2 else 0), some 0⟩ := by
          intro o AL src st _ hls
          exact Loader.K.X_nls src evsT hls hnl
        have l12 := (l1.seq (l2 _ _)).mono (bytesOf (.rbrace :: gapToks w1))
        have := ldA.trans (l12 : Loads _ _ _ _ _)
        simp only [docText, docToks, ATree.toks, ATree.tableK, ATree.nodesK] at this ⊢
        simpa [bytesOf_append, bytesOf, TC.init, annX_children, annX_keys, xfresh, List.append_assoc] using this


/-- **the text of a well-formed annotated tree loads into the table the tree denotes, key TOKENS included**: the
key spans the loader records are the key tokens of the tree as written -/
theorem tree_loads_keys (w0 : Gap) (t : ATree) (w1 : Gap) (hc : t.isContainer = true) (hl : lineOK w0 t = true)
    (hw : TokOK (docToks w0 t w1)) :
    ∃ st, Loader.loadText (docText w0 t w1) = .ok st ∧ st.root = some 0 ∧
      st.nodes.toList.map (Loader.K.absK (docText w0 t w1).toArray) = t.tableK := by
  have hR : RootStmt w0 t w1 := by
    cases t with
    | scalar tok an => simp [ATree.isContainer] at hc
    | arr an its => exact root_arr w0 an its w1 hl hw
    | obj an ms => exact root_obj w0 an ms w1 hl hw
  obtain ⟨c', evs, a', hrun, hcomp, hend, hld, hAL, hroot⟩ := hR
  have hat : Lay.AtB (docText w0 t w1).toArray 0 (docText w0 t w1) := Lay.AtB_toArray _ [] _ rfl
  obtain ⟨st, hf, hls⟩ := hld _ {} hat ⟨rfl, rfl, rfl, rfl, rfl, rfl⟩
  refine ⟨st, ?_, ?_, ?_⟩
  · refine Loader.loadText_atoks ((docToks w0 t w1).map BTok.cls) ?_ c' evs hrun hcomp (docText w0 t w1)
      (bytesOf_cls _ hw) st ?_
    · intro x hx
      obtain ⟨b, hb, rfl⟩ := List.mem_map.mp hx
      exact BTok.cls_wf (hw b hb)
    · rw [hend, List.append_nil]; exact hf
  · rw [hls.root]; exact hroot
  · rw [hls.nodes]; exact hAL


end AT.K
