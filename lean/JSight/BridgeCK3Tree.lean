import JSight.BridgeCK3Node
/-!
Bridge (A)∩(C), third part: the TREE and the TYPE TABLE on the class `xr` — `nr` plus nodes that carry an EXAMPLE
together with a types list, named types whose root is such a node or a type shortcut (chains of references of any
length, cycles included: 1303). `agree_x`: unless (A) runs out of its fuel, `checkA root ts` = `checkC root ts` read back
by `resOf` ((C) never runs out of fuel: `C04_checker_no_crash`).
-/
namespace BridgeCK
open Compile

theorem pos_ok : Pos (.ok ()) := fun e he => by cases he

theorem pos_code (c : Nat) : Pos (.error (.code c 0)) := fun e he => by cases he; exact ⟨c, rfl⟩

theorem name_append (a b : String) : name (a ++ b) = name a ++ name b := by
  simp [name, strBytes, String.toList_append]

theorem named_at (k : String) : CK.isUnnamed (name ("@" ++ k)) = false := by
  rw [name_append]
  rfl

section
variable (ts : Types) (env : CK.Env) (fuel : Nat)

/-- a type shortcut / or-shortcut node: every name must be defined (1302) -/
theorem ref_mixed_agree (hE : EnvRelN ts env) (names : List String) (nul : Bool) (orShort : Bool)
    (hb : ∀ n ∈ names, nameOK n) :
    CK.checkNode noOracles env (dumpNode (.ref names nul .mixed none orShort)) =
      panicOf (Compile.checkNode ts fuel (.ref names nul .mixed none orShort)) ∧
    Pos (Compile.checkNode ts fuel (.ref names nul .mixed none orShort)) := by
  have hany := any_undefined hE names hb
  have hA : Compile.checkNode ts fuel (.ref names nul .mixed none orShort) =
      if names.all fun n => (lookupT ts n).isSome then .ok () else .error (.code 1302 0) := by
    simp only [Compile.checkNode, beq_self_eq_true, if_true]
  rw [hA]
  simp only [dumpNode, nkOfJT, CK.checkNode, beq_self_eq_true, if_true, List.length_nil]
  have htl : CK.typesList? ([CK.Cn.typesList (names.map name)] ++ nulCs nul) = some (names.map name) := rfl
  unfold CK.nodeErr
  simp only []
  rw [show CK.compatErr _ = none from by unfold CK.compatErr; rfl]
  unfold CK.linksErr
  rw [htl, fuel_succ]
  unfold CK.collect
  simp only [beq_self_eq_true, if_true, htl, hany]
  cases hall : names.all fun n => (lookupT ts n).isSome
  · exact ⟨by simp [CK.orElse, CK.catchLex, lexBranch, panicOf], pos_code 1302⟩
  · exact ⟨by simp [CK.orElse, CK.allTypes, jtOf, CK.isBranch, panicOf], pos_ok⟩

theorem xr_lit_nr (spec : RulesF.LitSpecF) (bad : Bool) (h : xr ts (.lit spec bad) = true) : nr (.lit spec bad) = true := by
  simp only [xr, Bool.and_eq_true] at h
  simp only [nr]
  exact h.1

theorem xr_any_nr (jt : JT) (lit : Option RulesF.LitSpecF) (h : xr ts (.any jt lit) = true) : nr (.any jt lit) = true := by
  cases lit with
  | some l =>
    simp only [xr, Bool.and_eq_true] at h
    simp only [nr, Bool.and_eq_true]
    exact ⟨h.1.1, h.1.2⟩
  | none =>
    simp only [xr, Bool.or_eq_true] at h
    simp only [nr, Bool.or_eq_true]
    exact Or.inl h

def NoFuel (a : Except Err Unit) : Prop := ∀ w, a ≠ .error (.unsupported w)

theorem props_hK (hT : ∀ n cn, lookupT ts n = some cn → xr ts cn = true) :
    (props : List (String × Bool × Bool × Bool × CN)) → xrProps ts props = true →
    ∀ p ∈ props, p.2.1 = true → nameOK ("@" ++ p.1) ∧
      ∀ cn, lookupT ts ("@" ++ p.1) = some cn → headOK cn = true ∧ keyHead cn = true
  | [], _, p, hp, _ => by cases hp
  | (k, short, r, o, x) :: xs, h, p, hp, hs => by
    simp only [xrProps, Bool.and_eq_true, Bool.or_eq_true, Bool.not_eq_true', decide_eq_true_eq] at h
    rcases List.mem_cons.1 hp with e | hp
    · subst e
      simp only at hs
      rcases h.1.1 with h1 | h1
      · rw [hs] at h1; cases h1
      · refine ⟨⟨h1.1, named_at _⟩, fun cn hl => ⟨xr_head ts cn (hT _ cn hl), ?_⟩⟩
        have := h1.2
        simp only [keyDirect, hl] at this
        exact this
    · exact props_hK hT xs h.2 p hp hs

mutual
/-- **node by node, in the same traversal order** -/
theorem node_x (hE : EnvRelN ts env) (hT : ∀ n cn, lookupT ts n = some cn → xr ts cn = true) (hf : ∃ f, fuel = f + 1) :
    (cn : CN) → xr ts cn = true → NoFuel (Compile.checkNode ts fuel cn) →
    CK.checkNode noOracles env (dumpNode cn) = panicOf (Compile.checkNode ts fuel cn) ∧ Pos (Compile.checkNode ts fuel cn)
  | .lit spec bad, h, _ =>
    ⟨lit_agree ts env fuel spec bad (xr_lit_nr ts spec bad h), nr_pos ts fuel _ (xr_lit_nr ts spec bad h)⟩
  | .any jt lit, h, _ =>
    ⟨any_agree ts env fuel jt lit (xr_any_nr ts jt lit h), nr_pos ts fuel _ (xr_any_nr ts jt lit h)⟩
  | .arr items nul bad, h, hA => by
    cases bad with
    | true =>
      refine ⟨?_, by simp only [Compile.checkNode, if_true]; exact pos_code 1117⟩
      simp only [dumpNode, CK.checkNode, Compile.checkNode, if_true, panicOf]
      unfold CK.nodeErr
      simp only []
      rw [compat_bad _ rfl (by cases nul <;> simp [nulCs, CK.compat, CK.Cn.ty])]
      simp [CK.orElse, CK.catchLex, lexBranch]
    | false =>
      have hc : Compile.checkNode ts fuel (.arr items nul false) = checkItems ts fuel items := by
        simp only [Compile.checkNode, Bool.false_eq_true, if_false]
      have ih := items_x hE hT hf items (by simpa [xr] using h) (by rw [← hc]; exact hA)
      exact ⟨arr_agree ts env fuel items nul false ih.1, by rw [hc]; exact ih.2⟩
  | .obj props add nul bad, h, hA => by
    simp only [xr, Bool.and_eq_true] at h
    obtain ⟨hp, hadd⟩ := h
    have hK := props_hK ts hT props hp
    have key : ∀ (hb : bad = false) (hk : ∀ p ∈ props, ¬ (p.2.1 && ((lookupT ts ("@" ++ p.1)).isNone
          || Compile.actualRoot ts fuel [] ("@" ++ p.1) != some .str)) = true)
        (ha : ∀ n, add = .type n → (lookupT ts n).isNone = false),
        Compile.checkNode ts fuel (.obj props add nul bad) = checkProps ts fuel props := by
      intro hb hk ha
      subst hb
      have hfind : props.find? (fun p => p.2.1 && ((lookupT ts ("@" ++ p.1)).isNone
          || Compile.actualRoot ts fuel [] ("@" ++ p.1) != some .str)) = none := List.find?_eq_none.2 hk
      simp only [Compile.checkNode, Bool.false_eq_true, if_false, hfind]
      cases add with
      | type n => simp only [ha n rfl, Bool.false_eq_true, if_false]
      | _ => rfl
    refine ⟨obj_agree_x ts env fuel hE hf props add nul bad hK hadd (fun hb hk ha => ?_), ?_⟩
    · have hc := key hb hk ha
      exact (props_x hE hT hf props hp (by rw [← hc]; exact hA)).1
    · intro e he
      cases bad with
      | true => simp [Compile.checkNode] at he; exact ⟨1117, he.symm⟩
      | false =>
        cases hfind : props.find? (fun p => p.2.1 && ((lookupT ts ("@" ++ p.1)).isNone
            || Compile.actualRoot ts fuel [] ("@" ++ p.1) != some .str)) with
        | some p =>
          simp only [Compile.checkNode, Bool.false_eq_true, if_false, hfind] at he
          cases he; exact ⟨_, rfl⟩
        | none =>
          have hk := List.find?_eq_none.1 hfind
          by_cases ha : ∀ n, add = .type n → (lookupT ts n).isNone = false
          · have hc := key rfl hk ha
            rw [hc] at he
            exact (props_x hE hT hf props hp (by rw [← hc]; exact hA)).2 e he
          · have : ∃ n, add = .type n ∧ (lookupT ts n).isNone = true := by
              apply Classical.byContradiction
              intro hcon
              apply ha
              intro n hn
              cases hx : (lookupT ts n).isNone
              · rfl
              · exact absurd ⟨n, hn, hx⟩ hcon
            obtain ⟨n, rfl, hn⟩ := this
            simp only [Compile.checkNode, Bool.false_eq_true, if_false, hfind, hn, if_true] at he
            cases he; exact ⟨1302, rfl⟩
  | .ref names nul jt ex orShort, h, hA => by
    simp only [xr, Bool.and_eq_true, List.all_eq_true, decide_eq_true_eq] at h
    obtain ⟨hb, hcase⟩ := h
    by_cases hm : jt = .mixed
    · subst hm
      simp only [beq_self_eq_true, if_true, Option.isNone_iff_eq_none] at hcase
      subst hcase
      exact ref_mixed_agree ts env fuel hE names nul orShort hb
    · have hmb : (jt == JT.mixed) = false := by simpa using hm
      simp only [hmb, Bool.false_eq_true, if_false, Bool.and_eq_true] at hcase
      obtain ⟨_, hcase⟩ := hcase
      cases ex with
      | none => cases hcase
      | some tok =>
        exact refex_agree ts env fuel hE (fun n cn hl => xr_head ts cn (hT n cn hl)) hf names nul jt tok orShort hmb hcase hb hA
theorem items_x (hE : EnvRelN ts env) (hT : ∀ n cn, lookupT ts n = some cn → xr ts cn = true) (hf : ∃ f, fuel = f + 1) :
    (items : List CN) → xrItems ts items = true → NoFuel (checkItems ts fuel items) →
    CK.checkNodes noOracles env (dumpItems items) = panicOf (checkItems ts fuel items) ∧ Pos (checkItems ts fuel items)
  | [], _, _ => ⟨rfl, pos_ok⟩
  | x :: xs, h, hA => by
    simp only [xrItems, Bool.and_eq_true] at h
    simp only [dumpItems, CK.checkNodes, checkItems] at hA ⊢
    cases hx : Compile.checkNode ts fuel x with
    | ok u =>
      cases u
      rw [hx] at hA
      have h1 := node_x hE hT hf x h.1 (by rw [hx]; intro w hw; cases hw)
      have h2 := items_x hE hT hf xs h.2 hA
      rw [hx] at h1
      simp only [h1.1, panicOf]
      exact h2
    | error e =>
      rw [hx] at hA
      have h1 := node_x hE hT hf x h.1 (by rw [hx]; exact hA)
      rw [hx] at h1
      obtain ⟨c, rfl⟩ := h1.2 e rfl
      exact ⟨by rw [h1.1]; rfl, pos_code c⟩
theorem props_x (hE : EnvRelN ts env) (hT : ∀ n cn, lookupT ts n = some cn → xr ts cn = true) (hf : ∃ f, fuel = f + 1) :
    (props : List (String × Bool × Bool × Bool × CN)) → xrProps ts props = true → NoFuel (checkProps ts fuel props) →
    CK.checkNodes noOracles env (dumpProps props) = panicOf (checkProps ts fuel props) ∧ Pos (checkProps ts fuel props)
  | [], _, _ => ⟨rfl, pos_ok⟩
  | (k, s, r, o, x) :: xs, h, hA => by
    simp only [xrProps, Bool.and_eq_true] at h
    simp only [dumpProps, CK.checkNodes, checkProps] at hA ⊢
    cases hx : Compile.checkNode ts fuel x with
    | ok u =>
      cases u
      rw [hx] at hA
      have h1 := node_x hE hT hf x h.1.2 (by rw [hx]; intro w hw; cases hw)
      have h2 := props_x hE hT hf xs h.2 hA
      rw [hx] at h1
      simp only [h1.1, panicOf]
      exact h2
    | error e =>
      rw [hx] at hA
      have h1 := node_x hE hT hf x h.1.2 (by rw [hx]; exact hA)
      rw [hx] at h1
      obtain ⟨c, rfl⟩ := h1.2 e rfl
      exact ⟨by rw [h1.1]; rfl, pos_code c⟩
end

end

/-! ### the named types -/

section
variable (ts : Types) (env : CK.Env) (hE : EnvRelN ts env) (hT : ∀ n cn, lookupT ts n = some cn → xr ts cn = true)
  (fuel : Nat) (hf : ∃ f, fuel = f + 1) (hnd : (ts.map (·.1)).Nodup)
include hE hT hf hnd

/-- type by type: the first error of the visit -/
theorem types_x : (L : Types) → (∀ t ∈ L, t ∈ ts ∧ xr ts t.2 = true) →
    NoFuel (Compile.checkTypes ts fuel (L.map (·.1))) →
    resOf (CK.checkTypes noOracles env (L.map typeEntry)) = some (Compile.checkTypes ts fuel (L.map (·.1)))
  | [], _, _ => rfl
  | t :: L, h, hA => by
    obtain ⟨htm, htn⟩ := h t List.mem_cons_self
    simp only [List.map_cons, CK.checkTypes, Compile.checkTypes, lookup_mem ts hnd t htm, CK.checkType] at hA ⊢
    show resOf (match (CK.checkNode noOracles env (dumpNode t.2)).map _ with | some r => r | none => _) = _
    cases hx : Compile.checkNode ts fuel t.2 with
    | ok u =>
      cases u
      rw [hx] at hA
      have hnode := node_x ts env fuel hE hT hf t.2 htn (by rw [hx]; intro w hw; cases hw)
      rw [hx] at hnode
      have ih := types_x L (fun u hu => h u (List.mem_cons_of_mem _ hu)) hA
      rw [hnode.1]
      simpa [panicOf] using ih
    | error e =>
      rw [hx] at hA
      have hnode := node_x ts env fuel hE hT hf t.2 htn (by rw [hx]; exact hA)
      rw [hx] at hnode
      obtain ⟨c, rfl⟩ := hnode.2 e rfl
      rw [hnode.1]
      simp [panicOf, CK.panicRes, resOf, typeEntry]

end

theorem lookup_class (ts : Types) (P : CN → Prop) (hts : ∀ t ∈ ts, P t.2) : ∀ n cn, lookupT ts n = some cn → P cn := by
  intro n cn h
  unfold lookupT at h
  cases hf : ts.find? (·.1 == n) with
  | none => rw [hf] at h; cases h
  | some t =>
    rw [hf] at h
    simp only [Option.map_some, Option.some.injEq] at h
    rw [← h]
    exact hts t (List.mem_of_find?_eq_some hf)

/-! ### or-shortcuts `@a | @b` and their unnamed types -/

/-- every name of an or-shortcut node is defined -/
def okRef (ts : Types) (p : String × CN) : Bool :=
  match p.2 with
  | .ref names _ _ _ _ => names.all fun n => (lookupT ts n).isSome
  | _ => true

mutual
/-- (A)'s `orShortsOK` stage = "every or-shortcut node below has its names defined" -/
theorem orShortsOK_all (ts : Types) : (path : String) → (cn : CN) → orShortsOK ts cn = (orShorts path cn).all (okRef ts)
  | _, .lit _ _ => rfl
  | _, .any _ _ => rfl
  | path, .arr items _ _ => by simp only [orShortsOK, orShorts]; exact orShortsItems_all ts path 0 items
  | path, .obj props _ _ _ => by simp only [orShortsOK, orShorts]; exact orShortsProps_all ts path 0 props
  | _, .ref names nul jt ex os => by cases os <;> simp [orShortsOK, orShorts, okRef]
theorem orShortsItems_all (ts : Types) : (path : String) → (i : Nat) → (items : List CN) →
    Compile.orShortsItems ts items = (orShortsItems path i items).all (okRef ts)
  | _, _, [] => rfl
  | path, i, x :: xs => by
    simp only [Compile.orShortsItems, BridgeCK.orShortsItems, List.all_append,
      orShortsOK_all ts (path ++ "/" ++ toString i) x, orShortsItems_all ts path (i + 1) xs]
theorem orShortsProps_all (ts : Types) : (path : String) → (i : Nat) → (props : List (String × Bool × Bool × Bool × CN)) →
    Compile.orShortsProps ts props = (orShortsProps path i props).all (okRef ts)
  | _, _, [] => rfl
  | path, i, (_, _, _, _, x) :: xs => by
    simp only [Compile.orShortsProps, BridgeCK.orShortsProps, List.all_append,
      orShortsOK_all ts (path ++ "/" ++ toString i) x, orShortsProps_all ts path (i + 1) xs]
end

/-- the name of an unnamed type starts with `#` -/
def Hash (p : String) : Prop := (name p).head? = some 35

theorem hash_append (p s : String) (h : Hash p) : Hash (p ++ s) := by
  unfold Hash at *
  rw [name_append]
  cases hn : name p with
  | nil => rw [hn] at h; cases h
  | cons a l => rw [hn] at h; simpa using h

/-- an or-shortcut node of the class with the name of its unnamed type -/
def ShapeOK (p : String × CN) : Prop :=
  Hash p.1 ∧ ∃ names nul, p.2 = .ref names nul .mixed none true ∧ ∀ n ∈ names, nameOK n

mutual
theorem orShorts_shape (ts : Types) : (path : String) → Hash path → (cn : CN) → xr ts cn = true →
    ∀ p ∈ orShorts path cn, ShapeOK p
  | _, _, .lit _ _, _, p, hm => by simp [orShorts] at hm
  | _, _, .any _ _, _, p, hm => by simp [orShorts] at hm
  | path, hp, .arr items _ _, h, p, hm =>
    orShortsItems_shape ts path hp 0 items (by simpa [xr] using h) p (by simpa [orShorts] using hm)
  | path, hp, .obj props _ _ _, h, p, hm => by
    simp only [xr, Bool.and_eq_true] at h
    exact orShortsProps_shape ts path hp 0 props h.1 p (by simpa [orShorts] using hm)
  | path, hp, .ref names nul jt ex os, h, p, hm => by
    cases os with
    | false => simp [orShorts] at hm
    | true =>
      simp only [orShorts, List.mem_singleton] at hm
      subst hm
      simp only [xr, Bool.and_eq_true, List.all_eq_true, decide_eq_true_eq] at h
      obtain ⟨hb, hcase⟩ := h
      by_cases hmx : jt = .mixed
      · subst hmx
        simp only [beq_self_eq_true, if_true, Option.isNone_iff_eq_none] at hcase
        subst hcase
        exact ⟨hp, names, nul, rfl, hb⟩
      · have hmb : (jt == JT.mixed) = false := by simpa using hmx
        simp [hmb] at hcase
theorem orShortsItems_shape (ts : Types) : (path : String) → Hash path → (i : Nat) → (items : List CN) →
    xrItems ts items = true → ∀ p ∈ orShortsItems path i items, ShapeOK p
  | _, _, _, [], _, p, hm => by simp [orShortsItems] at hm
  | path, hp, i, x :: xs, h, p, hm => by
    simp only [xrItems, Bool.and_eq_true] at h
    simp only [orShortsItems, List.mem_append] at hm
    rcases hm with hm | hm
    · exact orShorts_shape ts _ (hash_append _ _ (hash_append _ _ hp)) x h.1 p hm
    · exact orShortsItems_shape ts path hp (i + 1) xs h.2 p hm
theorem orShortsProps_shape (ts : Types) : (path : String) → Hash path → (i : Nat) →
    (props : List (String × Bool × Bool × Bool × CN)) → xrProps ts props = true → ∀ p ∈ orShortsProps path i props, ShapeOK p
  | _, _, _, [], _, p, hm => by simp [orShortsProps] at hm
  | path, hp, i, (_, _, _, _, x) :: xs, h, p, hm => by
    simp only [xrProps, Bool.and_eq_true] at h
    simp only [orShortsProps, List.mem_append] at hm
    rcases hm with hm | hm
    · exact orShorts_shape ts _ (hash_append _ _ (hash_append _ _ hp)) x h.1.2 p hm
    · exact orShortsProps_shape ts path hp (i + 1) xs h.2 p hm
end

/-- the check of an unnamed type: its names must be defined (1302) -/
theorem unnamed_check (ts : Types) (env : CK.Env) (hE : EnvRelN ts env) (u : String × CN) (hs : ShapeOK u) :
    CK.checkType noOracles env (typeEntry u) =
      if okRef ts u then none else some (.err 1302 0 0 (some (name u.1))) := by
  obtain ⟨_, names, nul, hu, hb⟩ := hs
  obtain ⟨p, cn⟩ := u
  simp only at hu
  subst hu
  have h1 := (ref_mixed_agree ts env 1 hE names nul true hb).1
  unfold CK.checkType typeEntry
  simp only []
  rw [h1]
  simp only [Compile.checkNode, beq_self_eq_true, if_true, okRef]
  by_cases hx : (names.all fun n => (lookupT ts n).isSome) = true <;> simp [hx, panicOf, CK.panicRes]

theorem checkTypes_prefix_ok (env : CK.Env) : (L R : List CK.TypeEntry) →
    (∀ v ∈ L, CK.checkType noOracles env v = none) →
    CK.checkTypes noOracles env (L ++ R) = CK.checkTypes noOracles env R
  | [], _, _ => rfl
  | v :: L, R, h => by
    simp only [List.cons_append, CK.checkTypes, h v List.mem_cons_self]
    exact checkTypes_prefix_ok env L R (fun x hx => h x (List.mem_cons_of_mem _ hx))

theorem checkTypes_prefix_bad (env : CK.Env) : (L R : List CK.TypeEntry) →
    (∀ v ∈ L, CK.checkType noOracles env v = none ∨ ∃ ut, CK.checkType noOracles env v = some (.err 1302 0 0 ut)) →
    (∃ v ∈ L, CK.checkType noOracles env v ≠ none) →
    ∃ ut, CK.checkTypes noOracles env (L ++ R) = .err 1302 0 0 ut
  | [], _, _, h => by obtain ⟨v, hv, _⟩ := h; cases hv
  | v :: L, R, h, hex => by
    simp only [List.cons_append, CK.checkTypes]
    rcases h v List.mem_cons_self with h1 | ⟨ut, h1⟩
    · rw [h1]
      refine checkTypes_prefix_bad env L R (fun x hx => h x (List.mem_cons_of_mem _ hx)) ?_
      obtain ⟨w, hw, hne⟩ := hex
      rcases List.mem_cons.1 hw with e | hw
      · subst e; exact absurd h1 hne
      · exact ⟨w, hw, hne⟩
    · rw [h1]
      exact ⟨ut, rfl⟩

/-! ### the visiting order with unnamed types: all of them before the named ones -/

theorem mem_insertType (t : CK.TypeEntry) : (L : List CK.TypeEntry) → ∀ u, u ∈ CK.insertType t L ↔ u = t ∨ u ∈ L
  | [], u => by simp [CK.insertType]
  | v :: vs, u => by
    unfold CK.insertType
    split
    · simp
    · simp only [List.mem_cons, mem_insertType t vs u]
      constructor
      · rintro (h | h | h)
        · exact Or.inr (Or.inl h)
        · exact Or.inl h
        · exact Or.inr (Or.inr h)
      · rintro (h | h | h)
        · exact Or.inr (Or.inl h)
        · exact Or.inl h
        · exact Or.inr (Or.inr h)

theorem mem_sortTypes : (L : List CK.TypeEntry) → ∀ u, u ∈ CK.sortTypes L ↔ u ∈ L
  | [], u => by simp [CK.sortTypes]
  | t :: L, u => by
    unfold CK.sortTypes
    rw [mem_insertType, mem_sortTypes L u]
    simp

theorem insert_after (a : CK.TypeEntry) : (V N : List CK.TypeEntry) → (∀ v ∈ V, CK.typeGoesFirst a v = false) →
    CK.insertType a (V ++ N) = V ++ CK.insertType a N
  | [], _, _ => rfl
  | v :: V, N, h => by
    simp only [List.cons_append, CK.insertType, h v List.mem_cons_self, Bool.false_eq_true, if_false]
    rw [insert_after a V N (fun x hx => h x (List.mem_cons_of_mem _ hx))]

theorem sort_append : (N V : List CK.TypeEntry) → (∀ a ∈ N, ∀ v ∈ V, CK.typeGoesFirst a v = false) →
    CK.sortTypes (N ++ V) = CK.sortTypes V ++ CK.sortTypes N
  | [], V, _ => by simp [CK.sortTypes]
  | a :: N, V, h => by
    simp only [List.cons_append, CK.sortTypes]
    rw [sort_append N V (fun x hx => h x (List.mem_cons_of_mem _ hx))]
    exact insert_after a _ _ (fun v hv => h a List.mem_cons_self v ((mem_sortTypes V v).1 hv))

theorem goesFirst_named_unnamed (a v : CK.TypeEntry) (ha : a.name.head? = some 64) (hv : v.name.head? = some 35) :
    CK.typeGoesFirst a v = false := by
  unfold CK.typeGoesFirst
  have h1 : CK.isUnnamed a.name = false := by unfold CK.isUnnamed; rw [ha]; rfl
  simp only [h1, Bool.not_false, Bool.true_or, if_true]
  cases hA : a.name with
  | nil => rw [hA] at ha; cases ha
  | cons x xs =>
    cases hV : v.name with
    | nil => rw [hV] at hv; cases hv
    | cons y ys =>
      rw [hA] at ha; rw [hV] at hv
      simp only [List.head?_cons, Option.some.injEq] at ha hv
      subst ha; subst hv
      rfl

theorem find_unnamed_none (n : String) (hn : nameOK n) : (U : List (String × CN)) → (∀ u ∈ U, Hash u.1) →
    ((U.map typeEntry).map fun t => (t.name, t.root.hd)).find? (·.1 == name n) = none
  | [], _ => rfl
  | u :: U, h => by
    have ih := find_unnamed_none n hn U (fun x hx => h x (List.mem_cons_of_mem _ hx))
    simp only [List.map_cons, List.find?_cons]
    have hne : ((typeEntry u).name == name n) = false := by
      rw [beq_eq_false_iff_ne]
      intro e
      have h1 := h u List.mem_cons_self
      have h2 := hn.2
      unfold Hash at h1
      unfold CK.isUnnamed at h2
      have e' : name u.1 = name n := e
      rw [← e', h1] at h2
      simp at h2
    simp only [hne]
    exact ih

/-- the two tables answer alike on type names, also when (C)'s table carries the unnamed types of the or-shortcuts -/
theorem envRelN_ext (ts : Types) (U : List (String × CN)) (hb : ∀ t ∈ ts, byteChars t.1) (hU : ∀ u ∈ U, Hash u.1) :
    EnvRelN ts ⟨(ts.map typeEntry ++ U.map typeEntry).map fun t => (t.name, t.root.hd)⟩ := by
  intro n hn
  unfold CK.Env.lookup lookupT
  simp only [List.map_append, List.find?_append, find_unnamed_none n hn U hU, Option.or_none]
  exact find_entries n hn.1 ts hb

theorem hash_start (s : String) : Hash ("#" ++ s) := by
  unfold Hash
  rw [name_append]
  rfl

/-- **the two checkers agree on the class `xr`** (nodes with an EXAMPLE and a types list, reference chains of any
length, or-shortcuts and their unnamed types): whenever (A) does not run out of its fuel — (C) never does — the same
verdict and the same first error code -/
theorem agree_x (root : Option CN) (ts : Types) (hroot : ∀ r, root = some r → xr ts r = true)
    (hts : ∀ t ∈ ts, xr ts t.2 = true ∧ byteChars t.1 ∧ (name t.1).head? = some 64)
    (hnd : (ts.map (·.1)).Nodup) (hA : ∀ w, checkA root ts ≠ .error (.unsupported w)) :
    resOf (checkC root ts) = some (checkA root ts) := by
  let U := ts.flatMap fun t => orShorts ("#" ++ t.1) t.2
  have hun : unnamed ts = U.map typeEntry := rfl
  have hnamed : ∀ t ∈ ts, CK.isUnnamed (name t.1) = false := fun t ht => by
    unfold CK.isUnnamed; rw [(hts t ht).2.2]; rfl
  have hUs : ∀ u ∈ U, ShapeOK u := by
    intro u hu
    obtain ⟨t, ht, hut⟩ := List.mem_flatMap.1 hu
    exact orShorts_shape ts _ (hash_start t.1) t.2 (hts t ht).1 u hut
  have hall : (ts.all fun t => orShortsOK ts t.2) = U.all (okRef ts) := by
    rw [List.all_flatMap]
    congr 1
    funext t
    exact orShortsOK_all ts _ t.2
  have hE := envRelN_ext ts U (fun t ht => (hts t ht).2.1) (fun u hu => (hUs u hu).1)
  have hT : ∀ n cn, lookupT ts n = some cn → xr ts cn = true :=
    lookup_class ts (fun cn => xr ts cn = true) (fun t ht => (hts t ht).1)
  have hfuel : ∀ r, ∃ f, checkFuel r ts = f + 1 := fun r => ⟨checkFuel r ts - 1, by
    have : 0 < checkFuel r ts := by unfold checkFuel; omega
    omega⟩
  have hvis : CK.sortTypes (ts.map typeEntry ++ U.map typeEntry) =
      CK.sortTypes (U.map typeEntry) ++ (sortTs ts).map typeEntry := by
    rw [sort_append, sort_entries ts hnd (fun t ht => ⟨(hts t ht).2.1, hnamed t ht⟩)]
    intro a ha v hv
    obtain ⟨t, ht, rfl⟩ := List.mem_map.1 ha
    obtain ⟨u, hu, rfl⟩ := List.mem_map.1 hv
    exact goesFirst_named_unnamed _ _ (hts t ht).2.2 (hUs u hu).1
  have hL : ∀ t ∈ sortTs ts, t ∈ ts ∧ xr ts t.2 = true := fun t ht =>
    ⟨(mem_sortTs ts t).1 ht, (hts t ((mem_sortTs ts t).1 ht)).1⟩
  -- the visit of the type table: the unnamed types (1302 or nothing), then the named ones
  have hvisit : ∀ fuel, (∃ f, fuel = f + 1) →
      NoFuel (if !(ts.all fun t => orShortsOK ts t.2) then .error (.code 1302 0)
        else Compile.checkTypes ts fuel ((sortTs ts).map (·.1))) →
      resOf (CK.checkTypes noOracles ⟨(ts.map typeEntry ++ U.map typeEntry).map fun t => (t.name, t.root.hd)⟩
          (CK.sortTypes (U.map typeEntry) ++ (sortTs ts).map typeEntry)) =
        some (if !(ts.all fun t => orShortsOK ts t.2) then .error (.code 1302 0)
          else Compile.checkTypes ts fuel ((sortTs ts).map (·.1))) := by
    intro fuel hf hAf
    have hchk : ∀ v ∈ CK.sortTypes (U.map typeEntry), ∃ u ∈ U, v = typeEntry u := by
      intro v hv
      obtain ⟨u, hu, e⟩ := List.mem_map.1 ((mem_sortTypes _ v).1 hv)
      exact ⟨u, hu, e.symm⟩
    rw [hall] at hAf ⊢
    cases hok : U.all (okRef ts)
    · simp only [Bool.not_false, if_true]
      obtain ⟨ut, hut⟩ := checkTypes_prefix_bad _ (CK.sortTypes (U.map typeEntry)) ((sortTs ts).map typeEntry)
        (fun v hv => by
          obtain ⟨u, hu, rfl⟩ := hchk v hv
          rw [unnamed_check ts _ hE u (hUs u hu)]
          cases okRef ts u
          · exact Or.inr ⟨_, rfl⟩
          · exact Or.inl rfl)
        (by
          have : ∃ u ∈ U, okRef ts u = false := by
            apply Classical.byContradiction
            intro hcon
            have : U.all (okRef ts) = true := by
              rw [List.all_eq_true]
              intro u hu
              cases hx : okRef ts u
              · exact absurd ⟨u, hu, hx⟩ hcon
              · rfl
            rw [hok] at this
            cases this
          obtain ⟨u, hu, hbad⟩ := this
          refine ⟨typeEntry u, (mem_sortTypes _ _).2 (List.mem_map_of_mem hu), ?_⟩
          rw [unnamed_check ts _ hE u (hUs u hu), hbad]
          simp)
      rw [hut]
      rfl
    · rw [hok] at hAf
      simp only [Bool.not_true, Bool.false_eq_true, if_false] at hAf ⊢
      rw [checkTypes_prefix_ok _ _ _ (fun v hv => by
        obtain ⟨u, hu, rfl⟩ := hchk v hv
        rw [unnamed_check ts _ hE u (hUs u hu), List.all_eq_true.1 hok u hu]
        rfl)]
      exact types_x ts _ hE hT fuel hf hnd (sortTs ts) hL hAf
  unfold checkC CK.checkSchema dumpOf
  simp only [hun, CK.Schema.visit, CK.Schema.env, hvis]
  cases root with
  | none =>
    simp only [Option.map_none, checkA, checkNoRoot, ← sortTs_names] at hA ⊢
    exact hvisit _ (hfuel none) hA
  | some r =>
    have hr := hroot r rfl
    simp only [Option.map_some, checkA, ← sortTs_names] at hA ⊢
    cases hx : Compile.checkNode ts (checkFuel (some r) ts) r with
    | ok u =>
      cases u
      rw [hx] at hA
      have hnode := node_x ts _ (checkFuel (some r) ts) hE hT (hfuel (some r)) r hr (by rw [hx]; intro w hw; cases hw)
      rw [hx] at hnode
      simp only [hnode.1, panicOf]
      exact hvisit _ (hfuel (some r)) hA
    | error e =>
      rw [hx] at hA
      have hnode := node_x ts _ (checkFuel (some r) ts) hE hT (hfuel (some r)) r hr (by rw [hx]; exact hA)
      rw [hx] at hnode
      obtain ⟨c, rfl⟩ := hnode.2 e rfl
      rw [hnode.1]
      simp [panicOf, CK.panicRes, resOf]

end BridgeCK
