import JSight.JsonRun
/-!
The two JSON scanner machines agree on acceptance: the span-carrying one (`eventsLoop` / `checkS`, used for C06, C14,
C17) and the span-free one (`run` / `check`, used for C05 and C07). Both use the same control step; the first keeps
positions on its stack and collects events, the second only counts whether anything was found.
-/
namespace JsonScan

def nonTop (evs : List Ev) : List Ev := evs.filter (·.ty != .endTop)

theorem nonTop_append (a b : List Ev) : nonTop (a ++ b) = nonTop a ++ nonTop b := by simp [nonTop]

theorem nonTop_of_all (l : List Ev) (h : ∀ e ∈ l, e.ty ≠ .endTop) : nonTop l = l := by
  unfold nonTop
  rw [List.filter_eq_self]
  intro e he
  simpa using h e he

theorem applyFinds_err (i : Nat) : ∀ (fs : List LexT) (S : List (LexT × Nat)) (acc : List Ev) (e : ErrS),
    applyFindsS i S fs acc = .error e → ∃ e', applyFinds (S.map (·.1)) fs = .error e' := by
  intro fs
  induction fs with
  | nil => intro S acc e h; simp [applyFindsS] at h
  | cons f fs ih =>
    intro S acc e h
    unfold applyFindsS at h
    unfold applyFinds
    split at h
    · simp at h
    · rename_i hf
      simp only [hf, if_false, Bool.false_eq_true]
      split at h
      · rename_i ho
        simp only [ho, if_true]
        exact ih _ _ e h
      · rename_i ho
        simp only [ho, if_false, Bool.false_eq_true]
        cases S with
        | nil => exact ⟨_, rfl⟩
        | cons p rest =>
          obtain ⟨p, b⟩ := p
          simp only [List.map_cons] at h ⊢
          split at h
          · rename_i hp
            have : pairs p f = true := by
              simp only [Bool.or_eq_true, Bool.and_eq_true, beq_iff_eq] at hp
              rcases hp with ⟨rfl, rfl⟩ | ⟨rfl, rfl⟩ <;> rfl
            simp only [this, if_true]
            exact ih _ _ e h
          · split at h
            · rename_i hp
              simp only [hp, if_true]
              exact ih _ _ e h
            · rename_i hp
              simp only [hp, if_false, Bool.false_eq_true]
              exact ⟨_, rfl⟩

theorem applyFinds_ok (i : Nat) : ∀ (fs : List LexT) (S : List (LexT × Nat)) (acc : List Ev)
    (S' : List (LexT × Nat)) (evs : List Ev) (stop : Bool),
    applyFindsS i S fs acc = .ok (S', evs, stop) →
    applyFinds (S.map (·.1)) fs = .ok (if stop then none else some (S'.map (·.1))) ∧
    (stop = true → LexT.endTop ∈ fs) ∧
    ∃ new, evs = acc.reverse ++ new ∧ (stop = false → new.length = fs.length ∧ ∀ e ∈ new, e.ty ≠ .endTop) := by
  intro fs
  induction fs with
  | nil =>
    intro S acc S' evs stop h
    simp only [applyFindsS, Except.ok.injEq, Prod.mk.injEq] at h
    obtain ⟨rfl, rfl, rfl⟩ := h
    exact ⟨rfl, by simp, [], by simp, by simp⟩
  | cons f fs ih =>
    intro S acc S' evs stop h
    unfold applyFindsS at h
    unfold applyFinds
    split at h
    · rename_i hf
      simp only [Except.ok.injEq, Prod.mk.injEq] at h
      obtain ⟨rfl, rfl, rfl⟩ := h
      have hf' : f = .endTop := by simpa using hf
      subst hf'
      refine ⟨by simp, by simp, [⟨.endTop, i, i⟩], by simp, by simp⟩
    · rename_i hf
      have hfne : f ≠ .endTop := by simpa using hf
      simp only [hf, if_false, Bool.false_eq_true]
      -- common closing argument
      have close : ∀ (S1 : List (LexT × Nat)) (ev : Ev), ev.ty = f →
          applyFindsS i S1 fs (ev :: acc) = .ok (S', evs, stop) →
          applyFinds (S1.map (·.1)) fs = .ok (if stop then none else some (S'.map (·.1))) ∧
          (stop = true → LexT.endTop ∈ f :: fs) ∧
          ∃ new, evs = acc.reverse ++ new ∧ (stop = false → new.length = (f :: fs).length ∧ ∀ e ∈ new, e.ty ≠ .endTop) := by
        intro S1 ev hev h1
        obtain ⟨a, b, new, hn, hl⟩ := ih S1 (ev :: acc) S' evs stop h1
        refine ⟨a, fun hs => List.mem_cons_of_mem _ (b hs), ev :: new, by simp [hn], ?_⟩
        intro hs
        obtain ⟨l1, l2⟩ := hl hs
        refine ⟨by simp [l1], ?_⟩
        intro e he
        rcases List.mem_cons.1 he with rfl | he
        · rw [hev]; exact hfne
        · exact l2 e he
      split at h
      · rename_i ho
        simp only [ho, if_true]
        exact close ((f, i) :: S) _ rfl h
      · rename_i ho
        simp only [ho, if_false, Bool.false_eq_true]
        cases S with
        | nil => simp at h
        | cons p rest =>
          obtain ⟨p, b⟩ := p
          simp only [List.map_cons] at h ⊢
          split at h
          · rename_i hp
            have : pairs p f = true := by
              simp only [Bool.or_eq_true, Bool.and_eq_true, beq_iff_eq] at hp
              rcases hp with ⟨rfl, rfl⟩ | ⟨rfl, rfl⟩ <;> rfl
            simp only [this, if_true]
            exact close rest _ rfl h
          · split at h
            · rename_i hp
              simp only [hp, if_true]
              exact close rest _ rfl h
            · simp at h

theorem foundRoot_step (allow : Bool) (stack : List LexT) (unf : Bool) (c : Cls) (st' : St) (unf' : Bool)
    (finds : List LexT) (h : step allow .foundRoot stack unf c = .ok (st', unf', finds)) :
    LexT.endTop ∉ finds ∧ (finds = [] → st' = .foundRoot) := by
  cases c <;> simp [step, beginValue, bind, Except.bind, pure, Except.pure] at h <;>
    (obtain ⟨rfl, rfl, rfl⟩ := h; simp)

theorem loop_bridge (allow : Bool) (n : Nat) : ∀ (cs : List Cls) (i : Nat) (cS : CfgS) (acc : List Ev) (c : Cfg),
    c.st = cS.st → c.stack = cS.stack.map (·.1) → c.unf = cS.unf → c.seen = !(nonTop acc).isEmpty →
    (c.seen = false → cS.st = .foundRoot) →
    (match eventsLoop allow n cs i cS acc with
      | .error _ => false
      | .ok evs => !(nonTop evs).isEmpty) = (run allow c cs).isOk := by
  intro cs
  induction cs with
  | nil =>
    intro i cS acc c h1 h2 h3 h4 _
    obtain ⟨st, stack, unf, seen⟩ := c
    simp only at h1 h2 h3 h4
    subst h1 h2 h3
    unfold eventsLoop run atEof
    cases hS : cS.stack with
    | nil => cases seen <;> simp_all [Except.isOk, Except.toBool]
    | cons p rest =>
      obtain ⟨t, b⟩ := p
      cases rest with
      | nil =>
        cases t <;> cases hu : cS.unf <;> simp [Except.isOk, Except.toBool, nonTop_append, nonTop]
      | cons q rest' =>
        cases t <;> simp [Except.isOk, Except.toBool]
  | cons x cs ih =>
    intro i cS acc c h1 h2 h3 h4 h5
    obtain ⟨st, stack, unf, seen⟩ := c
    simp only at h1 h2 h3 h4 h5
    subst h1 h2 h3
    unfold eventsLoop run feed
    simp only [bind, Except.bind, pure, Except.pure]
    cases hstep : step allow cS.st (cS.stack.map (·.1)) cS.unf x with
    | error e => simp [Except.isOk, Except.toBool]
    | ok r =>
      obtain ⟨st', unf', finds⟩ := r
      simp only
      cases haf : applyFindsS i cS.stack finds [] with
      | error e =>
        obtain ⟨e', he'⟩ := applyFinds_err i finds cS.stack [] e haf
        simp [he', Except.isOk, Except.toBool]
      | ok r2 =>
        obtain ⟨S', evs, stop⟩ := r2
        obtain ⟨ha, hb, new, hn, hl⟩ := applyFinds_ok i finds cS.stack [] S' evs stop haf
        simp only [List.reverse_nil, List.nil_append] at hn
        subst hn
        rw [ha]
        cases stop with
        | true =>
          -- something was seen before: the end-top lexeme cannot be found from the root state
          have hseen : seen = true := by
            cases hs : seen with
            | true => rfl
            | false =>
              have hr := h5 hs
              rw [hr] at hstep
              exact absurd (hb rfl) (foundRoot_step allow _ _ _ _ _ _ hstep).1
          rw [hseen] at h4
          have : (nonTop acc).isEmpty = false := by simpa using h4.symm
          have hne : nonTop acc ≠ [] := by intro e; rw [e] at this; simp at this
          simp [nonTop_append, Except.isOk, Except.toBool]
          intro e; exact absurd e hne
        | false =>
          obtain ⟨hlen, hall⟩ := hl rfl
          simp only [Bool.false_eq_true, if_false]
          refine ih (i + 1) _ (acc ++ evs) _ rfl rfl rfl ?_ ?_
          · show (seen || !finds.isEmpty) = !(nonTop (acc ++ evs)).isEmpty
            rw [nonTop_append, nonTop_of_all evs hall, h4]
            have hev : evs.isEmpty = finds.isEmpty := by
              cases evs <;> cases finds <;> simp_all
            cases hA : nonTop acc with
            | nil => simp [hev]
            | cons a l => simp
          · intro hs
            have hs' : seen = false ∧ finds = [] := by
              cases seen <;> cases finds <;> simp_all
            have hr := h5 hs'.1
            rw [hr] at hstep
            exact (foundRoot_step allow _ _ _ _ _ _ hstep).2 hs'.2

/-- **the two JSON scanner machines accept the same byte strings** (both modes) -/
theorem checkS_iff_check (allow : Bool) (bs : List UInt8) : (checkS allow bs).isOk = check allow bs := by
  have h := loop_bridge allow bs.length (bs.map classify) 0 {} [] Cfg.init rfl rfl rfl rfl (fun _ => rfl)
  unfold checkS events check checkC
  rw [← h]
  cases eventsLoop allow bs.length (bs.map classify) 0 {} [] with
  | error e => rfl
  | ok evs =>
    simp only [nonTop]
    cases (evs.filter (·.ty != .endTop)).isEmpty <;> rfl

end JsonScan
