import JSight.ShortE2ELinks
/-!
Non-vacuity of the text-level C09 / C16 statements on trees with shortcut leaves:

root  `{"a": @A | @B ,⏎ "b": [@C⏎], "c": 1}`,  types  `@A` = `1⏎`,  `@B` = ` @C`  (`@C` was never added).
-/
namespace SE
namespace Ex
open SchemaScan (Cls STree)

/-- `@A | @B ` (one space behind the last name: stripped from the mixed-value lexeme, kept in the shortcut lexeme) -/
def sAB : BST := .short [65] [([32], [32], [66])] [32]
/-- `@C` -/
def sC : BST := .short [67] [] []

/-- `{"a": @A | @B ,⏎ "b": [@C⏎], "c": 1}` -/
def root : BST :=
  .obj [] [([], [34, 97, 34], [], [32], sAB, []),
           ([10, 32], [34, 98, 34], [], [32], .arr [] [([], sC, [10])], []),
           ([32], [34, 99, 34], [], [32], .scalar [49], [])]

example : String.fromUTF8! (docText [] root []).toByteArray = "{\"a\": @A | @B ,\n \"b\": [@C\n], \"c\": 1}" := by
  decide +kernel

theorem key_a : SchemaScan.IsKey (clsB [34, 97, 34]) := ⟨_, rfl, rfl⟩
theorem key_b : SchemaScan.IsKey (clsB [34, 98, 34]) := ⟨_, rfl, rfl⟩
theorem key_c : SchemaScan.IsKey (clsB [34, 99, 34]) := ⟨_, rfl, rfl⟩
theorem one_scalar : SchemaScan.IsScalar (clsB [49]) := ⟨.d19, [], .d1, false, .d1, rfl, rfl, rfl, rfl⟩

theorem sAB_valid : sAB.cls.Valid := by
  simp only [sAB, BST.cls, STree.Valid, clsSc, clsAlts, clsB, SchemaScan.Len.Shortcut.Valid, SchemaScan.Len.ValidAlts,
    SchemaScan.Len.IsTypeName, SchemaScan.Len.IsSpTabs]
  decide

theorem sC_valid : sC.cls.Valid := by
  simp only [sC, BST.cls, STree.Valid, clsSc, clsAlts, clsB, SchemaScan.Len.Shortcut.Valid, SchemaScan.Len.ValidAlts,
    SchemaScan.Len.IsTypeName, SchemaScan.Len.IsSpTabs]
  decide

theorem ws_ok (w : Bytes) (h : w.all (fun b => b == 32 || b == 9 || b == 10 || b == 13) = true) :
    SchemaScan.IsWs (clsB w) := by
  intro c hc
  simp only [clsB, List.mem_map] at hc
  obtain ⟨b, hb, rfl⟩ := hc
  have := List.all_eq_true.mp h b hb
  simp only [Bool.or_eq_true, beq_iff_eq] at this
  rcases this with ((rfl | rfl) | rfl) | rfl <;> rfl

theorem root_valid : root.cls.Valid := by
  simp only [root, BST.cls, clsMembers, clsItems, STree.Valid, SchemaScan.SValidMembers, SchemaScan.SValidItems]
  refine ⟨ws_ok _ rfl, ws_ok _ rfl, key_a, ws_ok _ rfl, ws_ok _ rfl, sAB_valid, ws_ok _ rfl, fun _ => Or.inl rfl,
    ws_ok _ rfl, key_b, ws_ok _ rfl, ws_ok _ rfl, ⟨ws_ok _ rfl, ws_ok _ rfl, sC_valid, ws_ok _ rfl,
      fun _ => Or.inr ⟨[], rfl⟩, trivial⟩, ws_ok _ rfl, (by intro h; cases h),
    ws_ok _ rfl, key_c, ws_ok _ rfl, ws_ok _ rfl, one_scalar, ws_ok _ rfl, (by intro h; cases h), trivial⟩

theorem root_ok : TextOK [] root [] where
  ws0 := ws_ok _ rfl
  ws1 := ws_ok _ rfl
  valid := root_valid
  follow := (by intro h; cases h)
  side := by decide +kernel
  keys := by
    simp only [root, BST.KeysNodup, NodupMembers, NodupItems, keysB, sAB, sC]
    refine ⟨by decide +kernel, trivial, ⟨trivial, trivial⟩, trivial, trivial⟩

/-- the added types: `@A` = `1⏎`, `@B` = ` @C` -/
def tys : List TypeText := [("@A", [], .scalar [49], [10]), ("@B", [32], sC, [])]

theorem tys_ok : TypesOK tys := by
  intro x hx
  simp only [tys, List.mem_cons, List.mem_singleton, List.not_mem_nil, or_false] at hx
  rcases hx with rfl | rfl
  · exact ⟨ws_ok _ rfl, ws_ok _ rfl, one_scalar, (by intro h; cases h), by decide +kernel, trivial⟩
  · exact ⟨ws_ok _ rfl, ws_ok _ rfl, sC_valid, fun _ => Or.inl rfl, by decide +kernel, trivial⟩

theorem names_ok : CL.typeNamesOK (typeTexts tys) = true := by decide +kernel

/-- the compiled root: `a` refers to `@A`, `@B` (or-shortcut), the item of `b` to `@C` -/
example : cnOf false root =
    .obj [("a", false, true, false, .ref ["@A", "@B"] false .mixed none true),
          ("b", false, true, false, .arr [.ref ["@C"] false .mixed none false] false false),
          ("c", false, true, false, .lit { kind := .i, ex := [49], nul := false, rules := [] } false)] .absent false false := by
  rfl

/-- the statements apply: root and both added types are texts of the class -/
example (doc : List UInt8) := text_level_links_stree [] root [] root_ok tys tys_ok names_ok doc false
example (doc : List UInt8) := text_level_1302_iff_stree [] root [] root_ok tys tys_ok names_ok doc false
example : E2E.loadSchema (docText [] root []) false = .ok (some (cnOf false root)) := loadSchema_stree [] root [] root_ok false

/-- and the first missing name in the code's visiting order is `@C` (referenced by the root and by `@B`, never added) -/
example : CL.firstMissing (typesOf tys) (CL.visitAll (cnOf false root) (typesOf tys)) = some "@C" := by decide +kernel

/-- the events of the shortcut `@A | @B ` of the root text (it starts at offset 6, its last byte — the space — is at 13):
the shortcut lexeme keeps the space, the mixed-value lexeme drops it -/
example : SchemaScan.sEvsAt 6 sAB.cls = [⟨.mixB, 6, 6⟩, ⟨.tsB, 6, 6⟩, ⟨.tsE, 6, 13⟩, ⟨.mixE, 6, 12⟩] := by decide +kernel

/-- the scanner model on the root text delivers exactly the events of the tree -/
example : SchemaScan.scanAll (docText [] root []) = .ok (SchemaScan.sEvsAt 0 root.cls) := by
  have := SchemaScan.C06_schema_events_of_shortcut_tree root.cls root_valid [] [] (ws_ok [] rfl) (ws_ok [] rfl)
    (by intro h; cases h) (docText [] root []) (by simp only [docText, List.map_append, render_cls]; rfl)
  simpa [SchemaScan.nlEvs] using this

end Ex
end SE
