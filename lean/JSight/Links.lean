/-!
# C09 — the link check and `UsedUserTypes` as coded (model; core Lean only)

Sources transliterated:

* `notations/jschema/internal/loader/compiler_all_of.go` (`CompileAllOf`, `processType`, `extendWith`):
  the `allOf` parents are looked up FIRST (before the checker runs), with the in-progress set
  `processingTypes` (error 703), the memo `compiledTypes`, and the copy-down of the parent's keys /
  children / `additionalProperties` into the inheriting object (errors 704, 705, 402).
  Pointer mutation → state passing: the state carries, per compiled type, the PRE-ORDER LIST of its
  nodes after copy-down (`CItem`), which is all the checker looks at.
* `notations/jschema/internal/checker/check_schema.go` (`CheckRootSchema`, `checkNode`,
  `checkLinksOfNode`, `collectAllowedJsonTypes` with its `foundTypeNames` path set — un-marked on leave
  since fix F-8b, modelled as coded —, `ensureShortcutKeysAreValid`, `actualRootTypeVisiting`,
  `checkAdditionalPropertiesConstraint`, `getType`): the root is walked first, then the hoisted unnamed
  types `#…` (the or-shortcut nodes `@A | @B` of the added types: `sort.Strings` puts `#` before `@`;
  their mutual order is the order of heap addresses → explicit parameter `ord`), then every added type
  in `sort.Strings` order — referenced from the root or not.
* `notations/jschema/jschema.go:236` `UsedUserTypes` → `collectUserTypes` (runs on the ROOT schema only, at
  load time, before `CompileBasic`).

Outside the model (the harness skips / classifies them): the example-against-rules check of literal nodes
(`checkLiteralNode`, errors 204 …), rule/kind compatibility, `additionalProperties` modes other than a user
type, `allOf` on a non-object, `{or: […]}` on containers (the loader forbids user types there).
Enum rule names (`{enum: @E}`) live in the `rules` table, not in the type table: neither the link check
nor `UsedUserTypes` looks at them (the IR carries them to make that visible).
-/
namespace LK

/-- `json.Type` -/
inductive JT | obj | arr | str | int | flt | bool | null | mixed
  deriving DecidableEq, Repr, Inhabited

/-- `json.AllTypes` -/
def allTypes : List JT := [.obj, .arr, .str, .int, .flt, .bool, .null, .mixed]

/-- a member of a types list written with the `or` rule: `"@A"` / `{type: "@A"}` (a user type), or a JSON type
name / rule set, which the loader turns into an unnamed type `#%p` whose root is a mixed node of that JSON type -/
inductive Mem | user (n : String) | builtin (jt : JT)
  deriving DecidableEq, Repr, Inhabited

/-- the type rules of a literal EXAMPLE: none, `{type: "@A"}`, `{or: [m₁, m₂, …]}` -/
inductive TL | none | typ (n : String) | orr (ms : List Mem)
  deriving Repr, Inhabited

/-- the types-list constraint of the node once `CompileBasic` has run -/
def TL.members : TL → List Mem
  | .none => []
  | .typ n => [.user n]
  | .orr ms => ms

def userNames : List Mem → List String
  | [] => []
  | .user n :: ms => n :: userNames ms
  | .builtin _ :: ms => userNames ms

/-- schema nodes, as far as references are concerned -/
inductive N
  | lit (jt : JT) (tl : TL) (enm : Option String)       -- literal EXAMPLE of JSON type `jt`; `enm`: `{enum: @E}`
  | ref (names : List String)                            -- `@A`, `@A | @B | …`
  | arr (items : List N)
  | obj (allOf : List String) (addp : Option String) (props : List (String × Bool × N))
                                                         -- props: (key, is key shortcut `@K`, value)
  deriving Inhabited

/-- a root schema and the table of added types (`AddType`, in this order) -/
structure G where
  root : N
  types : List (String × N)

def lookup (g : G) (t : String) : Option N := (g.types.find? (·.1 == t)).map (·.2)

/-! ### pre-order lists of node-local records -/

/-- one node as loaded; `inh` marks where `extendWith` appends the children of the (compiled) parents: after
the object's own children -/
inductive Item
  | lit (jt : JT) (ms : List Mem)
  | ref (names : List String)
  | arr
  | obj (keys : List (String × Bool)) (addp : Option String) (allOf : List String)
  | inh (parents : List String)
  deriving Repr, Inhabited

def keysOf (ps : List (String × Bool × N)) : List (String × Bool) := ps.map (fun p => (p.1, p.2.1))

mutual
def flat : N → List Item
  | .lit jt tl _ => [.lit jt tl.members]
  | .ref names => [.ref names]
  | .arr items => .arr :: flatItems items
  | .obj ao ap ps => .obj (keysOf ps) ap ao :: (flatProps ps ++ [.inh ao])
def flatItems : List N → List Item
  | [] => []
  | x :: xs => flat x ++ flatItems xs
def flatProps : List (String × Bool × N) → List Item
  | [] => []
  | (_, _, v) :: ps => flat v ++ flatProps ps
end

/-- one node after `CompileAllOf` -/
inductive CItem
  | lit (jt : JT) (ms : List Mem)
  | ref (names : List String)
  | arr
  | obj (keys : List (String × Bool)) (addp : Option String)
  deriving Repr, Inhabited

inductive Err
  | missing (n : String)            -- 1302 Type "n" not found
  | allOfRecursion                  -- 703
  | allOfNotObject (n : String)     -- 704
  | addpConflict                    -- 705
  | dupKey (k : String)             -- 402
  | incorrectUserType               -- 1301
  | jsonTypeRecursion (n : String)  -- 1303
  | keyNotString (k : String)       -- 1304
  | fuel                            -- the model ran out of fuel (never, see `LinksFuel`)
  deriving DecidableEq, Repr, Inhabited

/-! ### `CompileAllOf` -/

structure St where
  processing : List String                    -- `processingTypes`
  compiled : List (String × List CItem)       -- `compiledTypes` + the compiled bodies

/-- `AddChild` for every child of the parent: the first key already present panics (402) -/
def copyKeys : List (String × Bool) → List (String × Bool) → Except Err (List (String × Bool))
  | acc, [] => .ok acc
  | acc, k :: ks => if acc.contains k then .error (.dupKey k.1) else copyKeys (acc ++ [k]) ks

/-- the `additionalProperties` rule of the parent against the one of the inheriting object -/
def mergeAddp : Option String → Option String → Except Err (Option String)
  | some pa, some a => if pa = a then .ok (some a) else .error .addpConflict
  | some pa, none => .ok (some pa)
  | none, a => .ok a

/-- `extendWith` after `processType(name)` returned the compiled parent `pc` -/
def extendWith (name : String) (acc : List (String × Bool) × Option String) (pc : List CItem) :
    Except Err (List (String × Bool) × Option String) :=
  match pc with
  | .obj pkeys paddp :: _ =>
    match mergeAddp paddp acc.2 with
    | .error e => .error e
    | .ok addp' =>
      match copyKeys acc.1 pkeys with
      | .error e => .error e
      | .ok keys' => .ok (keys', addp')
  | _ => .error (.allOfNotObject name)

/-- `extend`: every name of the `allOf` list, in order -/
def extendAll (pt : String → St → Except Err (List CItem × St)) :
    List String → List (String × Bool) × Option String → St →
    Except Err ((List (String × Bool) × Option String) × St)
  | [], acc, st => .ok (acc, st)
  | p :: ps, acc, st =>
    match pt p st with
    | .error e => .error e
    | .ok (pc, st1) =>
      match extendWith p acc pc with
      | .error e => .error e
      | .ok acc1 => extendAll pt ps acc1 st1

/-- the children of the compiled parents (their roots excluded), in `allOf` order -/
def inherited (st : St) : List String → List CItem
  | [] => []
  | p :: ps => ((st.compiled.lookup p).getD []).tail ++ inherited st ps

/-- `processNode` over the pre-order list of a schema; `pt` = `processType` -/
def processItems (pt : String → St → Except Err (List CItem × St)) :
    List Item → St → Except Err (List CItem × St)
  | [], st => .ok ([], st)
  | .lit jt ms :: rest, st =>
    match processItems pt rest st with
    | .error e => .error e
    | .ok (out, st') => .ok (.lit jt ms :: out, st')
  | .ref names :: rest, st =>
    match processItems pt rest st with
    | .error e => .error e
    | .ok (out, st') => .ok (.ref names :: out, st')
  | .arr :: rest, st =>
    match processItems pt rest st with
    | .error e => .error e
    | .ok (out, st') => .ok (.arr :: out, st')
  | .obj keys addp ao :: rest, st =>
    match extendAll pt ao (keys, addp) st with
    | .error e => .error e
    | .ok (acc, st1) =>
      match processItems pt rest st1 with
      | .error e => .error e
      | .ok (out, st2) => .ok (.obj acc.1 acc.2 :: out, st2)
  | .inh ps :: rest, st =>
    match processItems pt rest st with
    | .error e => .error e
    | .ok (out, st') => .ok (inherited st ps ++ out, st')

/-- `allOfConstraintCompiler.processType` -/
def processType (g : G) : Nat → String → St → Except Err (List CItem × St)
  | 0, _, _ => .error .fuel
  | f + 1, name, st =>
    if st.processing.contains name then .error .allOfRecursion
    else match lookup g name with
      | none => .error (.missing name)
      | some body =>
        match st.compiled.lookup name with
        | some c => .ok (c, st)
        | none =>
          match processItems (processType g f) (flat body) { st with processing := name :: st.processing } with
          | .error e => .error e
          | .ok (c, st1) => .ok (c, { processing := st1.processing.erase name, compiled := (name, c) :: st1.compiled })

/-- insertion into a sorted list (`sort.Strings`: byte order = code-point order) -/
def insertSorted (x : String) : List String → List String
  | [] => [x]
  | y :: ys => if x < y then x :: y :: ys else y :: insertSorted x ys

def sortStrings : List String → List String
  | [] => []
  | x :: xs => insertSorted x (sortStrings xs)

def sortedNames (g : G) : List String := sortStrings (g.types.map (·.1))

/-- the loop over the table's names -/
def processNames (pt : String → St → Except Err (List CItem × St)) : List String → St → Except Err St
  | [], st => .ok st
  | n :: ns, st =>
    match pt n st with
    | .error e => .error e
    | .ok (_, st') => processNames pt ns st'

def fuelOf (g : G) : Nat := g.types.length + 1

/-- `CompileAllOf`: the root, then every type of the table in sorted order -/
def compileAllOf (g : G) (fuel : Nat) : Except Err (List CItem × St) :=
  match processItems (processType g fuel) (flat g.root) ⟨[], []⟩ with
  | .error e => .error e
  | .ok (rootC, st) =>
    match processNames (processType g fuel) (sortedNames g) st with
    | .error e => .error e
    | .ok st' => .ok (rootC, st')

/-! ### `CheckRootSchema` -/

/-- `MustType` for every name of a mixed-value node -/
def mustAll (g : G) : List String → Except Err Unit
  | [] => .ok ()
  | n :: ns => match lookup g n with
    | none => .error (.missing n)
    | some _ => mustAll g ns

/-- the loop of `collectAllowedJsonTypes` over the names of a types list; `rec` = the call on a type's root -/
def collectNames (g : G) (rec : List String → N → List JT → Except Err (List JT)) :
    List String → List Mem → List JT → Except Err (List JT)
  | _, [], al => .ok al
  | found, .builtin jt :: ms, al => collectNames g rec found ms (jt :: al)
  | found, .user n :: ms, al =>
    if found.contains n then .error (.jsonTypeRecursion n)
    else match lookup g n with
      | none => .error (.missing n)
      | some body =>
        match rec (n :: found) body al with
        | .error e => .error e
        | .ok al1 => collectNames g rec found ms al1

/-- `collectAllowedJsonTypes` on the root node of a type (`found` = `foundTypeNames`, `al` = `allowedJsonTypes`) -/
def collectRoot (g : G) : Nat → List String → N → List JT → Except Err (List JT)
  | _, _, .ref names, al =>
    match mustAll g names with
    | .error e => .error e
    | .ok _ => .ok (allTypes ++ al)
  | _, _, .arr _, al => .ok (.arr :: al)
  | _, _, .obj _ _ _, al => .ok (.obj :: al)
  | f, found, .lit jt tl _, al =>
    match tl.members with
    | [] => .ok (jt :: al)
    | m :: ms =>
      match f with
      | 0 => .error .fuel
      | f + 1 => collectNames g (collectRoot g f) found (m :: ms) al

/-- the loop of `actualRootTypeVisiting` over the names of an alias; `none` = the early `return mixed` -/
def actualNames (g : G) (rec : List String → N → Except Err JT) :
    List String → List String → List JT → Except Err (Option (List JT))
  | _, [], acc => .ok (some acc)
  | vis, tn :: tns, acc =>
    if vis.contains tn then .ok none
    else match lookup g tn with
      | none => .ok none
      | some body =>
        match rec (tn :: vis) body with
        | .error e => .error e
        | .ok tt => actualNames g rec vis tns (tt :: acc)

/-- `actualRootTypeVisiting` -/
def actualType (g : G) : Nat → List String → N → Except Err JT
  | _, _, .lit jt _ _ => .ok jt
  | _, _, .arr _ => .ok .arr
  | _, _, .obj _ _ _ => .ok .obj
  | 0, _, .ref _ => .error .fuel
  | f + 1, vis, .ref names =>
    match actualNames g (actualType g f) vis names [] with
    | .error e => .error e
    | .ok none => .ok .mixed
    | .ok (some []) => .ok .mixed
    | .ok (some (t :: ts)) => if ts.all (· == t) then .ok t else .ok .mixed

/-- `ensureShortcutKeysAreValid` -/
def checkKeys (g : G) (fuel : Nat) : List (String × Bool) → Except Err Unit
  | [] => .ok ()
  | (_, false) :: ks => checkKeys g fuel ks
  | (k, true) :: ks =>
    match lookup g k with
    | none => .error (.missing k)
    | some body =>
      match actualType g fuel [] body with
      | .error e => .error e
      | .ok t => if t = .str then checkKeys g fuel ks else .error (.keyNotString k)

/-- the loop of `nodeCheckerListConstructor.appendTypeValidators` (`checkLiteralNode` → `checkerList`): every name
once (`added` = `addedTypeNames`), each looked up with `getType`; `rec` = `buildList` on the type's root. Unlike
`collectAllowedJsonTypes` this descent continues through the roots that are type shortcuts / or-shortcuts. -/
def buildNames (g : G) (rec : N → List String → Except Err (List String)) :
    List Mem → List String → Except Err (List String)
  | [], added => .ok added
  | .builtin _ :: ms, added => buildNames g rec ms added
  | .user n :: ms, added =>
    if added.contains n then buildNames g rec ms added
    else match lookup g n with
      | none => .error (.missing n)
      | some body =>
        match rec body (n :: added) with
        | .error e => .error e
        | .ok added1 => buildNames g rec ms added1

/-- `buildList` on the root node of a type -/
def buildRoot (g : G) : Nat → N → List String → Except Err (List String)
  | _, .arr _, added => .ok added
  | _, .obj _ _ _, added => .ok added
  | f, .lit _ tl _, added =>
    match tl.members with
    | [] => .ok added
    | m :: ms =>
      match f with
      | 0 => .error .fuel
      | f + 1 => buildNames g (buildRoot g f) (m :: ms) added
  | f, .ref names, added =>
    match names with
    | [] => .ok added
    | n :: ns =>
      match f with
      | 0 => .error .fuel
      | f + 1 => buildNames g (buildRoot g f) ((n :: ns).map Mem.user) added

/-- `checkNode` without the recursion into the children (the list is already in pre-order) -/
def checkItem (g : G) (fuel : Nat) : CItem → Except Err Unit
  | .lit _ [] => .ok ()
  | .lit jt (m :: ms) =>
    match collectNames g (collectRoot g fuel) [] (m :: ms) [] with
    | .error e => .error e
    | .ok al =>
      if al.contains jt then
        -- `checkLiteralNode`: the checker list is built (the example-against-rules check itself is not modelled)
        match buildNames g (buildRoot g fuel) (m :: ms) [] with
        | .error e => .error e
        | .ok _ => .ok ()
      else .error .incorrectUserType
  | .ref names => mustAll g names
  | .arr => .ok ()
  | .obj keys addp =>
    match checkKeys g fuel keys with
    | .error e => .error e
    | .ok _ =>
      match addp with
      | none => .ok ()
      | some a => match lookup g a with
        | none => .error (.missing a)
        | some _ => .ok ()

def checkList (g : G) (fuel : Nat) : List CItem → Except Err Unit
  | [] => .ok ()
  | c :: cs => match checkItem g fuel c with
    | .error e => .error e
    | .ok _ => checkList g fuel cs

/-- the or-shortcut nodes (`@A | @B`, two names or more) of a pre-order list: each is the root of unnamed types -/
def orNodesOf : List Item → List (List String)
  | [] => []
  | .ref (a :: b :: cs) :: rest => (a :: b :: cs) :: orNodesOf rest
  | _ :: rest => orNodesOf rest

/-- the or-shortcut nodes of all added types (hoisted into the root table by `AddUnnamedTypes`) -/
def orNodes (g : G) : List (List String) :=
  (g.types.map (·.1)).flatMap (fun n => match lookup g n with
    | some body => orNodesOf (flat body)
    | none => [])

def checkOrNodes (g : G) : List (List String) → Except Err Unit
  | [] => .ok ()
  | l :: ls => match mustAll g l with
    | .error e => .error e
    | .ok _ => checkOrNodes g ls

/-- the nodes of a type the `allOf` compiler never saw (only in the pre-fix order `pinnedLinkCheckOF`; on the current
tree every type of the table is compiled and this fallback is never used): as loaded, nothing copied down -/
def naive : List Item → List CItem
  | [] => []
  | .lit jt ms :: r => .lit jt ms :: naive r
  | .ref ns :: r => .ref ns :: naive r
  | .arr :: r => .arr :: naive r
  | .obj keys addp _ :: r => .obj keys addp :: naive r
  | .inh _ :: r => naive r

/-- the pre-order list `checkType(name)` walks -/
def compiledOf (g : G) (st : St) (n : String) : List CItem :=
  match st.compiled.lookup n with
  | some c => c
  | none => match lookup g n with
    | some body => naive (flat body)
    | none => []

def checkTypes (g : G) (fuel : Nat) (st : St) : List String → Except Err Unit
  | [] => .ok ()
  | n :: ns => match checkList g fuel (compiledOf g st n) with
    | .error e => .error e
    | .ok _ => checkTypes g fuel st ns

/-- `CheckRootSchema` -/
def checkRootSchema (g : G) (fuel : Nat) (rootC : List CItem) (st : St) (ord : List (List String)) : Except Err Unit :=
  match checkList g fuel rootC with
  | .error e => .error e
  | .ok _ =>
    match checkOrNodes g ord with
    | .error e => .error e
    | .ok _ => checkTypes g fuel st (sortedNames g)

/-- the part of `Schema.compile()` that resolves references: `CompileAllOf`, then `CheckRootSchema`.
`ord`: the or-shortcut nodes of the added types in the order of their unnamed names. -/
def linkCheckF (g : G) (fuel : Nat) (ord : List (List String)) : Except Err Unit :=
  match compileAllOf g fuel with
  | .error e => .error e
  | .ok (rootC, st) => checkRootSchema g fuel rootC st ord

def linkCheck (g : G) (ord : List (List String)) : Except Err Unit := linkCheckF g (fuelOf g) ord

/-! ### ownership: types added to other types

`A.AddType("@b", B)` puts `@b` into the table of the type object `A`, not into the root's. `Schema.compile()` first
hoists the tables of the types into the root table, transitively (`loader.AddUnnamedTypes`, since commit 8f3890e
BEFORE `CompileAllOf`), then runs the pipeline above on the hoisted table.

IR: every type object once, with its owner (type objects are identified by their names: the IR has no two objects
of one name — where the real tables collide, hoisting overwrites silently; the generators avoid that). -/

inductive Owner
  | root                  -- `root.AddType(name, obj)`
  | type (o : String)     -- `O.AddType(name, obj)` where `O` is the type object named `o`
  | nobody                -- the object was created and never added to anything
  deriving DecidableEq, Repr, Inhabited

structure OT where
  name : String
  owner : Owner
  body : N

structure OG where
  root : N
  types : List OT

/-- the root's own table -/
def table0 (ts : List OT) : List String :=
  (ts.filter (fun t => match t.owner with | .root => true | _ => false)).map (·.name)

/-- the object is in the table of a type that is in the root table, and is not in the root table yet -/
def addsNow (tab : List String) (t : OT) : Bool :=
  match t.owner with
  | .type o => tab.contains o && !tab.contains t.name
  | _ => false

/-- one round of `AddUnnamedTypes`: the tables of the types that are in the root table are copied into it -/
def hoistRound (ts : List OT) (tab : List String) : List String :=
  tab ++ (ts.filter (addsNow tab)).map (·.name)

/-- `for { … }` until nothing new: fuel = number of rounds -/
def hoistNames (ts : List OT) : Nat → List String → List String
  | 0, tab => tab
  | f + 1, tab => hoistNames ts f (hoistRound ts tab)

def hoisted (og : OG) : List String := hoistNames og.types og.types.length (table0 og.types)

/-- the root schema with the hoisted type table -/
def flatten (og : OG) : G :=
  { root := og.root,
    types := (og.types.filter (fun t => (hoisted og).contains t.name)).map (fun t => (t.name, t.body)) }

/-- `Schema.compile()` up to `CheckRootSchema`, with ownership -/
def linkCheckO (og : OG) (ord : List (List String)) : Except Err Unit := linkCheck (flatten og) ord

/-! ### the order of `Schema.compile()` before commit 8f3890e (kept as a regression model)

`CompileAllOf` ran BEFORE the hoisting: it looked names up in the root's own table only (`rootSchema.MustType`) and
compiled the types of that table only. With `g.types` = the hoisted table and `direct` = the names added to the root
itself: `CompileAllOf` saw `directPart g direct`, the checker saw `g`; a type outside `direct` kept its `allOf` rule
uncompiled and unlooked-at. -/

def directPart (g : G) (direct : List String) : G :=
  { root := g.root, types := g.types.filter (fun p => direct.contains p.1) }

def pinnedLinkCheckOF (g : G) (direct : List String) (fuel : Nat) (ord : List (List String)) : Except Err Unit :=
  match compileAllOf (directPart g direct) fuel with
  | .error e => .error e
  | .ok (rootC, st) => checkRootSchema g fuel rootC st ord

def pinnedLinkCheckO (g : G) (direct : List String) (ord : List (List String)) : Except Err Unit :=
  pinnedLinkCheckOF g direct (fuelOf g) ord

/-! ### `UsedUserTypes` -/

/-- `userTypesCollector.addType` (`alreadyProcessed` holds exactly the members of `userTypes`) -/
def addType (acc : List String) (n : String) : List String := if acc.contains n then acc else acc ++ [n]

def addAll (acc : List String) (l : List String) : List String := l.foldl addType acc

def TL.userNames : TL → List String
  | .none => []
  | .typ n => [n]
  | .orr ms => LK.userNames ms

mutual
/-- `userTypesCollector.collect` -/
def collect : N → List String → List String
  | .lit _ tl _, acc => addAll acc tl.userNames          -- types list (`or`) / type constraint
  | .ref names, acc => addAll (addAll acc names) names   -- types list / type constraint, then the `|`-split of the text
  | .arr items, acc => collectItems items acc
  | .obj ao ap ps, acc => collectProps ps (addAll (addAll acc ao) ap.toList)   -- allOf, additionalProperties, keys
def collectItems : List N → List String → List String
  | [], acc => acc
  | x :: xs, acc => collectItems xs (collect x acc)
def collectProps : List (String × Bool × N) → List String → List String
  | [], acc => acc
  | (k, sc, v) :: ps, acc => collectProps ps (collect v (if sc then addType acc k else acc))
end

/-- `Schema.UsedUserTypes()` -/
def used (root : N) : List String := collect root []

end LK
