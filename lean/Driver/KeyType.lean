import JSight.KeyType
import Driver.SemCF
/-!
`keyt <kind> <example hex> <key token hex> <decoded key hex | -> <4 oracle bits> <constraint>…` → `1` / `0` / `P`

The key test of one key shortcut (`KeyType.keyStep`): `1` = the shortcut admits the key, `0` = it does not,
`P` = the panic `ErrInvalidKeyType` (root node of the key type is no string). `<kind>`: `s i f b n`, anything that
is no scalar (object, array, mixed) is sent as `o` and read as a non-string kind. Constraints: the raw rules of
`semcf` (compiled by `RulesF.compile`, then `KeyType.ofSpec`), and `A` (`type: "any"`), `T` (a types list left by
`or` / `type: "@t"`) for the constraints that are no literal validators. The oracle bits are those of `semcf`
(regexp / mail / uri / RFC 3339 evaluated by the harness on the decoded key it also sends; `UNQDIFF` if the
model's `Unquote.unquote` of the key token is another string).
-/
namespace DKeyT
open Drv RulesF KeyType

def extra (w : String) : Option KCon :=
  match w with
  | "A" => some .any
  | "T" => some .typesList
  | _ => none

def handle (line : String) : String :=
  match (line.splitOn " ").filter (· ≠ "") with
  | k :: ex :: tok :: dec :: bits :: ws =>
    let tokB := DSemCF.hx tok
    if Unquote.unquote tokB != DSemCF.hx dec then "UNQDIFF " ++ hexOf (Unquote.unquote tokB)
    else
      let extras := ws.filterMap extra
      match (ws.filter (fun w => (extra w).isNone)).mapM DSemCF.rawRule with
      | none => "bad-rule"
      | some raws =>
        let o : Oracles := { re := fun _ _ => DSemCF.bit bits 0, mail := fun _ => DSemCF.bit bits 1,
                             uri := fun _ => DSemCF.bit bits 2, rfc3339 := fun _ => DSemCF.bit bits 3 }
        let T0 := ofSpec (compile (DSemCF.kindOf k) (DSemCF.hx ex) raws)
        let T : KeyTypeNode := { T0 with cons := T0.cons ++ extras }
        match keyStep o T tokB with
        | none => "P"
        | some true => "1"
        | some false => "0"
  | _ => "bad-op"

end DKeyT
