import JSight.ATreeDefs
import Driver.LoadV
/-! `atree (doc GAP TREE GAP)` → `<hex of the text>|<lineOK: 1/0>|<dump of t.table>|<loadv of the text>`: the SPEC side of
`C13_annotated_tree_loads` (the table an `AT.ATree` denotes) next to the loader model's table of its text, both in the
format of `loadv`. Tie `c13-tree` (stream `atree`).

    GAP  = (g ITEM*)            ITEM = (s HH) | (n HH) | (c TEXT HH)          (hex; `-` = empty)
    AN   = (an m|i S2 S3 NLB NOTE OBJ)   NOTE = - | (S4 TXT)   OBJ = (e B0) | (r TC RULE+)   TC = - | (t B5)
    RULE = (B1 NAME N2 B3 VAL B4)
    TREE = (S TOK SANN) | (A HEAD ITEMS) | (O HEAD MEMBERS)      SANN = - | (b GAP AN) | (a GAP AN)   HEAD = - | (h GAP AN)
    ITEMS = (n GAP) | (c GAP TREE GAP 0|1 ITEMS)     MEMBERS = (n GAP) | (c GAP KEY GAP GAP TREE GAP 0|1 MEMBERS) -/
namespace Drv.ATreeD
open Drv AT Loader

def hx (s : String) : List UInt8 := if s == "-" then [] else unhex s
def hx1 (s : String) : UInt8 := (unhex s).headD 10

def pGap : Sx → Option Gap
  | .list (.atom "g" :: items) => items.mapM fun
    | .list [.atom "s", .atom h] => some (LTok.sp (hx1 h))
    | .list [.atom "n", .atom h] => some (LTok.nl (hx1 h))
    | .list [.atom "c", .atom t, .atom h] => some (LTok.cmt (hx t) (hx1 h))
    | _ => none
  | _ => none

def pRule : Sx → Option Lay.BRule
  | .list [.atom b1, .atom nm, .atom n2, .atom b3, .atom v, .atom b4] => some ⟨hx b1, hx nm, n2.toNat!, hx b3, hx v, hx b4⟩
  | _ => none

def pObj : Sx → Option Lay.BObj
  | .list [.atom "e", .atom b0] => some (.empty (hx b0))
  | .list (.atom "r" :: tc :: r :: rs) => do
    let tc' ← match tc with
      | .atom "-" => some none
      | .list [.atom "t", .atom b5] => some (some (hx b5))
      | _ => none
    let r' ← pRule r
    let rs' ← rs.mapM pRule
    pure (.rules r' rs' tc')
  | _ => none

def pAnn : Sx → Option Annot
  | .list [.atom "an", .atom m, .atom s2, .atom s3, .atom nlb, note, ob] => do
    let nt ← match note with
      | .atom "-" => some none
      | .list [.atom s4, .atom txt] => some (some (hx s4, hx txt))
      | _ => none
    let ob' ← pObj ob
    pure ⟨m == "m", hx s2, ob', hx s3, nt, hx1 nlb⟩
  | _ => none

def pHead : Sx → Option (Option (Gap × Annot))
  | .atom "-" => some none
  | .list [.atom "h", g, a] => do pure (some (← pGap g, ← pAnn a))
  | _ => none

mutual
partial def pTree : Sx → Option ATree
  | .list [.atom "S", .atom tok, sann] => do
    let an ← match sann with
      | .atom "-" => some none
      | .list [.atom "b", g, a] => do pure (some ⟨false, ← pGap g, ← pAnn a⟩)
      | .list [.atom "a", g, a] => do pure (some ⟨true, ← pGap g, ← pAnn a⟩)
      | _ => none
    pure (.scalar (hx tok) an)
  | .list [.atom "A", h, its] => do pure (.arr (← pHead h) (← pItems its))
  | .list [.atom "O", h, ms] => do pure (.obj (← pHead h) (← pMembers ms))
  | _ => none
partial def pItems : Sx → Option AItems
  | .list [.atom "n", g] => do pure (.nil (← pGap g))
  | .list [.atom "c", g1, v, g2, .atom c, rest] => do
    pure (.cons (← pGap g1) (← pTree v) (← pGap g2) (c == "1") (← pItems rest))
  | _ => none
partial def pMembers : Sx → Option AMembers
  | .list [.atom "n", g] => do pure (.nil (← pGap g))
  | .list [.atom "c", g1, .atom k, g2, g3, v, g4, .atom c, rest] => do
    pure (.cons (← pGap g1) (hx k) (← pGap g2) (← pGap g3) (← pTree v) (← pGap g4) (c == "1") (← pMembers rest))
  | _ => none
end

/-- the dump of an abstract table in the format of `loadv` -/
partial def dumpX (T : Array XNode) (i : Nat) (key : Option (List UInt8 × Bool)) : String :=
  match T[i]? with
  | none => "?"
  | some n =>
    let k := match key with
      | none => ""
      | some t => s!" k={hexOf t.1}:{if t.2 then "s" else "p"}"
    let v := match n.value with
      | none => ""
      | some tok => s!" v={hexOf (if n.kind == NK.mixed then trimSpaces tok else Unquote.unquote tok)}"
    let vals := n.ruleVals ++ List.replicate n.rules.length none
    let r := " r=[" ++ ",".intercalate ((n.rules.zip vals).map (fun p =>
      match p.2 with
      | some t => hexOf p.1 ++ ":" ++ hexOf (Unquote.unquote (trimSpaces t))
      | none => hexOf p.1 ++ ":")) ++ "]"
    let c := match n.note with
      | none => ""
      | some t => if t.isEmpty then "" else s!" c={hexOf t}"
    let kids := match n.kind with
      | .obj => (n.children.zip (n.keys.map some ++ List.replicate n.children.length none)).map (fun p => dumpX T p.1 p.2)
      | _ => n.children.map (fun c => dumpX T c none)
    s!"({kindCh n.kind}{k}{v}{r}{c}" ++ (if kids.isEmpty then "" else " " ++ " ".intercalate kids) ++ ")"
where kindCh : NK → String | .obj => "o" | .arr => "a" | .lit => "l" | .mixed => "m"

def handle (line : String) : String :=
  match parseLine line with
  | some (.list [.atom "atree", .list [.atom "doc", g0, t, g1]]) =>
    match pGap g0, pTree t, pGap g1 with
    | some w0, some tr, some w1 =>
      let text := docText w0 tr w1
      let ok := if lineOK w0 tr then "1" else "0"
      s!"{hexOf text}|{ok}|{dumpX tr.table.toArray 0 none}|{DLoadV.handle (hexOf text)}"
    | _, _, _ => "BAD tree"
  | _ => "BAD request"

end Drv.ATreeD
