/-! Shared helpers of the line-protocol driver (core Lean only). -/
namespace Drv

def hexVal (c : Char) : Nat :=
  if c.isDigit then c.toNat - 48 else if 'a' ≤ c ∧ c ≤ 'f' then c.toNat - 87 else 0

def unhex (s : String) : List UInt8 :=
  let rec go : List Char → List UInt8
    | a :: b :: rest => (UInt8.ofNat (hexVal a * 16 + hexVal b)) :: go rest
    | _ => []
  go s.toList

def hexOf (bs : List UInt8) : String :=
  String.join (bs.map fun b =>
    let d (n : Nat) : Char := if n < 10 then Char.ofNat (48 + n) else Char.ofNat (87 + n)
    String.mk [d (b.toNat / 16), d (b.toNat % 16)])

inductive Sx | atom (s : String) | list (xs : List Sx) deriving Inhabited

partial def parseSx : List String → Option (Sx × List String)
  | [] => none
  | "(" :: rest =>
    let rec go (acc : List Sx) (ts : List String) : Option (Sx × List String) :=
      match ts with
      | [] => none
      | ")" :: r => some (.list acc.reverse, r)
      | _ => match parseSx ts with
        | some (x, r) => go (x :: acc) r
        | none => none
    go [] rest
  | ")" :: _ => none
  | t :: rest => some (.atom t, rest)

def tokenize (s : String) : List String :=
  ((s.replace "(" " ( ").replace ")" " ) ").splitOn " " |>.filter (· ≠ "")

def parseLine (line : String) : Option Sx :=
  (parseSx (tokenize ("(" ++ line ++ ")"))).map (·.1)

end Drv
