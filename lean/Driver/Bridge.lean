import JSight.E2E
import JSight.BridgeCR
import JSight.BridgeCK
import Driver.Common
/-!
`bridge <root-hex> <n> (<name-hex> <text-hex>)*` — the three models of the rule / checker stage on the SAME schema
texts (schema scanner model → loader model → each model), a Lean-vs-Lean check of the bridge theorems' hypotheses and
conclusions at run time. Reply (one line):

  `A <OK | ERR c | UNSUP why>`                       (A) whole: creation + CompileBasic + CheckRootSchema + CheckRecursion
  `| B <nodes> <compared> <AGREE | DISAGREE <table>:<node> A=<…> B=<…> | OUTSIDE why>`
                                                     (A)∩(B) per annotated node: `BridgeCR.aNode` against
                                                     `CR.checkRules (crNodeOf …)`; OUTSIDE when no node is in `common`
  `| W <AGREE | DISAGREE … | OUTSIDE why>`            the per-node reading of (A) against (A) itself: every node passes
                                                     `aNode` ⇔ every text compiles and no compiled node is `bad`
  `| C <OK | ERR c | CRASH> <AGREE | DISAGREE A=<…> | OUTSIDE why>`
                                                     (A)∩(C): `Compile.check` without the recursion check against
                                                     `CK.checkSchema noOracles (dumpOf …)`

An empty hex string is written `-`.
-/
namespace DBridge
open Drv Compile

def hx (s : String) : List UInt8 := if s == "-" then [] else unhex s

def pairs : Nat → List String → Option (List (String × List UInt8) × List String)
  | 0, rest => some ([], rest)
  | n + 1, nm :: txt :: rest =>
    match pairs n rest with
    | some (ps, r) => some ((Compile.keyStr (hx nm), hx txt) :: ps, r)
    | none => none
  | _, _ => none

def showA : Except Err Unit → String
  | .ok _ => "OK"
  | .error (.code c _) => s!"ERR {c}"
  | .error (.unsupported w) => "UNSUP " ++ w.replace " " "_"

def showB : Except CR.Code Unit → String
  | .ok _ => "OK"
  | .error c => s!"ERR {c}"

structure Table where
  nodes : List RNode
  parents : List (Option Nat)
  loadErr : Bool

def tableOf (bs : List UInt8) : Table :=
  let (st, err) := E2E.loadTextP bs
  { nodes := st.nodes.toList.map (resolve bs.toArray), parents := st.nodes.toList.map (·.parent), loadErr := err.isSome }

def isPropAt (t : Table) (i : Nat) : Bool :=
  match t.parents.getD i none with
  | some p => (t.nodes[p]?.map (·.kind)) == some Loader.NK.obj
  | none => false

structure AB where
  nodes : Nat := 0
  compared : Nat := 0
  unsupIn : Nat := 0             -- in `common`, but (A) answers unsupported (must not happen: `common_supported`)
  firstBad : Option String := none
  why : Option String := none    -- reason of the first node outside
  allOK : Bool := true           -- every node passes `aNode`
  anyUnsup : Bool := false

def abTable (ti : Nat) (t : Table) (acc : AB) : AB :=
  (List.range t.nodes.length).foldl (fun acc i =>
    match t.nodes[i]? with
    | none => acc
    | some n =>
      let p := isPropAt t i
      let a := BridgeCR.aNode n p
      let acc := { acc with nodes := acc.nodes + 1, allOK := acc.allOK && (match a with | .ok _ => true | _ => false),
                            anyUnsup := acc.anyUnsup || BridgeCR.isUnsupported a }
      if !BridgeCR.common n then
        { acc with why := acc.why.orElse fun _ => some (match a with | .error (.unsupported w) => w.replace " " "_" | _ => "not-common") }
      else if BridgeCR.isUnsupported a then
        { acc with unsupIn := acc.unsupIn + 1,
                   firstBad := acc.firstBad.orElse fun _ => some s!"{ti}:{i} A={showA a} common-but-unsupported" }
      else
        let b := CR.checkRules (BridgeCR.crNodeOf n p)
        let acc := { acc with compared := acc.compared + 1 }
        if BridgeCR.codeA a == BridgeCR.codeB b then acc
        else { acc with firstBad := acc.firstBad.orElse fun _ => some s!"{ti}:{i} A={showA a} B={showB b}" })
    acc

mutual
def anyBad : CN → Bool
  | .lit _ bad => bad
  | .arr items _ bad => bad || anyBadItems items
  | .obj props _ _ bad => bad || anyBadProps props
  | _ => false
def anyBadItems : List CN → Bool
  | [] => false
  | x :: xs => anyBad x || anyBadItems xs
def anyBadProps : List (String × Bool × Bool × Bool × CN) → Bool
  | [] => false
  | (_, _, _, _, x) :: xs => anyBad x || anyBadProps xs
end

def showC : CK.Res → String
  | .ok => "OK"
  | .err c _ _ _ => s!"ERR {c}"
  | .crash w => "CRASH " ++ w.replace " " "_"

def handle (args : List String) : String :=
  match args with
  | root :: n :: rest =>
    match pairs n.toNat! rest with
    | some (types, []) =>
      let rootBs := hx root
      let tables := tableOf rootBs :: types.map fun t => tableOf t.2
      -- (A) whole
      let rootCN := E2E.loadSchema rootBs false
      let namesOK := (types.map (·.1)).Nodup && types.all fun t => isUserTypeName (strBytes t.1)
      let tsR := E2E.loadTypes types
      let aWhole : Except Err Unit :=
        match rootCN with
        | .error e => .error e
        | .ok r =>
          if !namesOK then .error (.unsupported "type names")
          else match tsR with
            | .error e => .error e
            | .ok ts => match r with
              | none => checkNoRoot ts
              | some cn => check cn ts
      -- (A)∩(B)
      let anyLoadErr := tables.any (·.loadErr)
      let ab := (tables.zipIdx).foldl (fun acc (t, ti) => abTable ti t acc) ({} : AB)
      let bPart :=
        if anyLoadErr then s!"{ab.nodes} 0 OUTSIDE load-error"
        else match ab.firstBad with
          | some d => s!"{ab.nodes} {ab.compared} DISAGREE {d}"
          | none =>
            if ab.compared == 0 then s!"{ab.nodes} 0 OUTSIDE {ab.why.getD "no-node"}"
            else s!"{ab.nodes} {ab.compared} AGREE"
      -- per-node reading of (A) against (A) whole
      let wPart :=
        if anyLoadErr then "OUTSIDE load-error"
        else if ab.anyUnsup then "OUTSIDE unsupported"
        else
          -- every text compiles (each type text on its own; 1401 = empty type text) and no node is bad
          let compiled : List (Except Err (Option CN)) := rootCN :: types.map fun t => E2E.loadSchema t.2 false
          let unsup := compiled.any fun c => match c with | .error (.unsupported _) => true | _ => false
          if unsup then "OUTSIDE unsupported-compile"
          else
            let wholeOK := compiled.all fun c => match c with
              | .ok (some cn) => !anyBad cn
              | .ok none => true
              | .error _ => false
            if wholeOK == ab.allOK then "AGREE" else s!"DISAGREE whole={wholeOK} nodes={ab.allOK}"
      -- (A)∩(C)
      let cPart :=
        match rootCN, tsR with
        | .ok r, .ok ts =>
          if !namesOK then "- OUTSIDE type-names"
          else
            let a := BridgeCK.checkA r ts
            let c := BridgeCK.checkC r ts
            match BridgeCK.agree r ts with
            | none => s!"{showC c} OUTSIDE {if BridgeCK.isUnsupported a then showA a else "crash"}"
            | some true => s!"{showC c} AGREE"
            | some false => s!"{showC c} DISAGREE A={showA a}"
        | _, _ => "- OUTSIDE not-compiled"
      s!"A {showA aWhole} | B {bPart} | W {wPart} | C {cPart}"
    | _ => "bad-op"
  | _ => "bad-op"

end DBridge
