import JSight.OrRuleSet
import JSight.Rules
import Driver.Common
/-! `semor val <env> <schema> <doc>` → `ACC` / `REJ`: schemas with `or` nodes whose members are still as
written; the loader model `ORS.loadAll` creates the anonymous types, then `VK.validateT` with the scalar-rule
literal test `Rules.litOK`. The extra alternative of a nullable `or` node / of a `{type: "@t", nullable: true}` member
admits null only (`newNullValidator`, fix a94aab7; before it, it admitted every value of the example's JSON kind).
Schemas as for `semc` (`(lit k nul attrs…)`, `(any)`, `(arr …)`, `(obj <add> (P key req v)…)`, `(ref nul n…)`) plus
`(or nul m…)` with members `(N name)` = "@name", `(TR name)` = {type: "@name"}, `(T rs)` = shorthand type string,
`(RS rs)` = rule-set; `rs` = `(sc kind (nul b)? (min v)? (max v)? (xmin b)? (xmax b)? (minl n)? (maxl n)?)`,
`(object)`, `(array)`, `(anyt)`, `(refnul name)` = {type: "@name", nullable: true}. -/
namespace DSemOR
open Drv
open ORS
open VN (J)
open Rules (Kind LitSpec RawRules litOK)

instance : Inhabited (J String) := ⟨.lit "null"⟩
/-- the rule-set of a member, as far as the generator writes them -/
inductive RSet
  | scalar (r : RawRules)
  | object | array | anyt
  | refNul (n : String) (l : LitSpec)

/-- `CompileBasic` on the mixed root of the created type, as the validator sees it -/
def mk : RSet → VK.S LitSpec
  | .scalar r => .lit (Rules.compile r)
  | .object => .obj [] [] .none          -- an object validator on a node without children: only `{}`
  | .array => .arr []                    -- an array validator on a node without children: only `[]`
  | .anyt => .any
  | .refNul n l => .ref [n] (some l)

def kindOf : String → Kind
  | "i" => .i | "f" => .f | "s" => .s | "b" => .b | _ => .n

/-- the validator `nullable: true` adds to a node that carries a types list: null only -/
def nulLit : LitSpec := { kind := .n, nul := true }

def toRSet : Sx → RSet
  | .list (.atom "sc" :: .atom k :: attrs) =>
    .scalar (attrs.foldl (fun (r : RawRules) a => match a with
      | .list [.atom "nul", .atom b] => { r with nullable := some (b == "1") }
      | .list [.atom "min", .atom v] => { r with min := some v }
      | .list [.atom "max", .atom v] => { r with max := some v }
      | .list [.atom "xmin", .atom b] => { r with exclusiveMinimum := some (b == "1") }
      | .list [.atom "xmax", .atom b] => { r with exclusiveMaximum := some (b == "1") }
      | .list [.atom "minl", .atom v] => { r with minLen := some v.toNat! }
      | .list [.atom "maxl", .atom v] => { r with maxLen := some v.toNat! }
      | _ => r) { kind := kindOf k })
  | .list [.atom "object"] => .object
  | .list [.atom "array"] => .array
  | .list [.atom "anyt"] => .anyt
  | .list [.atom "refnul", .atom n] => .refNul n nulLit
  | _ => .anyt

def toMember : Sx → Member RSet
  | .list [.atom "N", .atom n] => .named n
  | .list [.atom "TR", .atom n] => .typeRef n
  | .list [.atom "T", rs] => .typeStr (toRSet rs)
  | .list [.atom "RS", rs] => .ruleSet (toRSet rs)
  | _ => .named "?"

instance : Inhabited (OS LitSpec RSet) := ⟨.any⟩

def nulSpec (nul : String) : Option LitSpec := if nul == "1" then some { kind := .n, nul := true } else none

partial def toS : Sx → OS LitSpec RSet
  | .list (.atom "lit" :: .atom k :: .atom nul :: attrs) =>
    .lit (attrs.foldl (fun (l : LitSpec) a => match a with
      | .list [.atom "min", .atom v, .atom x] => { l with min := some (v, x == "1") }
      | .list [.atom "max", .atom v, .atom x] => { l with max := some (v, x == "1") }
      | .list [.atom "minl", .atom v] => { l with minLen := some v.toNat! }
      | .list [.atom "maxl", .atom v] => { l with maxLen := some v.toNat! }
      | _ => l) { kind := kindOf k, nul := nul == "1" })
  | .list [.atom "any"] => .any
  | .list (.atom "arr" :: xs) => .arr (xs.map toS)
  | .list (.atom "or" :: .atom nul :: ms) => .or (ms.map toMember) (nulSpec nul)
  | .list (.atom "obj" :: add :: ps) => .obj (ps.map fun
      | .list [.atom "P", .atom k, .atom r, v] => (k, r == "1", toS v)
      | _ => ("?", false, .any))
      []
      (match add with
       | .list [.atom "add", .atom "any"] => .any
       | .list [.atom "add", .atom "obj"] => .obj
       | .list [.atom "add", .atom "arr"] => .arr
       | .list [.atom "add", .atom "lit", .atom k] => .lit { kind := kindOf k, exact := true }
       | .list [.atom "add", .atom "type", .atom n] => .type n
       | _ => .none)
  | .list (.atom "ref" :: .atom nul :: ns) =>
      .ref (ns.map fun | .atom n => n | _ => "?") (nulSpec nul)
  | _ => .any

partial def toJ : Sx → J String
  | .list [.atom "l", .atom k] => .lit k
  | .list (.atom "a" :: xs) => .arr (xs.map toJ)
  | .list (.atom "o" :: ms) => .obj (ms.map fun
      | .list [.atom "m", .atom k, v] => (k, toJ v)
      | _ => ("?", .lit "null"))
  | _ => .lit "null"

def toEnv : Sx → List (String × OS LitSpec RSet)
  | .list (.atom "env" :: ts) => ts.map fun
      | .list [.atom "t", .atom n, v] => (n, toS v)
      | _ => ("?", .any)
  | _ => []

/-- the unique names of the created types: `#0`, `#1`, … (user type names never start with `#`) -/
def fresh (k : Nat) : String := "#" ++ toString k

def handle (line : String) : String :=
  match (parseSx (tokenize ("(" ++ line ++ ")"))) with
  | some (.list [.atom "val", e, s, d], _) =>
    let t := loadAll fresh mk (toEnv e) (toS s)
    if VK.validateT t.1 litOK (fun _ _ => false) t.2 (toJ d) then "ACC" else "REJ"
  | _ => "bad-op"

end DSemOR
