import JSight.ValidateR
import Driver.Common
namespace DSem
open Drv
/-! line protocol for the semantic layer: `val <env> <schema> <doc>` → ACC / REJ -/
open VR
open VN (J)


inductive Kind | i | f | s | b | n deriving DecidableEq, Repr, Inhabited

instance : Inhabited (J Kind) := ⟨.lit .n⟩
instance : Inhabited (S (Kind × Bool)) := ⟨.any⟩

abbrev LL := Kind × Bool
def litOK (l : LL) (d : Kind) : Bool := d == l.1 || (d == .i && l.1 == .f) || (d == .n && l.2)

def kindOf : String → Kind
  | "i" => .i | "f" => .f | "s" => .s | "b" => .b | _ => .n

partial def toS : Sx → S LL
  | .list [.atom "lit", .atom k, .atom nul] => .lit (kindOf k, nul == "1")
  | .list [.atom "any"] => .any
  | .list (.atom "arr" :: xs) => .arr (xs.map toS)
  | .list (.atom "obj" :: ps) => .obj (ps.map fun
      | .list [.atom "P", .atom k, .atom r, v] => (k, r == "1", toS v)
      | _ => ("?", false, .any))
  | .list (.atom "ref" :: .atom nul :: ns) =>
      .ref (ns.map fun | .atom n => n | _ => "?") (if nul == "1" then some (.n, true) else none)
  | _ => .any

partial def toJ : Sx → J Kind
  | .list [.atom "l", .atom k] => .lit (kindOf k)
  | .list (.atom "a" :: xs) => .arr (xs.map toJ)
  | .list (.atom "o" :: ms) => .obj (ms.map fun
      | .list [.atom "m", .atom k, v] => (k, toJ v)
      | _ => ("?", .lit .n))
  | _ => .lit .n

def toEnv : Sx → Env LL
  | .list (.atom "env" :: ts) => ts.map fun
      | .list [.atom "t", .atom n, v] => (n, toS v)
      | _ => ("?", .any)
  | _ => []

def handle (line : String) : String :=
  match (parseSx (tokenize ("(" ++ line ++ ")"))) with
  | some (.list [.atom "val", e, s, d], _) =>
    if validateT (toEnv e) litOK (toS s) (toJ d) then "ACC" else "REJ"
  | _ => "bad-op"


end DSem
