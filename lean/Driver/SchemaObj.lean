import JSight.SchemaObj
/-!
`sobj <nobj> OBJ{nobj} OP*` → one token per call, joined by ` ; `: the orchestration model `SchemaObj.step` run on a
SYMBOLIC world. Tie `c11-schema`.

    OBJ = <text id>:<kind>:<opt 0|1>     kind: 0 loads, 1 fails before `inner` is set, 2 fails after `inner` is set,
                                               3 loads with an empty root, 4 = needs the rule `@e` (else kind 1)
    OP  = len:i | ex:i | at:i:<name>:j | ar:i:<name>:<n|v|b> | ck:i | bd:i | va:i:<doc id> | ast:i | us:i

The symbolic stages return the DESCRIPTION of their inputs: a loaded value is `<text id>.<opt>.<rule names joined by +>`
(prefix `E.` = empty root). The description of a compile (`descOf`) is `<receiver>#<j>=<loaded of j>,<name>><k>,…#…` over
all loaded objects of the pool with their tables as they were when the receiver's compile ran — the receiver's one BEFORE
hoisting (the oracle's own compile hoists; hoisting is not idempotent), the others as they are (hoisted if they were
compiled before): the recursion check of the compile stage reads the NESTED tables, not only the hoisted one. Each answer
token names the closed form the harness evaluates on FRESH objects:

    ok | LE <loaded> | WLE <loaded> | ET <name> | BN <name> | DUP <name> | AC | RN | RE | NOOBJ
    LEN <text id> | US <loaded> | CK <compiled> | AST <compiled> | EX <compiled> | VA <doc id> <compiled>

followed by the stage events of the call in braces (`l<i>` load, `c<i>` compile body, `n<i>` len; empty = all cached).
-/
namespace Drv.SObj
open SchemaObj

def loadedStr (t : Nat × Nat) (opt : Bool) (rules : List (String × Nat)) : String :=
  s!"{t.1}.{if opt then 1 else 0}.{"+".intercalate (rules.map (·.1))}"

def symCompile (i : Nat) (v : List (Option String × Table)) : String :=
  let objs := (List.range v.length).filterMap fun j =>
    match v[j]? with
    | some (some l, tbl) => some (",".intercalate (s!"{j}={l}" :: tbl.map fun e => s!"{e.1}>{e.2}"))
    | _ => none
  "#".intercalate (toString i :: objs)

def validNameS (n : String) : Bool :=
  match n.toList with
  | '@' :: c :: cs => (c :: cs).all fun ch => ch.isAlphanum || ch == '_' || ch == '-'
  | _ => false

@[reducible] def world : World where
  Text := Nat × Nat
  Err := String
  Loaded := String
  Compiled := String
  Rule := Nat
  Doc := Nat
  Val := String
  load := fun t opt rules =>
    let l := loadedStr t opt rules
    match t.2 with
    | 1 => .failEarly s!"LE {l}"
    | 2 => .failLate s!"LE {l}"
    | 3 => .ok s!"E.{l}"
    | 4 => if rules.any (fun e => e.1 == "@e") then .ok l else .failEarly s!"LE {l}"
    | _ => .ok l
  emptyRoot := fun l => l.startsWith "E."
  validName := validNameS
  ruleCheck := fun r => if r == 2 then some "RE" else none
  compile := fun i v => .ok (symCompile i v)
  len := fun t => .ok s!"LEN {t.1}"
  ast := fun l => s!"ASTL {l}"
  used := fun l => s!"US {l}"
  exampleF := fun _ _ c => .ok s!"EX {c}"
  validate := fun _ _ c d => some s!"VA {d} {c}"

def evStr : Ev → String
  | .load i => s!"l{i}" | .compile i => s!"c{i}" | .len i => s!"n{i}"

def outStr : Out world → String
  | .ok => "ok"
  | .err e => e
  | .wrapped e => "W" ++ e
  | .emptyType n => s!"ET {n}"
  | .badName n => s!"BN {n}"
  | .dup n => s!"DUP {n}"
  | .alreadyCompiled => "AC"
  | .ruleNil => "RN"
  | .val v => v
  | .noObj => "NOOBJ"

def pObj (s : String) : Option (Obj world) :=
  match s.splitOn ":" with
  | [t, k, o] => some (Obj.new (W := world) (t.toNat!, k.toNat!) (o == "1"))
  | _ => none

def pOp (s : String) : Option (Op world) :=
  match s.splitOn ":" with
  | ["len", i] => some (.len i.toNat!)
  | ["ex", i] => some (.example i.toNat!)
  | ["at", i, n, j] => some (.addType i.toNat! n j.toNat!)
  | ["ar", i, n, r] => some (.addRule i.toNat! n (if r == "n" then none else if r == "b" then some 2 else some 1))
  | ["ck", i] => some (.check i.toNat!)
  | ["bd", i] => some (.build i.toNat!)
  | ["va", i, d] => some (.validate i.toNat! d.toNat!)
  | ["ast", i] => some (.getAST i.toNat!)
  | ["us", i] => some (.used i.toNat!)
  | _ => none

/-- description of the view of `i`'s compile for the fresh-object oracle: all tables as they were BEFORE the step (the
receiver's one before hoisting: the oracle's own compile hoists; hoisting is not idempotent — a collision overwrites),
the loaded values after it -/
def descOf (before after : Pool world) (i : Nat) : String :=
  match before[i]?, after[i]? with
  | some ob, some oa => symCompile i (view (after.set i { oa with types := ob.types }))
  | _, _ => "?"

def token (descs : List (Nat × String)) (op : Op world) (o : Out world) : String :=
  let d (i : Nat) : String := (descs.lookup i).getD "?"
  match op, o with
  | .check i, .ok => s!"CK {d i}"
  | .build i, .ok => s!"CK {d i}"
  | .getAST i, .val _ => s!"AST {d i}"
  | .example i, .val _ => s!"EX {d i}"
  | .validate i dc, .err e => if e.startsWith "VA" then s!"VA {dc} {d i}" else e
  | _, o => outStr o

def runOps (p : Pool world) (descs : List (Nat × String)) : List (Op world) → List String
  | [] => []
  | op :: ops =>
    let r := step p op
    let descs' := r.2.1.foldl (fun ds e => match e with
      | .compile i => (i, descOf p r.1 i) :: ds
      | _ => ds) descs
    (token descs' op r.2.2 ++ " {" ++ ",".intercalate (r.2.1.map evStr) ++ "}") :: runOps r.1 descs' ops

def handle (args : List String) : String :=
  match args with
  | n :: rest =>
    let k := n.toNat!
    match (rest.take k).mapM pObj, (rest.drop k).mapM pOp with
    | some objs, some ops => " ; ".intercalate (runOps objs [] ops)
    | _, _ => "bad-op"
  | _ => "bad-op"

end Drv.SObj
