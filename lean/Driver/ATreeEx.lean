import JSight.ATreeExample
import Driver.ATree
/-! `atreeex (doc GAP TREE GAP)` → `<hex of the text>|<lineOK: 1/0>|<exClass: 1/0>|<hex of ATree.compact>|<extext reply>`:
the SPEC side of `C15_annotated_text_roundtrip` (the compact text of the value of an `AT.ATree`, the decidable line
discipline and the class of rules the builder ignores) next to the text-level model's answer for the rendered text
(`Loader.exampleTextR`: `EX <hex>` / `ERR code pos` / `EMPTY` / `UNSUPPORTED`). Grammar of the tree: `Driver/ATree.lean`.
Tie `c15-text` (stream T). -/
namespace Drv.ATreeExD
open Drv AT Loader

def exReply (bs : List UInt8) : String :=
  match Loader.exampleTextR bs with
  | .ok out => "EX " ++ hexOf out
  | .error e => e

def handle (line : String) : String :=
  match parseLine line with
  | some (.list [.atom "atreeex", .list [.atom "doc", g0, t, g1]]) =>
    match ATreeD.pGap g0, ATreeD.pTree t, ATreeD.pGap g1 with
    | some w0, some tr, some w1 =>
      let text := docText w0 tr w1
      let ok := if lineOK w0 tr then "1" else "0"
      let cl := if tr.exClass then "1" else "0"
      s!"{hexOf text}|{ok}|{cl}|{hexOf tr.compact}|{exReply text}"
    | _, _, _ => "BAD tree"
  | _ => "BAD request"

end Drv.ATreeExD
