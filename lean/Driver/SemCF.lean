import JSight.RulesFull
import Driver.Common
/-!
`semcf <kind> <example hex> <token hex> <decoded hex | -> <4 oracle bits> <raw rule>…` → `ACC` / `REJ`

Every scalar rule (`RulesF.litOKFull ∘ RulesF.compile`). The four standard-library predicates are evaluated by
the harness in Go on the decoded string it also sends; the driver first checks that its own `Unquote.unquote`
of the token is that string (`UNQDIFF` otherwise), so the bits are the oracles' values at the argument the
model passes them. Raw rules: `N0|N1` nullable, `C0|C1` const, `m:<hex>` min, `M:<hex>` max, `x0|x1`
exclusiveMinimum, `X0|X1` exclusiveMaximum, `p:<n>` precision, `l:<n>` minLength, `L:<n>` maxLength,
`r:<hex>` regex, `e:<hex>,<hex>…` enum items (source tokens), `t:<email|uri|uuid|date|datetime|other>`.
-/
namespace DSemCF
open Drv RulesF
open Rules (Kind)

def kindOf : String → Kind
  | "i" => .i | "f" => .f | "s" => .s | "b" => .b | _ => .n

def hx (s : String) : Bytes := if s == "-" then [] else unhex s

def afterColon (w : String) : String := (w.drop 2).toString

def rawRule (w : String) : Option RawRule :=
  let arg := afterColon w
  match (w.take 2).toString with
  | "N0" => some (.nullable false) | "N1" => some (.nullable true)
  | "C0" => some (.const false) | "C1" => some (.const true)
  | "x0" => some (.exclusiveMinimum false) | "x1" => some (.exclusiveMinimum true)
  | "X0" => some (.exclusiveMaximum false) | "X1" => some (.exclusiveMaximum true)
  | "m:" => some (.min (hx arg)) | "M:" => some (.max (hx arg))
  | "p:" => some (.precision arg.toNat!)
  | "l:" => some (.minLength arg.toNat!) | "L:" => some (.maxLength arg.toNat!)
  | "r:" => some (.regex (hx arg))
  | "e:" => some (.enum (if arg == "" then [] else (arg.splitOn ",").map hx))
  | "t:" => some (match arg with
      | "email" => .typeFmt .email | "uri" => .typeFmt .uri | "uuid" => .typeFmt .uuid
      | "date" => .typeFmt .date | "datetime" => .typeFmt .datetime | _ => .typeOther)
  | _ => none

def bit (s : String) (i : Nat) : Bool := s.toList.getD i '0' == '1'

def handle (line : String) : String :=
  match (line.splitOn " ").filter (· ≠ "") with
  | k :: ex :: tok :: dec :: bits :: rules =>
    let tokB := hx tok
    if Unquote.unquote tokB != hx dec then "UNQDIFF " ++ hexOf (Unquote.unquote tokB)
    else
      match rules.mapM rawRule with
      | none => "bad-rule"
      | some raws =>
        let o : Oracles := { re := fun _ _ => bit bits 0, mail := fun _ => bit bits 1,
                             uri := fun _ => bit bits 2, rfc3339 := fun _ => bit bits 3 }
        if litOKFull o (compile (kindOf k) (hx ex) raws) tokB then "ACC" else "REJ"
  | _ => "bad-op"

end DSemCF
