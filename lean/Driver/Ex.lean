import JSight.Example
import Driver.Common
namespace DEx
open Drv
/-! `ex <env> <schema>` → the example text the model builds (byte classes printed by representative characters) -/
open EX JsonScan

def litTok : String → List Cls
  | "i" => [.d19] | "f" => [.d19, .dot, .d19] | "s" => [.quote, .ls, .quote]
  | "b" => [.lt, .lr, .lu, .le] | _ => [.ln, .lu, .ll, .ll]

def keyTok : String → List Cls
  | "a" => [.quote, .la, .quote] | "b" => [.quote, .lb, .quote] | "c" => [.quote, .hexo, .quote]
  | _ => [.quote, .lf, .quote]

instance : Inhabited N := ⟨.lit []⟩

partial def toN : Sx → N
  | .list [.atom "lit", .atom k, _] => .lit (litTok k)
  | .list [.atom "any"] => .lit [.d19]
  | .list (.atom "arr" :: xs) => .arr (xs.map toN)
  | .list (.atom "obj" :: ps) => .obj (ps.map fun
      | .list [.atom "P", .atom k, _, v] => (keyTok k, toN v)
      | _ => ([], .lit []))
  | .list (.atom "ref" :: _ :: .atom n :: _) => .ref n
  | _ => .lit []

def toTypes : Sx → Types
  | .list (.atom "env" :: ts) => ts.map fun
      | .list [.atom "t", .atom n, v] => (n, toN v)
      | _ => ("?", .lit [])
  | _ => []

def showCls : Cls → Char
  | .sp => ' ' | .lbrace => '{' | .rbrace => '}' | .lbrack => '[' | .rbrack => ']' | .colon => ':' | .comma => ','
  | .quote => '"' | .d19 => '1' | .dot => '.' | .la => 'a' | .lb => 'b' | .hexo => 'c' | .lf => 'f' | .le => 'e'
  | .lt => 't' | .lr => 'r' | .lu => 'u' | .ll => 'l' | .ls => 's' | .ln => 'n' | _ => '?'

def handle (line : String) : String :=
  match (parseSx (tokenize ("(" ++ line ++ ")"))) with
  | some (.list [.atom "ex", e, s], _) =>
    match build (toTypes e) 64 (fun _ => 0) (toN s) with
    | some (some bs) => String.mk (bs.map showCls)
    | some none => "ABSENT"
    | none => "ERROR"
  | _ => "bad-op"


end DEx
