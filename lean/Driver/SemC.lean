import JSight.ValidateA
import JSight.Number
import Driver.Common
namespace DSemC
open Drv
/-! line protocol for the semantic layer: `val <env> <schema> <doc>` → ACC / REJ -/
open VA
open VN (J)


inductive Kind | i | f | s | b | n deriving DecidableEq, Repr, Inhabited

instance : Inhabited (J String) := ⟨.lit "null"⟩
instance : Inhabited (S LitSpec) := ⟨.any⟩

/-- what a literal node demands -/
structure LitSpec where
  kind : Kind
  nul : Bool := false
  exact : Bool := false                 -- additionalProperties: the guessed type must be equal
  min : Option (String × Bool) := none  -- bound, exclusive
  max : Option (String × Bool) := none
  minLen : Option Nat := none
  maxLen : Option Nat := none
  deriving Inhabited

abbrev LL := LitSpec

def toCh (s : String) : List Num.Ch := s.toList.map fun c =>
  if c == '-' then .minus else if c == '+' then .plus else if c == '.' then .dot else if c == 'e' || c == 'E' then .e
  else if c.isDigit then .d (c.toNat - 48) else .other

/-- `json.Guess(value).LiteralJsonType()` on the tokens the generator uses -/
def kindOfTok (t : String) : Option Kind :=
  if t == "null" then some .n
  else if t == "true" || t == "false" then some .b
  else if t.startsWith "\"" then some .s
  else match Num.scan (toCh t) with
    | none => none
    | some n =>
      let dot := t.any (· == '.')
      let exp := t.any (fun c => c == 'e' || c == 'E')
      if (dot && !exp) || n.exp != 0 then some .f else some .i

def numOK (tok : String) (bound : String × Bool) (isMin : Bool) : Bool :=
  match Num.scan (toCh tok), Num.scan (toCh bound.1) with
  | some v, some b =>
    let c := v.cmp b
    if isMin then (if bound.2 then c == .gt else c != .lt) else (if bound.2 then c == .lt else c != .gt)
  | _, _ => false

def litOK (l : LL) (tok : String) : Bool :=
  match kindOfTok tok with
  | none => false
  | some d =>
    if l.exact then d == l.kind
    else if d == .n && l.nul then true                                  -- F-6: a nullable node accepts null at once
    else if !(d == l.kind || (d == .i && l.kind == .f)) then false
    else
      (match l.min with | some b => numOK tok b true | none => true) &&
      (match l.max with | some b => numOK tok b false | none => true) &&
      (match l.minLen with | some n => decide (n ≤ tok.length - 2) | none => true) &&
      (match l.maxLen with | some n => decide (tok.length - 2 ≤ n) | none => true)

def kindOf : String → Kind
  | "i" => .i | "f" => .f | "s" => .s | "b" => .b | _ => .n

partial def toS : Sx → S LL
  | .list (.atom "lit" :: .atom k :: .atom nul :: attrs) =>
    .lit (attrs.foldl (fun (l : LitSpec) a => match a with
      | .list [.atom "min", .atom v, .atom x] => { l with min := some (v, x == "1") }
      | .list [.atom "max", .atom v, .atom x] => { l with max := some (v, x == "1") }
      | .list [.atom "minl", .atom v] => { l with minLen := some v.toNat! }
      | .list [.atom "maxl", .atom v] => { l with maxLen := some v.toNat! }
      | _ => l) { kind := kindOf k, nul := nul == "1" })
  | .list [.atom "any"] => .any
  | .list (.atom "arr" :: xs) => .arr (xs.map toS)
  | .list (.atom "obj" :: add :: ps) => .obj (ps.map fun
      | .list [.atom "P", .atom k, .atom r, v] => (k, r == "1", toS v)
      | _ => ("?", false, .any))
      (match add with
       | .list [.atom "add", .atom "any"] => .any
       | .list [.atom "add", .atom "obj"] => .obj
       | .list [.atom "add", .atom "arr"] => .arr
       | .list [.atom "add", .atom "lit", .atom k] => .lit { kind := kindOf k, exact := true }
       | .list [.atom "add", .atom "type", .atom n] => .type n
       | _ => .none)
  | .list (.atom "ref" :: .atom nul :: ns) =>
      .ref (ns.map fun | .atom n => n | _ => "?") (if nul == "1" then some { kind := .n, nul := true } else none)
  | _ => .any

partial def toJ : Sx → J String
  | .list [.atom "l", .atom k] => .lit k
  | .list (.atom "a" :: xs) => .arr (xs.map toJ)
  | .list (.atom "o" :: ms) => .obj (ms.map fun
      | .list [.atom "m", .atom k, v] => (k, toJ v)
      | _ => ("?", .lit "null"))
  | _ => .lit "null"

def toEnv : Sx → Env LL
  | .list (.atom "env" :: ts) => ts.map fun
      | .list [.atom "t", .atom n, v] => (n, toS v)
      | _ => ("?", .any)
  | _ => []

/-- first guess at `Check` for one literal node with min / max / exclusive / length rules -/
def checkLit (l : LitSpec) (ex : String) : Bool :=
  litOK l ex &&
  (match l.min, l.max with
   | some a, some b =>
     (match Num.scan (toCh a.1), Num.scan (toCh b.1) with
      | some x, some y => if a.2 || b.2 then x.cmp y == .lt else x.cmp y != .gt
      | _, _ => false)
   | _, _ => true) &&
  (match l.minLen, l.maxLen with | some a, some b => decide (a ≤ b) | _, _ => true)

def handle (line : String) : String :=
  match (parseSx (tokenize ("(" ++ line ++ ")"))) with
  | some (.list [.atom "chk", s, .atom ex], _) =>
    (match toS s with | .lit l => if checkLit l ex then "OK" else "FAIL" | _ => "bad-op")
  | some (.list [.atom "val", e, s, d], _) =>
    if validateT (toEnv e) litOK (toS s) (toJ d) then "ACC" else "REJ"
  | _ => "bad-op"


end DSemC
