import JSight.ValidateA
import JSight.Rules
import Driver.Common
namespace DSemC
open Drv
/-! line protocol for the semantic layer: `val <env> <schema> <doc>` → ACC / REJ -/
open VA
open VN (J)


open Rules (Kind LitSpec litOK toCh kindOfTok numOK)

instance : Inhabited (J String) := ⟨.lit "null"⟩
instance : Inhabited (S LitSpec) := ⟨.any⟩
abbrev LL := LitSpec

def kindOf : String → Kind
  | "i" => .i | "f" => .f | "s" => .s | "b" => .b | _ => .n

partial def toS : Sx → S LL
  | .list (.atom "lit" :: .atom k :: .atom nul :: attrs) =>
    .lit (attrs.foldl (fun (l : LitSpec) a => match a with
      | .list [.atom "min", .atom v, .atom x] => { l with min := some (v, x == "1") }
      | .list [.atom "max", .atom v, .atom x] => { l with max := some (v, x == "1") }
      | .list [.atom "minl", .atom v] => { l with minLen := some v.toNat! }
      | .list [.atom "maxl", .atom v] => { l with maxLen := some v.toNat! }
      | _ => l) { kind := kindOf k, nul := nul == "1" })
  | .list [.atom "any"] => .any
  | .list (.atom "arr" :: xs) => .arr (xs.map toS)
  | .list (.atom "obj" :: add :: ps) => .obj (ps.map fun
      | .list [.atom "P", .atom k, .atom r, v] => (k, r == "1", toS v)
      | _ => ("?", false, .any))
      (match add with
       | .list [.atom "add", .atom "any"] => .any
       | .list [.atom "add", .atom "obj"] => .obj
       | .list [.atom "add", .atom "arr"] => .arr
       | .list [.atom "add", .atom "lit", .atom k] => .lit { kind := kindOf k, exact := true }
       | .list [.atom "add", .atom "type", .atom n] => .type n
       | _ => .none)
  | .list (.atom "ref" :: .atom nul :: ns) =>
      .ref (ns.map fun | .atom n => n | _ => "?") (if nul == "1" then some { kind := .n, nul := true } else none)
  | _ => .any

partial def toJ : Sx → J String
  | .list [.atom "l", .atom k] => .lit k
  | .list (.atom "a" :: xs) => .arr (xs.map toJ)
  | .list (.atom "o" :: ms) => .obj (ms.map fun
      | .list [.atom "m", .atom k, v] => (k, toJ v)
      | _ => ("?", .lit "null"))
  | _ => .lit "null"

def toEnv : Sx → Env LL
  | .list (.atom "env" :: ts) => ts.map fun
      | .list [.atom "t", .atom n, v] => (n, toS v)
      | _ => ("?", .any)
  | _ => []

/-- first guess at `Check` for one literal node with min / max / exclusive / length rules -/
def checkLit (l : LitSpec) (ex : String) : Bool :=
  litOK l ex &&
  (match l.min, l.max with
   | some a, some b =>
     (match Num.scan (toCh a.1), Num.scan (toCh b.1) with
      | some x, some y => if a.2 || b.2 then x.cmp y == .lt else x.cmp y != .gt
      | _, _ => false)
   | _, _ => true) &&
  (match l.minLen, l.maxLen with | some a, some b => decide (a ≤ b) | _, _ => true)

def handle (line : String) : String :=
  match (parseSx (tokenize ("(" ++ line ++ ")"))) with
  | some (.list [.atom "chk", s, .atom ex], _) =>
    (match toS s with | .lit l => if checkLit l ex then "OK" else "FAIL" | _ => "bad-op")
  | some (.list [.atom "val", e, s, d], _) =>
    if validateT (toEnv e) litOK (toS s) (toJ d) then "ACC" else "REJ"
  | _ => "bad-op"


end DSemC
