import JSight.AllOf
import Driver.Common
namespace DSemB
open Drv
/-! line protocol for the semantic layer: `val <env> <schema> <doc>` → ACC / REJ -/
open VA
open AO (PS PEnv)
open VN (J)


inductive Kind | i | f | s | b | n deriving DecidableEq, Repr, Inhabited

instance : Inhabited (J Kind) := ⟨.lit .n⟩
instance : Inhabited (S (Kind × Bool × Bool)) := ⟨.any⟩
instance : Inhabited (PS (Kind × Bool × Bool)) := ⟨.any⟩

abbrev LL := Kind × Bool × Bool     -- kind, nullable, exact (additionalProperties compares the guessed type exactly)
def litOK (l : LL) (d : Kind) : Bool :=
  if l.2.2 then d == l.1 else d == l.1 || (d == .i && l.1 == .f) || (d == .n && l.2.1)

def kindOf : String → Kind
  | "i" => .i | "f" => .f | "s" => .s | "b" => .b | _ => .n

partial def toS : Sx → PS LL
  | .list [.atom "lit", .atom k, .atom nul] => .lit (kindOf k, nul == "1", false)
  | .list [.atom "any"] => .any
  | .list (.atom "arr" :: xs) => .arr (xs.map toS)
  | .list (.atom "obj" :: add :: .list (.atom "allof" :: bases) :: ps) => .obj (ps.map fun
      | .list [.atom "P", .atom k, .atom r, v] => (k, r == "1", toS v)
      | _ => ("?", false, .any))
      (match add with
       | .list [.atom "add", .atom "any"] => .any
       | .list [.atom "add", .atom "obj"] => .obj
       | .list [.atom "add", .atom "arr"] => .arr
       | .list [.atom "add", .atom "lit", .atom k] => .lit (kindOf k, false, true)
       | .list [.atom "add", .atom "type", .atom n] => .type n
       | _ => .none)
      (bases.map fun | .atom n => n | _ => "?")
  | .list (.atom "ref" :: .atom nul :: ns) =>
      .ref (ns.map fun | .atom n => n | _ => "?") (if nul == "1" then some (.n, true, false) else none)
  | _ => .any

partial def toJ : Sx → J Kind
  | .list [.atom "l", .atom k] => .lit (kindOf k)
  | .list (.atom "a" :: xs) => .arr (xs.map toJ)
  | .list (.atom "o" :: ms) => .obj (ms.map fun
      | .list [.atom "m", .atom k, v] => (k, toJ v)
      | _ => ("?", .lit .n))
  | _ => .lit .n

def toEnv : Sx → PEnv LL
  | .list (.atom "env" :: ts) => ts.map fun
      | .list [.atom "t", .atom n, v] => (n, toS v)
      | _ => ("?", .any)
  | _ => []

def handle (line : String) : String :=
  match (parseSx (tokenize ("(" ++ line ++ ")"))) with
  | some (.list [.atom "val", e, s, d], _) =>
    match AO.compileAll (toEnv e) (toS s) with
    | .error _ => "CHECKERR"
    | .ok (env', s') => if validateT env' litOK s' (toJ d) then "ACC" else "REJ"
  | _ => "bad-op"


end DSemB
