import JSight.C02TextSpec
import Driver.E2E
/-!
`c02t <ex-hex> <n> (<name-hex> <value-hex>)* <doc-hex>` → `<outcome> CLASS <0|1>`: the CLOSED FORM of the text-level
C02 theorems (`C02T.closed`: the stage error of the written rules, else the example's own verdict, else accept / reject
by `RulesF.litOKFull` on `C02T.specOfRules`), computed from the STRUCTURED rule list (decoded names, value tokens) and
the document TOKEN — no schema text, no layout. `CLASS 1`: the rule set meets `C02T.okRules` (the hypothesis of
`C02_text_level`). An empty hex string is written `-`.
-/
namespace DC02T
open Drv

def pairs : Nat → List String → Option (List C02T.Pair × List String)
  | 0, rest => some ([], rest)
  | n + 1, nm :: v :: rest =>
    match pairs n rest with
    | some (ps, r) => some ((DE2E.hx nm, DE2E.hx v) :: ps, r)
    | none => none
  | _, _ => none

def handle (args : List String) : String :=
  match args with
  | ex :: n :: rest =>
    match pairs n.toNat! rest with
    | some (ps, [doc]) =>
      DE2E.showOut (C02T.closed (DE2E.hx ex) ps (DE2E.hx doc)) ++ " CLASS " ++
        (if C02T.okRules (DE2E.hx ex) ps then "1" else "0")
    | _ => "bad-op"
  | _ => "bad-op"

end DC02T
