import JSight.Loader
import Driver.Common
/-! `load <hex schema text>` → canonical preorder dump of the node tree the loader model builds, or `ERR code pos`. -/
namespace DLoad
open Drv Loader

def kindCh : NK → String | .obj => "o" | .arr => "a" | .lit => "l" | .mixed => "m"

def ruleName (src : Array UInt8) : Sum (Nat × Nat) String → String
  | .inl sp => hexOf (nameOf src sp)
  | .inr s => hexOf s.toUTF8.toList

partial def dump (src : Array UInt8) (st : St) (i : Nat) (key : Option (Nat × Nat × Bool)) : String :=
  match st.nodes[i]? with
  | none => "?"
  | some n =>
    let k := match key with
      | none => ""
      | some k => let t := keyText src k; s!" k={hexOf t.1}:{if t.2 then "s" else "p"}"
    let v := match n.value with
      | none => ""
      | some (b, e) =>
        let tok := slice src b e
        s!" v={hexOf (if n.kind == NK.mixed then trimSpaces tok else Unquote.unquote tok)}"
    let r := " r=[" ++ ",".intercalate (n.rules.map (ruleName src)) ++ "]"
    let c := match n.comment with
      | none => ""
      | some (b, e) =>
        let t := trimSpaces (slice src b e)
        if t.isEmpty then "" else s!" c={hexOf t}"
    let kids := match n.kind with
      | .obj => (n.children.zip (n.keys.map some ++ List.replicate n.children.length none)).map (fun p => dump src st p.1 p.2)
      | _ => n.children.map (fun c => dump src st c none)
    s!"({kindCh n.kind}{k}{v}{r}{c}" ++ (if kids.isEmpty then "" else " " ++ " ".intercalate kids) ++ ")"

def handle (hx : String) : String :=
  let bs := unhex hx
  match loadText bs with
  | .error e => e
  | .ok st => match st.root with
    | none => "EMPTY"
    | some r => dump bs.toArray st r none

end DLoad
