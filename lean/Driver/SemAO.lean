import JSight.AllOfK
import Driver.Common
/-! `semao val <env> <schema> <doc>` → `ERR <code>` (the allOf expansion `AOK.compileAll` fails: code of the
error the library reports) / `ACC` / `REJ` (`VK.validateT` on the expanded table).
Schemas: `(lit k nul)`, `(any)`, `(arr x…)`, `(ref nul n…)`, `(bad n…)` (a non-object node carrying allOf),
`(obj <add> <allof> e…)` with `<add>` = `(add none|any|no|obj|arr)` / `(add lit k)` / `(add type n)`, `<allof>` =
`(noallof)` / `(allof n…)`, entries `(P key req v)` (plain key) / `(K keytype req v)` (key shortcut). -/
namespace DSemAO
open Drv
open AOK
open VN (J)

inductive Kind | i | f | s | b | n deriving DecidableEq, Repr, Inhabited

instance : Inhabited (J Kind) := ⟨.lit .n⟩
instance : Inhabited (PS (Kind × Bool × Bool)) := ⟨.any⟩

abbrev LL := Kind × Bool × Bool     -- kind, nullable, exact (additionalProperties compares the guessed type exactly)
def litOK (l : LL) (d : Kind) : Bool :=
  if l.2.2 then d == l.1 else d == l.1 || (d == .i && l.1 == .f) || (d == .n && l.2.1)

def kindOf : String → Kind
  | "i" => .i | "f" => .f | "s" => .s | "b" => .b | _ => .n

def atoms (xs : List Sx) : List String := xs.map fun | .atom n => n | _ => "?"

def toAdd : Sx → Option (AP LL)
  | .list [.atom "add", .atom "any"] => some .any
  | .list [.atom "add", .atom "no"] => some .no
  | .list [.atom "add", .atom "obj"] => some .obj
  | .list [.atom "add", .atom "arr"] => some .arr
  | .list [.atom "add", .atom "lit", .atom k] => some (.lit (kindOf k, false, true))
  | .list [.atom "add", .atom "type", .atom n] => some (.type n)
  | _ => none

partial def toS : Sx → PS LL
  | .list [.atom "lit", .atom k, .atom nul] => .lit (kindOf k, nul == "1", false)
  | .list [.atom "any"] => .any
  | .list (.atom "arr" :: xs) => .arr (xs.map toS)
  | .list (.atom "bad" :: ns) => .bad (atoms ns)
  | .list (.atom "obj" :: add :: ao :: es) => .obj (es.map fun
      | .list [.atom "P", .atom k, .atom r, v] => (k, false, r == "1", toS v)
      | .list [.atom "K", .atom k, .atom r, v] => (k, true, r == "1", toS v)
      | _ => ("?", false, false, .any))
      (toAdd add)
      (match ao with
       | .list (.atom "allof" :: ns) => some (atoms ns)
       | _ => none)
  | .list (.atom "ref" :: .atom nul :: ns) =>
      .ref (atoms ns) (if nul == "1" then some (.n, true, false) else none)
  | _ => .any

partial def toJ : Sx → J Kind
  | .list [.atom "l", .atom k] => .lit (kindOf k)
  | .list (.atom "a" :: xs) => .arr (xs.map toJ)
  | .list (.atom "o" :: ms) => .obj (ms.map fun
      | .list [.atom "m", .atom k, v] => (k, toJ v)
      | _ => ("?", .lit .n))
  | _ => .lit .n

def toEnv : Sx → PEnv LL
  | .list (.atom "env" :: ts) => ts.map fun
      | .list [.atom "t", .atom n, v] => (n, toS v)
      | _ => ("?", .any)
  | _ => []

/-- the four fixed key types of the generator (as in `semk`) -/
def keyOK (ty : String) (k : String) : Bool :=
  match ty with
  | "k0" => k.length ≥ 2          -- "ab" // {minLength: 2}
  | "k1" => k.length ≤ 1          -- "a" // {maxLength: 1}
  | "k2" => k == "zz"             -- "zz"  (no rules: the key must equal the example)
  | "k3" => k.length ≥ 3          -- "abc" // {minLength: 3}
  | _ => false

def handle (line : String) : String :=
  match (parseSx (tokenize ("(" ++ line ++ ")"))) with
  | some (.list [.atom "val", e, s, d], _) =>
    match compileAll (toEnv e) (toS s) with
    | .error err => "ERR " ++ toString err.code
    | .ok (env', s') => if VK.validateT (toVKEnv env') litOK keyOK (toVK s') (toJ d) then "ACC" else "REJ"
  | _ => "bad-op"

end DSemAO
