import JSight.TypeGraph
import Driver.Common
namespace DTG
open Drv TG
/-! `tg (g <rootName> <root> (t <name> <body>) …)` → `TG.check` of the graph ("1" / "0").
Nodes: `s` scalar, `a` array, `(r n1 n2 …)` reference / or-shortcut, `(o (p <1|0> N) …)` object (1 = optional). -/

instance : Inhabited N := ⟨.scalar⟩

partial def toN : Sx → N
  | .atom "s" => .scalar
  | .atom "a" => .arr
  | .list (.atom "r" :: ns) => .ref (ns.filterMap fun | .atom n => some n | _ => none)
  | .list (.atom "o" :: ps) => .obj (ps.map fun
      | .list [.atom "p", .atom o, v] => (o == "1", toN v)
      | _ => (true, .scalar))
  | _ => .scalar

def handle (line : String) : String :=
  match parseSx (tokenize ("(" ++ line ++ ")")) with
  | some (.list [.atom "tg", .list (.atom "g" :: .atom rootName :: root :: ts)], _) =>
    let types := ts.filterMap fun
      | .list [.atom "t", .atom n, b] => some (n, toN b)
      | _ => none
    if check { types := types, root := toN root, rootName := rootName } then "1" else "0"
  | _ => "bad-op"

end DTG
