import JSight.SchemaRun
import JSight.EnumScan
import Driver.Common
import Std.Data.HashMap
/-!
T-prod (product-state exploration) for the schema scanner and the enum-rule scanner models:

  `skey E|L <hex> [from]`   schema scanner model, events mode / length mode
  `ekey [E|L] <hex> [from]` enum-rule scanner model

The model reads the bytes exactly as its `next` does (one `dispatch` per byte, every found lexeme processed
before the next byte is read) but WITHOUT the end-of-input rule, and the reply is the canonical key of the
model's whole control state (`K:step|r=return stack|s=lexeme stack|…flags`) or the outcome: `ERR code idx`,
`CRASH`, `STOP` (end-top delivered in length mode / the enum scanner's end-of-stream sentinel; in length mode
followed by the model's `length` of the same bytes). With `from` the reply is `<events>|<key or outcome>`:
the events delivered since the model began to read the byte at position `from` (`code` + `begin:end`).
Counterpart of the hooks `VerifSchemaProbe` / `VerifEnumProbe`; harness: `schema-tprod`, `enum-tprod`.

Fan-out form (what the harness uses: one request per explored state instead of one per probe):

  `skeys E|L <hex prefix or -> <hex A1> <hex A2> <hex A3>`, `ekeys E|L …`

answers, for the prefix `p`, the probes `p+c` (all 256 bytes `c`, ascending), `p+c+l` (`c` over `A1`, `l` over `A2`,
`c`-major) and `p+c+l+m` (over `A3`, first byte major), each as `skey … (p+suffix) (|p|-2)` would (the events of the last two prefix bytes are included, since what those
bytes deliver may depend on the probe bytes through the look-ahead): the distinct
replies separated by TAB, then two TABs, then per probe the index of its reply in that table (blank separated).
The model state is shared up to two bytes before the end of the prefix (the look-ahead of the scanners is at most
two bytes), the rest is re-read for every probe.
-/
namespace Drv
namespace Keys

def bit (b : Bool) : String := if b then "1" else "0"

def finish (evs : List String) (withEvs : Bool) (outcome : String) : String :=
  if withEvs then " ".intercalate evs.reverse ++ "|" ++ outcome else outcome

/-- all probe suffixes in the canonical order -/
def suffixes (a1 a2 a3 : List UInt8) : List (List UInt8) :=
  (List.range 256).map (fun c => [UInt8.ofNat c])
    ++ a1.flatMap (fun c => a2.map fun l => [c, l])
    ++ a3.flatMap (fun c => a3.flatMap fun l => a3.map fun m => [c, l, m])

/-- distinct replies TAB-separated, two TABs, per probe the index of its reply -/
def fanOut (probe : List UInt8 → String) (a1 a2 a3 : List UInt8) : String :=
  let (tbl, _, idx) := (suffixes a1 a2 a3).foldl (init := ((#[] : Array String), (∅ : Std.HashMap String Nat), (#[] : Array Nat)))
    fun (tbl, m, idx) suf =>
      let r := probe suf
      match m[r]? with
      | some i => (tbl, m, idx.push i)
      | none => (tbl.push r, m.insert r tbl.size, idx.push tbl.size)
  "\t".intercalate tbl.toList ++ "\t\t" ++ " ".intercalate (idx.toList.map toString)

/-! ## schema scanner -/
namespace S
open SchemaScan

def evCode : LexT → String
  | .litB => "Lb" | .litE => "Le" | .objB => "Ob" | .objE => "Oe" | .keyB => "Kb" | .keyE => "Ke"
  | .valB => "Vb" | .valE => "Ve" | .arrB => "Ab" | .arrE => "Ae" | .itemB => "Ib" | .itemE => "Ie"
  | .inlAnnB => "iab" | .inlAnnE => "iae" | .inlTxtB => "itb" | .inlTxtE => "ite"
  | .mlAnnB => "mab" | .mlAnnE => "mae" | .mlTxtB => "mtb" | .mlTxtE => "mte"
  | .newLine => "nl" | .tsB => "tsb" | .tsE => "tse" | .ksB => "ksb" | .ksE => "kse"
  | .mixB => "mxb" | .mixE => "mxe" | .endTop => "et"

def stackCode : LexT → String
  | .litB => "L" | .objB => "O" | .keyB => "K" | .valB => "V" | .arrB => "A" | .itemB => "I"
  | .inlAnnB => "i" | .inlTxtB => "t" | .mlAnnB => "m" | .mlTxtB => "x" | .tsB => "S" | .ksB => "k" | .mixB => "M"
  | _ => "?"

def stName : St → String
  | .guard i => "guard(" ++ stName i ++ ")"
  | .foundRoot => "foundRoot" | .objKeyOrEmpty => "objKeyOrEmpty" | .objKey => "objKey"
  | .objKeyAfterNL => "objKeyAfterNL" | .objValue => "objValue" | .arrItemOrEmpty => "arrItemOrEmpty"
  | .arrItem => "arrItem" | .keyShortcut => "keyShortcut" | .endValue => "endValue" | .afterKey => "afterKey"
  | .afterValue => "afterValue" | .afterItem => "afterItem" | .endTop => "endTop" | .inString => "inString"
  | .esc => "esc" | .u0 => "u0" | .u1 => "u1" | .u2 => "u2" | .u3 => "u3" | .neg => "neg" | .d1 => "d1" | .d0 => "d0"
  | .dot => "dot" | .dot0 => "dot0" | .t => "t" | .tr => "tr" | .tru => "tru" | .f => "f" | .fa => "fa"
  | .fal => "fal" | .fals => "fals" | .n => "n" | .nu => "nu" | .nul => "nul" | .tsBeginName => "tsBeginName"
  | .tsName => "tsName" | .tsBeforePipe => "tsBeforePipe" | .tsAfterPipe => "tsAfterPipe"
  | .anyCommentStart => "anyCommentStart" | .inlineComment => "inlineComment"
  | .multiLineComment => "multiLineComment" | .anyAnnStart => "anyAnnStart" | .inlAnnStart => "inlAnnStart"
  | .inlAnn => "inlAnn" | .inlTxtPrefix => "inlTxtPrefix" | .inlTxtPrefix2 => "inlTxtPrefix2" | .inlTxt => "inlTxt"
  | .inlTxtSkip => "inlTxtSkip" | .mlAnn => "mlAnn" | .mlTxtPrefix => "mlTxtPrefix" | .mlTxtPrefix2 => "mlTxtPrefix2"
  | .mlAnnEnd => "mlAnnEnd" | .mlTxt => "mlTxt" | .annKeyFirst => "annKeyFirst" | .annKey => "annKey"
  | .annKeyAfter => "annKeyAfter"

def ctxStr (c : Ctx) : String :=
  (match c.ty with | .initial => "0" | .object => "1" | .array => "2" | .shortcut => "3") ++ (if c.arrayHasItem then "+" else "")

def key (s : Sc) : String :=
  "K:" ++ stName s.step
    ++ "|r=" ++ ",".intercalate (s.ret.reverse.map stName)
    ++ "|s=" ++ String.join (s.stack.reverse.map fun p => stackCode p.1)
    ++ "|c=" ++ ",".intercalate ((s.ctxStack.reverse ++ [s.ctx]).map ctxStr)
    ++ "|an=" ++ (match s.ann with | .none => "0" | .inline => "1" | .multi => "2")
    ++ "|u=" ++ bit s.unf ++ "|b=" ++ (if s.boundaryQuote then "34" else "0")
    ++ "|aa=" ++ bit s.allowAnnotation ++ "|ht=" ++ bit s.hasTrailing ++ "|lc=" ++ bit s.lengthComputing
    ++ s!"|f={s.finds.length}"

def errStr : Err → String
  | .crash _ => "CRASH"
  | e => showErr e

def lenStr (bs : List UInt8) : String :=
  match length bs with
  | .ok n => s!"LEN {n}"
  | .error e => errStr e

def evStr (e : Ev) : String := s!"{evCode e.ty}{e.b}:{e.e}"

def loop (lenMode withEvs : Bool) (bs : List UInt8) (data : Array Cls) (frm : Nat) : Nat → Sc → Bool → List String → String
  | 0, _, _, acc => finish acc withEvs "CRASH"
  | fuel + 1, s, recd, acc =>
    match s.finds with
    | t :: rest =>
      match processFound data { s with finds := rest } t with
      | .error e => finish acc withEvs (errStr e)
      | .ok (s, e) =>
        let acc := if recd then evStr e :: acc else acc
        if e.ty == .endTop && lenMode then finish acc withEvs ("STOP " ++ lenStr bs)
        else loop lenMode withEvs bs data frm fuel s recd acc
    | [] =>
      if s.index < data.size then
        let recd := recd || (withEvs && s.index ≥ frm)
        let c := data[s.index]!
        let s := { s with index := s.index + 1 }
        match dispatch 8 s.step s c data[s.index]? data[s.index + 1]? with
        | .error e => finish acc withEvs (errStr e)
        | .ok s => loop lenMode withEvs bs data frm fuel s recd acc
      else finish acc withEvs (key s)

def run (lenMode : Bool) (bs : List UInt8) (frm : Option Nat) : String :=
  let data := (bs.map classify).toArray
  loop lenMode frm.isSome bs data (frm.getD 0) (16 * data.size + 64) { lengthComputing := lenMode } false []

/-- the state at the first moment all found lexemes are processed and `index ≥ limit` (`none`: the run ends before) -/
def prefixState (data : Array Cls) (limit : Nat) : Nat → Sc → Option Sc
  | 0, _ => none
  | fuel + 1, s =>
    match s.finds with
    | t :: rest =>
      match processFound data { s with finds := rest } t with
      | .error _ => none
      | .ok (s, e) => if e.ty == .endTop then none else prefixState data limit fuel s
    | [] =>
      if s.index ≥ limit then some s
      else if s.index < data.size then
        let c := data[s.index]!
        let s := { s with index := s.index + 1 }
        match dispatch 8 s.step s c data[s.index]? data[s.index + 1]? with
        | .error _ => none
        | .ok s => prefixState data limit fuel s
      else some s

def fan (lenMode : Bool) (p a1 a2 a3 : List UInt8) : String :=
  let pc := (p.map classify).toArray
  let s0 : Sc := { lengthComputing := lenMode }
  -- steps that start before |p| - 2 see nothing beyond the prefix
  let saved := (prefixState pc (pc.size - 2) (16 * pc.size + 64) s0).getD s0
  fanOut (fun suf =>
    let data := pc ++ (suf.map classify).toArray
    loop lenMode true (p ++ suf) data (pc.size - 2) (16 * data.size + 64) saved false []) a1 a2 a3

end S

/-! ## enum-rule scanner -/
namespace E
open EnumScan

def evCode : LexT → String
  | .litB => "Lb" | .litE => "Le" | .arrB => "Ab" | .arrE => "Ae" | .itemB => "Ib" | .itemE => "Ie"
  | .inlAnnB => "iab" | .inlAnnE => "iae" | .inlTxtB => "itb" | .inlTxtE => "ite"
  | .mlAnnB => "mab" | .mlAnnE => "mae" | .mlTxtB => "mtb" | .mlTxtE => "mte"
  | .newLine => "nl" | .endTop => "et"

def stackCode : LexT → String
  | .litB => "L" | .arrB => "A" | .itemB => "I"
  | .inlAnnB => "i" | .inlTxtB => "t" | .mlAnnB => "m" | .mlTxtB => "x"
  | _ => "?"

def stName : St → String
  | .begin => "begin" | .arrItemOrEmpty => "arrItemOrEmpty" | .arrItem => "arrItem" | .endValue => "endValue"
  | .afterItem => "afterItem" | .endTop => "endTop" | .inString => "inString" | .esc => "esc" | .u0 => "u0"
  | .u1 => "u1" | .u2 => "u2" | .u3 => "u3" | .neg => "neg" | .d1 => "d1" | .d0 => "d0" | .dot => "dot"
  | .dot0 => "dot0" | .t => "t" | .tr => "tr" | .tru => "tru" | .f => "f" | .fa => "fa" | .fal => "fal"
  | .fals => "fals" | .n => "n" | .nu => "nu" | .nul => "nul" | .anyAnnStart => "anyAnnStart" | .inlAnn => "inlAnn"
  | .mlAnn => "mlAnn" | .mlTxt => "mlTxt" | .mlAnnEnd => "mlAnnEnd" | .inlTxt => "inlTxt"

/-- the set of values seen so far is data, not control: only its size, capped at 2, is in the key -/
def key (s : Sc) : String :=
  "K:" ++ stName s.step
    ++ "|r=" ++ ",".intercalate (s.ret.reverse.map stName)
    ++ "|s=" ++ String.join (s.stack.reverse.map fun p => stackCode p.1)
    ++ "|an=" ++ bit s.ann ++ "|u=" ++ bit s.unf ++ "|ht=" ++ bit s.hasTrailing ++ "|lc=" ++ bit s.lengthComputing
    ++ s!"|f={s.finds.length}|nu={min s.unique.length 2}"

def errStr (lenMode : Bool) (bs : List UInt8) : Err → String
  | .arrayExpected i => s!"ERR 1600 {i}"
  | .invalidChar i _ => s!"ERR 301 {i}"
  | .duplicate i => s!"ERR 810 {i}"
  | .unexpectedEOF i => s!"ERR 303 {i}"
  | .other _ => "CRASH"
  | .eos =>
    if lenMode then
      match length bs with
      | .ok n => s!"STOP LEN {n}"
      | .error .eos => "STOP EOS"
      | .error (.other _) => "STOP CRASH"
      | .error (.arrayExpected i) => s!"STOP ERR 1600 {i}"
      | .error (.invalidChar i _) => s!"STOP ERR 301 {i}"
      | .error (.duplicate i) => s!"STOP ERR 810 {i}"
      | .error (.unexpectedEOF i) => s!"STOP ERR 303 {i}"
    else "STOP"

def evStr (e : Ev) : String := s!"{evCode e.ty}{e.b}:{e.e}"

def loop (lenMode withEvs : Bool) (bs : List UInt8) (content : Array UInt8) (data : Array SchemaScan.Cls) (frm : Nat) :
    Nat → Sc → Bool → List String → String
  | 0, _, _, acc => finish acc withEvs "CRASH"
  | fuel + 1, s, recd, acc =>
    match s.finds with
    | t :: rest =>
      match processFound { s with finds := rest } t with
      | .error e => finish acc withEvs (errStr lenMode bs e)
      | .ok (s, e) => loop lenMode withEvs bs content data frm fuel s recd (if recd then evStr e :: acc else acc)
    | [] =>
      if s.index < data.size then
        let recd := recd || (withEvs && s.index ≥ frm)
        let c := data[s.index]!
        let s := { s with index := s.index + 1 }
        match dispatch content 8 s c data[s.index]? with
        | .error e => finish acc withEvs (errStr lenMode bs e)
        | .ok s => loop lenMode withEvs bs content data frm fuel s recd acc
      else finish acc withEvs (key s)

def run (lenMode : Bool) (bs : List UInt8) (frm : Option Nat) : String :=
  let data := (bs.map SchemaScan.classify).toArray
  loop lenMode frm.isSome bs bs.toArray data (frm.getD 0) (16 * data.size + 64) { lengthComputing := lenMode } false []

/-- every probe re-reads the whole prefix (the duplicate check looks at the literal's bytes) -/
def fan (lenMode : Bool) (p a1 a2 a3 : List UInt8) : String :=
  fanOut (fun suf => run lenMode (p ++ suf) (some (p.length - 2))) a1 a2 a3

end E

/-- `skey E|L <hex> [from]` -/
def skey (r : List String) : String :=
  match r with
  | m :: rest =>
    if m == "E" || m == "L" then S.run (m == "L") (unhex (rest.headD "")) ((rest.drop 1).head?.map String.toNat!)
    else "bad-op"
  | [] => "bad-op"

/-- `ekey [E|L] <hex> [from]` -/
def ekey (r : List String) : String :=
  match r with
  | m :: rest =>
    if m == "E" || m == "L" then E.run (m == "L") (unhex (rest.headD "")) ((rest.drop 1).head?.map String.toNat!)
    else E.run false (unhex m) (rest.head?.map String.toNat!)
  | [] => E.run false [] none

def hexArg (w : String) : List UInt8 := if w == "-" then [] else unhex w

/-- `skeys E|L <hex prefix or -> <hex A1> <hex A2> <hex A3>` -/
def skeys (r : List String) : String :=
  match r with
  | [m, p, a1, a2, a3] => if m == "E" || m == "L" then S.fan (m == "L") (hexArg p) (hexArg a1) (hexArg a2) (hexArg a3) else "bad-op"
  | _ => "bad-op"

/-- `ekeys E|L <hex prefix or -> <hex A1> <hex A2> <hex A3>` -/
def ekeys (r : List String) : String :=
  match r with
  | [m, p, a1, a2, a3] => if m == "E" || m == "L" then E.fan (m == "L") (hexArg p) (hexArg a1) (hexArg a2) (hexArg a3) else "bad-op"
  | _ => "bad-op"

end Keys
end Drv
