import JSight.SchemaLenErr
import Driver.Common
/-!
Driver family `stok` (C14): the token-level scanner `SchemaScan.Len.trun` of `C14_schema_len_annotated`.

    stok <tokens> <xhex>

`<tokens>`: comma-separated tokens — `s<hh>` space/tab byte, `n` line break, `c<hex>` `#` comment text (the line break
is implied), `v<hex>` scalar, `k<hex>` key, `L R l r m o` = `{ } [ ] , :`, and inline annotations
`aN.<s2>.<txt>` (`// s2 txt`), `aO.<s2>.<obj>.<s3>` / `aO.<s2>.<obj>.<s3>.<s4>.<txt>` (`// s2 {obj} s3 [- s4 txt]`) with
`<obj>` = `E<b0>` (empty object with blanks) or `rule+rule+…[~<b5>]` (`~`: trailing comma and blanks), `rule` =
`<b1>:<name>:<n2>:<b3>:<val>:<b4>` (hex fields, `n2` decimal). `<xhex>`: the byte that follows the schema.
Reply: `ACC <n>` — every token is well formed, the token list is accepted from the initial state, the state behind it
satisfies `EndsAt` for the (foreign) byte `x`: the theorem says `Len = n` (`rtrimLen` of the token text);
`NOEND` — accepted, but the end condition fails; `REJ <k>` — token `k` is not accepted; `BADWF <k>`; `bad-op`.

    stoke <tokens>     events of the token text scanned ALONE (`schema_events_tokens_whole`): `EV <events>` when the token
                       list is accepted and `Complete`, else `INC` / `REJ <k>` / `BADWF <k>`
    stokx <tokens>     `OPEN` when the token list is accepted and leaves something open that the end of input cannot
                       close (`eofErrK`: `C14_schema_len_error`), else `NOTOPEN` / `REJ <k>` / `BADWF <k>`
-/
namespace Drv.C14Tok
open SchemaScan SchemaScan.Len

def cls (hx : String) : List Cls := (unhex hx).map classify

def isScalarB (tok : List Cls) : Bool :=
  match tok with
  | [] => false
  | c :: tl =>
    match litStart c with
    | none => false
    | some (st0, u0) =>
      match silentRun st0 [] u0 tl with
      | some (stE, [], false) => PV stE
      | _ => false

def isKeyB (k : List Cls) : Bool :=
  match k with
  | .quote :: tl =>
    (match silentRun .inString [] false tl with
     | some (.endValue, [], false) => true
     | _ => false)
  | _ => false

def spTabsB (l : List Cls) : Bool := l.all Cls.isSpTab
def inlTxtB (txt : List Cls) : Bool :=
  txt.all Cls.isInlCh && (match txt with | c :: _ => !c.isSpTab | [] => true)
def nameB (n : List Cls) : Bool := !n.isEmpty && n.all Cls.isName
def ruleB (r : CRule) : Bool := spTabsB r.b1 && nameB r.name && spTabsB r.b3 && isScalarB r.val && spTabsB r.b4
def objB : CObj → Bool
  | .empty b0 => spTabsB b0
  | .rules r rs tc => ruleB r && rs.all ruleB && (match tc with | none => true | some b5 => spTabsB b5)
def bodyB : InlBody → Bool
  | .note s2 txt => spTabsB s2 && inlTxtB txt && (match txt with | .lbrace :: _ => false | _ => true)
  | .obj s2 ob s3 nt => spTabsB s2 && objB ob && spTabsB s3 &&
      (match nt with | none => true | some (s4, txt) => spTabsB s4 && inlTxtB txt)

def wfB : Tok → Bool
  | .sp c => c.isSpTab
  | .cmt text => text.all (fun c => !c.isNewLine) && (match text with | .hash :: _ => false | _ => true)
  | .ann b => bodyB b
  | .scalar tok => isScalarB tok
  | .key k => isKeyB k
  | _ => true

/-! the checks imply the hypotheses of the theorems (`Tok.WF`) -/

theorem isScalarB_sound {tok : List Cls} (h : isScalarB tok = true) : IsScalar tok := by
  unfold isScalarB at h
  split at h
  · cases h
  · rename_i c tl
    split at h
    · cases h
    · rename_i st0 u0 hs
      split at h
      · rename_i stE hr
        exact ⟨c, tl, st0, u0, stE, rfl, hs, hr, h⟩
      · cases h

theorem isKeyB_sound {k : List Cls} (h : isKeyB k = true) : IsKey k := by
  unfold isKeyB at h
  split at h
  · rename_i tl
    split at h
    · rename_i hr
      exact ⟨tl, rfl, hr⟩
    · cases h
  · cases h

theorem spTabsB_sound {l : List Cls} (h : spTabsB l = true) : IsSpTabs l := by
  intro c hc
  exact List.all_eq_true.mp h c hc

theorem spTabsB_ablank {l : List Cls} (h : spTabsB l = true) : ABlank .inline l := by
  intro c hc
  have := List.all_eq_true.mp h c hc
  simp [Ann.okBlank, this]

theorem inlTxtB_sound {txt : List Cls} (h : inlTxtB txt = true) : IsInlTxt txt := by
  unfold inlTxtB at h
  simp only [Bool.and_eq_true] at h
  refine ⟨fun c hc => List.all_eq_true.mp h.1 c hc, ?_⟩
  intro c hc
  cases txt with
  | nil => cases hc
  | cons d ds =>
    simp only [List.head?_cons, Option.some.injEq] at hc
    subst hc
    simpa using h.2

theorem ruleB_sound {r : CRule} (h : ruleB r = true) : r.Valid .inline := by
  unfold ruleB at h
  simp only [Bool.and_eq_true] at h
  obtain ⟨⟨⟨⟨h1, h2⟩, h3⟩, h4⟩, h5⟩ := h
  refine ⟨spTabsB_ablank h1, ?_, spTabsB_ablank h3, isScalarB_sound h4, spTabsB_ablank h5⟩
  unfold nameB at h2
  simp only [Bool.and_eq_true, Bool.not_eq_true', List.isEmpty_eq_false_iff] at h2
  exact ⟨h2.1, fun c hc => List.all_eq_true.mp h2.2 c hc⟩

theorem objB_sound {ob : CObj} (h : objB ob = true) : ob.Valid .inline := by
  cases ob with
  | empty b0 => exact spTabsB_ablank h
  | rules r rs tc =>
    simp only [objB, Bool.and_eq_true] at h
    obtain ⟨⟨h1, h2⟩, h3⟩ := h
    refine ⟨⟨ruleB_sound h1, fun x hx => ruleB_sound (List.all_eq_true.mp h2 x hx)⟩, ?_⟩
    intro b5 hb
    subst hb
    exact spTabsB_ablank h3

theorem bodyB_sound {b : InlBody} (h : bodyB b = true) : b.Valid := by
  cases b with
  | note s2 txt =>
    simp only [bodyB, Bool.and_eq_true] at h
    obtain ⟨⟨h1, h2⟩, h3⟩ := h
    refine ⟨spTabsB_sound h1, inlTxtB_sound h2, ?_⟩
    intro e
    cases txt with
    | nil => cases e
    | cons d ds =>
      simp only [List.head?_cons, Option.some.injEq] at e
      subst e
      cases h3
  | obj s2 ob s3 nt =>
    simp only [bodyB, Bool.and_eq_true] at h
    obtain ⟨⟨⟨h1, h2⟩, h3⟩, h4⟩ := h
    refine ⟨spTabsB_sound h1, objB_sound h2, spTabsB_sound h3, ?_⟩
    intro s4 txt e
    subst e
    simp only [Bool.and_eq_true] at h4
    exact ⟨spTabsB_sound h4.1, inlTxtB_sound h4.2⟩

/-- what the driver accepts as well formed is well formed in the sense of the theorems -/
theorem wfB_sound {t : Tok} (h : wfB t = true) : t.WF := by
  cases t with
  | sp c => exact h
  | cmt text =>
    simp only [wfB, Bool.and_eq_true] at h
    refine ⟨?_, ?_⟩
    · intro c hc e
      subst e
      have := List.all_eq_true.mp h.1 _ hc
      cases this
    · intro e
      cases text with
      | nil => cases e
      | cons d ds =>
        simp only [List.head?_cons, Option.some.injEq] at e
        subst e
        cases h.2
  | ann b => exact bodyB_sound h
  | scalar tok => exact isScalarB_sound h
  | key k => exact isKeyB_sound h
  | nl => trivial
  | lbrace => trivial
  | rbrace => trivial
  | lbrack => trivial
  | rbrack => trivial
  | comma => trivial
  | colon => trivial

def parseRule (s : String) : Option CRule :=
  match s.splitOn ":" with
  | [b1, name, n2, b3, val, b4] => some ⟨cls b1, cls name, n2.toNat!, cls b3, cls val, cls b4⟩
  | _ => none

def parseObj (s : String) : Option CObj :=
  if s.startsWith "E" then some (.empty (cls (s.drop 1).toString))
  else
    let (rulesPart, tc) : String × Option (List Cls) :=
      match s.splitOn "~" with
      | [a, b5] => (a, some (cls b5))
      | _ => (s, none)
    match (rulesPart.splitOn "+").mapM parseRule with
    | some (r :: rs) => some (.rules r rs tc)
    | _ => none

def parseTok (s : String) : Option Tok :=
  match s.toList with
  | 's' :: rest => (match cls (String.mk rest) with | [c] => some (.sp c) | _ => none)
  | ['n'] => some .nl
  | 'c' :: rest => some (.cmt (cls (String.mk rest)))
  | 'v' :: rest => some (.scalar (cls (String.mk rest)))
  | 'k' :: rest => some (.key (cls (String.mk rest)))
  | ['L'] => some .lbrace | ['R'] => some .rbrace | ['l'] => some .lbrack | ['r'] => some .rbrack
  | ['m'] => some .comma | ['o'] => some .colon
  | 'a' :: _ =>
    (match s.splitOn "." with
     | ["aN", s2, txt] => some (.ann (.note (cls s2) (cls txt)))
     | ["aO", s2, ob, s3] => (parseObj ob).map (fun o => .ann (.obj (cls s2) o (cls s3) none))
     | ["aO", s2, ob, s3, s4, txt] => (parseObj ob).map (fun o => .ann (.obj (cls s2) o (cls s3) (some (cls s4, cls txt))))
     | _ => none)
  | _ => none

def endsAtB (c : TC) (x : Cls) : Bool :=
  (match c.st with | .endTop => c.K.isEmpty | _ => false) ||
  (PV c.st && !c.g && (match c.K with | [] => true | [(.litB, _)] => true | _ => false) && adjOk c.st x)

def runFrom : TC → Nat → List Tok → Except Nat TC
  | c, _, [] => .ok c
  | c, k, t :: ts => match tstep c t with
    | some (c1, _) => runFrom c1 (k + 1) ts
    | none => .error k

def runEv : TC → Nat → List Tok → List Ev → Except Nat (TC × List Ev)
  | c, _, [], acc => .ok (c, acc)
  | c, k, t :: ts, acc => match tstep c t with
    | some (c1, e1) => runEv c1 (k + 1) ts (acc ++ e1)
    | none => .error k

def completeB (c : TC) : Bool :=
  (match c.st with | .endTop => c.K.isEmpty | _ => false) ||
  (PV c.st && !c.g && (match c.K with | [] => true | [(.litB, _)] => true | _ => false))

def withToks (spec : String) (k : List Tok → String) : String :=
  match (spec.splitOn ",").mapM parseTok with
  | some toks =>
    (match toks.findIdx? (fun t => !wfB t) with
     | some i => s!"BADWF {i}"
     | none => k toks)
  | none => "bad-op"

def handleE (args : List String) : String :=
  match args with
  | [spec] => withToks spec fun toks =>
      match runEv TC.init 0 toks [] with
      | .error k => s!"REJ {k}"
      | .ok (c, evs) => if completeB c then "EV " ++ showEvents (.ok (evs ++ endClosers c)) else "INC"
  | _ => "bad-op"

def handleX (args : List String) : String :=
  match args with
  | [spec] => withToks spec fun toks =>
      match runFrom TC.init 0 toks with
      | .error k => s!"REJ {k}"
      | .ok c => if eofErrK c.K then "OPEN" else "NOTOPEN"
  | _ => "bad-op"

def handle (args : List String) : String :=
  match args with
  | [spec, xhex] =>
    (match (spec.splitOn ",").mapM parseTok, cls xhex with
     | some toks, [x] =>
       (match toks.findIdx? (fun t => !wfB t) with
        | some k => s!"BADWF {k}"
        | none =>
          match runFrom TC.init 0 toks with
          | .error k => s!"REJ {k}"
          | .ok c => if x.isForeign && endsAtB c x then s!"ACC {rtrimLen (renderToks toks)}" else "NOEND")
     | _, _ => "bad-op")
  | _ => "bad-op"

end Drv.C14Tok
