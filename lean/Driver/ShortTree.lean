import JSight.ShortE2E
import JSight.CompileLinksFirst
import JSight.E2E
import Driver.Common
/-!
`stree (doc W0 TREE W1) (types (NAMEHEX (doc W0 TREE W1))*)` — the SPEC side of `C16_shortcut_events_of_tree` /
`C09_text_loads` / `C09_text_level_links` on a tree whose leaves are scalars or type shortcuts (`SE.BST`) next to the
models run on its TEXT. Tie `c09-load`. Reply (one line):

  `T <hex of the root text> | E <events the tree denotes: nlEvs ++ sEvsAt ++ nlEvs> | S <events of the scanner model on the text>
   | C <1|0: E2E.loadSchema text = cnOf tree> | TY <1|0: E2E.loadTypes = typesOf> | M <OK | MISS name: first missing name of
   CL.visitAll on the compiled SPEC trees> | W <OK | ERR code | UNSUP why: Compile.check on the spec trees> | TX <hex of each type text>*`

    TREE = (S TOK) | (R FIRST (ALT*) SPS) | (A W0 (ITEM*)) | (O W0 (MEMBER*))     ALT = (S1 S2 NAME)
    ITEM = (W1 TREE W2)        MEMBER = (W1 KEY W2 W3 TREE W4)                   (hex strings; `-` = empty)
-/
namespace Drv.ShortTree
open Drv SE Compile

def hx (s : String) : List UInt8 := if s == "-" then [] else unhex s

def pAlt : Sx → Option Alt
  | .list [.atom a, .atom b, .atom c] => some (hx a, hx b, hx c)
  | _ => none

mutual
partial def pTree : Sx → Option BST
  | .list [.atom "S", .atom tok] => some (.scalar (hx tok))
  | .list [.atom "R", .atom f, .list alts, .atom sps] => do pure (.short (hx f) (← alts.mapM pAlt) (hx sps))
  | .list [.atom "A", .atom w0, .list its] => do pure (.arr (hx w0) (← its.mapM pItem))
  | .list [.atom "O", .atom w0, .list ms] => do pure (.obj (hx w0) (← ms.mapM pMember))
  | _ => none
partial def pItem : Sx → Option BItem
  | .list [.atom w1, t, .atom w2] => do pure (hx w1, ← pTree t, hx w2)
  | _ => none
partial def pMember : Sx → Option BMember
  | .list [.atom w1, .atom k, .atom w2, .atom w3, t, .atom w4] => do pure (hx w1, hx k, hx w2, hx w3, ← pTree t, hx w4)
  | _ => none
end

def pDoc : Sx → Option (List UInt8 × BST × List UInt8)
  | .list [.atom "doc", .atom w0, t, .atom w1] => do pure (hx w0, ← pTree t, hx w1)
  | _ => none

def pType : Sx → Option (String × List UInt8 × BST × List UInt8)
  | .list [.atom nm, d] => do
    let (w0, t, w1) ← pDoc d
    pure (keyStr (hx nm), w0, t, w1)
  | _ => none

/-- `CN` has no decidable equality: compare through the dump -/
partial def dumpCN : CN → String
  | .lit spec bad => s!"(lit {hexOf spec.ex} {repr spec.kind} {spec.nul} {spec.rules.length} {bad})"
  | .any jt _ => s!"(any {repr jt})"
  | .ref names nul jt ex orShort => s!"(ref {names} {nul} {repr jt} {ex.map hexOf} {orShort})"
  | .arr items nul bad => "(arr " ++ " ".intercalate (items.map dumpCN) ++ s!" {nul} {bad})"
  | .obj props add nul bad =>
    "(obj " ++ " ".intercalate (props.map fun p => s!"[{p.1} {p.2.1} {p.2.2.1} {p.2.2.2.1} {dumpCN p.2.2.2.2}]") ++
      s!" {repr add} {nul} {bad})"

def dumpTs (ts : Types) : List (String × String) := ts.map fun x => (x.1, dumpCN x.2)

def us (w : String) : String := w.replace " " "_"

def handle (line : String) : String :=
  match parseLine line with
  | some (.list [.atom "stree", d, .list (.atom "types" :: tys)]) =>
    match pDoc d, tys.mapM pType with
    | some (w0, t, w1), some tys =>
      let text := w0 ++ (t.render ++ w1)
      let typeTexts : List (String × List UInt8) := tys.map fun x => (x.1, x.2.1 ++ (x.2.2.1.render ++ x.2.2.2))
      let specEvs := SchemaScan.nlEvs 0 (clsB w0) ++ (SchemaScan.sEvsAt w0.length t.cls ++
        SchemaScan.nlEvs (w0.length + t.render.length) (clsB w1))
      let e := SchemaScan.showEvents (.ok specEvs)
      let s := SchemaScan.showEvents (SchemaScan.scanAll text)
      let c := match E2E.loadSchema text false with
        | .ok (some cn) => if dumpCN cn == dumpCN (cnOf false t) then "1" else "0"
        | _ => "0"
      let ts : Types := tys.map fun x => (x.1, cnOf false x.2.2.1)
      let ty := match E2E.loadTypes typeTexts with
        | .ok ts' => if dumpTs ts' == dumpTs ts then "1" else "0"
        | .error _ => "0"
      let m := match CL.firstMissing ts (CL.visitAll (cnOf false t) ts) with
        | some n => s!"MISS {n}"
        | none => "OK"
      let w := match Compile.check (cnOf false t) ts with
        | .ok _ => "OK"
        | .error (.code c _) => s!"ERR {c}"
        | .error (.unsupported why) => "UNSUP " ++ us why
      let tx := " ".intercalate (typeTexts.map fun x => hexOf x.2)
      s!"T {hexOf text} | E {e} | S {s} | C {c} | TY {ty} | M {m} | W {w} | TX {tx}"
    | _, _ => "BAD tree"
  | _ => "BAD request"

end Drv.ShortTree
