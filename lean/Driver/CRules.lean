import JSight.CheckRulesSpec
import Driver.Common
/-!
`cspec (node …)` → `<model OK|ERR c> <specOK 1|0> <refTypeClass 1|0> <wf 1|0>` (the statement of `C08_check_iff` on one node).
`crules (node <kind> <0|1 isProp> (rules (r <name> <val>)…) (rx <tok>…) (en <name>…))` → `OK` | `ERR <code>`:
`CR.checkRules` on one annotated node (C08). Byte strings are atoms `x<hex>` (`x` alone = empty).
kind: `int` `float` `str` `bool` `null` `(obj <children>)` `(arr <children>)` `(ref <name>)` `(ors <0|1>…)`;
val: `(l <tok>)` literal, `(f <name>)` shortcut, `(a <val>…)` array, `(o (<name> <val>)…)` object.
-/
namespace DCR
open Drv CR

def bytesOf (s : String) : Bytes := unhex (String.mk (s.toList.drop 1))

instance : Inhabited Val := ⟨.arr []⟩

partial def toVal : Sx → Val
  | .list [.atom "l", .atom t] => .lit (bytesOf t)
  | .list [.atom "f", .atom t] => .ref (bytesOf t)
  | .list (.atom "a" :: items) => .arr (items.map toVal)
  | .list (.atom "o" :: es) => .obj (es.filterMap fun
      | .list [.atom k, v] => some (bytesOf k, toVal v)
      | _ => none)
  | _ => .arr []

def toKind : Sx → Option NKind
  | .atom "int" => some .integer
  | .atom "float" => some .float
  | .atom "str" => some .string
  | .atom "bool" => some .boolean
  | .atom "null" => some .null
  | .list [.atom "obj", .atom n] => some (.object n.toNat!)
  | .list [.atom "arr", .atom n] => some (.array n.toNat!)
  | .list [.atom "ref", .atom t] => some (.typeRef (bytesOf t))
  | .list (.atom "ors" :: us) => some (.orShortcut (us.map fun | .atom "1" => true | _ => false))
  | _ => none

def atoms (xs : List Sx) : List Bytes := xs.filterMap fun | .atom t => some (bytesOf t) | _ => none

def b01 (b : Bool) : String := if b then "1" else "0"

def handle (line : String) : String :=
  match parseSx (tokenize ("(" ++ line ++ ")")) with
  | some (.list [.atom cmd, .list [.atom "node", k, .atom p, .list (.atom "rules" :: rs),
                                   .list (.atom "rx" :: rx), .list (.atom "en" :: en)]], _) =>
    match toKind k with
    | none => "bad-kind"
    | some kind =>
      let rules : List Rule := rs.filterMap fun
        | .list [.atom "r", .atom nm, v] => some (bytesOf nm, toVal v)
        | _ => none
      let n : Node := { kind := kind, isProp := p == "1", rules := rules, okRegex := atoms rx, enumRules := atoms en }
      let m := match checkRules n with
        | .ok _ => "OK"
        | .error c => s!"ERR {c}"
      if cmd == "crules" then m
      else if cmd == "cspec" then s!"{m} {b01 (specOK n)} {b01 (refTypeClass n)} {b01 n.kind.wf}"
      else "bad-op"
  | _ => "bad-op"

end DCR
