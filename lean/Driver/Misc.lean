import JSight.Ast
import JSight.RegexQuote
import Driver.Common
namespace DMisc
open Drv
/-! Small models that had theorems but no correspondence command:
* `ast <jsonKind> <ck> …` → `<schemaType>|<rule names in AST order>`; constraint kinds in map order:
  `enum`, `or`, `types`, `precision`, `type:<name>`, `o:<name>` (any other constraint);
* `rgx P <hex>` → pattern of a regex type text (`P <hex>` / `NONE`), `rgx L <hex>` → `LEN n` / `NONE`,
  `rgx Q <hex>` → Go `%q` of a printable-ASCII string as the model writes it (hex). -/

def toCK (t : String) : Ast.CK :=
  if t == "enum" then .enum else if t == "or" then .or else if t == "types" then .typesList
  else if t == "precision" then .precision
  else if t.startsWith "type:" then .type (t.drop 5).toString
  else if t.startsWith "o:" then .other (t.drop 2).toString else .other t

def ast (args : List String) : String :=
  match args with
  | kind :: cks =>
    let cs := cks.map toCK
    Ast.schemaType cs kind ++ "|" ++ ",".intercalate ((Ast.collectRules cs).map (·.1))
  | _ => "bad-op"

def rgx (args : List String) : String :=
  match args with
  | ["P", h] => (match RegexT.pattern (unhex h) with | some p => "P " ++ hexOf p | none => "NONE")
  | ["P"] => "NONE"
  | ["L", h] => (match RegexT.len (unhex h) with | some n => s!"LEN {n}" | none => "NONE")
  | ["L"] => "NONE"
  | ["Q", h] => hexOf (GoQuote.q (unhex h))
  | ["Q"] => hexOf (GoQuote.q [])
  | _ => "bad-op"

end DMisc
