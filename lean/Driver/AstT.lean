import JSight.AstText
import Driver.Common
/-!
`astt <hex schema text>` → canonical one-line dump of the AST the model `AstText.astOfText` builds, or
`ERR code pos` (scanner / loader error) / `UNSUP why` (outside the model).

node  := `(` tok [` k=`hex`:`p|s] ` t=`hex ` v=`hex ` c=`hex ` r=[`rule`,`…`]` {` `node} `)`      (k only below an object)
rule  := hex(name) `=` rnode
rnode := `<` tok `;` hex(value) `;` hex(comment) `;` m|g `;p[` rule`,`… `];i[` rnode`,`… `]>`
-/
namespace Drv.AstT
open AstText

mutual
def dumpR : RNode → String
  | .mk tok v c s props items =>
    "<" ++ tok ++ ";" ++ hexOf v ++ ";" ++ hexOf c ++ ";" ++ (match s with | .manual => "m" | .generated => "g")
      ++ ";p[" ++ ",".intercalate (dumpProps props) ++ "];i[" ++ ",".intercalate (dumpItems items) ++ "]>"
def dumpProps : List (Bytes × RNode) → List String
  | [] => []
  | (n, r) :: ps => (hexOf n ++ "=" ++ dumpR r) :: dumpProps ps
def dumpItems : List RNode → List String
  | [] => []
  | r :: rs => dumpR r :: dumpItems rs
end

mutual
def dumpN (inObj : Bool) : AstNode → String
  | .mk key ks tok ty v c rules kids =>
    "(" ++ tok ++ (if inObj then " k=" ++ hexOf key ++ ":" ++ (if ks then "s" else "p") else "")
      ++ " t=" ++ hexOf ty ++ " v=" ++ hexOf v ++ " c=" ++ hexOf c
      ++ " r=[" ++ ",".intercalate (dumpProps rules) ++ "]"
      ++ String.join (dumpKids (tok == "object") kids) ++ ")"
def dumpKids (inObj : Bool) : List AstNode → List String
  | [] => []
  | k :: ks => (" " ++ dumpN inObj k) :: dumpKids inObj ks
end

def handle (r : List String) : String :=
  match astOfText (unhex (r.headD "")) with
  | .ok a => dumpN false a
  | .error (.err e) => e
  | .error (.unsup w) => "UNSUP " ++ w

end Drv.AstT
