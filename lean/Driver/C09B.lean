import JSight.E2E
import JSight.CompileLinks
import Driver.Common
/-!
`c09b <root-hex> <n> (<name-hex> <text-hex>)*` — the two models of the LINK CHECK on the same schema texts
(schema scanner model → loader model → `Compile` → compiled tree; then (A) `CL.checkRootN` = `Compile.check`'s
`CheckRootSchema` with the names kept, (L) `LK.linkCheck` on the abstraction `CL.lkOf` of that tree). Reply (one line):

  `A <v> | L <v> | <AGREE | DISAGREE | OUTSIDE why> | W <OK | ERR c | UNSUP why> | C <0|1> | S <0|1> | P <file-hex> <pos> | P -`

`S` = the case lies in `CL.clsSAll` (class of `C09_first_missing` / `C09_text_level_links_partial`); `P` = file name
(`root` or the name of the added type) and byte offset at which the 1302 error is reported (given when `S 1` and A is
`MISS n`; `-` otherwise or when the place is the `{` of an object, which the loader model does not keep).

`<v>` = `OK`, `MISS <name>`, `E1301`, `E1303 <name>`, `E1304 <key>`, `OUT <why>`; `W` = the whole `Compile.check`
(what `E2E` reports, the recursion check included); `C` = the case lies in the class `CL.clsAll` of the bridge theorem.
An empty hex string is written `-`.
-/
namespace DC09B
open Drv Compile

def hx (s : String) : List UInt8 := if s == "-" then [] else unhex s

def pairs : Nat → List String → Option (List (String × List UInt8) × List String)
  | 0, rest => some ([], rest)
  | n + 1, nm :: txt :: rest =>
    match pairs n rest with
    | some (ps, r) => some ((Compile.keyStr (hx nm), hx txt) :: ps, r)
    | none => none
  | _, _ => none

def us (w : String) : String := w.replace " " "_"

def showV : CL.V → String
  | .ok => "OK"
  | .missing n => s!"MISS {n}"
  | .e1301 => "E1301"
  | .e1303 n => s!"E1303 {n}"
  | .e1304 k => s!"E1304 {k}"
  | .outside w => "OUT " ++ us w

def showW : Except Err Unit → String
  | .ok _ => "OK"
  | .error (.code c _) => s!"ERR {c}"
  | .error (.unsupported w) => "UNSUP " ++ us w

/-! ### where the error is reported (run-time model, tied by `c09-bridge:position`; no theorem speaks about it)

`lexeme.CatchLexEventError(node.BasisLexEventOfSchemaForNode())`: an error raised while a node is checked is placed at
the first byte of that node (for a key shortcut: of the key), in the file of the schema the node belongs to. The
loader model keeps the span of scalar / shortcut values and of keys, not the offset of `{`: a missing
`additionalProperties` type has no position here (`none`). -/

structure Site where
  name : String
  pos : Option Nat
  isOr : Bool

def keySites : List (Nat × Nat × Bool) → List (String × Bool × Bool × Bool × CN) → List Site
  | (b, _, _) :: ks, (k, sc, _, _, _) :: ps =>
    if sc then ⟨"@" ++ k, some b, false⟩ :: keySites ks ps else keySites ks ps
  | _, _ => []

mutual
/-- `CL.visit` with positions: the compiled tree walked together with the loader's node table -/
def sites (tbl : Array Loader.Node) : Nat → Nat → CN → List Site
  | 0, _, _ => []
  | fuel + 1, i, cn =>
    match tbl[i]? with
    | none => []
    | some nd =>
      match cn with
      | .ref names _ _ _ orShort => names.map fun n => ⟨n, nd.value.map (·.1), orShort⟩
      | .arr items _ _ => sitesItems tbl fuel nd.children items
      | .obj props add _ _ =>
        keySites nd.keys props ++ ((match add with | .type n => [⟨n, none, false⟩] | _ => []) ++
          sitesProps tbl fuel nd.children props)
      | _ => []
def sitesItems (tbl : Array Loader.Node) : Nat → List Nat → List CN → List Site
  | fuel, c :: cs, x :: xs => sites tbl fuel c x ++ sitesItems tbl fuel cs xs
  | _, _, _ => []
def sitesProps (tbl : Array Loader.Node) : Nat → List Nat → List (String × Bool × Bool × Bool × CN) → List Site
  | fuel, c :: cs, (_, _, _, _, x) :: xs => sites tbl fuel c x ++ sitesProps tbl fuel cs xs
  | _, _, _ => []
end

def sitesOfText (bs : List UInt8) (cn : CN) : List Site :=
  let st := (E2E.loadTextP bs).1
  match st.root with
  | some r => sites st.nodes (st.nodes.size + 1) r cn
  | none => []

/-- file and offset of the first looked-up name that is missing, in the order of `CL.visitAll` -/
def place (rootBs : List UInt8) (cn : CN) (types : List (String × List UInt8)) (ts : Types) : Option (String × String × Option Nat) :=
  let sorted := sortNames (ts.map (·.1))
  let perType : List (String × List Site) := sorted.filterMap fun n =>
    match lookupT ts n, types.find? (·.1 == n) with
    | some t, some (_, txt) => some (n, sitesOfText txt t)
    | _, _ => none
  let all : List (String × Site) :=
    (sitesOfText rootBs cn).map (fun s => ("root", s)) ++
    (perType.flatMap fun (n, ss) => (ss.filter (·.isOr)).map fun s => (n, s)) ++
    (perType.flatMap fun (n, ss) => ss.map fun s => (n, s))
  match all.find? fun (_, s) => (lookupT ts s.name).isNone with
  | some (f, s) => some (f, s.name, s.pos)
  | none => none

def handle (args : List String) : String :=
  match args with
  | root :: n :: rest =>
    match pairs n.toNat! rest with
    | some (types, []) =>
      let namesOK := (types.map (·.1)).Nodup && types.all fun t => isUserTypeName (strBytes t.1)
      match E2E.loadSchema (hx root) false with
      | .error e => s!"A - | L - | OUTSIDE root-{showW (.error e)} | W {showW (.error e)} | C 0 | S 0 | P -"
      | .ok r =>
        if !namesOK then "A - | L - | OUTSIDE type-names | W UNSUP type_names | C 0 | S 0 | P -"
        else match E2E.loadTypes types with
          | .error e => s!"A - | L - | OUTSIDE types-{showW (.error e)} | W {showW (.error e)} | C 0 | S 0 | P -"
          | .ok ts =>
            match r with
            | none => s!"A - | L - | OUTSIDE no-root | W {showW (checkNoRoot ts)} | C 0 | S 0 | P -"
            | some cn =>
              let (a, l) := CL.bridge cn ts
              let c := CL.clsAll cn ts
              let verdict :=
                match a, l with
                | .outside w, _ => "OUTSIDE A-" ++ us w
                | _, .outside w => "DISAGREE L-" ++ us w
                | _, _ => if a == l then "AGREE" else "DISAGREE"
              let sAll := CL.clsSAll cn ts
              -- the place of the error: only where the theorem `C09_first_missing` says which lookup fails
              let pPart :=
                match a, sAll with
                | .missing n, true =>
                  (match place (hx root) cn types ts with
                   | some (f, m, some pos) => if m == n then s!"P {hexOf (strBytes f)} {pos}" else "P -"
                   | _ => "P -")
                | _, _ => "P -"
              s!"A {showV a} | L {showV l} | {verdict} | W {showW (check cn ts)} | C {if c then 1 else 0} | S {if sAll then 1 else 0} | {pPart}"
    | _ => "bad-op"
  | _ => "bad-op"

end DC09B
