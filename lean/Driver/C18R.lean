import JSight.EnumRoute
import Driver.Common
/-!
`c18r` — the two routes of C18 (model `EnumRoute`, tied by the harness command `c18-routes`).

* `c18r V <hex rule text>` → `VALUES <type>:<hex value | ->:<hex comment> …` (what `enum.Values()` lists, comments
  included) or `ERR <code> <index>` (the error of the rule's `Check()`).
* `c18r R <hex rule text | -> <hex schema text> <hex probe document>*` → the schema is loaded with the rule
  registered as `@E` (`-`: no rule):
  `ITEMS <kind>:<hex value>:<hex comment>,… RULE <hex rule name | -> EX <0|1|-> V <0|1 per probe>` — the items of the
  schema's FIRST enum constraint in order ((value, jsonType) as `NewEnumItem` computes them), whether the root
  node's example token is a member, `Enum.Validate`'s verdict per probe (containers: 0) — or `ERR A <code> <index>`
  (`AddRule` returns the rule's error) / `ERR S <code> <index>` (loading the schema text fails) / `NOENUM`.
-/
namespace DC18R
open Drv EnumRoute

def vtypeName : VType → String
  | .string => "string" | .integer => "integer" | .float => "float" | .boolean => "boolean"
  | .object => "object" | .array => "array" | .null => "null" | .comment => "comment"

def kindName : Rules.Kind → String
  | .i => "integer" | .f => "float" | .s => "string" | .b => "boolean" | .n => "null"

def scanErr : EnumScan.Err → String
  | .arrayExpected i => s!"1600 {i}"
  | .invalidChar i _ => s!"301 {i}"
  | .duplicate i => s!"810 {i}"
  | .unexpectedEOF i => s!"303 {i}"
  | .eos => "EOS 0"
  | .other w => s!"OTHER {w}"

def rerr : RErr → String
  | .scan e => scanErr e
  | .unknownType => "UNKNOWNTYPE 0"
  | .crash w => s!"CRASH {w}"
  | .doc c p => s!"{c} {p}"
  | .sscan e => ((SchemaScan.showErr e).drop 4).toString
  | .lload e => ((Loader.showLErr e).drop 4).toString

def hexOrDash (b : List UInt8) : String := if b.isEmpty then "-" else hexOf b

def showValue (v : Value) : String :=
  let val := match v.value with | none => "-" | some b => hexOrDash b
  s!"{vtypeName v.ty}:{val}:{hexOrDash v.comment}"

def values (hx : String) : String :=
  match ruleValues (unhex hx) with
  | .error e => s!"ERR {rerr e}"
  | .ok vs => "VALUES" ++ String.join (vs.map fun v => " " ++ showValue v)

def showItem (it : CItem) : String := s!"{kindName it.key.2}:{hexOrDash it.key.1}:{hexOrDash it.comment}"

def isBlank (c : UInt8) : Bool := c == 32 || c == 9 || c == 10 || c == 13

def probeBit (c : Cons) (doc : List UInt8) : String :=
  let tok := RulesF.trimSpaces doc
  match tok.head? with
  | some 123 | some 91 => "0"
  | _ => if enumOK c tok then "1" else "0"

/-- the example token of the root node, when it is a literal -/
def rootExample (schema : List UInt8) : Option (List UInt8) :=
  match Loader.loadText schema with
  | .error _ => none
  | .ok st =>
    match st.root with
    | none => none
    | some r =>
      match st.nodes[r]? with
      | some n => if n.kind == .lit then n.value.map (fun sp => Loader.slice schema.toArray sp.1 sp.2) else none
      | none => none

def route (ruleHx schemaHx : String) (probes : List String) : String :=
  let schema := unhex schemaHx
  let rules : Except String Rules :=
    if ruleHx == "-" then .ok []
    else match ruleValues (unhex ruleHx) with
      | .error e => .error s!"ERR A {rerr e}"
      | .ok vs => .ok [("@E".toUTF8.toList, vs)]
  match rules with
  | .error s => s
  | .ok rs =>
    match constraintsOf rs schema with
    | .error e => s!"ERR S {rerr e}"
    | .ok [] => "NOENUM"
    | .ok (c :: _) =>
      let ex := match rootExample schema with
        | none => "-"
        | some tok => if enumOK c tok then "1" else "0"
      let items := ",".intercalate (c.items.map showItem)
      s!"ITEMS {if items.isEmpty then "-" else items} RULE {hexOrDash c.ruleName} EX {ex} V {String.join (probes.map fun p => probeBit c (unhex p))}"

def handle (ws : List String) : String :=
  match ws with
  | ["V", hx] => values hx
  | ["V"] => values ""
  | "R" :: r :: s :: probes => route r s probes
  | _ => "bad-op"

end DC18R
