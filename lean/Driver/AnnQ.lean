import JSight.AnnotQLoad
import Driver.Common
/-!
`annq <a> <tok> <s1> <s2> <s3> <tl> OBJ` → `<hex of the text> | <events> | <rules> | S<0|1> L<0|1>`: the CLOSED FORMS of the
theorems about annotations with quoted rule names and list values (`C13_annotation_events_extended`: the event list
`SchemaScan.annEvsQ`; `C13_annotated_scalar_loads_extended`: the loader's node = the literal with the name spans / value
spans of `QObj.spans` / `CObj.vspans`), computed from the STRUCTURE of the annotation — no scanning. Next to them, as a
self-check of the request being inside the grammar: `S1` = the scanner model on the text delivers exactly that list,
`L1` = scanner model + loader model build exactly that node. Tie `annq-events`.

    a   = i | m                      (inline / multi-line form)
    OBJ = e <b0> | r <tc> <n> RULE{n}          tc = - | t<hex>      (hex strings; `-` = empty)
    RULE = <b1> <q:0|1> <name as written> <n2> <b3> VAL <b4>
    VAL  = L <token> | A <w0> <k> (<w1> <token> <w2>){k}
-/
namespace Drv.AnnQ
open Drv SchemaScan

def hx (s : String) : List UInt8 := if s == "-" then [] else unhex s
def cl (b : List UInt8) : List Cls := b.map classify

abbrev ItemB := List UInt8 × List UInt8 × List UInt8

structure RuleB where
  b1 : List UInt8
  q : Bool
  name : List UInt8
  n2 : Nat
  b3 : List UInt8
  v : Sum (List UInt8) (List UInt8 × List ItemB)
  b4 : List UInt8

def itemsBytes : List ItemB → List UInt8
  | [] => [93]
  | (w1, t, w2) :: its => w1 ++ (t ++ (w2 ++ ((if its.isEmpty then [] else [44]) ++ itemsBytes its)))

def valBytes : Sum (List UInt8) (List UInt8 × List ItemB) → List UInt8
  | .inl v => v
  | .inr (w0, its) => 91 :: (w0 ++ itemsBytes its)

def RuleB.bytes (r : RuleB) : List UInt8 :=
  r.b1 ++ (r.name ++ (List.replicate r.n2 32 ++ (58 :: (r.b3 ++ (valBytes r.v ++ r.b4)))))

def RuleB.cls (r : RuleB) : QRule :=
  ⟨⟨cl r.b1, cl r.name, r.n2, cl r.b3, cl (valBytes r.v), cl r.b4⟩, r.q,
    match r.v with
    | .inl _ => .lit
    | .inr (w0, its) => .list (cl w0) (its.map fun it => (cl it.1, cl it.2.1, cl it.2.2))⟩

inductive ObjB
  | empty (b0 : List UInt8)
  | rules (rs : List RuleB) (tc : Option (List UInt8))

def rulesBytes : List RuleB → List UInt8
  | [] => []
  | [r] => r.bytes
  | r :: rs => r.bytes ++ (44 :: rulesBytes rs)

def ObjB.body : ObjB → List UInt8
  | .empty b0 => b0
  | .rules rs tc => rulesBytes rs ++ (match tc with | none => [] | some b5 => 44 :: b5)

def ObjB.cls : ObjB → Option QObj
  | .empty b0 => some (.empty (cl b0))
  | .rules [] _ => none
  | .rules (r :: rs) tc => some (.rules r.cls (rs.map RuleB.cls) (tc.map cl))

partial def pItems : Nat → List String → Option (List ItemB × List String)
  | 0, rest => some ([], rest)
  | k + 1, w1 :: t :: w2 :: rest =>
    match pItems k rest with
    | some (its, r) => some ((hx w1, hx t, hx w2) :: its, r)
    | none => none
  | _, _ => none

def pRule : List String → Option (RuleB × List String)
  | b1 :: q :: nm :: n2 :: b3 :: "L" :: v :: b4 :: rest =>
    some (⟨hx b1, q == "1", hx nm, n2.toNat!, hx b3, .inl (hx v), hx b4⟩, rest)
  | b1 :: q :: nm :: n2 :: b3 :: "A" :: w0 :: k :: rest =>
    match pItems k.toNat! rest with
    | some (its, b4 :: rest') => some (⟨hx b1, q == "1", hx nm, n2.toNat!, hx b3, .inr (hx w0, its), hx b4⟩, rest')
    | _ => none
  | _ => none

partial def pRules : Nat → List String → Option (List RuleB × List String)
  | 0, rest => some ([], rest)
  | n + 1, ts =>
    match pRule ts with
    | some (r, rest) =>
      match pRules n rest with
      | some (rs, rest') => some (r :: rs, rest')
      | none => none
    | none => none

def pObj : List String → Option ObjB
  | ["e", b0] => some (.empty (hx b0))
  | "r" :: tc :: n :: rest =>
    match pRules n.toNat! rest with
    | some (rs, []) => some (.rules rs (if tc == "-" then none else some (hx (tc.drop 1).toString)))
    | _ => none
  | _ => none

def sameNode (st : Loader.St) (e : Nat) (sps vsps : List (Nat × Nat)) : Bool :=
  st.root == some 0 && st.nodes.size == 1 &&
    match st.nodes[0]? with
    | some n => n.kind == .lit && n.value == some (0, e) && n.rules == sps.map .inl && n.ruleVals == vsps.map some
        && n.comment == none && n.children == [] && n.keys == []
    | none => false

def handle (args : List String) : String :=
  match args with
  | a :: tok :: s1 :: s2 :: s3 :: tl :: ob =>
    match pObj ob with
    | none => "bad-op"
    | some obB =>
      match obB.cls with
      | none => "bad-op"
      | some q =>
        let an : Ann := if a == "m" then .multi else .inline
        let mark : UInt8 := if a == "m" then 42 else 47
        let text := hx tok ++ (hx s1 ++ (47 :: mark :: (hx s2 ++ (123 :: (obB.body ++ (125 :: (hx s3 ++ hx tl)))))))
        let evs := annEvsQ an (cl (hx tok)) (cl (hx s1)) (cl (hx s2)) q (cl (hx s3)) (cl (hx tl))
        let o := objOff (cl (hx tok)) (cl (hx s1)) (cl (hx s2))
        let sps := q.spans o
        let vsps := q.c.vspans o
        let src := text.toArray
        let rules := ";".intercalate ((sps.zip vsps).map fun p =>
          hexOf (Loader.nameOf src p.1) ++ "=" ++ hexOf (Loader.slice src p.2.1 p.2.2))
        let closed := showEvents (.ok evs)
        let s := showEvents (scanAll text) == closed
        let l := match Loader.loadText text with
          | .ok st => sameNode st ((hx tok).length - 1) sps vsps
          | .error _ => false
        s!"{hexOf text} | {closed} | {rules} | S{if s then 1 else 0} L{if l then 1 else 0}"
  | _ => "bad-op"

end Drv.AnnQ
