import JSight.SchemaViable
import Driver.Common
/-!
Driver family `sviable` (C17, schema scanner error positions):

    sviable <hex>

Reply `ACC` when the scanner model accepts the text, otherwise
`ERR <code> <idx> <w> <cut> <closer-hex or -> <a>`: the model's error, its exact look-ahead window `w`
(`SchemaScan.Err.window`), the cut `cut` (= `idx` for the invalid-character class 301 / 302 / 304, the whole length for the
end-of-input error 303), the completion `SchemaScan.completion text cut` (`-` when the prefix itself is rejected, or when the
completion is empty the literal `e`), and `a` = 1 when the MODEL accepts `text[:cut] ++ completion`.
`CRASH <why>` for a modelled panic.
-/
namespace Drv.SViable
open SchemaScan

def handle (r : List String) : String :=
  let bs := unhex (r.headD "")
  match scanAll bs with
  | .ok _ => "ACC"
  | .error (.crash w) => s!"CRASH {w}"
  | .error e =>
    let cut := if e.code == 303 then bs.length else e.pos
    match completion bs cut with
    | none => s!"ERR {e.code} {e.pos} {e.window} {cut} - 0"
    | some c =>
      let a := match scanAll (bs.take cut ++ c) with | .ok _ => 1 | .error _ => 0
      let hx := if c.isEmpty then "e" else hexOf c
      s!"ERR {e.code} {e.pos} {e.window} {cut} {hx} {a}"

end Drv.SViable
