import JSight.ValidatePos
import JSight.Rules
import JSight.Unquote
import Driver.Common
/-!
`semp val <schema> <pre-hex> <tree> <post-hex>` → `<model> <spec> <hex of the document>`:
the document is `pre ++ render tree ++ post`; `<model>` is the scanner model (`JsonScan.events`) followed by the
position-carrying validator machine `VPos.validatePos` on the BYTES; `<spec>` is `VPos.firstOffence` on the TREE
(C17: `C17_validation_errpos` proves them equal). Results: `ACC`, `REJ <code> <pos>`, `STUCK`, `ERR <code> <idx>`.
Hex atoms carry an `x` prefix (so that the empty string is an atom).

schema: `(any)`, `(lits <lit>…)`, `(arr (lits <lit>…) items…)`, `(obj (lits <lit>…) (P <key-hex> <required> <schema>)…)`
with `<lit>` = `(lit <k> <nul> [(min v x)] [(max v x)] [(minl n)] [(maxl n)])` (the literal validator of a nullable
container is `(lit n 0)`: only `null` passes its kind test);
tree: `(s <tok-hex>)`, `(a <ws0> (i <w1> <tree> <w2>)…)`, `(o <ws0> (m <w1> <key-tok> <w2> <w3> <tree> <w4>)…)`.
-/
namespace DSemP
open Drv VPos
open Rules (Kind LitSpec kindOfTok kindAdmissible numOK)

instance : Inhabited (T UInt8) := ⟨.scalar []⟩
instance : Inhabited (S LitSpec) := ⟨.any⟩

/-- bytes as a string, one character per byte (injective) -/
def strOf (bs : List UInt8) : String := String.ofList (bs.map fun b => Char.ofNat b.toNat)

def unx (s : String) : List UInt8 := unhex (String.ofList (s.toList.drop 1))

def kindOf : String → Kind
  | "i" => .i | "f" => .f | "s" => .s | "b" => .b | _ => .n

/-- `ValidateLiteralValue` of a scalar node with its error code: kind test (210), then the constraints in
`constraint.Type` order — minLength, maxLength (603), min, max (602). F-6: a nullable node accepts null at once. -/
def litErr (l : LitSpec) (tok : List UInt8) : Option Code :=
  let t := strOf tok
  match kindOfTok t with
  | none => some 0
  | some d =>
    if d == .n && l.nul then none
    else if !kindAdmissible l d then some 210
    else
      let n := (Unquote.unquote tok).length
      if (match l.minLen with | some m => decide (n < m) | none => false) then some 603
      else if (match l.maxLen with | some m => decide (m < n) | none => false) then some 603
      else if (match l.min with | some b => !numOK t b true | none => false) then some 602
      else if (match l.max with | some b => !numOK t b false | none => false) then some 602
      else none

def params : P UInt8 LitSpec := { litErr := litErr, unq := fun k => strOf (Unquote.unquote k) }

def toLit : Sx → LitSpec
  | .list (.atom "lit" :: .atom k :: .atom nul :: attrs) =>
    attrs.foldl (fun (l : LitSpec) a => match a with
      | .list [.atom "min", .atom v, .atom x] => { l with min := some (v, x == "1") }
      | .list [.atom "max", .atom v, .atom x] => { l with max := some (v, x == "1") }
      | .list [.atom "minl", .atom v] => { l with minLen := some v.toNat! }
      | .list [.atom "maxl", .atom v] => { l with maxLen := some v.toNat! }
      | _ => l) { kind := kindOf k, nul := nul == "1" }
  | _ => { kind := .n }

def toLits : Sx → List LitSpec
  | .list (.atom "lits" :: ls) => ls.map toLit
  | _ => []

partial def toS : Sx → S LitSpec
  | .list [.atom "any"] => .any
  | .list (.atom "lits" :: ls) => .lits (ls.map toLit)
  | .list (.atom "arr" :: ls :: xs) => .arr (toLits ls) (xs.map toS)
  | .list (.atom "obj" :: ls :: ps) => .obj (toLits ls) (ps.map fun
      | .list [.atom "P", .atom k, .atom r, v] => (strOf (unx k), r == "1", toS v)
      | _ => ("?", false, .any))
  | _ => .any

partial def toT : Sx → T UInt8
  | .list [.atom "s", .atom tok] => .scalar (unx tok)
  | .list (.atom "a" :: .atom ws0 :: its) => .arr (unx ws0) (its.map fun
      | .list [.atom "i", .atom w1, v, .atom w2] => (unx w1, toT v, unx w2)
      | _ => ([], .scalar [], []))
  | .list (.atom "o" :: .atom ws0 :: ms) => .obj (unx ws0) (ms.map fun
      | .list [.atom "m", .atom w1, .atom k, .atom w2, .atom w3, v, .atom w4] => (unx w1, unx k, unx w2, unx w3, toT v, unx w4)
      | _ => ([], [], [], [], .scalar [], []))
  | _ => .scalar []

def showRes : Res → String
  | .acc => "ACC"
  | .rej c q => s!"REJ {c} {q}"
  | .stuck => "STUCK"

/-- `Schema.validate` on bytes: the scanner's events, then the validator -/
def validateDoc (s : S LitSpec) (bs : List UInt8) : String :=
  match validateBytes params s bs with
  | .ok r => showRes r
  | .error e => JsonScan.showErrS e

def handle (line : String) : String :=
  match parseLine line with
  | some (.list [.atom "val", s, .atom pre, t, .atom post]) =>
    let s := toS s
    let t := toT t
    let pre := unx pre
    let bs := pre ++ (t.render byteSym ++ unx post)
    validateDoc s bs ++ " | " ++ showRes (Res.ofSpec (firstOffence params s pre.length t)) ++ " | " ++ hexOf bs
  | _ => "bad-op"

end DSemP
