import JSight.Links
import Driver.Common
namespace DLK
open Drv LK
/-!
`lk (g <root> (t <name> <body>) …)` → `<links> ; <used>`:

* `<links>` = the verdict of `LK.linkCheck`: `OK`, `MISS n` (1302; several names separated by `|` when the
  answer depends on the address order of the unnamed types — one candidate per order), `E703`, `E704 n`, `E705`,
  `E402 k`, `E1301`, `E1303 n`, `E1304 k`, `FUEL`;
* `<used>` = `LK.used` of the root, names separated by `,` (`-` when empty); then, separated by ` ; `, `LK.used` of
  every type body in the order given.

`(t <name> <body>)` = a type object added to the root; `(n <name> <owner> <body>)` = added to the type object
`<owner>` (`owner.AddType(name, obj)`); `(x <name> <body>)` = created and never added. The verdict is
`LK.linkCheckO` = `LK.linkCheck` of the hoisted table `LK.flatten`.

Nodes: `(l <jt> <tl> <enum>)` literal — `jt` ∈ `int str flt bool null`, `tl` = `-` | `(t @A)` | `(o m …)` with members
`@A`, `(t @A)` (written `{type: "@A"}`), `(b <jt>)` (a JSON type name or rule set), `enum` = `-` | `@E`;
`(r @A @B …)` type shortcut / or-shortcut; `(a N …)` array; `(o (ao @P …) (ap @T|-) (p <key> <0|1> N) …)` object
(`1` = key shortcut).
-/

def toJT : String → JT
  | "obj" => .obj | "arr" => .arr | "str" => .str | "int" => .int | "flt" => .flt
  | "bool" => .bool | "null" => .null | _ => .mixed

def toMem : Sx → Mem
  | .atom n => .user n
  | .list [.atom "t", .atom n] => .user n
  | .list [.atom "b", .atom j] => .builtin (toJT j)
  | _ => .builtin .mixed

def toTL : Sx → TL
  | .list [.atom "t", .atom n] => .typ n
  | .list (.atom "o" :: ms) => .orr (ms.map toMem)
  | _ => .none

def atoms (xs : List Sx) : List String := xs.filterMap fun | .atom n => some n | _ => none

partial def toN : Sx → N
  | .list [.atom "l", .atom jt, tl, .atom e] => .lit (toJT jt) (toTL tl) (if e == "-" then none else some e)
  | .list (.atom "r" :: ns) => .ref (atoms ns)
  | .list (.atom "a" :: xs) => .arr (xs.map toN)
  | .list (.atom "o" :: .list (.atom "ao" :: ao) :: .list [.atom "ap", .atom ap] :: ps) =>
    .obj (atoms ao) (if ap == "-" then none else some ap) (ps.filterMap fun
      | .list [.atom "p", .atom k, .atom sc, v] => some (k, sc == "1", toN v)
      | _ => none)
  | _ => .lit .null .none none

def showErr : Err → String
  | .missing n => s!"MISS {n}"
  | .allOfRecursion => "E703"
  | .allOfNotObject n => s!"E704 {n}"
  | .addpConflict => "E705"
  | .dupKey k => s!"E402 {k}"
  | .incorrectUserType => "E1301"
  | .jsonTypeRecursion n => s!"E1303 {n}"
  | .keyNotString k => s!"E1304 {k}"
  | .fuel => "FUEL"

def showRes : Except Err Unit → String
  | .ok _ => "OK"
  | .error e => showErr e

/-- every verdict some address order of the unnamed types can produce (rendered) -/
def verdicts (g : G) : List String :=
  let failing := (orNodes g).filter (fun l => match mustAll g l with | .ok _ => false | .error _ => true)
  if failing.isEmpty then [showRes (linkCheck g (orNodes g))]
  else (failing.map fun l => showRes (linkCheck g [l])).eraseDups

def showVerdicts (rs : List String) : String :=
  match rs with
  | [r] => r
  | [] => "bad"
  | _ =>
    if rs.all (·.startsWith "MISS ") then "MISS " ++ "|".intercalate (rs.map (fun r => (r.drop 5).toString))
    else " AMBIGUOUS ".intercalate rs

def showUsed (n : N) : String :=
  let u := used n
  if u.isEmpty then "-" else ",".intercalate u

def handle (line : String) : String :=
  match parseSx (tokenize ("(" ++ line ++ ")")) with
  | some (.list [.atom "lk", .list (.atom "g" :: root :: ts)], _) =>
    let types : List OT := ts.filterMap fun
      | .list [.atom "t", .atom n, b] => some ⟨n, .root, toN b⟩
      | .list [.atom "n", .atom n, .atom o, b] => some ⟨n, .type o, toN b⟩
      | .list [.atom "x", .atom n, b] => some ⟨n, .nobody, toN b⟩
      | _ => none
    let og : OG := { root := toN root, types := types }
    " ; ".intercalate (showVerdicts (verdicts (flatten og)) :: showUsed og.root :: types.map (fun t => showUsed t.body))
  | _ => "bad-op"

end DLK
