import JSight.Loader
import Driver.Common
/-! `loadv <hex schema text>` → the dump of `load` with, per rule, the rule's VALUE text behind the name
(`name:value`, the literal token unquoted; nothing for synthesised shortcut rules), or `ERR code pos`. Tie `c13-tree`. -/
namespace DLoadV
open Drv Loader

def ruleEntry (src : Array UInt8) (r : Sum (Nat × Nat) String) (v : Option (Nat × Nat)) : String :=
  match r with
  | .inr s => hexOf s.toUTF8.toList
  | .inl sp =>
    let nm := hexOf (nameOf src sp)
    match v with
    | some (b, e) => nm ++ ":" ++ hexOf (Unquote.unquote (trimSpaces (slice src b e)))
    | none => nm ++ ":"

partial def dump (src : Array UInt8) (st : St) (i : Nat) (key : Option (Nat × Nat × Bool)) : String :=
  match st.nodes[i]? with
  | none => "?"
  | some n =>
    let k := match key with
      | none => ""
      | some k => let t := keyText src k; s!" k={hexOf t.1}:{if t.2 then "s" else "p"}"
    let v := match n.value with
      | none => ""
      | some (b, e) =>
        let tok := slice src b e
        s!" v={hexOf (if n.kind == NK.mixed then trimSpaces tok else Unquote.unquote tok)}"
    let vals := n.ruleVals ++ List.replicate n.rules.length none
    let r := " r=[" ++ ",".intercalate ((n.rules.zip vals).map (fun p => ruleEntry src p.1 p.2)) ++ "]"
    let c := match n.comment with
      | none => ""
      | some (b, e) =>
        let t := trimSpaces (slice src b e)
        if t.isEmpty then "" else s!" c={hexOf t}"
    let kids := match n.kind with
      | .obj => (n.children.zip (n.keys.map some ++ List.replicate n.children.length none)).map (fun p => dump src st p.1 p.2)
      | _ => n.children.map (fun c => dump src st c none)
    s!"({kindCh n.kind}{k}{v}{r}{c}" ++ (if kids.isEmpty then "" else " " ++ " ".intercalate kids) ++ ")"
where kindCh : NK → String | .obj => "o" | .arr => "a" | .lit => "l" | .mixed => "m"

def handle (hx : String) : String :=
  let bs := unhex hx
  match loadText bs with
  | .error e => e
  | .ok st => match st.root with
    | none => "EMPTY"
    | some r => dump bs.toArray st r none

end DLoadV
