import JSight.E2E
import Driver.Common
/-!
`e2e <root-hex> <n> (<name-hex> <text-hex>)* <doc-hex>` → `ACC | REJ | SERR code pos | DERR code pos | UNSUP why`:
the end-to-end text-level model `E2E.validateText` (schema scanner model → loader model → `Compile` → JSON scanner
model → validator machine `VK`). `e2eo …`: the same with the option `KeysAreOptionalByDefault` on the root schema.
An empty hex string is written `-`.
-/
namespace DE2E
open Drv

def hx (s : String) : List UInt8 := if s == "-" then [] else unhex s

def pairs : Nat → List String → Option (List (String × List UInt8) × List String)
  | 0, rest => some ([], rest)
  | n + 1, nm :: txt :: rest =>
    match pairs n rest with
    | some (ps, r) => some ((Compile.keyStr (hx nm), hx txt) :: ps, r)
    | none => none
  | _, _ => none

def showOut : E2E.Outcome → String
  | .acc => "ACC"
  | .rej => "REJ"
  | .schemaErr c p => s!"SERR {c} {p}"
  | .docErr c p => s!"DERR {c} {p}"
  | .unsupported w => "UNSUP " ++ w

def handle (optDefault : Bool) (args : List String) : String :=
  match args with
  | root :: n :: rest =>
    match pairs n.toNat! rest with
    | some (types, [doc]) => showOut (E2E.validateText (hx root) types (hx doc) optDefault)
    | _ => "bad-op"
  | _ => "bad-op"

end DE2E
