import JSight.DocCursor
import Driver.Common
/-!
Driver family `doccur` (C11, the `Document` object as a state machine, `JSight/DocCursor.lean`).

    doccur <text-hex | -> <opt 0|1> <ops: a word over n / c / l>

`-` = the empty text; `n` = `NextLexeme`, `c` = `Check`, `l` = `Len`, applied in order to ONE document made from the text
with (`1`) or without (`0`) `AllowTrailingNonSpaceCharacters`.  Reply: the outputs of the calls separated by `;`:
`LEX <type> <begin> <end>` | `EOF` | `EOF LEX end-top <i> <i>` | `ERR <code> <index>` | `OK` | `LEN <n>` |
`CRASH <why>` (a non-error panic reaches the caller).

    doccurx <text-hex | -> <opt 0|1>

model against model: `SAME` when `checkText` = `JsonScan.checkS`, `lenText` = `JsonScan.lengthS` and, when
`JsonScan.events` answers a list, the deliveries `lexAt 0, 1, …` are exactly its events (the `EndTop` one with EOF) followed
by plain EOF; otherwise `DIFF <what>`.  (For texts `events` accepts this is `C11_doc_accepted_is_whole_text_model`; for
rejected texts - same error code and index - it is tested here, not proved.)
-/
namespace Drv.DocCur
open DocCursor JsonScan

def showEv (e : Ev) : String := s!"LEX {LexT.name e.ty} {e.b} {e.e}"

def showOut : DocCursor.Out → String
  | .next (.lex e) => showEv e
  | .next (.eofLex e) => "EOF " ++ showEv e
  | .next .eof => "EOF"
  | .next (.err c p) => s!"ERR {c} {p}"
  | .next (.crash w) => s!"CRASH {w}"
  | .check .ok => "OK"
  | .check (.err c p) => s!"ERR {c} {p}"
  | .check (.crash w) => s!"CRASH {w}"
  | .len (.ok n) => s!"LEN {n}"
  | .len (.err c p) => s!"ERR {c} {p}"
  | .len (.crash w) => s!"CRASH {w}"

def parseOps : List Char → Option (List Op)
  | [] => some []
  | 'n' :: r => (parseOps r).map (.next :: ·)
  | 'c' :: r => (parseOps r).map (.check :: ·)
  | 'l' :: r => (parseOps r).map (.len :: ·)
  | _ => none

def handle : List String → String
  | [hx, o, w] =>
    match parseOps w.toList with
    | none => "bad-op"
    | some ops =>
      let t := if hx == "-" then [] else unhex hx
      ";".intercalate (((Doc.new t (o == "1")).run ops).1.map showOut)
  | _ => "bad-op"

def ofErr : ErrS → String := showErrS

def showCheck : CheckRes → String
  | .ok => "OK" | .err c p => s!"ERR {c} {p}" | .crash w => s!"CRASH {w}"
def showLen : LenRes → String
  | .ok n => s!"LEN {n}" | .err c p => s!"ERR {c} {p}" | .crash w => s!"CRASH {w}"

def lexOK (t : List UInt8) (o : Bool) : List Ev → Nat → Bool
  | [], k => lexAt t o k == .eof
  | e :: es, k =>
    if e.ty == .endTop then lexAt t o k == .eofLex e
    else lexAt t o k == .lex e && lexOK t o es (k + 1)

def handleX : List String → String
  | [hx, o] =>
    let t := if hx == "-" then [] else unhex hx
    let a := o == "1"
    let c1 := showCheck (checkText t a)
    let c2 := match checkS a t with | .ok _ => "OK" | .error e => ofErr e
    let l1 := showLen (lenText t a)
    let l2 := match lengthS a t with | .ok n => s!"LEN {n}" | .error e => ofErr e
    if c1 != c2 then s!"DIFF check {c1} / {c2}"
    else if l1 != l2 then s!"DIFF len {l1} / {l2}"
    else match events a t with
      | .ok evs => if lexOK t a evs 0 then "SAME" else "DIFF lexemes"
      | .error _ => "SAME"
  | _ => "bad-op"

end Drv.DocCur
