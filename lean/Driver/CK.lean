import JSight.Checker
import JSight.CheckerHyp
import JSight.CheckerViolates
import Driver.Common
/-!
`ck (or (u <decoded-hex> <mail><uri><rfc3339>)… (r <pattern-hex> <decoded-hex> <bit>)…) <dump>` →
`OK` / `ERR <code> <file> <pos> <user-type-hex | ->` / `CRASH <why>` / `ORACLE-MISS <hex>` / `bad-dump`

`<dump>` is what the hook `VerifCheckerDump` prints: the compiled root schema as `checker.CheckRootSchema` reads it
(`CK.Schema`):
`(schema <node | -> (types (T <name> <file> <begin> <file-name> <node>)…))` (the table in ANY order: the model sorts it),
node = `(L|M <jt> <lex> (cs …))`, `(V <jt> <lex> (cs …) (gt <name>…))`, `(A <jt> <lex> (cs …) (kids <node>…))`,
`(O <jt> <lex> (cs …) (keys (K <name> <0|1> <lex>)…) (kids <node>…))`, `<lex>` = `<LE|OE|AE|…> <file> <begin> <token-hex | ->`,
constraint = `(c <constraint.Type> <parameters>…)`.

The four standard-library predicates (`RulesF.Oracles`) are tables computed by the harness with Go's own `regexp`,
`net/mail`, `net/url`, `time` on the DECODED strings; the driver checks first that the table has an entry for its own
`Unquote.unquote` of every token of the dump (and for every pattern × token), so the bits are the oracles' values at
the arguments the model passes them. The reply is `CK.checkSchema`, followed by the names of the hypotheses of the C04
theorems that fail on this schema (`CK.hypFlags`: none on anything the library produces), then ` |V` and the SPEC's list of
values that violate one of their own rules (`CK.violates`, ` file:offset` each).
-/
namespace DCK
open Drv CK

def hx (s : String) : List UInt8 := if s == "-" then [] else unhex s

def jtOf (s : String) : JT :=
  match s.toNat! with
  | 1 => .object | 2 => .array | 3 => .string | 4 => .integer | 5 => .float | 6 => .boolean | 7 => .null | 8 => .mixed
  | _ => .undefined

def lexTOf : String → LexT
  | "LE" => .litEnd | "OE" => .objEnd | "AE" => .arrEnd | _ => .other

def atoms : List Sx → List String
  | [] => []
  | .atom a :: xs => a :: atoms xs
  | _ :: xs => atoms xs

def toCn : Sx → Option Cn
  | .list (.atom "c" :: .atom t :: ps) =>
    let a := atoms ps
    let b (i : Nat) : Bool := a.getD i "0" == "1"
    let n (i : Nat) : Nat := (a.getD i "0").toNat!
    let h (i : Nat) : List UInt8 := hx (a.getD i "-")
    match t.toNat! with
    | 0 => some (.minLength (n 0)) | 1 => some (.maxLength (n 0))
    | 2 => some (.min (h 0) (b 1)) | 3 => some (.max (h 0) (b 1))
    | 4 => some (.exclusiveMinimum (b 0)) | 5 => some (.exclusiveMaximum (b 0))
    | 6 => some (.precision (n 0)) | 7 => some (.type (h 0))
    | 8 => some (.typesList (a.map hx)) | 9 => some (.optional (b 0)) | 10 => some .or | 11 => some .requiredKeys
    | 12 => some .email | 13 => some (.minItems (n 0)) | 14 => some (.maxItems (n 0))
    | 15 => some (.enum (a.map hx)) | 16 => some (.additionalProperties (n 0) (h 1)) | 17 => some .allOf
    | 18 => some .any | 19 => some (.nullable (b 0)) | 20 => some (.regex (h 0)) | 21 => some .uri | 22 => some .date
    | 23 => some .datetime | 24 => some .uuid | 25 => some (.const (b 0) (h 1))
    | _ => none
  | _ => none

def toCs : Sx → Option (List Cn)
  | .list (.atom "cs" :: cs) => cs.mapM toCn
  | _ => none

def toKey : Sx → Option Key
  | .list [.atom "K", .atom nm, .atom sc, .atom lt, .atom f, .atom b, .atom v] =>
    some { name := hx nm, shortcut := sc == "1", lex := ⟨lexTOf lt, f.toNat!, b.toNat!, hx v⟩ }
  | _ => none

partial def toNode : Sx → Option Node
  | .list [.atom k, .atom jt, .atom lt, .atom f, .atom b, .atom v, cs] =>
    (toCs cs).bind fun cs =>
      let lex : Lex := ⟨lexTOf lt, f.toNat!, b.toNat!, hx v⟩
      match k with
      | "L" => some (.mk { nk := .lit, jt := jtOf jt, lex := lex, cs := cs } [])
      | "M" => some (.mk { nk := .mixed, jt := jtOf jt, lex := lex, cs := cs } [])
      | _ => none
  | .list [.atom "V", .atom jt, .atom lt, .atom f, .atom b, .atom v, cs, .list (.atom "gt" :: gt)] =>
    (toCs cs).bind fun cs =>
      some (.mk { nk := .mixedValue, jt := jtOf jt, lex := ⟨lexTOf lt, f.toNat!, b.toNat!, hx v⟩, cs := cs,
                  gtypes := (atoms gt).map hx } [])
  | .list [.atom "A", .atom jt, .atom lt, .atom f, .atom b, .atom v, cs, .list (.atom "kids" :: kids)] =>
    (toCs cs).bind fun cs => (kids.mapM toNode).bind fun kids =>
      some (.mk { nk := .arr, jt := jtOf jt, lex := ⟨lexTOf lt, f.toNat!, b.toNat!, hx v⟩, cs := cs } kids)
  | .list [.atom "O", .atom jt, .atom lt, .atom f, .atom b, .atom v, cs, .list (.atom "keys" :: keys),
           .list (.atom "kids" :: kids)] =>
    (toCs cs).bind fun cs => (keys.mapM toKey).bind fun keys => (kids.mapM toNode).bind fun kids =>
      some (.mk { nk := .obj, jt := jtOf jt, lex := ⟨lexTOf lt, f.toNat!, b.toNat!, hx v⟩, cs := cs, keys := keys } kids)
  | _ => none

def toType : Sx → Option TypeEntry
  | .list [.atom "T", .atom nm, .atom f, .atom b, .atom fname, root] =>
    (toNode root).map fun r => { name := hx nm, file := f.toNat!, begin := b.toNat!, fileName := hx fname, root := r }
  | _ => none

def toSchema : Sx → Option Schema
  | .list [.atom "schema", root, .list (.atom "types" :: ts)] =>
    (ts.mapM toType).bind fun ts =>
      match root with
      | .atom "-" => some { root := none, types := ts }
      | r => (toNode r).map fun r => { root := some r, types := ts }
  | _ => none

/-! ### oracle tables -/

structure Tab where
  u : List (List UInt8 × String)                     -- decoded string ↦ bits mail, uri, rfc3339
  r : List ((List UInt8 × List UInt8) × Bool)        -- (pattern, decoded string) ↦ match

def toTab : Sx → Option Tab
  | .list (.atom "or" :: es) =>
    some (es.foldl (fun (t : Tab) e => match e with
      | .list [.atom "u", .atom d, .atom bits] => { t with u := (hx d, bits) :: t.u }
      | .list [.atom "r", .atom p, .atom d, .atom b] => { t with r := ((hx p, hx d), b == "1") :: t.r }
      | _ => t) ⟨[], []⟩)
  | _ => none

def Tab.bit (t : Tab) (s : List UInt8) (i : Nat) : Bool :=
  match t.u.find? (·.1 == s) with
  | some e => e.2.toList.getD i '0' == '1'
  | none => false

def Tab.oracles (t : Tab) : RulesF.Oracles :=
  { re := fun p s => match t.r.find? (·.1 == (p, s)) with | some e => e.2 | none => false
    mail := fun s => t.bit s 0
    uri := fun s => t.bit s 1
    rfc3339 := fun s => t.bit s 2 }

partial def nodeToks : Node → List (List UInt8)
  | .mk i kids => (if i.nk == .lit || i.nk == .mixed then [i.lex.value] else []) ++ kids.flatMap nodeToks
partial def nodePats : Node → List (List UInt8)
  | .mk i kids => (i.cs.filterMap fun c => match c with | .regex e => some e | _ => none) ++ kids.flatMap nodePats

def roots (s : Schema) : List Node := s.root.toList ++ s.types.map (·.root)

/-- a token whose decoding (or a pattern × decoding) has no table entry -/
def miss (t : Tab) (s : Schema) : Option (List UInt8) :=
  let toks := ((roots s).flatMap nodeToks).map Unquote.unquote
  let pats := (roots s).flatMap nodePats
  match toks.find? (fun d => !(t.u.any (·.1 == d))) with
  | some d => some d
  | none => (pats.flatMap fun p => toks.map fun d => (p, d)).find? (fun pd => !(t.r.any (·.1 == pd))) |>.map (·.2)

def showRes : Res → String
  | .ok => "OK"
  | .err c f p ut => s!"ERR {c} {f} {p} {match ut with | some n => (if n.isEmpty then "-" else hexOf n) | none => "-"}"
  | .crash w => s!"CRASH {w}"

/-- SPEC side: the values that violate one of their own rules (`CK.violates`), as ` file:offset` in schema order -/
def violators (o : RulesF.Oracles) (s : Schema) : String :=
  String.join ((s.occs.filter fun x => violates o s.env x.hd).map fun x =>
    s!" {x.hd.info.lex.file}:{x.hd.info.lex.begin}")

def handle (rest : String) : String :=
  match parseLine rest with
  | some (.list [tab, dump]) =>
    (match toTab tab, toSchema dump with
     | some t, some s =>
       (match miss t s with
        | some d => s!"ORACLE-MISS {hexOf d}"
        | none => " ".intercalate (showRes (checkSchema t.oracles s) :: hypFlags s) ++ " |V" ++ violators t.oracles s)
     | _, _ => "bad-dump")
  | _ => "bad-dump"

end DCK
