import JSight.ValidateK
import Driver.Common
namespace DSemK
open Drv
/-! line protocol for the semantic layer: `val <env> <schema> <doc>` → ACC / REJ -/
open VK
open VN (J)


inductive Kind | i | f | s | b | n deriving DecidableEq, Repr, Inhabited

instance : Inhabited (J Kind) := ⟨.lit .n⟩
instance : Inhabited (S (Kind × Bool × Bool)) := ⟨.any⟩

abbrev LL := Kind × Bool × Bool     -- kind, nullable, exact (additionalProperties compares the guessed type exactly)
def litOK (l : LL) (d : Kind) : Bool :=
  if l.2.2 then d == l.1 else d == l.1 || (d == .i && l.1 == .f) || (d == .n && l.2.1)

def kindOf : String → Kind
  | "i" => .i | "f" => .f | "s" => .s | "b" => .b | _ => .n

partial def toS : Sx → S LL
  | .list [.atom "lit", .atom k, .atom nul] => .lit (kindOf k, nul == "1", false)
  | .list [.atom "any"] => .any
  | .list (.atom "arr" :: xs) => .arr (xs.map toS)
  | .list (.atom "obj" :: add :: ps) => .obj ((ps.filter fun | .list (.atom "P" :: _) => true | _ => false).map fun
      | .list [.atom "P", .atom k, .atom r, v] => (k, r == "1", toS v)
      | _ => ("?", false, .any))
      ((ps.filter fun | .list (.atom "K" :: _) => true | _ => false).map fun
      | .list [.atom "K", .atom k, .atom r, v] => (k, r == "1", toS v)
      | _ => ("?", false, .any))
      (match add with
       | .list [.atom "add", .atom "any"] => .any
       | .list [.atom "add", .atom "obj"] => .obj
       | .list [.atom "add", .atom "arr"] => .arr
       | .list [.atom "add", .atom "lit", .atom k] => .lit (kindOf k, false, true)
       | .list [.atom "add", .atom "type", .atom n] => .type n
       | _ => .none)
  | .list (.atom "ref" :: .atom nul :: ns) =>
      .ref (ns.map fun | .atom n => n | _ => "?") (if nul == "1" then some (.n, true, false) else none)
  | _ => .any

partial def toJ : Sx → J Kind
  | .list [.atom "l", .atom k] => .lit (kindOf k)
  | .list (.atom "a" :: xs) => .arr (xs.map toJ)
  | .list (.atom "o" :: ms) => .obj (ms.map fun
      | .list [.atom "m", .atom k, v] => (k, toJ v)
      | _ => ("?", .lit .n))
  | _ => .lit .n

def toEnv : Sx → Env LL
  | .list (.atom "env" :: ts) => ts.map fun
      | .list [.atom "t", .atom n, v] => (n, toS v)
      | _ => ("?", .any)
  | _ => []

/-- the four fixed key types of the generator -/
def keyOK (ty : String) (k : String) : Bool :=
  match ty with
  | "k0" => k.length ≥ 2          -- "ab" // {minLength: 2}
  | "k1" => k.length ≤ 1          -- "a" // {maxLength: 1}
  | "k2" => k == "zz"             -- "zz"  (no rules: the key must equal the example)
  | "k3" => k.length ≥ 3          -- "abc" // {minLength: 3}
  | _ => false

def handle (line : String) : String :=
  match (parseSx (tokenize ("(" ++ line ++ ")"))) with
  | some (.list [.atom "val", e, s, d], _) =>
    if validateT (toEnv e) litOK keyOK (toS s) (toJ d) then "ACC" else "REJ"
  | _ => "bad-op"


end DSemK
