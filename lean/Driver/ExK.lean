import JSight.ExampleK
import JSight.ExampleKClass
import Driver.Common
namespace DExK
open Drv
/-! `exk <env> <schema>` → `<IN|OUT> <text>`: the example text the extended builder model `EXK.build` emits (byte
classes printed by representative characters), `ABSENT` or `ERROR`, preceded by whether the run lies inside the class
for which self-validation is proved (`VK.exDoc false … = some (some _)`, `Props.C15.C15_self_valid_ext_partial`).
Schema S-expressions as for `ex`, plus
`(obj … (K <type> <req> <value>) …)` for a key-shortcut property, `(tobj)` / `(tarr)` for an object / array node that
carries a types list, and the literal kinds `sa` / `sb` (the strings `"a"` / `"b"`). -/
open EXK JsonScan

def litTok : String → List Cls
  | "i" => [.d19] | "f" => [.d19, .dot, .d19] | "s" => [.quote, .ls, .quote]
  | "sa" => [.quote, .la, .quote] | "sb" => [.quote, .lb, .quote]
  | "b" => [.lt, .lr, .lu, .le] | _ => [.ln, .lu, .ll, .ll]

def keyTok : String → List Cls
  | "a" => [.quote, .la, .quote] | "b" => [.quote, .lb, .quote] | "c" => [.quote, .hexo, .quote]
  | _ => [.quote, .lf, .quote]

instance : Inhabited N := ⟨.lit []⟩

partial def toN : Sx → N
  | .list [.atom "lit", .atom k, _] => .lit (litTok k)
  | .list [.atom "any"] => .lit [.d19]
  | .list [.atom "tarr"] => .arr true []
  | .list [.atom "tobj"] => .obj true []
  | .list (.atom "arr" :: xs) => .arr false (xs.map toN)
  | .list (.atom "obj" :: ps) => .obj false (ps.map fun
      | .list [.atom "P", .atom k, _, v] => (.plain (keyTok k), toN v)
      | .list [.atom "K", .atom k, _, v] => (.short k, toN v)
      | _ => (.plain [], .lit []))
  | .list (.atom "ref" :: _ :: .atom n :: _) => .ref n
  | _ => .lit []

def toTypes : Sx → Types
  | .list (.atom "env" :: ts) => ts.map fun
      | .list [.atom "t", .atom n, v] => (n, toN v)
      | _ => ("?", .lit [])
  | _ => []

def showCls : Cls → Char
  | .sp => ' ' | .lbrace => '{' | .rbrace => '}' | .lbrack => '[' | .rbrack => ']' | .colon => ':' | .comma => ','
  | .quote => '"' | .d19 => '1' | .dot => '.' | .la => 'a' | .lb => 'b' | .hexo => 'c' | .lf => 'f' | .le => 'e'
  | .lt => 't' | .lr => 'r' | .lu => 'u' | .ll => 'l' | .ls => 's' | .ln => 'n' | _ => '?'

/-! the same case as a `ValidateK` schema (literals named by their kind); `none`: a typed container -/
partial def toS : Sx → Option (VK.S String)
  | .list [.atom "lit", .atom k, _] => some (.lit k)
  | .list [.atom "any"] => some .any
  | .list (.atom "arr" :: xs) => (xs.mapM toS).map .arr
  | .list (.atom "obj" :: ps) => do
    let props ← (ps.filterMap fun
      | .list [.atom "P", .atom k, .atom r, v] => some (k, r == "1", v)
      | _ => none).mapM fun (k, r, v) => (toS v).map fun s => (k, r, s)
    let shorts ← (ps.filterMap fun
      | .list [.atom "K", .atom k, .atom r, v] => some (k, r == "1", v)
      | _ => none).mapM fun (k, r, v) => (toS v).map fun s => (k, r, s)
    pure (.obj props shorts .none)
  | .list (.atom "ref" :: .atom nul :: names) =>
    some (.ref (names.filterMap fun | .atom n => some n | _ => none) (if nul == "1" then some "n" else none))
  | _ => none

def toEnv : Sx → Option (VK.Env String)
  | .list (.atom "env" :: ts) => ts.mapM fun
      | .list [.atom "t", .atom n, v] => (toS v).map fun s => (n, s)
      | _ => none
  | _ => none

/-- the decoded key a string literal of that kind stands for -/
def keyStr : String → String
  | "sa" => "a" | "sb" => "b" | k => k

def inClass (e s : Sx) : Bool :=
  match toEnv e, toS s with
  | some env, some sc =>
    (match VK.exDoc env id keyStr false 64 (fun _ => 0) sc with
     | some (some _) => true
     | _ => false)
  | _, _ => false

def handle (line : String) : String :=
  match (parseSx (tokenize ("(" ++ line ++ ")"))) with
  | some (.list [.atom "exk", e, s], _) =>
    (if inClass e s then "IN " else "OUT ") ++
    (match build (toTypes e) 64 (fun _ => 0) (toN s) with
     | some (some bs) => String.mk (bs.map showCls)
     | some none => "ABSENT"
     | none => "ERROR")
  | _ => "bad-op"

end DExK
