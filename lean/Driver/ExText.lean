import JSight.ExampleText
import Driver.Common
namespace DExText
open Drv
/-! `extext <hex>` → `EX <hex>`: the example bytes the text-level model (`Loader.exampleText`: schema scanner model,
loader model, example builder on the node table) returns for the schema text; `ERR code pos` of the scanner / loader,
`EMPTY`, or `UNSUPPORTED` (a rule, type shortcut or key shortcut: outside the text-level fragment). -/

def handle (hx : String) : String :=
  match Loader.exampleText (unhex hx) with
  | .ok out => "EX " ++ hexOf out
  | .error e => e

end DExText
