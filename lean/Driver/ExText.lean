import JSight.ExampleTextR
import Driver.Common
namespace DExText
open Drv
/-! `extext <hex>` → `EX <hex>`: the example bytes the text-level model (`Loader.exampleText`: schema scanner model,
loader model, example builder on the node table) returns for the schema text; `ERR code pos` of the scanner / loader,
`EMPTY`, or `UNSUPPORTED` (a type shortcut, a key shortcut, or a container carrying `or` / `allOf`: outside the
text-level fragment). Since the fourth wave the builder is `Loader.exampleTextR` (`JSight/ExampleTextR.lean`): the rules
`example.go` does not consult no longer make it answer UNSUPPORTED; it extends `Loader.exampleText`
(`Loader.exampleTextR_extends`). -/

def handle (hx : String) : String :=
  match Loader.exampleTextR (unhex hx) with
  | .ok out => "EX " ++ hexOf out
  | .error e => e

end DExText
