import JSight.ValidateT
import Driver.Common
/-! `semn val <schema> <doc>` → three bits: shared-parent tree `VN.validateT`, independent leaves `VN.validate`,
spec `VN.shape` (C01 / C03, rule-free fragment with alternatives for nullable containers). -/
namespace DSemN
open Drv VN

inductive Kind | i | f | s | b | n deriving DecidableEq, Repr, Inhabited
abbrev LL := Kind × Bool
/-- kind test of `validate_literal_value.go`: same kind; an integer where the example is a float; null when nullable -/
def litOK (l : LL) (d : Kind) : Bool := d == l.1 || (d == .i && l.1 == .f) || (d == .n && l.2)

instance : Inhabited (J Kind) := ⟨.lit .n⟩
instance : Inhabited (S LL) := ⟨.any⟩

def kindOf : String → Kind
  | "i" => .i | "f" => .f | "s" => .s | "b" => .b | _ => .n

partial def toS : Sx → S LL
  | .list [.atom "lit", .atom k, .atom nul] => .lit (kindOf k, nul == "1")
  | .list [.atom "any"] => .any
  | .list (.atom "arr" :: xs) => .arr (xs.map toS)
  | .list (.atom "obj" :: ps) => .obj (ps.map fun
      | .list [.atom "P", .atom k, .atom r, v] => (k, r == "1", toS v)
      | _ => ("?", false, .any))
  | .list (.atom "alt" :: xs) => .alt (xs.map toS)
  | _ => .any

partial def toJ : Sx → J Kind
  | .list [.atom "l", .atom k] => .lit (kindOf k)
  | .list (.atom "a" :: xs) => .arr (xs.map toJ)
  | .list (.atom "o" :: ms) => .obj (ms.map fun
      | .list [.atom "m", .atom k, v] => (k, toJ v)
      | _ => ("?", .lit .n))
  | _ => .lit .n

def bit (b : Bool) : String := if b then "1" else "0"

def handle (line : String) : String :=
  match parseLine line with
  | some (.list [.atom "val", s, d]) =>
    let s := toS s
    let d := toJ d
    bit (validateT litOK s d) ++ bit (validate litOK s d) ++ bit (shape litOK s d)
  | _ => "bad-op"

end DSemN
