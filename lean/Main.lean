import JSight.JsonRun
import JSight.SchemaRun
import JSight.EnumScan
import JSight.Render
import JSight.Unquote
import JSight.Number

def hexVal (c : Char) : Nat :=
  if c.isDigit then c.toNat - 48 else if 'a' ≤ c ∧ c ≤ 'f' then c.toNat - 87 else 0

def unhex (s : String) : List UInt8 :=
  let rec go : List Char → List UInt8
    | a :: b :: rest => (UInt8.ofNat (hexVal a * 16 + hexVal b)) :: go rest
    | _ => []
  go s.toList

def hexOf (bs : List UInt8) : String :=
  String.join (bs.map fun b =>
    let d (n : Nat) : Char := if n < 10 then Char.ofNat (48 + n) else Char.ofNat (87 + n)
    String.mk [d (b.toNat / 16), d (b.toNat % 16)])

def jsonEvs (r : Except JsonScan.ErrS (List JsonScan.Ev)) : String :=
  match r with
  | .ok evs => " ".intercalate (evs.map fun (e : JsonScan.Ev) => s!"{JsonScan.LexT.name e.ty}[{e.b}:{e.e}]")
  | .error e => JsonScan.showErrS e

def stName (s : JsonScan.St) : String := (repr s).pretty
def lexShort : JsonScan.LexT → String
  | .litB => "L" | .objB => "O" | .keyB => "K" | .valB => "V" | .arrB => "A" | .itemB => "I" | _ => "?"

/-- control state of the JSON scanner model after a prefix (T-prod key) -/
def jkey (allow : Bool) (bs : List UInt8) : String :=
  let rec go (cfg : JsonScan.Cfg) (i : Nat) : List JsonScan.Cls → String
    | [] => s!"K:{stName cfg.st}|{String.join (cfg.stack.map lexShort)}|{cfg.unf}"
    | c :: cs => match JsonScan.feed allow cfg c with
      | .error (.crash w) => s!"CRASH {w}"
      | .error _ => s!"ERR 301 {i}"
      | .ok .stop => "STOP"
      | .ok (.cont cfg') => go cfg' (i + 1) cs
  go JsonScan.Cfg.init 0 (bs.map JsonScan.classify)

def handle (ws : List String) : String :=
  match ws with
  | ["jkey", "E", hx] => jkey false (unhex hx)
  | ["jkey", "T", hx] => jkey true (unhex hx)
  | ["jscan", "E", hx] => jsonEvs (JsonScan.events false (unhex hx))
  | ["jscan", "T", hx] => jsonEvs (JsonScan.events true (unhex hx))
  | ["jscan", "C", hx] => (match JsonScan.checkS false (unhex hx) with | .ok _ => "OK" | .error e => JsonScan.showErrS e)
  | ["jscan", "L", hx] => (match JsonScan.lengthS true (unhex hx) with | .ok n => s!"LEN {n}" | .error e => JsonScan.showErrS e)
  | ["sscan", "E", hx] => SchemaScan.showEvents (SchemaScan.scanAll (unhex hx))
  | ["sscan", "L", hx] => SchemaScan.showLen (SchemaScan.length (unhex hx))
  | ["unq", hx] => hexOf (Unquote.unquote (unhex hx))
  | ["rend", hx, idx] =>
      (match Render.render (unhex hx).toArray idx.toNat! with
       | some (l, s, p) => s!"{l}|{hexOf s}|{p}"
       | none => "CRASH")
  | _ => "bad-op"

partial def loop (h : IO.FS.Stream) (out : IO.FS.Stream) : IO Unit := do
  let line ← h.getLine
  if line.isEmpty then return ()
  let ws := (line.dropRightWhile (· == '\n')).splitOn " "
  out.putStrLn (handle ws)
  loop h out

def main : IO Unit := do
  loop (← IO.getStdin) (← IO.getStdout)
