import JSight.JsonRun
import JSight.SchemaRun
import JSight.EnumScan
import JSight.Render
import JSight.Unquote
import JSight.Number
import JSight.Formats
import JSight.Rfc
import JSight.SimTrailing
import JSight.ErrPos
import JSight.OMapOps
import Driver.ShortTree
import Driver.Common
import Driver.Sem
import Driver.SemN
import Driver.SemA
import Driver.SemB
import Driver.SemC
import Driver.SemCF
import Driver.SemK
import Driver.SemAO
import Driver.SemOR
import Driver.SemP
import Driver.Ex
import Driver.TG
import Driver.LK
import Driver.Misc
import Driver.Load
import Driver.LoadV
import Driver.ExText
import Driver.ExK
import Driver.Keys
import Driver.C18R
import Driver.CK
import Driver.C14Tok
import Driver.E2E
import Driver.CRules
import Driver.C02T
import Driver.Bridge
import Driver.AstT
import Driver.ATree
import Driver.ATreeEx
import Driver.SViable
import Driver.C09B
import Driver.AnnQ
import Driver.KeyType
import Driver.DocCursor
import Driver.SchemaObj
/-!
Line-protocol driver `jsight-model` (DESIGN.md §12). One request per line on stdin, one reply per
line on stdout. Core Lean only: nothing imported here may import Mathlib (the executable would
not link).
-/
open Drv

def jsonEvs (r : Except JsonScan.ErrS (List JsonScan.Ev)) : String :=
  match r with
  | .ok evs => " ".intercalate (evs.map fun (e : JsonScan.Ev) => s!"{JsonScan.LexT.name e.ty}[{e.b}:{e.e}]")
  | .error e => JsonScan.showErrS e

def stName (s : JsonScan.St) : String := (repr s).pretty
def lexShort : JsonScan.LexT → String
  | .litB => "L" | .objB => "O" | .keyB => "K" | .valB => "V" | .arrB => "A" | .itemB => "I" | _ => "?"

/-- control state of the JSON scanner model after a prefix (T-prod key) -/
def jkey (allow : Bool) (bs : List UInt8) : String :=
  let rec go (cfg : JsonScan.Cfg) (i : Nat) : List JsonScan.Cls → String
    | [] => s!"K:{stName cfg.st}|{String.join (cfg.stack.map lexShort)}|{cfg.unf}"
    | c :: cs => match JsonScan.feed allow cfg c with
      | .error (.crash w) => s!"CRASH {w}"
      | .error _ => s!"ERR 301 {i}"
      | .ok .stop => "STOP"
      | .ok (.cont cfg') => go cfg' (i + 1) cs
  go JsonScan.Cfg.init 0 (bs.map JsonScan.classify)

namespace DNum
open Num
def ofStr (s : String) : List Ch := s.toList.map fun c =>
  if c == '-' then .minus else if c == '+' then .plus else if c == '.' then .dot else if c == 'e' || c == 'E' then .e
  else if c.isDigit then .d (c.toNat - 48) else .other
def digitsStr (ds : List Nat) : String := String.mk (ds.map fun d => Char.ofNat (48 + d))
def showN (n : N) : String :=
  let i := n.int
  let f := n.fra
  (if n.neg then "-" else "") ++ (if i.isEmpty then "0" else digitsStr i) ++ (if f.isEmpty then "" else "." ++ digitsStr f)
    ++ s!"|{n.exp}"
def ordStr : Ordering → String | .lt => "-1" | .eq => "0" | .gt => "1"
end DNum

namespace DEnum
open EnumScan
def LexT.name : LexT → String
  | .litB => "literal-begin" | .litE => "literal-end"
  | .arrB => "array-begin" | .arrE => "array-end" | .itemB => "item-begin" | .itemE => "item-end"
  | .inlAnnB => "inline-annotation-begin" | .inlAnnE => "inline-annotation-end"
  | .inlTxtB => "inline-annotation-text-begin" | .inlTxtE => "inline-annotation-text-end"
  | .mlAnnB => "multi-line-annotation-begin" | .mlAnnE => "multi-line-annotation-end"
  | .mlTxtB => "multi-line-annotation-text-begin" | .mlTxtE => "multi-line-annotation-text-end"
  | .newLine => "new-line" | .endTop => "end-top"
def showErr : Err → String
  | .arrayExpected i => s!"ERR 1600 {i}"
  | .invalidChar i _ => s!"ERR 301 {i}"
  | .duplicate i => s!"ERR 810 {i}"
  | .unexpectedEOF i => s!"ERR 303 {i}"
  | .eos => "EOS"
  | .other w => s!"OTHER {w}"
def events (bs : List UInt8) : String :=
  match scanAll bs with
  | .ok evs => " ".intercalate (evs.map fun (e : EnumScan.Ev) => s!"{LexT.name e.ty}[{e.b}:{e.e}]")
  | .error e => showErr e
def len (bs : List UInt8) : String :=
  match length bs with | .ok n => s!"LEN {n}" | .error e => showErr e
end DEnum

namespace DOMap
open OMap
def pred (p : Nat) (k v : Nat) : Bool :=
  match p with | 0 => k != 0 | 1 => v % 2 == 0 | 2 => false | _ => true
def showKV (l : List (Nat × Nat)) : String := ",".intercalate (l.map fun e => s!"{e.1}={e.2}")
def showObs (tag : String) : Obs Nat Nat → String
  | .unit => "-"
  | .visit l => s!"{tag} {showKV l}"
  | .found (some e) => s!"found {e.1}={e.2}"
  | .found none => "none"
  | .got (some v) => if tag == "val" then s!"val {v}" else s!"some {v}"
  | .got none => if tag == "val" then "val -1" else "none"
  | .bool b => s!"has {b}"
  | .nat n => s!"len {n}"
def parseOp (w : List String) : Option (Op Nat Nat × String) :=
  match w with
  | ["S", k, v] => some (.set k.toNat! v.toNat!, "")
  | ["U", k] => some (.update k.toNat! (· + 10), "")
  | ["D", k] => some (.delete k.toNat!, "")
  | ["F", p] => some (.filter (pred p.toNat!), "visit")
  | ["M"] => some (.map (fun _ v => v + 1), "visit")
  | ["Q", p] => some (.find (pred p.toNat!), "")
  | ["G", k] => some (.get k.toNat!, "some")
  | ["V", k] => some (.get k.toNat!, "val")
  | ["H", k] => some (.has k.toNat!, "")
  | ["L"] => some (.len, "")
  | ["E"] => some (.each, "each")
  | ["A"] => some (.each, "each")
  | _ => none
/-- the entries up to and including the first one that satisfies `p` (all of them when none does) -/
def takeThrough (p : Nat × Nat → Bool) : List (Nat × Nat) → List (Nat × Nat)
  | [] => []
  | e :: es => if p e then [e] else e :: takeThrough p es
/-- what `Each` sees in state `m` (the `each` observation of the model) -/
def seen (m : M Nat Nat) : List (Nat × Nat) :=
  match (m.step .each).2 with | .visit l => l | _ => []
/-- Early-exit ops, derived from the model's `each` / `map` / `find` steps.
`X n`: Each whose callback returns an error from its (n+1)-th call: the callback is called for the first
n+1 entries of what `each` sees, the state is unchanged, `err` iff the (n+1)-th call happened.
`N n`: Map(+1) likewise: a `map` step that changes the first n visited keys only.
`W p`: Find with the calls of its callback: the `find` observation plus the visited entries up to and
including the first match. -/
def earlyExit (m : M Nat Nat) (w : List String) : Option (M Nat Nat × String) :=
  let stop (n : Nat) (l : List (Nat × Nat)) := s!"{showKV (l.take (n + 1))} {if n < l.length then "err" else "nil"}"
  match w with
  | ["X", n] => some (m, s!"stop {stop n.toNat! (seen m)}")
  | ["N", n] =>
      let l := seen m
      let ks := (l.take n.toNat!).map (·.1)
      some ((m.step (.map (fun k v => if ks.contains k then v + 1 else v))).1, s!"mapstop {stop n.toNat! l}")
  | ["W", p] =>
      let calls := takeThrough (fun e => pred p.toNat! e.1 e.2) (seen m)
      (match (m.step (.find (pred p.toNat!))).2 with
       | .found (some e) => some (m, s!"find {e.1}={e.2} calls {showKV calls}")
       | .found none => some (m, s!"find none calls {showKV calls}")
       | _ => none)
  | _ => none
def handle (rest : String) : String :=
  let ops := (rest.splitOn ";").map (fun o => (o.trimAscii.toString.splitOn " ").filter (· ≠ ""))
  let rec go (m : M Nat Nat) (acc : List String) : List (List String) → String
    | [] => "|".intercalate (acc.reverse ++ [s!"final {showKV m.entries}", toString m.len])
    | w :: ws => match parseOp w with
      | none =>
        if w.isEmpty then go m acc ws else
        (match earlyExit m w with
         | some (m', o) => go m' (o :: acc) ws
         | none => "bad-op")
      | some (op, tag) => let (m', o) := m.step op; go m' (showObs tag o :: acc) ws
  go M.empty [] ops
end DOMap

/-- the remainder of the line after the first word -/
def restOf (line : String) : String :=
  match line.splitOn " " with
  | _ :: rest => " ".intercalate rest
  | [] => ""

def handle (line : String) : String :=
  let ws := line.splitOn " "
  match ws with
  | ["jkey", "E", hx] => jkey false (unhex hx)
  | ["jkey", "T", hx] => jkey true (unhex hx)
  | ["jkey", "E"] => jkey false []
  | ["jkey", "T"] => jkey true []
  | "jscan" :: m :: r =>
    let bs := unhex (r.headD "")
    (match m with
     | "E" => jsonEvs (JsonScan.events false bs)
     | "T" => jsonEvs (JsonScan.events true bs)
     | "C" => (match JsonScan.checkS false bs with | .ok _ => "OK" | .error e => JsonScan.showErrS e)
     | "D" => (match JsonScan.checkS true bs with | .ok _ => "OK" | .error e => JsonScan.showErrS e)
     | "L" => (match JsonScan.lengthS true bs with | .ok n => s!"LEN {n}" | .error e => JsonScan.showErrS e)
     -- the span-free machine the C05 / C07 / C17 theorems are stated about
     | "c" => if JsonScan.check false bs then "1" else "0"
     | "d" => if JsonScan.check true bs then "1" else "0"
     | "P" => (match Sim.errPos JsonScan.Cfg.init (bs.map JsonScan.classify) 0 with | some j => s!"POS {j}" | none => "NOPOS")
     | _ => "bad-op")
  | "rfc" :: m :: r =>
    let cs := (unhex (r.headD "")).map JsonScan.classify
    (match m with
     | "A" => if Rfc.acceptsC cs then "1" else "0"
     | "P" => if Sim.runP Rfc.RCfg.init cs then "1" else "0"
     | _ => "bad-op")
  | "sscan" :: m :: r =>
    let bs := unhex (r.headD "")
    (match m with
     | "E" => SchemaScan.showEvents (SchemaScan.scanAll bs)
     | "L" => SchemaScan.showLen (SchemaScan.length bs)
     | _ => "bad-op")
  | "escan" :: m :: r =>
    let bs := unhex (r.headD "")
    (match m with
     | "E" => DEnum.events bs
     | "L" => DEnum.len bs
     | _ => "bad-op")
  | "skey" :: r => Drv.Keys.skey r
  | "ekey" :: r => Drv.Keys.ekey r
  | "skeys" :: r => Drv.Keys.skeys r
  | "sviable" :: r => Drv.SViable.handle r
  | "stok" :: r => Drv.C14Tok.handle r
  | "stoke" :: r => Drv.C14Tok.handleE r
  | "stokx" :: r => Drv.C14Tok.handleX r
  | "ekeys" :: r => Drv.Keys.ekeys r
  | "unq" :: r => hexOf (Unquote.unquote (unhex (r.headD "")))
  | ["rend", hx, idx] =>
      (match Render.render (unhex hx).toArray idx.toNat! with
       | some (l, s, p) => s!"{l}|{hexOf s}|{p}"
       | none => "CRASH")
  | ["num", "N", a] => (match Num.scan (DNum.ofStr a) with | some n => DNum.showN n | none => "ERR")
  | ["num", "C", a, b] => (match Num.scan (DNum.ofStr a), Num.scan (DNum.ofStr b) with
      | some x, some y => DNum.ordStr (x.cmp y)
      | _, _ => "ERR")
  | ["fmt", "U", hx] => if Formats.uuidOK (unhex hx) then "OK" else "ERR"
  | ["fmt", "D", hx] => if Formats.dateOK (unhex hx) then "OK" else "ERR"
  | "load" :: r => DLoad.handle (r.headD "")
  | "astt" :: r => Drv.AstT.handle r
  | "loadv" :: r => DLoadV.handle (r.headD "")
  | "atree" :: _ => Drv.ATreeD.handle line
  | "atreeex" :: _ => Drv.ATreeExD.handle line
  | "annq" :: r => Drv.AnnQ.handle r
  | "doccur" :: r => Drv.DocCur.handle r
  | "doccurx" :: r => Drv.DocCur.handleX r
  | "sobj" :: r => Drv.SObj.handle r
  | "omap" :: _ => DOMap.handle (restOf line)
  | "semn" :: _ => DSemN.handle (restOf line)
  | "sem" :: _ => DSem.handle (restOf line)
  | "sema" :: _ => DSemA.handle (restOf line)
  | "semb" :: _ => DSemB.handle (restOf line)
  | "semc" :: _ => DSemC.handle (restOf line)
  | "semcf" :: _ => DSemCF.handle (restOf line)
  | "semk" :: _ => DSemK.handle (restOf line)
  | "keyt" :: _ => DKeyT.handle (restOf line)
  | "semao" :: _ => DSemAO.handle (restOf line)
  | "semor" :: _ => DSemOR.handle (restOf line)
  | "semp" :: _ => DSemP.handle (restOf line)
  | "ex" :: _ => DEx.handle line
  | "extext" :: r => DExText.handle (r.headD "")
  | "exk" :: _ => DExK.handle line
  | "e2e" :: r => DE2E.handle false r
  | "e2eo" :: r => DE2E.handle true r
  | "c02t" :: r => DC02T.handle r
  | "tg" :: _ => DTG.handle line
  | "lk" :: _ => DLK.handle line
  | "ck" :: _ => DCK.handle (restOf line)
  | "crules" :: _ => DCR.handle line
  | "cspec" :: _ => DCR.handle line
  | "bridge" :: r => DBridge.handle r
  | "c09b" :: r => DC09B.handle r
  | "stree" :: _ => Drv.ShortTree.handle line
  | "ast" :: r => DMisc.ast r
  | "rgx" :: r => DMisc.rgx r
  | "c18r" :: r => DC18R.handle r
  | _ => "bad-op"

partial def loop (h : IO.FS.Stream) (out : IO.FS.Stream) : IO Unit := do
  let line ← h.getLine
  if line.isEmpty then
    out.flush
    return ()
  out.putStrLn (handle (line.dropRightWhile (fun c => c == '\n' || c == '\r')))
  loop h out

def main : IO Unit := do
  loop (← IO.getStdin) (← IO.getStdout)
