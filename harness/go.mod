module verifharness

go 1.19

require github.com/jsightapi/jsight-schema-go-library v0.0.0

replace github.com/jsightapi/jsight-schema-go-library => /repo
