package main

import p "verifharness/x/schematprod"

func init() { register("schema-tprod", p.Run) }
