package main

import "verifharness/x/formatsdiff"

func init() { register("formats-diff", formatsdiff.Run) }
