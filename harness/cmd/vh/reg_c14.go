package main

import c14 "verifharness/x/c14"

func init() { register("c14-len", c14.Run) }
