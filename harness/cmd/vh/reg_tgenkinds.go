package main

import p "verifharness/x/tgenkinds"

func init() { register("tgen-kinds", p.Run) }
