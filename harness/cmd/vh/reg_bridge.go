package main

import bridge "verifharness/x/bridge"

func init() { register("bridge-models", bridge.Run) }
