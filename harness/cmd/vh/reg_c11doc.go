package main

import p "verifharness/x/c11doc"

func init() { register("c11-doc", p.Run) }
