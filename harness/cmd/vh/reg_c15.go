package main

import p "verifharness/x/c15"

func init() { register("c15-example", p.Run) }
