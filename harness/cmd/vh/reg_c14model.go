package main

import "verifharness/x/c14model"

func init() { register("c14-model", c14model.Run) }
