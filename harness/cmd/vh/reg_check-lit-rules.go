package main

import checklitrules "verifharness/x/check-lit-rules"

func init() { register("check-lit-rules", checklitrules.Run) }
