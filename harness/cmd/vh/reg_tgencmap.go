package main

import p "verifharness/x/tgencmap"

func init() { register("tgen-cmap", p.Run) }
