package main

import p "verifharness/x/c18routes"

func init() { register("c18-routes", p.Run) }
