package main

import semtypes "verifharness/x/sem-types"

func init() { register("sem-types", semtypes.Run) }
