package main

import p "verifharness/x/loaderdiff"

func init() { register("loader-diff", p.Run) }
