package main

import c15text "verifharness/x/c15text"

func init() {
	register("c15-text", c15text.Run)
	register("c15-exk", c15text.RunExK)
}
