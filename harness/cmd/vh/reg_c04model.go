package main

import p "verifharness/x/c04model"

func init() { register("c04-model", p.Run) }
