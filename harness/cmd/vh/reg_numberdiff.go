package main

import "verifharness/x/numberdiff"

func init() { register("number-diff", numberdiff.Run) }
