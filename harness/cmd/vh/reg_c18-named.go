package main

import p "verifharness/x/c18"

func init() { register("c18-named", p.Run) }
