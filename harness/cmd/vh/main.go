// vh — verification harness: runs the real library (built from /repo's working
// tree with -tags verif) against the Lean model driver and against the
// properties themselves. One subcommand per correspondence / search.
package main

import (
	"fmt"
	"os"
	"sort"
)

var commands = map[string]func(args []string){}

func register(name string, f func(args []string)) { commands[name] = f }

func main() {
	if len(os.Args) < 2 {
		var names []string
		for n := range commands {
			names = append(names, n)
		}
		sort.Strings(names)
		fmt.Println("usage: vh <command> [args]; commands:", names)
		os.Exit(2)
	}
	f, ok := commands[os.Args[1]]
	if !ok {
		fmt.Println("unknown command", os.Args[1])
		os.Exit(2)
	}
	f(os.Args[2:])
}
