package main

import p "verifharness/x/c08"

func init() { register("c08-rules", p.Run) }
