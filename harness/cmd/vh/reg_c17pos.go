package main

import p "verifharness/x/c17pos"

func init() { register("c17-valpos", p.Run) }
