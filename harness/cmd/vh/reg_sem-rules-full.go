package main

import semrulesfull "verifharness/x/sem-rules-full"

func init() { register("sem-rules-full", semrulesfull.Run) }
