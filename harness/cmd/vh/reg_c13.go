package main

import c13 "verifharness/x/c13"

func init() { register("c13-metamorphic", c13.Run) }
