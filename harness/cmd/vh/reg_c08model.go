package main

import p "verifharness/x/c08model"

func init() { register("c08-model", p.Run) }
