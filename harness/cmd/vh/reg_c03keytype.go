package main

import c03keytype "verifharness/x/c03keytype"

func init() { register("c03-keytype", c03keytype.Run) }
