package main

import "verifharness/x/tgenpanics"

func init() {
	register("tgen-panics", tgenpanics.Run)
	register("c07-entries", tgenpanics.RunEntries)
}
