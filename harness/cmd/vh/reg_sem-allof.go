package main

import semallof "verifharness/x/sem-allof"

func init() { register("sem-allof", semallof.Run) }
