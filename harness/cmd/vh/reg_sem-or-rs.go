package main

import semorrs "verifharness/x/sem-or-rs"

func init() { register("sem-or-rs", semorrs.Run) }
