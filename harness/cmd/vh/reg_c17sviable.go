package main

import p "verifharness/x/c17sviable"

func init() { register("c17-schema-viable", p.Run) }
