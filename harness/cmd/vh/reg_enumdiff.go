package main

import "verifharness/x/enumdiff"

func init() { register("enum-diff", enumdiff.Run) }
