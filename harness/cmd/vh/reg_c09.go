package main

import p "verifharness/x/c09"

func init() { register("c09-typegraph", p.Run) }
