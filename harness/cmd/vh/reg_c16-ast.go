package main

import p "verifharness/x/c16"

func init() { register("c16-ast", p.Run) }
