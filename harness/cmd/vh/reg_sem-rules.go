package main

import semrules "verifharness/x/sem-rules"

func init() { register("sem-rules", semrules.Run) }
