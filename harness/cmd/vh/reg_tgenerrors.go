package main

import "verifharness/x/tgenerrors"

func init() { register("tgen-errors", tgenerrors.Run) }
