package main

import semaddprops "verifharness/x/sem-addprops"

func init() { register("sem-addprops", semaddprops.Run) }
