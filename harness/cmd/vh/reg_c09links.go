package main

import p "verifharness/x/c09links"

func init() { register("c09-links", p.Run) }
