package main

import (
	stdjson "encoding/json"
	stderrors "errors"
	"fmt"
	"io"
	"math/rand"
	"strings"
	"sync"

	jlib "github.com/jsightapi/jsight-schema-go-library"
	jdoc "github.com/jsightapi/jsight-schema-go-library/formats/json"
	"github.com/jsightapi/jsight-schema-go-library/notations/jschema"
	"github.com/jsightapi/jsight-schema-go-library/rules/enum"

	"verifharness/vh"
)

var jsonSeeds = []string{`{}`, `[]`, `1`, `"a"`, `true`, `null`, `-1.5e+3`, `0`, ` {"a": [1, "x"], "b": null}`,
	`[ 1 , 2.50 , "s\"q" , {"k":{}} ]`, `{"é":"é\n"}`, `"😀"`, `[[[[]]]]`, `{"a":{"b":{"c":[1,{"d":false}]}}}`,
	"[\n1,\r\n2\t]", `1 x`, `{} GET`, `"s"x`, `12 3`, `1.`, `1e`, `1e+`, `-`, `[1.5e]`, `"é😀"`, `"\x"`, `01`, `-0`, `0e1`,
	`{"a":1,"a":2}`, `[1,]`, `{"a":}`, `{,}`, `tru`, `nulll`, `[true,false,null]`}

var jsonAlphabet = []byte("{}[]:,\"\\/-+01.eEtrufalsn xyzAF \t\n\r\x01\xc3")

func perr(e error) string {
	var pe jlib.ParsingError
	if stderrors.As(e, &pe) {
		return fmt.Sprintf("ERR %d %d", pe.ErrCode(), pe.Position())
	}
	return "OTHER " + e.Error()
}

type jev struct {
	ty   string
	b, e int
}

func jsonEventList(b []byte, trailing bool) ([]jev, string) {
	var d jlib.Document
	if trailing {
		d = jdoc.New("d", b, jdoc.AllowTrailingNonSpaceCharacters())
	} else {
		d = jdoc.New("d", b)
	}
	var out []jev
	for {
		lex, err := d.NextLexeme()
		if err == io.EOF {
			if lex.File() != nil { // EndTop is delivered together with io.EOF
				out = append(out, jev{lex.Type().String(), int(lex.Begin()), int(lex.End())})
			}
			return out, ""
		}
		if err != nil {
			return nil, perr(err)
		}
		out = append(out, jev{lex.Type().String(), int(lex.Begin()), int(lex.End())})
	}
}

// jsonEventsAfter: the events read from ONE document object after other calls were made on it (Len, Check, a partial
// pass over the events followed by Len or Check, which rewind): what NextLexeme delivers describes the text, not the history.
func jsonEventsAfter(b []byte, trailing bool, pre string) string {
	return vh.Recover(func() string {
		var d jlib.Document
		if trailing {
			d = jdoc.New("d", b, jdoc.AllowTrailingNonSpaceCharacters())
		} else {
			d = jdoc.New("d", b)
		}
		for _, c := range pre {
			func() {
				defer func() { _ = recover() }()
				switch c {
				case 'L':
					_, _ = d.Len()
				case 'C':
					_ = d.Check()
				case 'P':
					for i := 0; i < 3; i++ {
						if _, err := d.NextLexeme(); err != nil {
							break
						}
					}
				}
			}()
		}
		var out []string
		for {
			lex, err := d.NextLexeme()
			if err == io.EOF {
				if lex.File() != nil {
					out = append(out, fmt.Sprintf("%s[%d:%d]", lex.Type().String(), int(lex.Begin()), int(lex.End())))
				}
				return strings.Join(out, " ")
			}
			if err != nil {
				return perr(err)
			}
			out = append(out, fmt.Sprintf("%s[%d:%d]", lex.Type().String(), int(lex.Begin()), int(lex.End())))
		}
	})
}

// jsonLenAfter: Len() of one document object after other calls were made on it.
func jsonLenAfter(b []byte, pre string) string {
	return vh.Recover(func() string {
		d := jdoc.New("d", b, jdoc.AllowTrailingNonSpaceCharacters())
		for _, c := range pre {
			func() {
				defer func() { _ = recover() }()
				switch c {
				case 'C':
					_ = d.Check()
				case 'P':
					for i := 0; i < 3; i++ {
						if _, err := d.NextLexeme(); err != nil {
							break
						}
					}
				}
			}()
		}
		l, err := d.Len()
		if err != nil {
			return perr(err)
		}
		return fmt.Sprintf("LEN %d", l)
	})
}

func jsonEvents(b []byte, trailing bool) string {
	return vh.Recover(func() string {
		evs, e := jsonEventList(b, trailing)
		if e != "" {
			return e
		}
		sb := make([]string, len(evs))
		for i, ev := range evs {
			sb[i] = fmt.Sprintf("%s[%d:%d]", ev.ty, ev.b, ev.e)
		}
		return strings.Join(sb, " ")
	})
}

func jsonCheck(b []byte, trailing bool) string {
	return vh.Recover(func() string {
		var err error
		if trailing {
			err = jdoc.New("d", b, jdoc.AllowTrailingNonSpaceCharacters()).Check()
		} else {
			err = jdoc.New("d", b).Check()
		}
		if err != nil {
			return perr(err)
		}
		return "OK"
	})
}

// jsonCheckRace: n goroutines make the FIRST Check() call on ONE fresh document at the same time; every caller must get
// what a sequential caller gets (the verdict of the property does not depend on who asks first). Returns the distinct
// results that differ from the sequential one.
func jsonCheckRace(b []byte, trailing bool, n int) (seq string, others []string) {
	seq = jsonCheck(b, trailing)
	var d jlib.Document
	if trailing {
		d = jdoc.New("d", b, jdoc.AllowTrailingNonSpaceCharacters())
	} else {
		d = jdoc.New("d", b)
	}
	res := make([]string, n)
	var wg sync.WaitGroup
	start := make(chan struct{})
	for g := 0; g < n; g++ {
		wg.Add(1)
		go func(g int) {
			defer wg.Done()
			<-start
			res[g] = vh.Recover(func() string {
				if err := d.Check(); err != nil {
					return perr(err)
				}
				return "OK"
			})
		}(g)
	}
	close(start)
	wg.Wait()
	seen := map[string]bool{}
	for _, x := range res {
		if x != seq && !seen[x] {
			seen[x] = true
			others = append(others, x)
		}
	}
	return
}

// ---- several documents read in lockstep: what NextLexeme delivers for one document does not depend on what other
// document objects are being read at the same moment, nor on calls made on documents that have already ended.
func jsonOneCall(d jlib.Document) string {
	return vh.Recover(func() string {
		lex, err := d.NextLexeme()
		if err == io.EOF {
			if lex.File() != nil {
				return fmt.Sprintf("EOF+%s[%d:%d]", lex.Type().String(), int(lex.Begin()), int(lex.End()))
			}
			return "EOF"
		}
		if err != nil {
			return perr(err)
		}
		return fmt.Sprintf("%s[%d:%d]", lex.Type().String(), int(lex.Begin()), int(lex.End()))
	})
}

func jsonNewDoc(b []byte, trailing bool) jlib.Document {
	if trailing {
		return jdoc.New("d", b, jdoc.AllowTrailingNonSpaceCharacters())
	}
	return jdoc.New("d", b)
}

// jsonCallsAlone: the results of n consecutive NextLexeme calls on a fresh document nobody else interferes with
func jsonCallsAlone(b []byte, trailing bool, n int) []string {
	d := jsonNewDoc(b, trailing)
	out := make([]string, n)
	for i := range out {
		out[i] = jsonOneCall(d)
	}
	return out
}

func jsonLockstep(rep *vh.Report, r *rand.Rand, texts [][]byte) {
	k := len(texts)
	tr := make([]bool, k)
	need := make([]int, k)
	alone := make([][]string, k)
	for i, b := range texts {
		tr[i] = r.Intn(2) == 0
		// number of calls: up to the end of the stream (EOF or error) plus 1-3 calls past it
		n := 0
		d := jsonNewDoc(b, tr[i])
		for ; n < 4000; n++ {
			x := jsonOneCall(d)
			if strings.HasPrefix(x, "EOF") || strings.HasPrefix(x, "ERR") || strings.HasPrefix(x, "PANIC") {
				n++
				break
			}
		}
		need[i] = n + 1 + r.Intn(3)
		alone[i] = jsonCallsAlone(b, tr[i], need[i])
	}
	docs := make([]jlib.Document, k)
	created := make([]bool, k)
	got := make([][]string, k)
	left := 0
	for i := range texts {
		left += need[i]
	}
	for left > 0 {
		i := r.Intn(k)
		if len(got[i]) >= need[i] {
			continue
		}
		if !created[i] { // documents are created at different moments of the others' lives
			docs[i] = jsonNewDoc(texts[i], tr[i])
			created[i] = true
		}
		for burst := 1 + r.Intn(3); burst > 0 && len(got[i]) < need[i]; burst-- {
			got[i] = append(got[i], jsonOneCall(docs[i]))
			left--
		}
	}
	rep.Stat("lockstep_groups")
	for i := range texts {
		rep.Case(fmt.Sprintf("lockstep:%d:%s", k, texts[i]), true)
		for c := range alone[i] {
			if got[i][c] != alone[i][c] {
				var all []string
				for _, t := range texts {
					all = append(all, fmt.Sprintf("%q", t))
				}
				rep.AddDiff(vh.Diff{Component: "C06-lockstep", Input: fmt.Sprintf("documents %s read in lockstep (random bursts of NextLexeme, 1-3 calls past each end); document #%d trailing=%v, call #%d", strings.Join(all, " , "), i, tr[i], c+1),
					Impl: got[i][c], Model: "the same call on a fresh document read alone: " + alone[i][c]})
				break
			}
		}
	}
}

func okBit(c string) string {
	if c == "OK" {
		return "1"
	}
	return "0"
}

// errPosOf: the index of an "invalid character" error (code 301), as the model's errPos reports it.
func errPosOf(c string) string {
	var code, pos int
	if n, _ := fmt.Sscanf(c, "ERR %d %d", &code, &pos); n == 2 && code == 301 {
		return fmt.Sprintf("POS %d", pos)
	}
	return "NOPOS"
}

func jsonLen(b []byte) string {
	return vh.Recover(func() string {
		l, err := jdoc.New("d", b, jdoc.AllowTrailingNonSpaceCharacters()).Len()
		if err != nil {
			return perr(err)
		}
		return fmt.Sprintf("LEN %d", l)
	})
}

// ---- generator of valid JSON texts with layout ----

func genWS(r *rand.Rand) string {
	switch r.Intn(6) {
	case 0, 1, 2:
		return ""
	case 3:
		return " "
	case 4:
		return []string{"\n", "\t", "\r\n", "  ", " \n "}[r.Intn(5)]
	}
	n := r.Intn(4)
	var sb strings.Builder
	for i := 0; i < n; i++ {
		sb.WriteByte(" \t\n\r"[r.Intn(4)])
	}
	return sb.String()
}

func genString(r *rand.Rand) string {
	parts := []string{"a", "b", "xyz", "é", "😀", `\"`, `\\`, `\/`, `\b`, `\f`, `\n`, `\r`, `\t`, `A`, `é`, `😀`, " ", "/", "{", "]", ":", ",", "e", "0"}
	n := r.Intn(5)
	var sb strings.Builder
	sb.WriteByte('"')
	for i := 0; i < n; i++ {
		sb.WriteString(parts[r.Intn(len(parts))])
	}
	sb.WriteByte('"')
	return sb.String()
}

func genNumber(r *rand.Rand) string {
	var sb strings.Builder
	if r.Intn(3) == 0 {
		sb.WriteByte('-')
	}
	if r.Intn(4) == 0 {
		sb.WriteByte('0')
	} else {
		sb.WriteByte("123456789"[r.Intn(9)])
		for i := r.Intn(4); i > 0; i-- {
			sb.WriteByte("0123456789"[r.Intn(10)])
		}
	}
	if r.Intn(3) == 0 {
		sb.WriteByte('.')
		for i := 1 + r.Intn(3); i > 0; i-- {
			sb.WriteByte("0123456789"[r.Intn(10)])
		}
	}
	if !genNoExp && r.Intn(4) == 0 {
		sb.WriteByte("eE"[r.Intn(2)])
		if r.Intn(2) == 0 {
			sb.WriteByte("+-"[r.Intn(2)])
		}
		for i := 1 + r.Intn(2); i > 0; i-- {
			sb.WriteByte("0123456789"[r.Intn(10)])
		}
	}
	return sb.String()
}

func genScalar(r *rand.Rand) string {
	switch r.Intn(6) {
	case 0:
		return "true"
	case 1:
		return "false"
	case 2:
		return "null"
	case 3:
		return genString(r)
	}
	return genNumber(r)
}

// genBudget bounds the number of nodes of one generated text.
var genBudget int

// genNoExp: no exponents in numbers (the schema and enum scanners reject them by design).
var genNoExp bool

// dropNewLines removes the new-line events of the schema / enum scanners from a canonical event string.
func dropNewLines(evs string) string {
	parts := strings.Fields(evs)
	out := parts[:0]
	for _, p := range parts {
		if !strings.HasPrefix(p, "new-line[") {
			out = append(out, p)
		}
	}
	return strings.Join(out, " ")
}

func genValue(r *rand.Rand, depth, maxW int) string {
	genBudget--
	if depth == 0 || genBudget <= 0 || r.Intn(3) == 0 {
		return genScalar(r)
	}
	n := r.Intn(maxW + 1)
	var sb strings.Builder
	if r.Intn(2) == 0 {
		sb.WriteByte('[')
		sb.WriteString(genWS(r))
		for i := 0; i < n; i++ {
			if i > 0 {
				sb.WriteByte(',')
			}
			sb.WriteString(genWS(r) + genValue(r, depth-1, maxW) + genWS(r))
		}
		sb.WriteByte(']')
	} else {
		sb.WriteByte('{')
		sb.WriteString(genWS(r))
		for i := 0; i < n; i++ {
			if i > 0 {
				sb.WriteByte(',')
			}
			sb.WriteString(genWS(r) + genString(r) + genWS(r) + ":" + genWS(r) + genValue(r, depth-1, maxW) + genWS(r))
		}
		sb.WriteByte('}')
	}
	return sb.String()
}

// rebuildFromEvents reconstructs a Go value from events + slices only
// (property C06: the JSON value can be rebuilt from the events alone).
func rebuildFromEvents(src []byte, evs []jev) (v interface{}, ok bool) {
	defer func() {
		if r := recover(); r != nil {
			ok = false
		}
	}()
	pos := 0
	var value func() interface{}
	value = func() interface{} {
		ev := evs[pos]
		switch ev.ty {
		case "literal-begin":
			pos++
			end := evs[pos]
			if end.ty != "literal-end" || end.b != ev.b {
				panic("literal")
			}
			pos++
			var x interface{}
			dec := stdjson.NewDecoder(strings.NewReader(string(src[end.b : end.e+1])))
			dec.UseNumber()
			if err := dec.Decode(&x); err != nil {
				panic(err)
			}
			return x
		case "array-begin":
			pos++
			arr := []interface{}{}
			for evs[pos].ty == "item-begin" {
				pos++
				arr = append(arr, value())
				if evs[pos].ty != "item-end" {
					panic("item-end")
				}
				pos++
			}
			if evs[pos].ty != "array-end" || evs[pos].b != ev.b || src[evs[pos].b] != '[' || src[evs[pos].e] != ']' {
				panic("array-end")
			}
			pos++
			return arr
		case "object-begin":
			pos++
			type kv struct {
				k string
				v interface{}
			}
			obj := []interface{}{}
			for evs[pos].ty == "key-begin" {
				kb := evs[pos]
				pos++
				ke := evs[pos]
				if ke.ty != "key-end" || ke.b != kb.b {
					panic("key-end")
				}
				pos++
				var k string
				if err := stdjson.Unmarshal(src[ke.b:ke.e+1], &k); err != nil {
					panic(err)
				}
				if evs[pos].ty != "value-begin" {
					panic("value-begin")
				}
				pos++
				x := value()
				if evs[pos].ty != "value-end" {
					panic("value-end")
				}
				pos++
				obj = append(obj, kv{k, x})
			}
			if evs[pos].ty != "object-end" || evs[pos].b != ev.b || src[evs[pos].b] != '{' || src[evs[pos].e] != '}' {
				panic("object-end")
			}
			pos++
			return obj
		}
		panic("unexpected " + ev.ty)
	}
	v = value()
	if pos != len(evs) {
		return nil, false
	}
	return v, true
}

// orderedDecode decodes with encoding/json into the same shape rebuildFromEvents produces.
func orderedDecode(src []byte) (interface{}, error) {
	dec := stdjson.NewDecoder(strings.NewReader(string(src)))
	dec.UseNumber()
	var rec func() (interface{}, error)
	type kv struct {
		k string
		v interface{}
	}
	rec = func() (interface{}, error) {
		t, err := dec.Token()
		if err != nil {
			return nil, err
		}
		if d, ok := t.(stdjson.Delim); ok {
			switch d {
			case '[':
				arr := []interface{}{}
				for dec.More() {
					x, err := rec()
					if err != nil {
						return nil, err
					}
					arr = append(arr, x)
				}
				_, err := dec.Token()
				return arr, err
			case '{':
				obj := []interface{}{}
				for dec.More() {
					kt, err := dec.Token()
					if err != nil {
						return nil, err
					}
					x, err := rec()
					if err != nil {
						return nil, err
					}
					obj = append(obj, kv{kt.(string), x})
				}
				_, err := dec.Token()
				return obj, err
			}
		}
		return t, nil
	}
	return rec()
}

func init() {
	// T-diff: JSON scanner model vs real NextLexeme / Check / Len on seeds, mutations, random strings and
	// generated valid texts; plus the property-level checks of C06 on the valid texts.
	register("json-diff", func(args []string) {
		rep := vh.NewReport("json-diff", "seed documents, 1-3 byte-level mutations of them, random strings over a 36-byte alphabet, generated valid JSON texts (depth<=8,width<=8, all scalar forms, random layout); per input: events strict/trailing, Check strict/trailing, Len; every 7th input also: events read from one document object after Len / Check / a partial pass (7 call histories) = events of a fresh object; nontrivial = input with at least one structural byte that is not a bare scalar")
		r := vh.NewRand(11)
		var reqs, impl, inputs []string
		nEmit := 0
		histPres := []string{"L", "C", "LC", "CL", "PL", "PC", "LL"}
		lenPres := []string{"P", "PP", "PC", "CP", "C"}
		emit := func(b []byte) {
			h := vh.Hex(b)
			cs, cd := jsonCheck(b, false), jsonCheck(b, true)
			reqs = append(reqs, "jscan E "+h, "jscan T "+h, "jscan C "+h, "jscan D "+h, "jscan L "+h, "jscan c "+h, "jscan d "+h, "jscan P "+h)
			impl = append(impl, jsonEvents(b, false), jsonEvents(b, true), cs, cd, jsonLen(b), okBit(cs), okBit(cd), errPosOf(cs))
			for i := 0; i < 8; i++ {
				inputs = append(inputs, fmt.Sprintf("%q", b))
			}
			rep.Case(string(b), strings.ContainsAny(string(b), "{}[],:\""))
			// history on one object: events after Len / Check / a partial pass + Rewind are the events of a fresh object
			nEmit++
			if nEmit%7 == 0 {
				pre := histPres[(nEmit/7)%len(histPres)]
				for _, tr := range []bool{false, true} {
					fresh, after := jsonEvents(b, tr), jsonEventsAfter(b, tr, pre)
					rep.Stat("history_" + pre)
					if fresh != after {
						rep.AddDiff(vh.Diff{Component: "C06-history", Input: fmt.Sprintf("%q trailing=%v calls-before=%s (L=Len C=Check P=read 3 lexemes)", b, tr, pre),
							Impl: "events after those calls: " + after, Model: "events of a fresh document: " + fresh})
					}
				}
			}
			if nEmit%7 == 3 {
				pre := lenPres[(nEmit/7)%len(lenPres)]
				fresh, after := jsonLen(b), jsonLenAfter(b, pre)
				rep.Stat("len_history_" + pre)
				if fresh != after {
					rep.AddDiff(vh.Diff{Component: "C14-history", Input: fmt.Sprintf("%q calls-before-Len=%s (C=Check P=read 3 lexemes)", b, pre),
						Impl: "Len after those calls: " + after, Model: "Len of a fresh document: " + fresh})
				}
			}
			if cs == "OK" {
				rep.Stat("check_ok")
			} else {
				rep.Stat("check_err")
			}
		}
		for _, s := range jsonSeeds {
			emit([]byte(s))
		}
		for i := vh.Pick(20000, 400000); i > 0; i-- {
			emit(vh.Mutate(r, []byte(jsonSeeds[r.Intn(len(jsonSeeds))]), jsonAlphabet))
		}
		for i := vh.Pick(5000, 100000); i > 0; i-- {
			n := r.Intn(9)
			b := make([]byte, n)
			for j := range b {
				b[j] = jsonAlphabet[r.Intn(len(jsonAlphabet))]
			}
			emit(b)
		}
		// foreign surroundings: a valid text preceded / followed / interrupted (at a blank) by ONE byte that is not JSON white
		// space (all 252 of them) or by a multi-byte sequence an editor, a transport or a Unicode-aware trim could treat as
		// blank (byte order marks, NBSP, NEL, line / paragraph separators, zero-width and ideographic spaces, VT, FF, NUL):
		// the property admits only space, tab, CR and LF around the value
		{
			odd := []string{"\xef\xbb\xbf", "\xfe\xff", "\xff\xfe", "\xff\xfe\x00\x00", "\x00\x00\xfe\xff", "\xc2\xa0", "\xc2\x85", "\xe2\x80\xa8", "\xe2\x80\xa9",
				"\xe2\x80\x8b", "\xe3\x80\x80", "\xe1\x9a\x80", "\xe2\x81\xa0", "\x0b", "\x0c", "\x00", "\x1a", "\x7f", "\\n", "\\t", "//", "/**/", "#"}
			for c := 0; c < 256; c++ {
				if c != ' ' && c != '\t' && c != '\r' && c != '\n' {
					odd = append(odd, string([]byte{byte(c)}))
				}
			}
			hosts := []string{"1", "\"a\"", "[1, 2]", "{\"k\": null}", " true ", "\n[ ]\n", "{ \"a\" : [ 1 , { } ] }"}
			for _, h := range hosts {
				for _, o := range odd {
					emit([]byte(o + h))
					emit([]byte(h + o))
					emit([]byte(o + " " + h))
					emit([]byte(h + "\n" + o))
					if k := strings.IndexAny(h, " \n"); k >= 0 {
						emit([]byte(h[:k] + o + h[k:]))
					}
					rep.Stat("foreign_surroundings")
				}
			}
		}
		// first-use race: the verdict must not depend on which goroutine asks first (8 goroutines, one fresh document,
		// all calling Check at once); malformed and well-formed texts, large enough that the scan takes a while
		{
			n := vh.Pick(400, 4000)
			for i := 0; i < n; i++ {
				genBudget = 200 + r.Intn(400)
				txt := genWS(r) + genValue(r, 2+r.Intn(6), 2+r.Intn(8)) + genWS(r)
				b := []byte(txt)
				if i%2 == 0 { // malformed: truncated, or one byte damaged near the end
					if len(b) > 2 && r.Intn(2) == 0 {
						b = b[:len(b)-1-r.Intn(len(b)/2)]
					} else {
						b = append([]byte{}, b...)
						b[len(b)-1-r.Intn((len(b)+1)/2)] = jsonAlphabet[r.Intn(len(jsonAlphabet))]
					}
				}
				tr := r.Intn(2) == 0
				seq, others := jsonCheckRace(b, tr, 8)
				rep.Stat("first_check_race")
				if seq == "OK" {
					rep.Stat("first_check_race_wellformed")
				}
				rep.Case("race:"+string(b), true)
				if len(others) > 0 {
					rep.AddDiff(vh.Diff{Component: "C05-first-check-race", Input: fmt.Sprintf("%q trailing=%v: 8 goroutines call Check() on one fresh document at once", b, tr),
						Impl: "some callers got: " + strings.Join(others, " / "), Model: "every caller gets what a sequential caller gets: " + seq})
				}
			}
		}
		// DEEP stream: the statement quantifies over every nesting depth. Arrays / objects / mixed nested 9 … 300 deep
		// (around powers of two and small-capacity thresholds), balanced, cut after every closing bracket of the tail, one
		// closer too many, one closer of the wrong kind — each through the full comparison with the model
		{
			depths := []int{9, 16, 17, 18, 19, 33, 36, 37, 65, 129, 257}
			if vh.Tier() == "thorough" {
				depths = []int{9, 15, 16, 17, 18, 19, 31, 32, 33, 35, 36, 37, 63, 64, 65, 66, 100, 127, 128, 129, 130, 200, 255, 256, 257, 300}
			}
			for _, d := range depths {
				for form := 0; form < 3; form++ {
					var open, cl strings.Builder
					var closers []string
					for i := 0; i < d; i++ {
						obj := form == 1 || (form == 2 && i%2 == 1)
						if obj {
							open.WriteString(`{"k":`)
							closers = append(closers, "}")
						} else {
							open.WriteString("[")
							closers = append(closers, "]")
						}
					}
					for i := d - 1; i >= 0; i-- {
						cl.WriteString(closers[i])
					}
					inner := []string{"", "1", `"s"`, "null"}[d%4]
					if form != 0 && inner == "" {
						inner = "0"
					}
					full := open.String() + inner + cl.String()
					emit([]byte(full))
					emit([]byte(" " + full + "\n"))
					rep.Stat("deep_documents")
					tail := cl.String()
					for k := 0; k < len(tail); k++ { // every truncation inside the run of closers
						if k%9 == 0 || k > len(tail)-4 || k < 4 {
							emit([]byte(open.String() + inner + tail[:k]))
						}
					}
					emit([]byte(full + "]"))
					emit([]byte(full + "}"))
					wrong := []byte(full)
					mid := len(open.String()) + len(inner) + d/2
					if wrong[mid] == ']' {
						wrong[mid] = '}'
					} else {
						wrong[mid] = ']'
					}
					emit(wrong)
				}
			}
		}
		// several documents in lockstep (valid texts, their truncations and damaged copies), 2-4 at a time
		for i := vh.Pick(1500, 15000); i > 0; i-- {
			k := 2 + r.Intn(3)
			texts := make([][]byte, k)
			for j := range texts {
				genBudget = 5 + r.Intn(40)
				b := []byte(genWS(r) + genValue(r, 1+r.Intn(4), 1+r.Intn(4)) + genWS(r))
				switch r.Intn(5) {
				case 0:
					b = b[:r.Intn(len(b)+1)]
				case 1:
					b = vh.Mutate(r, b, jsonAlphabet)
				case 2:
					b = []byte(jsonSeeds[r.Intn(len(jsonSeeds))])
				}
				texts[j] = b
			}
			jsonLockstep(rep, r, texts)
		}
		// valid texts + property-level checks
		for i := vh.Pick(6000, 120000); i > 0; i-- {
			genBudget = 10 + r.Intn(150)
			txt := genWS(r) + genValue(r, 1+r.Intn(8), 1+r.Intn(8)) + genWS(r)
			b := []byte(txt)
			emit(b)
			rep.Stat("valid_texts")
			if !stdjson.Valid(b) {
				rep.AddDiff(vh.Diff{Component: "json-gen", Input: txt, Impl: "generator produced invalid JSON", Model: ""})
				continue
			}
			evs, e := jsonEventList(b, false)
			if e != "" {
				rep.AddDiff(vh.Diff{Component: "C06-prop", Input: txt, Impl: e, Model: "valid JSON text must be scanned without error"})
				continue
			}
			// nesting + spans
			var stack []jev
			bad := ""
			for _, ev := range evs {
				if ev.b < 0 || ev.e >= len(b) || ev.b > ev.e {
					bad = fmt.Sprintf("span outside input: %v", ev)
				}
				if strings.HasSuffix(ev.ty, "-begin") {
					stack = append(stack, ev)
				} else if strings.HasSuffix(ev.ty, "-end") {
					if len(stack) == 0 {
						bad = "end without begin"
						break
					}
					top := stack[len(stack)-1]
					stack = stack[:len(stack)-1]
					if strings.TrimSuffix(top.ty, "-begin") != strings.TrimSuffix(ev.ty, "-end") || top.b != ev.b {
						bad = fmt.Sprintf("closer %v does not match opener %v", ev, top)
					}
				}
			}
			if len(stack) != 0 {
				bad = "unclosed events"
			}
			if bad != "" {
				rep.AddDiff(vh.Diff{Component: "C06-prop", Input: txt, Impl: bad, Model: "properly nested, spans inside input"})
				continue
			}
			got, ok := rebuildFromEvents(b, evs)
			want, err := orderedDecode(b)
			if !ok || err != nil || fmt.Sprintf("%#v", got) != fmt.Sprintf("%#v", want) {
				rep.AddDiff(vh.Diff{Component: "C06-prop", Input: txt, Impl: fmt.Sprintf("rebuilt %#v", got), Model: fmt.Sprintf("value %#v", want)})
			}
		}
		// clone agreement (C06, second sentence): on plain JSON without exponents the schema scanner and — for arrays of
		// scalars — the enum-rule scanner deliver the JSON scanner's event sequence, new-line events aside
		genNoExp = true
		for i := vh.Pick(4000, 80000); i > 0; i-- {
			genBudget = 5 + r.Intn(60)
			txt := genWS(r) + genValue(r, 1+r.Intn(6), 1+r.Intn(6)) + genWS(r)
			b := []byte(txt)
			want := jsonEvents(b, false)
			got := dropNewLines(jschema.VerifSchemaEvents(b))
			rep.Case("clone:"+txt, true)
			rep.Stat("clone_schema")
			if got != want {
				rep.AddDiff(vh.Diff{Component: "C06-clone-schema", Input: txt, Impl: "schema scanner: " + got, Model: "JSON scanner: " + want})
			}
			if i%2 == 0 { // array of scalars for the enum scanner
				n := r.Intn(5)
				parts := make([]string, n)
				keys := map[string]bool{}
				realDup := false
				for j := range parts {
					sc := genScalar(r)
					parts[j] = genWS(r) + sc + genWS(r)
					// the duplicate key of the property: (decoded text, string or not)
					k := "n:" + sc
					if strings.HasPrefix(sc, "\"") {
						var dec string
						if stdjson.Unmarshal([]byte(sc), &dec) == nil {
							k = "s:" + dec
						} else {
							k = "s?:" + sc
						}
					}
					if keys[k] {
						realDup = true
					}
					keys[k] = true
					// every third list: the twin of this item — same text, other kind ("1" next to 1): not a duplicate
					if i%3 == 0 && j+1 < len(parts) && !strings.HasPrefix(sc, "\"") {
						tw := "\"" + sc + "\""
						parts[j+1] = genWS(r) + tw + genWS(r)
						if keys["s:"+sc] {
							realDup = true
						}
						keys["s:"+sc] = true
						rep.Stat("clone_enum_twins")
						break
					}
				}
				for j := range parts {
					if parts[j] == "" { // slots after a twin
						sc := fmt.Sprintf("%d", 1000+j)
						parts[j] = sc
						if keys["n:"+sc] {
							realDup = true
						}
						keys["n:"+sc] = true
					}
				}
				at := "[" + strings.Join(parts, ",") + "]"
				if n == 0 {
					at = "[" + genWS(r) + "]"
				}
				ab := []byte(at)
				wantA := jsonEvents(ab, false)
				gotA := dropNewLines(enum.VerifEnumEvents(ab))
				rep.Stat("clone_enum")
				// the enum scanner reports duplicates as an error: skip texts with repeated items
				if !strings.HasPrefix(gotA, "ERR 810") && gotA != wantA {
					rep.AddDiff(vh.Diff{Component: "C06-clone-enum", Input: at, Impl: "enum scanner: " + gotA, Model: "JSON scanner: " + wantA})
				}
				if strings.HasPrefix(gotA, "ERR 810") != realDup {
					rep.Stat("clone_enum_dup_mismatch")
					rep.AddDiff(vh.Diff{Component: "C06-clone-enum", Input: at, Impl: "enum scanner: " + gotA,
						Model: fmt.Sprintf("duplicate (same decoded text and same kind) present: %v; without one the JSON scanner's events: %s", realDup, wantA)})
				}
			}
		}
		genNoExp = false
		rep.Compare(reqs, impl, inputs, 8)
		rep.Finish()
	})

	// Bounded-exhaustive: every string up to length n over the class alphabet; real Check (both modes)
	// vs the scanner model, vs the RFC recogniser spec, and the spec vs encoding/json (spec validation).
	register("json-exh", func(args []string) {
		n := vh.Pick(5, 6)
		alpha := []byte("{}[]:,\"\\-01.eEtn ") // 17 symbols incl. blank; 'u' 'r' etc. via t/n words cannot complete: add words below
		rep := vh.NewReport("json-exh", fmt.Sprintf("all byte strings of length <= %d over the %d-symbol alphabet %q; Check strict and trailing vs model, vs RFC recogniser spec; spec vs encoding/json.Valid and json.Decoder prefix", n, len(alpha), alpha))
		rep.Exhaustive = true
		var reqs, impl, inputs []string
		flush := func() {
			rep.Compare(reqs, impl, inputs, 16)
			reqs, impl, inputs = reqs[:0], impl[:0], inputs[:0]
		}
		vh.AllStrings(alpha, n, func(b []byte) {
			h := vh.Hex(b)
			c, d := jsonCheck(b, false), jsonCheck(b, true)
			ok := "0"
			if c == "OK" {
				ok = "1"
				rep.Stat("accepted")
			}
			okd := "0"
			if d == "OK" {
				okd = "1"
				rep.Stat("accepted_trailing")
			}
			reqs = append(reqs, "jscan C "+h, "jscan D "+h, "rfc A "+h, "rfc P "+h, "jscan c "+h, "jscan d "+h, "jscan P "+h)
			impl = append(impl, c, d, ok, okd, ok, okd, errPosOf(c))
			in := fmt.Sprintf("%q", b)
			inputs = append(inputs, in, in, in, in, in, in, in)
			// spec validation against the standard library
			std := stdjson.Valid(b)
			if std != (c == "OK") {
				rep.AddDiff(vh.Diff{Component: "C05-stdlib", Input: in, Impl: c, Model: fmt.Sprintf("encoding/json.Valid=%v", std)})
			}
			rep.Case(string(b), c == "OK" || len(b) >= 3)
			if len(reqs) >= 400000 {
				flush()
			}
		})
		flush()
		rep.Finish()
	})

	// T-prod: breadth-first product exploration of (implementation control state, model state).
	register("json-tprod", func(args []string) {
		maxDepth := vh.Pick(4, 6)
		rep := vh.NewReport("json-tprod", fmt.Sprintf("reachable pairs (implementation key, model key) of the JSON scanner, all 256 next bytes from every pair, nesting depth <= %d, both modes", maxDepth))
		for _, mode := range []string{"E", "T"} {
			tprodJSON(rep, mode, maxDepth)
		}
		rep.Exhaustive = true
		rep.Finish()
	})
}

func depthOfKey(implKey string) int {
	parts := strings.Split(implKey, "|")
	n := 0
	if len(parts) > 1 {
		for _, c := range parts[1] {
			if c == 'O' || c == 'A' {
				n++
			}
		}
	}
	return n
}

func tprodJSON(rep *vh.Report, mode string, maxDepth int) {
	allow := mode == "T"
	seen := map[string][]byte{}
	implToModel := map[string]string{}
	modelToImpl := map[string]string{}
	frontier := [][]byte{nil}
	for len(frontier) > 0 {
		var inputs [][]byte
		var implRes, reqs []string
		for _, p := range frontier {
			for b := 0; b < 256; b++ {
				q := append(append([]byte{}, p...), byte(b))
				inputs = append(inputs, q)
				implRes = append(implRes, jdoc.VerifKey(q, allow))
				reqs = append(reqs, "jkey "+mode+" "+vh.Hex(q))
			}
		}
		model := vh.AskModelSharded(reqs, 8)
		var next [][]byte
		for i, m := range model {
			im := implRes[i]
			rep.Transitions++
			rep.Evaluations++
			ik, mk := strings.HasPrefix(im, "K:"), strings.HasPrefix(m, "K:")
			switch {
			case ik != mk || (!ik && im != m):
				rep.AddDiff(vh.Diff{Input: fmt.Sprintf("mode=%s prefix=%q", mode, inputs[i]), Impl: im, Model: m})
			case ik:
				if prev, ok := implToModel[im]; ok && prev != m {
					rep.AddDiff(vh.Diff{Input: fmt.Sprintf("mode=%s prefix=%q", mode, inputs[i]), Impl: im, Model: m, Note: "relation not functional: implementation key also related to " + prev})
				}
				implToModel[im] = m
				if prev, ok := modelToImpl[m]; ok && prev != im {
					rep.AddDiff(vh.Diff{Input: fmt.Sprintf("mode=%s prefix=%q", mode, inputs[i]), Impl: im, Model: m, Note: "relation not injective: model key also related to " + prev})
				}
				modelToImpl[m] = im
				pk := im + " ~ " + m
				if _, ok := seen[pk]; !ok {
					seen[pk] = inputs[i]
					rep.States++
					rep.Distinct++
					if len(rep.Samples) < 6 {
						rep.Samples = append(rep.Samples, fmt.Sprintf("%q: %s", inputs[i], pk))
					}
					if depthOfKey(im) <= maxDepth {
						next = append(next, inputs[i])
					}
				}
			}
		}
		frontier = next
	}
	rep.Stats["pairs_"+mode] = len(seen)
}
