package main

import semor "verifharness/x/sem-or"

func init() { register("sem-or", semor.Run) }
