package main

import p "verifharness/x/c16text"

func init() { register("c16-text", p.Run) }
