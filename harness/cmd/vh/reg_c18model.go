package main

import p "verifharness/x/c18model"

func init() { register("c18-model", p.Run) }
