package main

import p "verifharness/x/tgencompat"

func init() { register("tgen-compat", p.Run) }
