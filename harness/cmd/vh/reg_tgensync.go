package main

import "verifharness/x/tgensync"

func init() { register("tgen-sync", tgensync.Run) }
