package main

import p "verifharness/x/c19"

func init() { register("c19-omap", p.Run) }
