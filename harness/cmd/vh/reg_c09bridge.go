package main

import c09bridge "verifharness/x/c09bridge"

func init() { register("c09-bridge", c09bridge.Run) }
