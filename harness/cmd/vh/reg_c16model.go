package main

import p "verifharness/x/c16model"

func init() { register("c16-model", p.Run) }
