package main

import p "verifharness/x/c07res"

func init() { register("c07-resource", p.Run) }
