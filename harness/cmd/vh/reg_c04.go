package main

import p "verifharness/x/c04"

func init() { register("c04-check-example", p.Run) }
