package main

import examplediff "verifharness/x/example-diff"

func init() { register("example-diff", examplediff.Run) }
