package main

import p "verifharness/x/c09model"

func init() { register("c09-model", p.Run) }
