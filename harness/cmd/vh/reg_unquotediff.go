package main

import "verifharness/x/unquotediff"

func init() { register("unquote-diff", unquotediff.Run) }
