package main

import p "verifharness/x/c13layout"

func init() { register("c13-layout", p.Run) }
