package main

import p "verifharness/x/annq"

func init() { register("annq-events", p.Run) }
