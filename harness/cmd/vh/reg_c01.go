package main

import p "verifharness/x/c01"

func init() { register("c01-shape", p.Run) }
