package main

import p "verifharness/x/enumtprod"

func init() { register("enum-tprod", p.Run) }
