package main

import "verifharness/x/schemadiff"

func init() { register("schema-diff", schemadiff.Run) }
