package main

import p "verifharness/x/c11schema"

func init() { register("c11-schema", p.Run) }
