package main

import c02text "verifharness/x/c02text"

func init() { register("c02-text", c02text.Run) }
