package main

import "verifharness/x/renderdiff"

func init() { register("render-diff", renderdiff.Run) }
