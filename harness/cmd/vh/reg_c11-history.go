package main

import p "verifharness/x/c11"

func init() { register("c11-history", p.Run) }
