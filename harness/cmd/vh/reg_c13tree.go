package main

import p "verifharness/x/c13tree"

func init() { register("c13-tree", p.Run) }
