package main

import semalloffull "verifharness/x/sem-allof-full"

func init() { register("sem-allof-full", semalloffull.Run) }
