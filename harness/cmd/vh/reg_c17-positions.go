package main

import p "verifharness/x/c17"

func init() { register("c17-positions", p.Run) }
