package main

import "verifharness/x/apifuzz"

func init() {
	register("api-fuzz", apifuzz.Run)
	register("api-fuzz-child", apifuzz.RunChild) // hidden: one range of iterations in a child process
}
