package main

import "verifharness/x/apifuzz"

func init() { register("api-fuzz", apifuzz.Run) }
