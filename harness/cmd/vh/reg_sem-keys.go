package main

import semkeys "verifharness/x/sem-keys"

func init() { register("sem-keys", semkeys.Run) }
