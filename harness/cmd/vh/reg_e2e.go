package main

import e2e "verifharness/x/e2e"

func init() { register("e2e-text", e2e.Run) }
