package main

import c09load "verifharness/x/c09load"

func init() { register("c09-load", c09load.Run) }
