// vhrace — the part of the verification harness that needs the race detector.
// Build:  CGO_ENABLED=1 go build -race -tags verif -o bin/vhrace ./cmd/vhrace
package main

import (
	"fmt"
	"os"
	"sort"

	"verifharness/x/c12"
	"verifharness/x/c19"
)

var commands = map[string]func(args []string){
	"c12-concurrent": c12.Run,
	"c19-omap-race":  c19.RunRace,
}

func main() {
	if len(os.Args) < 2 || commands[os.Args[1]] == nil {
		var names []string
		for n := range commands {
			names = append(names, n)
		}
		sort.Strings(names)
		fmt.Println("usage: vhrace <command> [args]; commands:", names)
		os.Exit(2)
	}
	commands[os.Args[1]](os.Args[2:])
}
