// Package c01: rule-free fragment (optional / nullable / type "any"), both key-optionality
// configurations; real Validate vs the Lean models VN.validateT / VN.validate and the spec VN.shape.
package c01

import (
	"fmt"
	"math/rand"
	"strings"
	"sync"

	jdoc "github.com/jsightapi/jsight-schema-go-library/formats/json"
	"github.com/jsightapi/jsight-schema-go-library/notations/jschema"

	"verifharness/vh"
)

type node struct {
	kind     string // lit any arr obj
	lit      string // i f s b n
	nullable bool
	nulFalse bool // `nullable: false` written out (inert)
	items    []*node
	props    []*prop
}
type prop struct {
	key  int // index into keyPool
	mark int // 0 unmarked, 1 optional:true, 2 optional:false
	val  *node
}
type doc struct {
	kind  string // l a o
	lit   string
	items []*doc
	keys  []int
}

var kinds = []string{"i", "f", "s", "b", "n"}

// decoded key names: the Lean side sees the atom k<index>; the texts spell the name with a random mix of raw bytes,
// short escapes and \uXXXX escapes (the property: keys are compared after decoding)
var keyPool = []string{"a", "b", "c", "d", "zz", "a\"b", "a\\b", "line\nbreak", "tab\t", "\u00e9t\u00e9", "sl/ash", " ", "A", "\U0001F600k", "a\u0001"}

// the first nBase names are the pool of the random generator; the names after them (w000, w001, …) exist only for the
// WIDE stream (objects with many properties)
const nBase = 15

func init() {
	for i := 0; i < 600; i++ {
		keyPool = append(keyPool, fmt.Sprintf("w%03d", i))
	}
}

func keyAtom(i int) string { return fmt.Sprintf("k%d", i) }

// spell a decoded name as a JSON string literal
func spell(name string, r *rand.Rand) string {
	var sb strings.Builder
	sb.WriteByte('"')
	mode := r.Intn(4) // 0: minimal escapes, 1: everything as \u, 2/3: mixed
	for _, c := range name {
		esc := mode == 1 || (mode >= 2 && r.Intn(3) == 0)
		switch {
		case c == '"' && !esc:
			sb.WriteString("\\\"")
		case c == '\\' && !esc:
			sb.WriteString("\\\\")
		case c == '\n' && !esc:
			sb.WriteString("\\n")
		case c == '\t' && !esc:
			sb.WriteString("\\t")
		case c == '/' && !esc && mode == 2:
			sb.WriteString("\\/")
		case c < 0x20 || esc:
			if c > 0xffff {
				c -= 0x10000
				fmt.Fprintf(&sb, "\\u%04x\\u%04X", 0xd800+(c>>10), 0xdc00+(c&0x3ff))
			} else if r.Intn(2) == 0 {
				fmt.Fprintf(&sb, "\\u%04x", c)
			} else {
				fmt.Fprintf(&sb, "\\u%04X", c)
			}
		default:
			sb.WriteRune(c)
		}
	}
	sb.WriteByte('"')
	return sb.String()
}

func genNode(r *rand.Rand, depth int) *node {
	k := r.Intn(20)
	if depth <= 0 && k >= 9 {
		k = r.Intn(9)
	}
	switch {
	case k <= 6:
		n := &node{kind: "lit", lit: kinds[r.Intn(5)], nullable: r.Intn(4) == 0}
		n.nulFalse = !n.nullable && r.Intn(5) == 0
		return n
	case k <= 8:
		return &node{kind: "any", nullable: r.Intn(3) == 0}
	case k <= 13:
		n := &node{kind: "arr", nullable: r.Intn(5) == 0}
		n.nulFalse = !n.nullable && r.Intn(6) == 0
		for i := r.Intn(4); i > 0; i-- {
			n.items = append(n.items, genNode(r, depth-1))
		}
		return n
	default:
		n := &node{kind: "obj", nullable: r.Intn(5) == 0}
		n.nulFalse = !n.nullable && r.Intn(6) == 0
		cnt := r.Intn(4)
		perm := r.Perm(nBase)
		if r.Intn(2) == 0 { // plain names most of the time
			perm = r.Perm(4)
		}
		for i := 0; i < cnt; i++ {
			n.props = append(n.props, &prop{key: perm[i], mark: r.Intn(3), val: genNode(r, depth-1)})
		}
		return n
	}
}

func litTok(k string, r *rand.Rand) string {
	switch k {
	case "i":
		return []string{"1", "0", "-12", "7"}[r.Intn(4)]
	case "f":
		return []string{"1.5", "-0.25", "2.5"}[r.Intn(3)]
	case "s":
		return []string{`"x"`, `""`, `"a b"`}[r.Intn(3)]
	case "b":
		return []string{"true", "false"}[r.Intn(2)]
	}
	return "null"
}

// rules of a node as annotation text ("" if none)
func rules(n *node, mark int, r *rand.Rand) string {
	var rs []string
	if mark == 1 {
		rs = append(rs, "optional: true")
	} else if mark == 2 {
		rs = append(rs, "optional: false")
	}
	if n.kind == "any" {
		rs = append(rs, `type: "any"`)
	}
	if n.nullable {
		rs = append(rs, "nullable: true")
	} else if n.nulFalse {
		rs = append(rs, "nullable: false")
	}
	if len(rs) == 0 {
		return ""
	}
	r.Shuffle(len(rs), func(i, j int) { rs[i], rs[j] = rs[j], rs[i] })
	return " // {" + strings.Join(rs, ", ") + "}"
}

// print writes the node; `after` is what must follow the value on its first line (a comma), placed before the annotation.
func print(sb *strings.Builder, n *node, mark int, ind string, comma string, r *rand.Rand) {
	switch n.kind {
	case "lit":
		sb.WriteString(litTok(n.lit, r) + comma + rules(n, mark, r))
	case "any":
		sb.WriteString([]string{"1", `"z"`, "null", "true", "{}", "[]", "1.5", "[ ]", "{ }"}[r.Intn(9)] + comma + rules(n, mark, r))
	case "arr":
		if len(n.items) == 0 {
			sb.WriteString("[]" + comma + rules(n, mark, r))
			return
		}
		sb.WriteString("[" + rules(n, mark, r) + "\n")
		for i, it := range n.items {
			sb.WriteString(ind + "  ")
			c := ","
			if i == len(n.items)-1 {
				c = ""
			}
			print(sb, it, 0, ind+"  ", c, r)
			sb.WriteString("\n")
		}
		sb.WriteString(ind + "]" + comma)
	case "obj":
		if len(n.props) == 0 {
			sb.WriteString("{}" + comma + rules(n, mark, r))
			return
		}
		sb.WriteString("{" + rules(n, mark, r) + "\n")
		for i, p := range n.props {
			sb.WriteString(ind + "  " + spell(keyPool[p.key], r) + ": ")
			c := ","
			if i == len(n.props)-1 {
				c = ""
			}
			print(sb, p.val, p.mark, ind+"  ", c, r)
			sb.WriteString("\n")
		}
		sb.WriteString(ind + "}" + comma)
	}
}

func sx(n *node, optDefault bool) string {
	var body string
	switch n.kind {
	case "lit":
		nul := "0"
		if n.nullable {
			nul = "1"
		}
		return "(lit " + n.lit + " " + nul + ")"
	case "any":
		return "(any)"
	case "arr":
		var sb strings.Builder
		sb.WriteString("(arr")
		for _, it := range n.items {
			sb.WriteString(" " + sx(it, optDefault))
		}
		sb.WriteString(")")
		body = sb.String()
	case "obj":
		var sb strings.Builder
		sb.WriteString("(obj")
		for _, p := range n.props {
			req := "1"
			if p.mark == 1 || (p.mark == 0 && optDefault) {
				req = "0"
			}
			sb.WriteString(" (P " + keyAtom(p.key) + " " + req + " " + sx(p.val, optDefault) + ")")
		}
		sb.WriteString(")")
		body = sb.String()
	}
	if n.nullable {
		return "(alt " + body + " (lit n 1))"
	}
	return body
}

// sample an inhabitant (mostly) of the node
func sample(r *rand.Rand, n *node, optDefault bool, mut int) *doc {
	if mut > 0 && r.Intn(100) < mut {
		return randomDoc(r, 2)
	}
	if n.nullable && r.Intn(4) == 0 {
		return &doc{kind: "l", lit: "n"}
	}
	switch n.kind {
	case "lit":
		k := n.lit
		if k == "f" && r.Intn(3) == 0 {
			k = "i"
		}
		return &doc{kind: "l", lit: k}
	case "any":
		return randomDoc(r, 2)
	case "arr":
		d := &doc{kind: "a"}
		if len(n.items) == 0 {
			return d
		}
		cnt := r.Intn(len(n.items) + 3)
		for i := 0; i < cnt; i++ {
			j := i
			if j >= len(n.items) {
				j = len(n.items) - 1
			}
			d.items = append(d.items, sample(r, n.items[j], optDefault, mut))
		}
		return d
	default:
		d := &doc{kind: "o"}
		for _, p := range n.props {
			opt := p.mark == 1 || (p.mark == 0 && optDefault)
			if opt && r.Intn(2) == 0 {
				continue
			}
			if mut > 0 && r.Intn(100) < mut/2 {
				continue // drop a key
			}
			d.keys = append(d.keys, p.key)
			d.items = append(d.items, sample(r, p.val, optDefault, mut))
			if mut > 0 && r.Intn(100) < mut/3 { // repeat a key
				d.keys = append(d.keys, p.key)
				d.items = append(d.items, sample(r, p.val, optDefault, mut))
			}
		}
		if mut > 0 && r.Intn(100) < mut/2 { // add a key
			d.keys = append(d.keys, r.Intn(nBase))
			d.items = append(d.items, randomDoc(r, 1))
		}
		r.Shuffle(len(d.keys), func(i, j int) {
			d.keys[i], d.keys[j] = d.keys[j], d.keys[i]
			d.items[i], d.items[j] = d.items[j], d.items[i]
		})
		return d
	}
}

func randomDoc(r *rand.Rand, depth int) *doc {
	k := r.Intn(8)
	if depth <= 0 && k >= 5 {
		k = r.Intn(5)
	}
	switch {
	case k < 5:
		return &doc{kind: "l", lit: kinds[k]}
	case k < 7:
		d := &doc{kind: "a"}
		for i := r.Intn(3); i > 0; i-- {
			d.items = append(d.items, randomDoc(r, depth-1))
		}
		return d
	default:
		d := &doc{kind: "o"}
		for i := r.Intn(3); i > 0; i-- {
			d.keys = append(d.keys, r.Intn(5))
			d.items = append(d.items, randomDoc(r, depth-1))
		}
		return d
	}
}

func docText(d *doc, r *rand.Rand) string {
	switch d.kind {
	case "l":
		return litTok(d.lit, r)
	case "a":
		parts := make([]string, len(d.items))
		for i, it := range d.items {
			parts[i] = docText(it, r)
		}
		return "[" + strings.Join(parts, ", ") + "]"
	default:
		parts := make([]string, len(d.items))
		for i, it := range d.items {
			parts[i] = spell(keyPool[d.keys[i]], r) + `: ` + docText(it, r)
		}
		return "{" + strings.Join(parts, ",") + "}"
	}
}

func docSx(d *doc) string {
	switch d.kind {
	case "l":
		return "(l " + d.lit + ")"
	case "a":
		var sb strings.Builder
		sb.WriteString("(a")
		for _, it := range d.items {
			sb.WriteString(" " + docSx(it))
		}
		return sb.String() + ")"
	default:
		var sb strings.Builder
		sb.WriteString("(o")
		for i, it := range d.items {
			sb.WriteString(" (m " + keyAtom(d.keys[i]) + " " + docSx(it) + ")")
		}
		return sb.String() + ")"
	}
}

// ---- WIDE stream: the statement quantifies over EVERY key of the example and EVERY array position, whatever their number.
// Objects with w properties and example arrays with w elements for widths around powers of two (word sizes, small-table
// limits), documents that are the full inhabitant with ONE key dropped / one element of the wrong kind at every
// boundary index, one key added, longer arrays governed by the last element.
var widths = []int{5, 17, 31, 32, 33, 63, 64, 65, 66, 100, 127, 128, 129, 130, 255, 256, 257, 300}

func boundaryIdx(w int) []int {
	seen := map[int]bool{}
	var out []int
	for _, i := range []int{0, 1, 7, 8, 15, 16, 30, 31, 32, 33, 62, 63, 64, 65, 66, 126, 127, 128, 129, 254, 255, 256, w / 2, w - 2, w - 1} {
		if i >= 0 && i < w && !seen[i] {
			seen[i] = true
			out = append(out, i)
		}
	}
	return out
}

func wideObject(r *rand.Rand, w int, marks int) *node {
	n := &node{kind: "obj"}
	for i := 0; i < w; i++ {
		mark := 0
		switch marks {
		case 1: // every key explicitly optional: false
			mark = 2
		case 2: // mixed
			mark = r.Intn(3)
		}
		n.props = append(n.props, &prop{key: nBase + i, mark: mark, val: &node{kind: "lit", lit: kinds[r.Intn(4)]}})
	}
	return n
}

func wideArray(r *rand.Rand, w int) *node {
	n := &node{kind: "arr"}
	for i := 0; i < w; i++ {
		n.items = append(n.items, &node{kind: "lit", lit: kinds[(i+r.Intn(2))%4]})
	}
	return n
}

// full inhabitant, deterministic (no optional key left out)
func full(n *node) *doc {
	switch n.kind {
	case "lit":
		return &doc{kind: "l", lit: n.lit}
	case "arr":
		d := &doc{kind: "a"}
		for _, it := range n.items {
			d.items = append(d.items, full(it))
		}
		return d
	default:
		d := &doc{kind: "o"}
		for _, p := range n.props {
			d.keys = append(d.keys, p.key)
			d.items = append(d.items, full(p.val))
		}
		return d
	}
}

func otherKind(k string) string {
	if k == "s" {
		return "b"
	}
	return "s"
}

// variants of the full inhabitant of a wide node (the node may sit under `wrap` levels of arrays / objects)
func wideDocs(r *rand.Rand, n *node) []*doc {
	var out []*doc
	base := full(n)
	out = append(out, base)
	clone := func() *doc {
		c := &doc{kind: base.kind, keys: append([]int{}, base.keys...), items: append([]*doc{}, base.items...)}
		return c
	}
	w := len(base.items)
	for _, i := range boundaryIdx(w) {
		// drop position i
		c := clone()
		c.items = append(c.items[:i:i], c.items[i+1:]...)
		if base.kind == "o" {
			c.keys = append(c.keys[:i:i], c.keys[i+1:]...)
		}
		out = append(out, c)
		// wrong kind at position i
		c = clone()
		c.items[i] = &doc{kind: "l", lit: otherKind(base.items[i].lit)}
		out = append(out, c)
	}
	if base.kind == "o" {
		c := clone() // one unknown key
		c.keys = append(c.keys, nBase+w+3)
		c.items = append(c.items, &doc{kind: "l", lit: "i"})
		out = append(out, c)
		c = clone() // reversed order
		for i, j := 0, w-1; i < j; i, j = i+1, j-1 {
			c.keys[i], c.keys[j] = c.keys[j], c.keys[i]
			c.items[i], c.items[j] = c.items[j], c.items[i]
		}
		out = append(out, c)
		c = clone() // shuffled
		r.Shuffle(w, func(i, j int) {
			c.keys[i], c.keys[j] = c.keys[j], c.keys[i]
			c.items[i], c.items[j] = c.items[j], c.items[i]
		})
		out = append(out, c)
	} else {
		last := base.items[w-1]
		for _, extra := range []int{1, 2, 70} { // positions past the example: the last element governs
			c := clone()
			for k := 0; k < extra; k++ {
				c.items = append(c.items, last)
			}
			out = append(out, c)
			c2 := &doc{kind: "a", items: append([]*doc{}, c.items...)}
			c2.items[len(c2.items)-1] = &doc{kind: "l", lit: otherKind(last.lit)}
			out = append(out, c2)
		}
	}
	return out
}

type wideCase struct {
	n          *node
	docs       []*doc
	optDefault bool
}

func wideCases(r *rand.Rand) []wideCase {
	var out []wideCase
	for _, w := range widths {
		for marks := 0; marks < 3; marks++ {
			for _, optDefault := range []bool{false, true} {
				if marks == 0 && optDefault {
					continue // nothing required: covered by marks 1 / 2
				}
				o := wideObject(r, w, marks)
				out = append(out, wideCase{o, wideDocs(r, o), optDefault})
				// the same object as the only element of an array, and as a property value
				wrapA := &node{kind: "arr", items: []*node{o}}
				var da []*doc
				for _, d := range wideDocs(r, o) {
					da = append(da, &doc{kind: "a", items: []*doc{d, d}})
				}
				out = append(out, wideCase{wrapA, da, optDefault})
			}
		}
		a := wideArray(r, w)
		out = append(out, wideCase{a, wideDocs(r, a), false})
		wrapO := &node{kind: "obj", props: []*prop{{key: 0, mark: 0, val: a}}}
		var do []*doc
		for _, d := range wideDocs(r, a) {
			do = append(do, &doc{kind: "o", keys: []int{0}, items: []*doc{d}})
		}
		out = append(out, wideCase{wrapO, do, false})
	}
	return out
}

func depthOf(n *node) int {
	m := 0
	for _, it := range n.items {
		if d := depthOf(it); d > m {
			m = d
		}
	}
	for _, p := range n.props {
		if d := depthOf(p.val); d > m {
			m = d
		}
	}
	return m + 1
}

func Run(args []string) {
	rep := vh.NewReport("c01-shape", "schemas of the rule-free fragment (scalars of 5 kinds, type any, arrays <=3, objects <=3 props with unmarked / optional:true / optional:false keys, nullable on scalars, containers and type-any nodes (also written out as nullable: false), type any over scalar and empty-container examples, rules in random order, key names from a pool of 15 decoded names incl. quotes, backslashes, control characters, non-ASCII and astral characters spelled in schema and document with random raw / short / \\uXXXX escapes, depth <= 5) x KeysAreOptionalByDefault on/off x documents (sampled inhabitants incl. int-for-float, null for nullable, extended arrays; mutated: dropped / added / repeated / reordered keys, kind swaps; unrelated); real Validate verdict vs Lean VN.validateT, VN.validate and spec VN.shape; nontrivial = schema of depth >= 2")
	r := vh.NewRand(101)
	nSchemas := vh.Pick(12000, 120000)
	var reqs, impl, inputs []string
	for i := 0; i < nSchemas; i++ {
		n := genNode(r, 1+r.Intn(5))
		optDefault := r.Intn(2) == 0
		var sb strings.Builder
		print(&sb, n, 0, "", "", r)
		text := sb.String()
		var s *jschema.Schema
		if optDefault {
			s = jschema.New("s", text, jschema.KeysAreOptionalByDefault())
		} else {
			s = jschema.New("s", text)
		}
		chk := vh.Recover(func() string {
			if err := s.Check(); err != nil {
				return "ERR " + err.Error()
			}
			return "OK"
		})
		if chk != "OK" {
			rep.Stat("check_failed")
			rep.AddDiff(vh.Diff{Component: "C01-check", Input: fmt.Sprintf("schema=%q optDefault=%v", text, optDefault), Impl: chk, Model: "a schema of the fragment must pass Check"})
			continue
		}
		schemaSx := sx(n, optDefault)
		for j := 0; j < 10; j++ {
			mut := []int{0, 0, 0, 10, 10, 25, 25, 50, 100, 100}[j]
			d := sample(r, n, optDefault, mut)
			dt := docText(d, r)
			verdict := vh.Recover(func() string {
				if err := s.Validate(jdoc.New("d", dt)); err != nil {
					return "000"
				}
				return "111"
			})
			if verdict == "111" {
				rep.Stat("accepted")
			} else {
				rep.Stat("rejected")
			}
			rep.Stat(fmt.Sprintf("mutation_%d", mut))
			reqs = append(reqs, "semn val "+schemaSx+" "+docSx(d))
			impl = append(impl, verdict)
			in := fmt.Sprintf("schema=%q optDefault=%v document=%q", text, optDefault, dt)
			inputs = append(inputs, in)
			rep.Case(schemaSx+" "+docSx(d), depthOf(n) >= 2)
		}
	}
	// FIRST-USE race: the verdict is a function of schema and document, not of which goroutine happens to use a fresh
	// schema object first: 8 goroutines validate (their own document objects) against ONE fresh, not yet compiled schema
	for i := vh.Pick(300, 3000); i > 0; i-- {
		n := genNode(r, 3+r.Intn(3))
		optDefault := r.Intn(2) == 0
		var sb strings.Builder
		print(&sb, n, 0, "", "", r)
		text := sb.String()
		mk := func() *jschema.Schema {
			if optDefault {
				return jschema.New("s", text, jschema.KeysAreOptionalByDefault())
			}
			return jschema.New("s", text)
		}
		docs := make([]string, 8)
		seq := make([]string, 8)
		ref := mk()
		for g := range docs {
			docs[g] = docText(sample(r, n, optDefault, []int{0, 0, 25, 100}[g%4]), r)
			g := g
			seq[g] = vh.Recover(func() string {
				if err := ref.Validate(jdoc.New("d", docs[g])); err != nil {
					return "REJ"
				}
				return "ACC"
			})
		}
		shared := mk()
		got := make([]string, 8)
		var wg sync.WaitGroup
		start := make(chan struct{})
		for g := range docs {
			wg.Add(1)
			go func(g int) {
				defer wg.Done()
				<-start
				got[g] = vh.Recover(func() string {
					if err := shared.Validate(jdoc.New("d", docs[g])); err != nil {
						return "REJ"
					}
					return "ACC"
				})
			}(g)
		}
		close(start)
		wg.Wait()
		rep.Stat("first_use_race")
		rep.Case("race:"+text, depthOf(n) >= 2)
		for g := range docs {
			if got[g] != seq[g] {
				rep.AddDiff(vh.Diff{Component: "C01-first-use-race", Input: fmt.Sprintf("schema=%q optDefault=%v document=%q: one of 8 goroutines validating against one FRESH schema object at once", text, optDefault, docs[g]),
					Impl: got[g], Model: "verdict of a sequential run on a fresh object: " + seq[g]})
				break
			}
		}
	}
	// WIDE stream
	for _, wc := range wideCases(r) {
		var sb strings.Builder
		print(&sb, wc.n, 0, "", "", r)
		text := sb.String()
		var s *jschema.Schema
		if wc.optDefault {
			s = jschema.New("s", text, jschema.KeysAreOptionalByDefault())
		} else {
			s = jschema.New("s", text)
		}
		chk := vh.Recover(func() string {
			if err := s.Check(); err != nil {
				return "ERR " + err.Error()
			}
			return "OK"
		})
		if chk != "OK" {
			rep.AddDiff(vh.Diff{Component: "C01-check", Input: fmt.Sprintf("schema=%q optDefault=%v", text, wc.optDefault), Impl: chk, Model: "a schema of the fragment must pass Check"})
			continue
		}
		schemaSx := sx(wc.n, wc.optDefault)
		for _, d := range wc.docs {
			dt := docText(d, r)
			verdict := vh.Recover(func() string {
				if err := s.Validate(jdoc.New("d", dt)); err != nil {
					return "000"
				}
				return "111"
			})
			rep.Stat("wide_cases")
			if verdict == "111" {
				rep.Stat("wide_accepted")
			} else {
				rep.Stat("wide_rejected")
			}
			reqs = append(reqs, "semn val "+schemaSx+" "+docSx(d))
			impl = append(impl, verdict)
			in := fmt.Sprintf("schema=%q optDefault=%v document=%q", text, wc.optDefault, dt)
			inputs = append(inputs, in)
			rep.Case(schemaSx+" "+docSx(d), true)
		}
	}
	rep.Compare(reqs, impl, inputs, 16)
	rep.Finish()
}
