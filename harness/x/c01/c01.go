// Package c01: rule-free fragment (optional / nullable / type "any"), both key-optionality
// configurations; real Validate vs the Lean models VN.validateT / VN.validate and the spec VN.shape.
package c01

import (
	"fmt"
	"math/rand"
	"regexp"
	"strconv"
	"strings"
	"sync"

	jlib "github.com/jsightapi/jsight-schema-go-library"
	jdoc "github.com/jsightapi/jsight-schema-go-library/formats/json"
	"github.com/jsightapi/jsight-schema-go-library/notations/jschema"

	"verifharness/vh"
)

type node struct {
	kind     string // lit any arr obj
	lit      string // i f s b n
	tok      string // example token of a lit node, drawn when the schema text is printed
	nullable bool
	nulFalse bool // `nullable: false` written out (inert)
	items    []*node
	props    []*prop
}
type prop struct {
	key  int // index into keyPool
	mark int // 0 unmarked, 1 optional:true, 2 optional:false
	val  *node
}
type doc struct {
	kind  string // l a o
	lit   string
	items []*doc
	keys  []int
}

var kinds = []string{"i", "f", "s", "b", "n"}

// decoded key names: the Lean side sees the atom k<index>; the texts spell the name with a random mix of raw bytes,
// short escapes and \uXXXX escapes (the property: keys are compared after decoding)
var keyPool = []string{"a", "b", "c", "d", "zz", "a\"b", "a\\b", "line\nbreak", "tab\t", "\u00e9t\u00e9", "sl/ash", " ", "A", "\U0001F600k", "a\u0001",
	// DEGENERATE names (from degFirst on): a property name is an arbitrary JSON string. The empty string; strings that
	// consist of ONE character which the scanners treat specially (quote, backslash, NUL, slash, apostrophe, DEL, the
	// last control character); names that read like another token of the schema language or of JSON (a number, a
	// literal, punctuation, a comment opener, an annotation, a rule name, a type reference); names that differ from
	// another name of the pool only by case, by a trailing blank or by a NUL
	"", "\"", "\\", "\u0000", "/", "'", "\u007f", "\u001f", "0", "-1.5", "null", "true", ":", ",", "{", "}", "[]", "//", "#", "/*",
	"// {optional: true}", "optional", "@a", "a ", "a\u0000", "B", "\\u0061", "\\\"", "  "}

// degFirst: index of the first degenerate name
const degFirst = 15

// the first nBase names are the pool of the random generator; the names after them (w000, w001, …) exist only for the
// WIDE stream (objects with many properties)
const nBase = 44

func init() {
	if len(keyPool) != nBase {
		panic(fmt.Sprintf("generator: key pool has %d names, nBase = %d", len(keyPool), nBase))
	}
	seen := map[string]bool{}
	for _, k := range keyPool {
		if seen[k] {
			panic(fmt.Sprintf("generator: name %q twice in the key pool", k))
		}
		seen[k] = true
	}
	for i := 0; i < 600; i++ {
		keyPool = append(keyPool, fmt.Sprintf("w%03d", i))
	}
}

func keyAtom(i int) string { return fmt.Sprintf("k%d", i) }

// spell a decoded name as a JSON string literal
func spell(name string, r *rand.Rand) string {
	var sb strings.Builder
	sb.WriteByte('"')
	mode := r.Intn(4) // 0: minimal escapes, 1: everything as \u, 2/3: mixed
	for _, c := range name {
		esc := mode == 1 || (mode >= 2 && r.Intn(3) == 0)
		switch {
		case c == '"' && !esc:
			sb.WriteString("\\\"")
		case c == '\\' && !esc:
			sb.WriteString("\\\\")
		case c == '\n' && !esc:
			sb.WriteString("\\n")
		case c == '\t' && !esc:
			sb.WriteString("\\t")
		case c == '\r' && !esc:
			sb.WriteString("\\r")
		case c == '\b' && !esc:
			sb.WriteString("\\b")
		case c == '\f' && !esc:
			sb.WriteString("\\f")
		case c == '/' && !esc && mode == 2:
			sb.WriteString("\\/")
		case c < 0x20 || esc:
			if c > 0xffff {
				c -= 0x10000
				fmt.Fprintf(&sb, "\\u%04x\\u%04X", 0xd800+(c>>10), 0xdc00+(c&0x3ff))
			} else if r.Intn(2) == 0 {
				fmt.Fprintf(&sb, "\\u%04x", c)
			} else {
				fmt.Fprintf(&sb, "\\u%04X", c)
			}
		default:
			sb.WriteRune(c)
		}
	}
	sb.WriteByte('"')
	return sb.String()
}

func genNode(r *rand.Rand, depth int) *node {
	k := r.Intn(20)
	if depth <= 0 && k >= 9 {
		k = r.Intn(9)
	}
	switch {
	case k <= 6:
		n := &node{kind: "lit", lit: kinds[r.Intn(5)], nullable: r.Intn(4) == 0}
		n.nulFalse = !n.nullable && r.Intn(5) == 0
		return n
	case k <= 8:
		return &node{kind: "any", nullable: r.Intn(3) == 0}
	case k <= 13:
		n := &node{kind: "arr", nullable: r.Intn(5) == 0}
		n.nulFalse = !n.nullable && r.Intn(6) == 0
		for i := r.Intn(4); i > 0; i-- {
			n.items = append(n.items, genNode(r, depth-1))
		}
		return n
	default:
		n := &node{kind: "obj", nullable: r.Intn(5) == 0}
		n.nulFalse = !n.nullable && r.Intn(6) == 0
		cnt := r.Intn(4)
		perm := r.Perm(nBase)
		switch r.Intn(4) {
		case 0, 1: // plain names half of the time
			perm = r.Perm(4)
		case 2: // degenerate names only
			perm = r.Perm(nBase - degFirst)
			for i := range perm {
				perm[i] += degFirst
			}
		}
		for i := 0; i < cnt; i++ {
			n.props = append(n.props, &prop{key: perm[i], mark: r.Intn(3), val: genNode(r, depth-1)})
		}
		return n
	}
}

// ---- scalar spellings. The statement quantifies over all DOCUMENTS, i.e. over every RFC 8259 spelling of a scalar; the
// Lean request only carries the KIND of a literal, so the kind of every numeral is computed here from its text by exact
// decimal arithmetic on the digit strings (numKind; no floating point), independently of how the token was built.

// numKind: the kind of an RFC 8259 numeral. Reading (the one the unchanged tree satisfies, AGENT_BRIEF "observations
// that are not defects": `1.0` is a float, `2.3e+1` an integer): a numeral written with a fraction and WITHOUT an exponent
// is a float whatever its digits; every other numeral is an integer iff its VALUE is integral (C10: the normalised decimal
// expansion has no fractional digit), whatever the spelling: 25 = 2.5E+1 = 25e0 = 250E-1 = 0.25e2 = 25.0e0.
func numKind(t string) string {
	s := strings.TrimPrefix(t, "-")
	mant, hasExp, e := s, false, 0
	if i := strings.IndexAny(s, "eE"); i >= 0 {
		v, err := strconv.Atoi(s[i+1:])
		if err != nil {
			panic("generator: bad exponent in " + t)
		}
		mant, hasExp, e = s[:i], true, v
	}
	ip, fp, hasDot := mant, "", false
	if i := strings.IndexByte(mant, '.'); i >= 0 {
		ip, fp, hasDot = mant[:i], mant[i+1:], true
	}
	if ip == "" || (hasDot && fp == "") || strings.Trim(ip+fp, "0123456789") != "" || (len(ip) > 1 && ip[0] == '0') {
		panic("generator: not an RFC 8259 numeral: " + t)
	}
	if ip == "0" && !hasDot && hasExp {
		panic("generator: numeral of the class K-C10-zeroexp (must not be generated): " + t)
	}
	if hasDot && !hasExp {
		return "f"
	}
	digits := ip + fp
	sig := strings.TrimRight(digits, "0")
	if sig == "" {
		return "i" // zero
	}
	// value = digits * 10^(e - len(fp)); integral iff the trailing zeros of the digit string cover the negative power
	if len(fp)-e <= len(digits)-len(sig) {
		return "i"
	}
	return "f"
}

// randDigits: n decimal digits, the first one not 0; the last one not 0 either if noTrailingZero
func randDigits(r *rand.Rand, n int, noTrailingZero bool) string {
	b := make([]byte, n)
	for i := range b {
		b[i] = byte('0' + r.Intn(10))
	}
	if b[0] == '0' {
		b[0] = byte('1' + r.Intn(9))
	}
	if noTrailingZero && b[n-1] == '0' {
		b[n-1] = byte('1' + r.Intn(9))
	}
	return string(b)
}

func digitCount(r *rand.Rand) int {
	if r.Intn(8) == 0 {
		return 4 + r.Intn(24)
	}
	return 1 + r.Intn(3)
}

// docNum: a document numeral whose kind is `want` (i / f), drawn over the RFC 8259 numeral space: a value m * 10^-scale
// (integral for i: zero, trailing zeros, up to 27 digits; with 1..3, rarely up to 12 fractional digits for f) spelled
// with an optional minus (also on zero), zeros appended to the fraction, and one time in two an exponent part (e / E,
// sign absent / + / -, also -0, optionally zero-padded digits, -5..5, sometimes up to +-40, rarely up to +-400) with the
// decimal point of the mantissa moved accordingly. One float in five is an integral value written with a plain
// fraction (1.0, -0.00, 250.0). A zero integer part directly followed by an exponent (K-C10-zeroexp) is never produced:
// a zero mantissa before an exponent always carries a fraction (0.0e3).
func docNum(r *rand.Rand, want string) string {
	m, scale, pad := "0", 0, 0
	useExp := r.Intn(2) == 0
	switch {
	case want == "i":
		if r.Intn(6) != 0 {
			m = randDigits(r, digitCount(r), false)
		}
	case r.Intn(5) == 0: // integral value, plain fraction
		if r.Intn(4) != 0 {
			m = randDigits(r, digitCount(r), false)
		}
		useExp = false
		pad = 1 + r.Intn(3)
	default:
		m = randDigits(r, digitCount(r), true)
		scale = 1 + r.Intn(3)
		if r.Intn(10) == 0 {
			scale = 4 + r.Intn(9)
		}
	}
	if pad == 0 && (useExp || want == "f") && r.Intn(4) == 0 {
		pad = 1 + r.Intn(2)
	}
	e := 0
	if useExp {
		switch k := r.Intn(40); {
		case k == 0:
			e = r.Intn(801) - 400
		case k < 5:
			e = r.Intn(81) - 40
		default:
			e = r.Intn(11) - 5
		}
	}
	s2 := scale + pad + e // fractional digits of the mantissa
	ip, fp := "0", ""
	switch {
	case m == "0":
		if s2 > 0 {
			fp = strings.Repeat("0", s2)
		}
		if useExp && fp == "" {
			fp = strings.Repeat("0", 1+r.Intn(2))
		}
	case s2 <= 0:
		ip = m + strings.Repeat("0", pad-s2)
	default:
		d := m + strings.Repeat("0", pad)
		if len(d) <= s2 {
			d = strings.Repeat("0", s2-len(d)+1) + d
		}
		ip, fp = d[:len(d)-s2], d[len(d)-s2:]
	}
	t := ip
	if r.Intn(3) == 0 {
		t = "-" + t
	}
	if fp != "" {
		t += "." + fp
	}
	if useExp {
		t += string("eE"[r.Intn(2)])
		a := e
		switch {
		case e < 0:
			t += "-"
			a = -e
		case e == 0 && r.Intn(3) == 0:
			t += "-"
		case r.Intn(3) == 0:
			t += "+"
		}
		if r.Intn(6) == 0 {
			t += strings.Repeat("0", 1+r.Intn(2))
		}
		t += strconv.Itoa(a)
	}
	return t
}

// exNum: an example numeral of the schema text. The schema language has no exponent there (lexical error 301), so:
// integers with optional minus (also -0) of 1..3, rarely up to 27 digits; floats with 1..4, rarely up to 15 fraction
// digits, any digits (trailing zeros, an all-zero fraction: a plain fraction makes a float).
func exNum(r *rand.Rand, want string) string {
	t := "0"
	if r.Intn(6) != 0 {
		t = randDigits(r, digitCount(r), false)
	}
	if r.Intn(3) == 0 {
		t = "-" + t
	}
	if want == "f" {
		n := 1 + r.Intn(4)
		if r.Intn(10) == 0 {
			n = 5 + r.Intn(11)
		}
		b := make([]byte, n)
		for i := range b {
			b[i] = byte('0' + r.Intn(10))
		}
		if r.Intn(4) == 0 {
			b[n-1] = '0'
		}
		if r.Intn(8) == 0 {
			b = []byte(strings.Repeat("0", n))
		}
		t += "." + string(b)
	}
	return t
}

// decoded string values; spelled by `spell` with every escape form of RFC 8259 (raw bytes incl. multi-byte UTF-8, the
// short escapes \" \\ \/ \b \f \n \r \t, \uXXXX in either hex case, surrogate pairs). The pool holds the empty string,
// every character that has a short escape, control characters that only \u can spell, and strings whose content reads
// like a JSON value of another kind, like a rule annotation, a comment or a type name.
var strPool = []string{"x", "", "a b", "\"", "\\", "/", "\b", "\f", "\n", "\r", "\t", "\b\f\n\r\t\"\\/", "a\"b\\c/d", "\u0000", "\u001f\u007f",
	"é", "€", "\U0001F600", "x\U0001F600éy", "1", "-0", "1.5", "2.5E+1", "true", "false", "null", "{}", "[]", "[1, 2]", "{\"a\": 1}",
	"\\n", "\\u0041", "u0041", "@t", "a // {optional: true}", "// {nullable: true}", "# c", "/* c */", "a,b", ":", " ", "  x  ", "e", "E"}

func strTok(r *rand.Rand) string {
	if r.Intn(3) == 0 {
		return []string{`"x"`, `""`, `"a b"`}[r.Intn(3)]
	}
	return spell(strPool[r.Intn(len(strPool))], r)
}

// exTok: the example token of a schema scalar of kind k
func exTok(k string, r *rand.Rand) string {
	switch k {
	case "i", "f":
		if r.Intn(3) == 0 {
			return map[string][]string{"i": {"1", "0", "-12", "7"}, "f": {"1.5", "-0.25", "2.5"}}[k][r.Intn(3)]
		}
		return exNum(r, k)
	case "s":
		return strTok(r)
	case "b":
		return []string{"true", "false"}[r.Intn(2)]
	}
	return "null"
}

// docTok: a document token meant to have kind k, and the kind it has (numerals: computed from the text by numKind)
func docTok(k string, r *rand.Rand) (string, string) {
	switch k {
	case "i", "f":
		t := docNum(r, k)
		return t, numKind(t)
	case "s":
		return strTok(r), "s"
	case "b":
		return []string{"true", "false"}[r.Intn(2)], "b"
	}
	return "null", "n"
}

// rules of a node as annotation text ("" if none)
func rules(n *node, mark int, r *rand.Rand) string {
	var rs []string
	if mark == 1 {
		rs = append(rs, "optional: true")
	} else if mark == 2 {
		rs = append(rs, "optional: false")
	}
	if n.kind == "any" {
		rs = append(rs, `type: "any"`)
	}
	if n.nullable {
		rs = append(rs, "nullable: true")
	} else if n.nulFalse {
		rs = append(rs, "nullable: false")
	}
	if len(rs) == 0 {
		return ""
	}
	r.Shuffle(len(rs), func(i, j int) { rs[i], rs[j] = rs[j], rs[i] })
	return " // {" + strings.Join(rs, ", ") + "}"
}

// print writes the node; `after` is what must follow the value on its first line (a comma), placed before the annotation.
func print(sb *strings.Builder, n *node, mark int, ind string, comma string, r *rand.Rand) {
	switch n.kind {
	case "lit":
		n.tok = exTok(n.lit, r)
		if (n.lit == "i" || n.lit == "f") && numKind(n.tok) != n.lit { // the request carries the kind computed from the text
			panic("generator: example numeral " + n.tok + " is not of kind " + n.lit)
		}
		sb.WriteString(n.tok + comma + rules(n, mark, r))
	case "any":
		ex := []string{"1", `"z"`, "null", "true", "{}", "[]", "1.5", "[ ]", "{ }"}[r.Intn(9)]
		if r.Intn(2) == 0 {
			ex = exTok(kinds[r.Intn(5)], r)
		}
		sb.WriteString(ex + comma + rules(n, mark, r))
	case "arr":
		if len(n.items) == 0 {
			sb.WriteString("[]" + comma + rules(n, mark, r))
			return
		}
		sb.WriteString("[" + rules(n, mark, r) + "\n")
		for i, it := range n.items {
			sb.WriteString(ind + "  ")
			c := ","
			if i == len(n.items)-1 {
				c = ""
			}
			print(sb, it, 0, ind+"  ", c, r)
			sb.WriteString("\n")
		}
		sb.WriteString(ind + "]" + comma)
	case "obj":
		if len(n.props) == 0 {
			sb.WriteString("{}" + comma + rules(n, mark, r))
			return
		}
		sb.WriteString("{" + rules(n, mark, r) + "\n")
		for i, p := range n.props {
			sb.WriteString(ind + "  " + spell(keyPool[p.key], r) + ": ")
			c := ","
			if i == len(n.props)-1 {
				c = ""
			}
			print(sb, p.val, p.mark, ind+"  ", c, r)
			sb.WriteString("\n")
		}
		sb.WriteString(ind + "}" + comma)
	}
}

func sx(n *node, optDefault bool) string {
	var body string
	switch n.kind {
	case "lit":
		nul := "0"
		if n.nullable {
			nul = "1"
		}
		return "(lit " + n.lit + " " + nul + ")"
	case "any":
		return "(any)"
	case "arr":
		var sb strings.Builder
		sb.WriteString("(arr")
		for _, it := range n.items {
			sb.WriteString(" " + sx(it, optDefault))
		}
		sb.WriteString(")")
		body = sb.String()
	case "obj":
		var sb strings.Builder
		sb.WriteString("(obj")
		for _, p := range n.props {
			req := "1"
			if p.mark == 1 || (p.mark == 0 && optDefault) {
				req = "0"
			}
			sb.WriteString(" (P " + keyAtom(p.key) + " " + req + " " + sx(p.val, optDefault) + ")")
		}
		sb.WriteString(")")
		body = sb.String()
	}
	if n.nullable {
		return "(alt " + body + " (lit n 1))"
	}
	return body
}

// sample an inhabitant (mostly) of the node
func sample(r *rand.Rand, n *node, optDefault bool, mut int) *doc {
	if mut > 0 && r.Intn(100) < mut {
		return randomDoc(r, 2)
	}
	if n.nullable && r.Intn(4) == 0 {
		return &doc{kind: "l", lit: "n"}
	}
	switch n.kind {
	case "lit":
		k := n.lit
		if k == "f" && r.Intn(3) == 0 {
			k = "i"
		}
		return &doc{kind: "l", lit: k}
	case "any":
		return randomDoc(r, 2)
	case "arr":
		d := &doc{kind: "a"}
		if len(n.items) == 0 {
			return d
		}
		cnt := r.Intn(len(n.items) + 3)
		for i := 0; i < cnt; i++ {
			j := i
			if j >= len(n.items) {
				j = len(n.items) - 1
			}
			d.items = append(d.items, sample(r, n.items[j], optDefault, mut))
		}
		return d
	default:
		d := &doc{kind: "o"}
		for _, p := range n.props {
			opt := p.mark == 1 || (p.mark == 0 && optDefault)
			if opt && r.Intn(2) == 0 {
				continue
			}
			if mut > 0 && r.Intn(100) < mut/2 {
				continue // drop a key
			}
			d.keys = append(d.keys, p.key)
			d.items = append(d.items, sample(r, p.val, optDefault, mut))
			if mut > 0 && r.Intn(100) < mut/3 { // repeat a key
				d.keys = append(d.keys, p.key)
				d.items = append(d.items, sample(r, p.val, optDefault, mut))
			}
		}
		if mut > 0 && r.Intn(100) < mut/2 { // add a key
			d.keys = append(d.keys, r.Intn(nBase))
			d.items = append(d.items, randomDoc(r, 1))
		}
		r.Shuffle(len(d.keys), func(i, j int) {
			d.keys[i], d.keys[j] = d.keys[j], d.keys[i]
			d.items[i], d.items[j] = d.items[j], d.items[i]
		})
		return d
	}
}

func randomDoc(r *rand.Rand, depth int) *doc {
	k := r.Intn(8)
	if depth <= 0 && k >= 5 {
		k = r.Intn(5)
	}
	switch {
	case k < 5:
		return &doc{kind: "l", lit: kinds[k]}
	case k < 7:
		d := &doc{kind: "a"}
		for i := r.Intn(3); i > 0; i-- {
			d.items = append(d.items, randomDoc(r, depth-1))
		}
		return d
	default:
		d := &doc{kind: "o"}
		for i := r.Intn(3); i > 0; i-- {
			k := r.Intn(5)
			if r.Intn(4) == 0 {
				k = r.Intn(nBase)
			}
			d.keys = append(d.keys, k)
			d.items = append(d.items, randomDoc(r, depth-1))
		}
		return d
	}
}

// render: the text of the document and its S-expression, in one pass: every scalar draws its own spelling (a doc node
// that occurs twice is spelled twice) and the S-expression carries the kind computed from that spelling.
func render(d *doc, r *rand.Rand) (string, string) {
	switch d.kind {
	case "l":
		t, k := docTok(d.lit, r)
		return t, "(l " + k + ")"
	case "a":
		parts := make([]string, len(d.items))
		var sb strings.Builder
		sb.WriteString("(a")
		for i, it := range d.items {
			var x string
			parts[i], x = render(it, r)
			sb.WriteString(" " + x)
		}
		return "[" + strings.Join(parts, ", ") + "]", sb.String() + ")"
	default:
		parts := make([]string, len(d.items))
		var sb strings.Builder
		sb.WriteString("(o")
		for i, it := range d.items {
			t, x := render(it, r)
			parts[i] = spell(keyPool[d.keys[i]], r) + `: ` + t
			sb.WriteString(" (m " + keyAtom(d.keys[i]) + " " + x + ")")
		}
		return "{" + strings.Join(parts, ",") + "}", sb.String() + ")"
	}
}

// ---- document HISTORY. The verdict is a function of the schema and of the document TEXT; the document OBJECT handed
// to Validate may have been used before. What the caller may have done with it (formats/json: Document):
//   - created it with or without AllowTrailingNonSpaceCharacters (with the option the text may go on after the top-level
//     value: the document is the leading value, whatever follows it);
//   - asked Check() and Len(), in any order and number;
//   - read it: some NextLexeme() calls, a Validate against another schema or against the same schema (Validate reads
//     the document through NextLexeme and stops where it fails).
// Reading (the one the unchanged tree satisfies, and the one the library states at Check / Len: "we should rewind here
// in case we call NextLexeme method"): a document is a one-pass reader, Check() and Len() start from the beginning
// whatever has been read so far and leave the document at the beginning; both are memoised, so only the FIRST call of
// each reads anything. Hence the histories after which Validate must give the verdict of a fresh document are those
// in which every read is followed by a first call of Check() or of Len(): the generator draws operations at random and
// allows a read only while one of the two is still unused. A document that has been read and not reset this way (a
// second Validate of the same object, NextLexeme calls directly before Validate) is not required to give the
// verdict of the text, and is not generated.
type histOp struct {
	kind  string // next check len self other
	n     int    // next: number of calls; other: index into otherSchemas
	clean bool   // self: the document is at the beginning when the operation runs
}

// schemas a document may have been validated against before: accepting everything, rejecting at the first lexeme,
// rejecting somewhere inside
var otherSchemas = []string{"1 // {type: \"any\"}", "[]", "{}", "null", "[\n  [\n    1 // {type: \"any\"}\n  ]\n]", "{\n  \"a\": 1 // {type: \"any\"}\n}"}
var otherCompiled []*jschema.Schema

// trailing text after the top-level value (only under AllowTrailingNonSpaceCharacters)
var trailers = []string{" x", "\n}", " ]", "\t1", " {\"a\": 1}", "\n// {optional: true}", " ,", " \"", "\r\n[", "  nul"}

func genHistory(r *rand.Rand) []histOp {
	var ops []histOp
	usedC, usedL, dirty := false, false, false
	for i := 1 + r.Intn(5); i > 0; i-- {
		k := r.Intn(7)
		if k >= 4 && usedC && usedL {
			k = r.Intn(4) // nothing left to reset a read
		}
		switch {
		case k <= 1:
			ops = append(ops, histOp{kind: "check"})
			if !usedC {
				usedC, dirty = true, false
			}
		case k <= 3:
			ops = append(ops, histOp{kind: "len"})
			if !usedL {
				usedL, dirty = true, false
			}
		case k == 4:
			n := 1 + r.Intn(4)
			if r.Intn(5) == 0 {
				n = 10 + r.Intn(2000) // often past the end
			}
			ops = append(ops, histOp{kind: "next", n: n})
			dirty = true
		case k == 5:
			ops = append(ops, histOp{kind: "self", clean: !dirty})
			dirty = true
		default:
			ops = append(ops, histOp{kind: "other", n: r.Intn(len(otherSchemas))})
			dirty = true
		}
	}
	if dirty {
		c := usedL || (!usedC && r.Intn(2) == 0)
		if c {
			ops = append(ops, histOp{kind: "check"})
		} else {
			ops = append(ops, histOp{kind: "len"})
		}
		if r.Intn(3) == 0 { // and memoised calls after it
			ops = append(ops, histOp{kind: []string{"check", "len"}[r.Intn(2)]})
		}
	}
	return ops
}

type usage struct {
	allow   bool
	trailer string
	ops     []histOp
}

func genUsage(r *rand.Rand) usage {
	var u usage
	if r.Intn(3) == 0 {
		u.allow = true
		if r.Intn(2) == 0 {
			u.trailer = trailers[r.Intn(len(trailers))]
		}
	}
	if r.Intn(2) == 0 {
		u.ops = genHistory(r)
	}
	return u
}

// describe: the usage as Go-like text, for the Input of a diff ("" for a fresh document without options)
func (u usage) describe() string {
	if !u.allow && len(u.ops) == 0 {
		return ""
	}
	var parts []string
	if u.allow {
		parts = append(parts, fmt.Sprintf("d := json.New(document + %q, json.AllowTrailingNonSpaceCharacters())", u.trailer))
	} else {
		parts = append(parts, "d := json.New(document)")
	}
	for _, o := range u.ops {
		switch o.kind {
		case "check":
			parts = append(parts, "d.Check()")
		case "len":
			parts = append(parts, "d.Len()")
		case "next":
			parts = append(parts, fmt.Sprintf("%d x d.NextLexeme()", o.n))
		case "self":
			parts = append(parts, "schema.Validate(d)")
		case "other":
			parts = append(parts, fmt.Sprintf("jschema.New(%q).Validate(d)", otherSchemas[o.n]))
		}
	}
	return " usage=[" + strings.Join(parts, "; ") + "; verdict of schema.Validate(d)]"
}

func verdictOf(s *jschema.Schema, d jlib.Document) string {
	return vh.Recover(func() string {
		if err := s.Validate(d); err != nil {
			return "000"
		}
		return "111"
	})
}

// validate: the verdict of Validate on a document object with the given usage; `early` lists the verdicts of the
// Validate calls of the history that met the document at its beginning (they must be the verdict of the text as well)
func (u usage) validate(s *jschema.Schema, text string, rep *vh.Report) (verdict string, early []string) {
	var d jlib.Document
	if u.allow {
		d = jdoc.New("d", text+u.trailer, jdoc.AllowTrailingNonSpaceCharacters())
		rep.Stat("doc_allow_trailing")
		if u.trailer != "" {
			rep.Stat("doc_with_trailer")
		}
	} else {
		d = jdoc.New("d", text)
	}
	if len(u.ops) > 0 {
		rep.Stat("doc_with_history")
	}
	for _, o := range u.ops {
		rep.Stat("history_" + o.kind)
		switch o.kind {
		case "check":
			vh.Recover(func() string { _ = d.Check(); return "" })
		case "len":
			vh.Recover(func() string { _, _ = d.Len(); return "" })
		case "next":
			vh.Recover(func() string {
				for i := 0; i < o.n; i++ {
					_, _ = d.NextLexeme()
				}
				return ""
			})
		case "self":
			v := verdictOf(s, d)
			if o.clean {
				early = append(early, v)
			}
		case "other":
			verdictOf(otherCompiled[o.n], d)
		}
	}
	return verdictOf(s, d), early
}

var strRe = regexp.MustCompile(`"(\\.|[^"\\])*"`)
var numRe = regexp.MustCompile(`-?[0-9][0-9.eE+-]*`)

// numStats: distribution of the numeral spellings of a document text
func numStats(rep *vh.Report, text string) {
	for _, t := range numRe.FindAllString(strRe.ReplaceAllString(text, `""`), -1) {
		dot, exp := strings.Contains(t, "."), strings.ContainsAny(t, "eE")
		c := "num_" + numKind(t)
		switch {
		case dot && exp:
			c += "_fraction_exponent"
		case dot:
			c += "_fraction"
		case exp:
			c += "_exponent"
		default:
			c += "_plain"
		}
		rep.Stat(c)
		if strings.Contains(t, "E") {
			rep.Stat("num_upper_E")
		}
		if strings.Contains(t, "e") {
			rep.Stat("num_lower_e")
		}
		if strings.HasPrefix(strings.TrimPrefix(t, "-"), "0") && exp {
			rep.Stat("num_zero_int_part_fraction_exponent")
		}
	}
}

func docText(d *doc, r *rand.Rand) string {
	t, _ := render(d, r)
	return t
}

// ---- WIDE stream: the statement quantifies over EVERY key of the example and EVERY array position, whatever their number.
// Objects with w properties and example arrays with w elements for widths around powers of two (word sizes, small-table
// limits), documents that are the full inhabitant with ONE key dropped / one element of the wrong kind at every
// boundary index, one key added, longer arrays governed by the last element.
var widths = []int{5, 17, 31, 32, 33, 63, 64, 65, 66, 100, 127, 128, 129, 130, 255, 256, 257, 300}

func boundaryIdx(w int) []int {
	seen := map[int]bool{}
	var out []int
	for _, i := range []int{0, 1, 7, 8, 15, 16, 30, 31, 32, 33, 62, 63, 64, 65, 66, 126, 127, 128, 129, 254, 255, 256, w / 2, w - 2, w - 1} {
		if i >= 0 && i < w && !seen[i] {
			seen[i] = true
			out = append(out, i)
		}
	}
	return out
}

func wideObject(r *rand.Rand, w int, marks int) *node {
	n := &node{kind: "obj"}
	for i := 0; i < w; i++ {
		mark := 0
		switch marks {
		case 1: // every key explicitly optional: false
			mark = 2
		case 2: // mixed
			mark = r.Intn(3)
		}
		n.props = append(n.props, &prop{key: nBase + i, mark: mark, val: &node{kind: "lit", lit: kinds[r.Intn(4)]}})
	}
	return n
}

func wideArray(r *rand.Rand, w int) *node {
	n := &node{kind: "arr"}
	for i := 0; i < w; i++ {
		n.items = append(n.items, &node{kind: "lit", lit: kinds[(i+r.Intn(2))%4]})
	}
	return n
}

// full inhabitant, deterministic (no optional key left out)
func full(n *node) *doc {
	switch n.kind {
	case "lit":
		return &doc{kind: "l", lit: n.lit}
	case "arr":
		d := &doc{kind: "a"}
		for _, it := range n.items {
			d.items = append(d.items, full(it))
		}
		return d
	default:
		d := &doc{kind: "o"}
		for _, p := range n.props {
			d.keys = append(d.keys, p.key)
			d.items = append(d.items, full(p.val))
		}
		return d
	}
}

func otherKind(k string) string {
	if k == "s" {
		return "b"
	}
	return "s"
}

// variants of the full inhabitant of a wide node (the node may sit under `wrap` levels of arrays / objects)
func wideDocs(r *rand.Rand, n *node) []*doc {
	var out []*doc
	base := full(n)
	out = append(out, base)
	clone := func() *doc {
		c := &doc{kind: base.kind, keys: append([]int{}, base.keys...), items: append([]*doc{}, base.items...)}
		return c
	}
	w := len(base.items)
	for _, i := range boundaryIdx(w) {
		// drop position i
		c := clone()
		c.items = append(c.items[:i:i], c.items[i+1:]...)
		if base.kind == "o" {
			c.keys = append(c.keys[:i:i], c.keys[i+1:]...)
		}
		out = append(out, c)
		// wrong kind at position i
		c = clone()
		c.items[i] = &doc{kind: "l", lit: otherKind(base.items[i].lit)}
		out = append(out, c)
	}
	if base.kind == "o" {
		c := clone() // one unknown key
		c.keys = append(c.keys, nBase+w+3)
		c.items = append(c.items, &doc{kind: "l", lit: "i"})
		out = append(out, c)
		c = clone() // reversed order
		for i, j := 0, w-1; i < j; i, j = i+1, j-1 {
			c.keys[i], c.keys[j] = c.keys[j], c.keys[i]
			c.items[i], c.items[j] = c.items[j], c.items[i]
		}
		out = append(out, c)
		c = clone() // shuffled
		r.Shuffle(w, func(i, j int) {
			c.keys[i], c.keys[j] = c.keys[j], c.keys[i]
			c.items[i], c.items[j] = c.items[j], c.items[i]
		})
		out = append(out, c)
	} else {
		last := base.items[w-1]
		for _, extra := range []int{1, 2, 70} { // positions past the example: the last element governs
			c := clone()
			for k := 0; k < extra; k++ {
				c.items = append(c.items, last)
			}
			out = append(out, c)
			c2 := &doc{kind: "a", items: append([]*doc{}, c.items...)}
			c2.items[len(c2.items)-1] = &doc{kind: "l", lit: otherKind(last.lit)}
			out = append(out, c2)
		}
	}
	return out
}

type wideCase struct {
	n          *node
	docs       []*doc
	optDefault bool
	stream     string // "" = wide
}

func wideCases(r *rand.Rand) []wideCase {
	var out []wideCase
	for _, w := range widths {
		for marks := 0; marks < 3; marks++ {
			for _, optDefault := range []bool{false, true} {
				if marks == 0 && optDefault {
					continue // nothing required: covered by marks 1 / 2
				}
				o := wideObject(r, w, marks)
				out = append(out, wideCase{n: o, docs: wideDocs(r, o), optDefault: optDefault})
				// the same object as the only element of an array, and as a property value
				wrapA := &node{kind: "arr", items: []*node{o}}
				var da []*doc
				for _, d := range wideDocs(r, o) {
					da = append(da, &doc{kind: "a", items: []*doc{d, d}})
				}
				out = append(out, wideCase{n: wrapA, docs: da, optDefault: optDefault})
			}
		}
		a := wideArray(r, w)
		out = append(out, wideCase{n: a, docs: wideDocs(r, a), optDefault: false})
		wrapO := &node{kind: "obj", props: []*prop{{key: 0, mark: 0, val: a}}}
		var do []*doc
		for _, d := range wideDocs(r, a) {
			do = append(do, &doc{kind: "o", keys: []int{0}, items: []*doc{d}})
		}
		out = append(out, wideCase{n: wrapO, docs: do, optDefault: false})
	}
	return out
}

// ---- KEY-NAME stream: "every non-optional example key present and no key absent from the example" holds for EVERY
// property name, and a name plays no part in the verdict beyond being equal or different to another name. For every
// name of the pool x unmarked / optional: true / optional: false x both key-optionality configurations x four
// placements (root object; value of a property; element of an array; below a property of the same name and an array,
// depth 4): an object with that property and one more, and the documents full / properties swapped / the property
// missing / the other one missing / empty object / a third name added / only the third name / the property twice /
// wrong kind under the property.
func keyCases(r *rand.Rand) []wideCase {
	var out []wideCase
	for k := 0; k < nBase; k++ {
		for mark := 0; mark < 3; mark++ {
			for _, optDefault := range []bool{false, true} {
				for place := 0; place < 4; place++ {
					k2 := (k + 1 + r.Intn(nBase-1)) % nBase
					k3 := r.Intn(nBase)
					for k3 == k || k3 == k2 {
						k3 = r.Intn(nBase)
					}
					l1, l2 := kinds[r.Intn(4)], kinds[r.Intn(4)]
					obj := &node{kind: "obj", props: []*prop{{key: k, mark: mark, val: &node{kind: "lit", lit: l1}}, {key: k2, mark: r.Intn(3), val: &node{kind: "lit", lit: l2}}}}
					if r.Intn(2) == 0 {
						obj.props[0], obj.props[1] = obj.props[1], obj.props[0]
					}
					v1, v2, v3 := &doc{kind: "l", lit: l1}, &doc{kind: "l", lit: l2}, &doc{kind: "l", lit: kinds[r.Intn(5)]}
					o := func(keys []int, items ...*doc) *doc { return &doc{kind: "o", keys: keys, items: items} }
					docs := []*doc{
						o([]int{k, k2}, v1, v2),
						o([]int{k2, k}, v2, v1),
						o([]int{k2}, v2),
						o([]int{k}, v1),
						o(nil),
						o([]int{k, k3, k2}, v1, v3, v2),
						o([]int{k3}, v3),
						o([]int{k, k2, k}, v1, v2, v1),
						o([]int{k2, k}, v2, &doc{kind: "l", lit: otherKind(l1)}),
					}
					n := obj
					switch place {
					case 1:
						n = &node{kind: "obj", props: []*prop{{key: 1, mark: 0, val: obj}}}
						for i, d := range docs {
							docs[i] = o([]int{1}, d)
						}
					case 2:
						n = &node{kind: "arr", items: []*node{obj}}
						first := docs[0]
						for i, d := range docs {
							docs[i] = &doc{kind: "a", items: []*doc{first, d}}
						}
					case 3:
						n = &node{kind: "obj", props: []*prop{{key: k, mark: 2, val: &node{kind: "arr", items: []*node{{kind: "obj", props: []*prop{{key: k, mark: 2, val: obj}}}}}}}}
						for i, d := range docs {
							docs[i] = o([]int{k}, &doc{kind: "a", items: []*doc{o([]int{k}, d)}})
						}
					}
					out = append(out, wideCase{n: n, docs: docs, optDefault: optDefault, stream: "keyname"})
				}
			}
		}
	}
	return out
}

func depthOf(n *node) int {
	m := 0
	for _, it := range n.items {
		if d := depthOf(it); d > m {
			m = d
		}
	}
	for _, p := range n.props {
		if d := depthOf(p.val); d > m {
			m = d
		}
	}
	return m + 1
}

func Run(args []string) {
	rep := vh.NewReport("c01-shape", "schemas of the rule-free fragment (scalars of 5 kinds, type any, arrays <=3, objects <=3 props with unmarked / optional:true / optional:false keys, nullable on scalars, containers and type-any nodes (also written out as nullable: false), type any over scalar and empty-container examples, rules in random order, key names from a pool of 44 decoded names incl. quotes, backslashes, control characters, non-ASCII and astral characters and 29 degenerate names (the EMPTY name, a lone quote / backslash / NUL / slash / apostrophe / DEL, names reading like numbers, literals, punctuation, comment openers, annotations, rule names, type references, names differing by case / trailing blank / NUL only; one object in four draws from the degenerate names alone) spelled in schema and document with random raw / short / \\uXXXX escapes, depth <= 5) x KeysAreOptionalByDefault on/off x documents (sampled inhabitants incl. int-for-float, null for nullable, extended arrays; mutated: dropped / added / repeated / reordered keys, kind swaps; unrelated); every scalar spelled afresh at each occurrence: document numerals over the RFC 8259 numeral space (minus also on zero, up to 27 digits, zeros appended to the fraction, exponent e / E with sign absent / + / - and zero-padded digits, -5..5, sometimes +-40, rarely +-400, decimal point moved: 25 = 2.5E+1 = 25e0 = 250E-1 = 0.25e2 = 25.0e0; integral values with a plain fraction 1.0 / -0.00; never a zero integer part directly followed by an exponent, K-C10-zeroexp), their kind i / f computed from the TEXT by exact decimal arithmetic (plain fraction without exponent = float, otherwise integer iff the value is integral); example numerals without exponent (schema language), long integers, -0, fractions with trailing / all zeros; strings from a pool of 43 decoded values (empty, every short-escape character, control characters, non-ASCII, astral, contents that read like numbers / true / null / containers / annotations / comments / type names) spelled with raw bytes / every short escape (quote, backslash, slash, b, f, n, r, t) / \\uXXXX escapes in schema and document; a KEY-NAME stream: every name of the pool x unmarked / optional: true / optional: false x both configurations x 4 placements (root, property value, array element, depth 4 below a property of the same name) with the documents full / swapped / property missing / other property missing / empty / third name added / third name only / property twice / wrong kind; the document OBJECT handed to Validate: one in three created with AllowTrailingNonSpaceCharacters (half of those with text after the top-level value), one in two USED before: 1..5 operations out of Check() / Len() (any order and number) / NextLexeme() calls (1..4, sometimes past the end) / Validate against the same schema / Validate against one of 6 other schemas, every read followed by a first call of Check() or Len() (they start from the beginning and leave the document there); the verdict must be the one of the text, and equal to every earlier Validate of the history that met the document at its beginning; real Validate verdict vs Lean VN.validateT, VN.validate and spec VN.shape; nontrivial = schema of depth >= 2")
	r := vh.NewRand(101)
	otherCompiled = nil
	for _, t := range otherSchemas {
		o := jschema.New("other", t)
		if err := o.Check(); err != nil {
			panic("generator: other schema " + t + ": " + err.Error())
		}
		otherCompiled = append(otherCompiled, o)
	}
	nSchemas := vh.Pick(12000, 120000)
	var reqs, impl, inputs []string
	var late []vh.Diff // reported after the verdict-vs-model diffs, whose inputs are the shorter ones
	for i := 0; i < nSchemas; i++ {
		n := genNode(r, 1+r.Intn(5))
		optDefault := r.Intn(2) == 0
		var sb strings.Builder
		print(&sb, n, 0, "", "", r)
		text := sb.String()
		var s *jschema.Schema
		if optDefault {
			s = jschema.New("s", text, jschema.KeysAreOptionalByDefault())
		} else {
			s = jschema.New("s", text)
		}
		chk := vh.Recover(func() string {
			if err := s.Check(); err != nil {
				return "ERR " + err.Error()
			}
			return "OK"
		})
		if chk != "OK" {
			rep.Stat("check_failed")
			rep.AddDiff(vh.Diff{Component: "C01-check", Input: fmt.Sprintf("schema=%q optDefault=%v", text, optDefault), Impl: chk, Model: "a schema of the fragment must pass Check"})
			continue
		}
		schemaSx := sx(n, optDefault)
		for j := 0; j < 10; j++ {
			mut := []int{0, 0, 0, 10, 10, 25, 25, 50, 100, 100}[j]
			d := sample(r, n, optDefault, mut)
			dt, dsx := render(d, r)
			u := genUsage(r)
			verdict, early := u.validate(s, dt, rep)
			numStats(rep, dt)
			if verdict == "111" {
				rep.Stat("accepted")
			} else {
				rep.Stat("rejected")
			}
			rep.Stat(fmt.Sprintf("mutation_%d", mut))
			reqs = append(reqs, "semn val "+schemaSx+" "+dsx)
			impl = append(impl, verdict)
			in := fmt.Sprintf("schema=%q optDefault=%v document=%q%s", text, optDefault, dt, u.describe())
			inputs = append(inputs, in)
			rep.Case(schemaSx+" "+dsx, depthOf(n) >= 2)
			for _, e := range early {
				if e != verdict {
					late = append(late, vh.Diff{Component: "C01-history", Input: in, Impl: "an earlier schema.Validate(d) of the history, on the document at its beginning: " + e + "; the last one: " + verdict,
						Model: "the verdict is a function of schema and document text: both equal"})
					break
				}
			}
		}
	}
	// FIRST-USE race: the verdict is a function of schema and document, not of which goroutine happens to use a fresh
	// schema object first: 8 goroutines validate (their own document objects) against ONE fresh, not yet compiled schema
	for i := vh.Pick(300, 3000); i > 0; i-- {
		n := genNode(r, 3+r.Intn(3))
		optDefault := r.Intn(2) == 0
		var sb strings.Builder
		print(&sb, n, 0, "", "", r)
		text := sb.String()
		mk := func() *jschema.Schema {
			if optDefault {
				return jschema.New("s", text, jschema.KeysAreOptionalByDefault())
			}
			return jschema.New("s", text)
		}
		docs := make([]string, 8)
		seq := make([]string, 8)
		ref := mk()
		for g := range docs {
			docs[g] = docText(sample(r, n, optDefault, []int{0, 0, 25, 100}[g%4]), r)
			g := g
			seq[g] = vh.Recover(func() string {
				if err := ref.Validate(jdoc.New("d", docs[g])); err != nil {
					return "REJ"
				}
				return "ACC"
			})
		}
		shared := mk()
		got := make([]string, 8)
		var wg sync.WaitGroup
		start := make(chan struct{})
		for g := range docs {
			wg.Add(1)
			go func(g int) {
				defer wg.Done()
				<-start
				got[g] = vh.Recover(func() string {
					if err := shared.Validate(jdoc.New("d", docs[g])); err != nil {
						return "REJ"
					}
					return "ACC"
				})
			}(g)
		}
		close(start)
		wg.Wait()
		rep.Stat("first_use_race")
		rep.Case("race:"+text, depthOf(n) >= 2)
		for g := range docs {
			if got[g] != seq[g] {
				rep.AddDiff(vh.Diff{Component: "C01-first-use-race", Input: fmt.Sprintf("schema=%q optDefault=%v document=%q: one of 8 goroutines validating against one FRESH schema object at once", text, optDefault, docs[g]),
					Impl: got[g], Model: "verdict of a sequential run on a fresh object: " + seq[g]})
				break
			}
		}
	}
	// WIDE stream, KEY-NAME stream
	for _, wc := range append(wideCases(r), keyCases(r)...) {
		stream := "wide"
		if wc.stream != "" {
			stream = wc.stream
		}
		var sb strings.Builder
		print(&sb, wc.n, 0, "", "", r)
		text := sb.String()
		var s *jschema.Schema
		if wc.optDefault {
			s = jschema.New("s", text, jschema.KeysAreOptionalByDefault())
		} else {
			s = jschema.New("s", text)
		}
		chk := vh.Recover(func() string {
			if err := s.Check(); err != nil {
				return "ERR " + err.Error()
			}
			return "OK"
		})
		if chk != "OK" {
			rep.AddDiff(vh.Diff{Component: "C01-check", Input: fmt.Sprintf("schema=%q optDefault=%v", text, wc.optDefault), Impl: chk, Model: "a schema of the fragment must pass Check"})
			continue
		}
		schemaSx := sx(wc.n, wc.optDefault)
		for _, d := range wc.docs {
			dt, dsx := render(d, r)
			u := genUsage(r)
			verdict, _ := u.validate(s, dt, rep)
			rep.Stat(stream + "_cases")
			if verdict == "111" {
				rep.Stat(stream + "_accepted")
			} else {
				rep.Stat(stream + "_rejected")
			}
			reqs = append(reqs, "semn val "+schemaSx+" "+dsx)
			impl = append(impl, verdict)
			in := fmt.Sprintf("schema=%q optDefault=%v document=%q%s", text, wc.optDefault, dt, u.describe())
			inputs = append(inputs, in)
			rep.Case(schemaSx+" "+dsx, true)
		}
	}
	rep.Compare(reqs, impl, inputs, 16)
	for _, d := range late {
		rep.AddDiff(d)
	}
	rep.Finish()
}
