package c12

func Run(args []string) {}
