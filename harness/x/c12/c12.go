// Package c12: property C12 — a loaded schema can be shared by concurrent
// goroutines.  Must be built with -race (cmd/vhrace).
//
// Scenario of one round (child process, so that race reports do not end the
// run and can be collected from stderr):
//
//   - a root schema S is built from a pool spec (x/c11 pool): all rules and
//     types added sequentially; its type / rule objects are SHARED objects;
//   - G ∈ {2,4,8,16,32} goroutines issue random mixes of Check, Validate (own
//     document object each time), Len, Example, GetAST, UsedUserTypes on S —
//     the first of them compiles S, the others race to that first use;
//   - meanwhile other goroutines create further roots, add the SAME type and
//     rule objects to them (AddType loads the shared type: once-cell race),
//     compile and use them; and goroutines call Example/Pattern/Len/Check on
//     the shared regex type objects;
//   - runtime.Gosched() is injected at random;
//   - ORACLE: each call must return exactly what the same call returns in a
//     sequential run on fresh objects (canonical results of x/c11).
//   - OPTION: a schema object is its text and the options it was created
//     with.  jschema.KeysAreOptionalByDefault() belongs to ONE object; roots
//     that share a type object may differ in it (a lenient root next to a
//     strict one).  Every root of a round and every type spec of a round draws
//     the option independently (optEnv); the oracle's fresh objects are created
//     with the same bits.  KEYS rounds (keysRoundBase) take all roots from the
//     keys family of x/c11 (pool_keys.go): one shared type text with unmarked
//     keys, the documents lacking exactly one key: a strict root must turn
//     them down with "required key" whatever the lenient roots over the same
//     type object do meanwhile, a lenient root accepts those lacking its own.
//
// A second stream, "nested" (nested.go, its own child process), does the same
// with random forests of user-type objects that OWN types themselves
// (T.AddType(U), U.AddType(V), …; or rule-sets, shortcuts, enum rules inside),
// shared by 2..6 roots that are compiled for the first time by different
// goroutines.
//
// SCALAR RULES (scalars.go; all streams): the texts carry scalar members whose
// numeric / string rules run over the spellings of bounds (trailing fraction
// zeros, long fractions, negative zero, integers and decimals, lengths on the
// bound), and the documents include PROBE documents: the example with scalar
// leaves replaced by tokens on and around these bounds, so that every branch of
// the comparisons against the shared constraint objects is executed by several
// goroutines at once.  The main stream has SCALAR rounds (numRoundBase) over a
// family of its own (numfamily.go).
//
// A third stream, "broken" (broken.go, its own child process): shared type and
// enum-rule objects that are INVALID in a way only the check of a root finds
// (next to sound ones), big enough for the check of ONE type to take a while,
// added to 2..6 roots whose FIRST compiles are released by one barrier; every
// root must report the error (code, position, file) of the sequential run, at
// its first call and at every later one.
//
// Type objects involved in an allOf expansion (the type uses allOf, or the
// root using them has an allOf rule that names them) are rewritten in place
// by every root's compile: sharing those between roots is the known finding
// K-C12-allof and happens only in the stream `--with-known` (separate child;
// all its failures carry Class "K-C12-allof").
package c12

import (
	"fmt"
	"math/rand"
	"runtime"
	"strings"
	"sync"
	"time"
	"unsafe"

	root "github.com/jsightapi/jsight-schema-go-library"
	"github.com/jsightapi/jsight-schema-go-library/formats/json"
	"github.com/jsightapi/jsight-schema-go-library/notations/jschema"
	"github.com/jsightapi/jsight-schema-go-library/notations/regex"
	"github.com/jsightapi/jsight-schema-go-library/rules/enum"

	"verifharness/vh"
	"verifharness/x/c11"
	"verifharness/x/racekit"
)

// ---------------------------------------------------------------- operations

const (
	opCheck = iota
	opValidate
	opLen
	opExample
	opAST
	opUsed
	nSchemaOps
)

var opName = []string{"Check", "Validate", "Len", "Example", "GetAST", "UsedUserTypes"}

func opKey(code, doc int) string {
	if code == opValidate {
		return fmt.Sprintf("Validate(doc%d)", doc)
	}
	return opName[code] + "()"
}

// observe performs one call on s and returns its canonical result; for
// Example it also returns the slice handed out, for GetAST two addresses that
// identify the compiled AST.
func observe(s *jschema.Schema, code int, doc string) (res string, bytes []byte, ident [2]uintptr) {
	defer func() {
		if r := recover(); r != nil {
			res = fmt.Sprintf("PANIC %v", r)
		}
	}()
	switch code {
	case opCheck:
		return c11.CanonErr(s.Check()), nil, ident
	case opValidate:
		return c11.CanonErr(s.Validate(json.New("doc", doc))), nil, ident
	case opLen:
		n, err := s.Len()
		return fmt.Sprintf("%d %s", n, c11.CanonErr(err)), nil, ident
	case opExample:
		b, err := s.Example()
		return fmt.Sprintf("%q %s", b, c11.CanonErr(err)), b, ident
	case opAST:
		a, err := s.GetAST()
		if err == nil {
			ident[0] = uintptr(unsafe.Pointer(a.Rules))
			if len(a.Children) > 0 {
				ident[1] = uintptr(unsafe.Pointer(&a.Children[0]))
			}
		}
		return c11.CanonPtr(c11.ASTJSON(a)) + " " + c11.CanonErr(err), nil, ident
	default:
		u, err := s.UsedUserTypes()
		return c11.CanonPtr(strings.Join(u, ",")) + " " + c11.CanonErr(err), nil, ident
	}
}

var regexOpName = []string{"Check", "Len", "Pattern", "Example", "GetAST"}

func observeRegex(x *regex.Schema, code int) (res string) {
	defer func() {
		if r := recover(); r != nil {
			res = fmt.Sprintf("PANIC %v", r)
		}
	}()
	switch code {
	case 0:
		return c11.CanonErr(x.Check())
	case 1:
		n, err := x.Len()
		return fmt.Sprintf("%d %s", n, c11.CanonErr(err))
	case 2:
		p, err := x.Pattern()
		return fmt.Sprintf("%q %s", p, c11.CanonErr(err))
	case 3:
		b, err := x.Example()
		return fmt.Sprintf("%q %s", b, c11.CanonErr(err))
	default:
		a, err := x.GetAST()
		return c11.ASTJSON(a) + " " + c11.CanonErr(err)
	}
}

// ---------------------------------------------------------------- building

// shared holds the objects that several roots of a round may add.
type shared struct {
	types map[[2]int]interface{} // (kind, spec) -> *jschema.Schema | *regex.Schema
	enums map[int]*enum.Enum
}

// optEnv: the option bits of the TYPE objects of a round.  A schema object is
// its text and the options it was created with; KeysAreOptionalByDefault()
// belongs to ONE object.  Every root of a round draws its own bit; every type
// spec draws one bit per round (all objects of that spec in the round, shared
// or private, and those of the sequential oracle, are created with it).
type optEnv struct {
	typeOpt map[int]bool // index into specs() -> created with KeysAreOptionalByDefault()
}

var noOpts = &optEnv{}

func drawOptEnv(ro *rand.Rand, p float64) *optEnv {
	e := &optEnv{typeOpt: map[int]bool{}}
	for i, sp := range specs() {
		if sp.IsType && ro.Float64() < p {
			e.typeOpt[i] = true
		}
	}
	return e
}

// key: the bits of the type specs reachable from spec (what the oracle of a root depends on).
func (e *optEnv) key(spec c11.SchemaSpec) string {
	seen := map[int]bool{}
	var sb []string
	var walk func(sp c11.SchemaSpec)
	walk = func(sp c11.SchemaSpec) {
		for _, tr := range sp.Types {
			if tr.Kind != c11.KSchema || seen[tr.Spec] {
				continue
			}
			seen[tr.Spec] = true
			if e.typeOpt[tr.Spec] {
				sb = append(sb, fmt.Sprint(tr.Spec))
			}
			walk(specs()[tr.Spec])
		}
	}
	walk(spec)
	return strings.Join(sb, ",")
}

func newTypeObject(kind, spec int, env *optEnv) interface{} {
	if kind == c11.KRegex {
		return regex.New("rx", c11.Regexes[spec])
	}
	s := jschema.New(specs()[spec].ID, specs()[spec].Text, c11.SchemaOptions(env.typeOpt[spec])...)
	// the type's own set-up (its rules and types are private fresh objects)
	setup(s, specs()[spec], nil, 0, nil, env)
	return s
}

// setup performs the spec's AddRule / AddType calls on s. sh == nil or
// pShare == 0: every added object is fresh.  Returns the canonical results.
func setup(s *jschema.Schema, spec c11.SchemaSpec, sh *shared, pShare float64, r *rand.Rand, env *optEnv) []string {
	var out []string
	yield := func() {
		if r != nil && r.Intn(2) == 0 {
			runtime.Gosched()
		}
	}
	for _, rr := range spec.Rules {
		var e *enum.Enum
		if sh != nil && r.Float64() < pShare {
			e = sh.enums[rr.Enum]
		}
		if e == nil {
			e = enum.New("en", c11.Enums[rr.Enum])
		}
		yield()
		out = append(out, vh.Recover(func() string { return c11.CanonErr(s.AddRule(rr.Name, e)) }))
	}
	for _, tr := range spec.Types {
		var t interface{}
		switch {
		case tr.Kind == c11.KSelf:
			t = s
		case sh != nil && r.Float64() < pShare && sh.types[[2]int{tr.Kind, tr.Spec}] != nil:
			t = sh.types[[2]int{tr.Kind, tr.Spec}]
		default:
			t = newTypeObject(tr.Kind, tr.Spec, env)
		}
		yield()
		out = append(out, vh.Recover(func() string { return c11.CanonErr(s.AddType(tr.Name, t.(root.Schema))) }))
	}
	return out
}

// allOfInvolved: the spec's type objects take part in an allOf expansion.
func allOfInvolved(spec c11.SchemaSpec) bool {
	if spec.UsesAllOf() {
		return true
	}
	for _, tr := range spec.Types {
		if tr.Kind == c11.KSchema && specs()[tr.Spec].UsesAllOf() {
			return true
		}
	}
	return false
}

// ---------------------------------------------------------------- oracle

type want struct {
	setup []string
	ops   map[string]string
}

// specDocs: the documents a root of the spec is validated against: the pool's
// base documents; for a root of the keys family (c11/pool_keys.go) its full
// document, every document lacking one key of it, and a few others.
func specDocs(spec c11.SchemaSpec) []string {
	if d, ok := numDocs[spec.ID]; ok {
		return d.docs
	}
	if !spec.Keys {
		return c11.Docs
	}
	docs := []string{`{}`, `[]`, `{"item": {}}`, `{"a": 1,`}
	for _, d := range c11.DocFit(spec.ID) {
		docs = append(docs, c11.DocText(d))
	}
	return docs
}

// oracles: the sequential runs, computed on demand, one per (root spec, option
// bit of the root, option bits of the type specs it reaches).
type oracles struct {
	mu sync.Mutex
	m  map[string]want
}

func (o *oracles) of(ri int, rootOpt bool, env *optEnv) want {
	k := fmt.Sprintf("%d/%v/%s", ri, rootOpt, env.key(specs()[ri]))
	o.mu.Lock()
	defer o.mu.Unlock()
	w, ok := o.m[k]
	if !ok {
		w = oracle(specs()[ri], rootOpt, env)
		o.m[k] = w
	}
	return w
}

// oracle: sequential run on fresh objects, one spec at a time.
func oracle(spec c11.SchemaSpec, rootOpt bool, env *optEnv) want {
	s := jschema.New(spec.ID, spec.Text, c11.SchemaOptions(rootOpt)...)
	w := want{ops: map[string]string{}}
	w.setup = setup(s, spec, nil, 0, nil, env)
	for code := 0; code < nSchemaOps; code++ {
		if code == opValidate {
			continue
		}
		// each op on its own fresh object as well as in sequence must agree (C11); take the fresh one
		f := jschema.New(spec.ID, spec.Text, c11.SchemaOptions(rootOpt)...)
		setup(f, spec, nil, 0, nil, env)
		res, _, _ := observe(f, code, "")
		w.ops[opKey(code, 0)] = res
		if seq, _, _ := observe(s, code, ""); seq != res {
			panic(fmt.Sprintf("c12 oracle: sequential run not history-independent for %s %s: %q vs %q", spec.ID, opKey(code, 0), seq, res))
		}
	}
	for d, text := range specDocs(spec) {
		res, _, _ := observe(s, opValidate, text)
		w.ops[opKey(opValidate, d)] = res
	}
	return w
}

func regexOracle(i int) []string {
	var out []string
	for code := range regexOpName {
		out = append(out, observeRegex(regex.New("rx", c11.Regexes[i]), code))
	}
	return out
}

// ---------------------------------------------------------------- a round

type collector struct {
	mu  sync.Mutex
	res *racekit.ChildResult
}

func (c *collector) diff(d vh.Diff) {
	c.mu.Lock()
	c.res.AddDiff(d)
	c.mu.Unlock()
}
func (c *collector) stat(s string) {
	c.mu.Lock()
	c.res.Stats[s]++
	c.mu.Unlock()
}

// target: what hammer needs to know about the schema it works on.
type target struct {
	id, text string
	setup    string   // replayable description of the set-up
	docs     []string // documents for Validate
	w        want

	probeFrom int // docs[probeFrom:] are the probe documents of scalars.go (0: none)

	firstCompile bool // the first call of every goroutine is one that compiles (Check / Validate / Example / GetAST)
}

func specTarget(spec c11.SchemaSpec, rootOpt bool, env *optEnv, w want) target {
	setup := describeSetup(spec, env)
	if rootOpt {
		setup = "the root is created with jschema.KeysAreOptionalByDefault(); " + setup
	}
	return target{id: spec.ID, text: spec.Text, setup: setup, docs: specDocs(spec), probeFrom: numDocs[spec.ID].probeFrom, w: w}
}

// hammer issues n random operations on s and compares with t.w.
func hammer(col *collector, r *rand.Rand, s *jschema.Schema, t target, n int, where string, idents chan<- [2]uintptr) {
	var prev []byte
	prevWant := ""
	spec, w := t, t.w
	for i := 0; i < n; i++ {
		code := []int{opCheck, opValidate, opValidate, opValidate, opLen, opExample, opExample, opAST, opUsed}[r.Intn(9)]
		if i == 0 && t.firstCompile {
			code = []int{opCheck, opCheck, opValidate, opExample, opAST}[r.Intn(5)]
		}
		doc := r.Intn(len(t.docs))
		got, b, id := observe(s, code, t.docs[doc])
		k := opKey(code, doc)
		if got != w.ops[k] {
			col.diff(vh.Diff{Component: "C12-result", Input: fmt.Sprintf("%s; spec %s = %q (set-up %s); call %s%s", where, spec.id, spec.text, t.setup, k, docText(code, t.docs[doc], doc)),
				Impl: got, Model: "sequential run on fresh objects: " + w.ops[k]})
		}
		col.stat("op_" + opName[code])
		if code == opValidate && t.probeFrom > 0 && doc >= t.probeFrom {
			col.stat("op_Validate_probe_document_" + errClass(got))
		}
		if code == opAST && idents != nil && id != ([2]uintptr{}) {
			select {
			case idents <- id:
			default:
			}
		}
		if r.Intn(2) == 0 {
			runtime.Gosched()
		}
		// the slice handed out by the previous Example() must still read the same
		if prev != nil {
			if now := string(prev); now != prevWant {
				col.diff(vh.Diff{Component: "C12-result", Input: fmt.Sprintf("%s; spec %s = %q (set-up %s); byte slice returned by an earlier Example() re-read after a later call", where, spec.id, spec.text, t.setup),
					Impl: fmt.Sprintf("%q", now), Model: fmt.Sprintf("unchanged since the call: %q", prevWant)})
			}
			prev = nil
		}
		if code == opExample && b != nil {
			prev, prevWant = b, string(b) // deep copy at the time of the call
		}
	}
}

func docText(code int, text string, doc int) string {
	if code != opValidate {
		return ""
	}
	return fmt.Sprintf(" with doc%d = %q", doc, text)
}

func describeSetup(spec c11.SchemaSpec, env *optEnv) string {
	var sb []string
	for _, rr := range spec.Rules {
		sb = append(sb, fmt.Sprintf("AddRule(%q, enum %q)", rr.Name, c11.Enums[rr.Enum]))
	}
	for _, tr := range spec.Types {
		switch tr.Kind {
		case c11.KSelf:
			sb = append(sb, fmt.Sprintf("AddType(%q, self)", tr.Name))
		case c11.KRegex:
			sb = append(sb, fmt.Sprintf("AddType(%q, regex %q)", tr.Name, c11.Regexes[tr.Spec]))
		default:
			own := ""
			if ts := specs()[tr.Spec]; len(ts.Types)+len(ts.Rules) > 0 {
				own = " [the type's own set-up, fresh objects: " + describeSetup(ts, env) + "]"
			}
			sb = append(sb, fmt.Sprintf("AddType(%q, schema %q%s%s)", tr.Name, specs()[tr.Spec].Text, c11.OptText(env.typeOpt[tr.Spec]), own))
		}
	}
	return strings.Join(sb, ", ")
}

// keysRoundBase: rounds with numbers >= keysRoundBase are KEYS rounds: the
// shared root and the other roots are roots of the keys family of x/c11 over
// ONE shared type text with unmarked keys (each root in one of the root forms),
// each root created with KeysAreOptionalByDefault() with probability 1/2, each
// type spec with 1/4; the documents are the root's full document and every
// document lacking one key of it.  (In the other rounds every root and every
// type spec draws the option with probability 1/5.)
const keysRoundBase = 100000

func isKeysRound(round int) bool { return round >= keysRoundBase && round < numRoundBase }

// numRoundBase: rounds with numbers >= numRoundBase are SCALAR rounds: the
// shared root and the other roots are roots of the scalar family (numfamily.go)
// over ONE shared type text whose members carry numeric / string rules from
// scalars.go; the documents are the root's example, its usual mutations and the
// probe documents around the bounds of the rules.
const numRoundBase = 200000

func isNumRound(round int) bool { return round >= numRoundBase }

// mainRounds: rounds of the three number ranges per run of the main stream.
func mainRounds() (plain, keys, nums int) {
	return vh.Pick(300, 6000), vh.Pick(100, 2000), vh.Pick(120, 2400)
}

func roundID(j int) int {
	plain, keys, _ := mainRounds()
	switch {
	case j >= plain+keys:
		return numRoundBase + j - plain - keys
	case j >= plain:
		return keysRoundBase + j - plain
	}
	return j
}

func pickKeySpecs(r *rand.Rand) (int, []int) {
	groups := c11.KeyRootsSharing()
	g := groups[r.Intn(len(groups))]
	var others []int
	for i, n := 0, 1+r.Intn(3); i < n; i++ {
		others = append(others, g[r.Intn(len(g))])
	}
	return g[r.Intn(len(g))], others
}

// pickSpecs chooses the shared root and the other roots of a round.
func pickSpecs(r *rand.Rand, known bool, checkOK func(int) bool) (int, []int) {
	roots := c11.Roots()
	var pool []int
	for _, ri := range roots {
		if allOfInvolved(specs()[ri]) == known {
			pool = append(pool, ri)
		}
	}
	if !known {
		// the allOf specs take part in the main stream too, but with private type objects
		pool = roots
	}
	s := pool[r.Intn(len(pool))]
	if !checkOK(s) { // prefer roots that compile: draw once more
		s = pool[r.Intn(len(pool))]
	}
	var others []int
	for i, n := 0, 1+r.Intn(3); i < n; i++ {
		o := pool[r.Intn(len(pool))]
		switch x := r.Intn(10); {
		case x < 4:
			o = s
		case x < 8: // a root that uses one of the same type / rule specs
			var cands []int
			for _, ri := range pool {
				for _, a := range specs()[ri].Types {
					for _, b := range specs()[s].Types {
						if a.Kind == b.Kind && a.Spec == b.Spec && a.Kind != c11.KSelf {
							cands = append(cands, ri)
						}
					}
				}
				for _, a := range specs()[ri].Rules {
					for _, b := range specs()[s].Rules {
						if a.Enum == b.Enum {
							cands = append(cands, ri)
						}
					}
				}
			}
			if len(cands) > 0 {
				o = cands[r.Intn(len(cands))]
			}
		}
		others = append(others, o)
	}
	return s, others
}

func runRound(col *collector, round int, known bool, orc *oracles, rxWants map[int][]string) {
	salt := int64(12000000)
	if known {
		salt = 12500000
	}
	r := vh.NewRand(salt + int64(round)*1000)
	ro := vh.NewRand(salt + int64(round)*1000 + 500) // the option bits have a PRNG of their own
	G := []int{2, 4, 8, 16, 32}[round%5]
	var sIdx int
	var others []int
	pOptRoot, pOptType := 0.2, 0.2
	if isNumRound(round) {
		sIdx, others = pickNumSpecs(r)
	} else if isKeysRound(round) {
		sIdx, others = pickKeySpecs(r)
		pOptRoot, pOptType = 0.5, 0.25
	} else {
		sIdx, others = pickSpecs(r, known, func(s int) bool { return orc.of(s, false, noOpts).ops["Check()"] == "ok" })
	}
	env := drawOptEnv(ro, pOptType)
	sOpt := ro.Float64() < pOptRoot
	otherOpt := make([]bool, len(others)*2) // one bit per concurrently built root
	for j := range otherOpt {
		otherOpt[j] = ro.Float64() < pOptRoot
	}
	spec := specs()[sIdx]
	sWant := orc.of(sIdx, sOpt, env)
	// the other roots belong to the scenario: what they do to the shared type objects is what the shared root must not see
	var otherDesc []string
	for j, oi := range others {
		for k := j; k < len(otherOpt) && (k == j || G >= 8); k += len(others) {
			otherDesc = append(otherDesc, fmt.Sprintf("%s = %q%s", specs()[oi].ID, specs()[oi].Text, c11.OptText(otherOpt[k])))
		}
	}
	where := fmt.Sprintf("round %d (vh.NewRand(%d); option bits vh.NewRand(%d)), %d goroutines on shared root, roots built / compiled / used meanwhile over the same type and rule objects: %s", round,
		salt+int64(round)*1000, salt+int64(round)*1000+500, G, strings.Join(otherDesc, "; "))

	// shared objects of the round: one per (kind, spec) / enum used by any root of the round
	sh := &shared{types: map[[2]int]interface{}{}, enums: map[int]*enum.Enum{}}
	nShared := 0
	for _, ri := range append([]int{sIdx}, others...) {
		sp := specs()[ri]
		if allOfInvolved(sp) && !known {
			continue // private type objects for these (K-C12-allof otherwise)
		}
		for _, tr := range sp.Types {
			if tr.Kind != c11.KSelf && sh.types[[2]int{tr.Kind, tr.Spec}] == nil {
				sh.types[[2]int{tr.Kind, tr.Spec}] = newTypeObject(tr.Kind, tr.Spec, env)
				nShared++
			}
		}
		for _, rr := range sp.Rules {
			if sh.enums[rr.Enum] == nil {
				sh.enums[rr.Enum] = enum.New("en", c11.Enums[rr.Enum])
				nShared++
			}
		}
	}
	pShare := func(sp c11.SchemaSpec) float64 {
		if allOfInvolved(sp) && !known {
			return 0
		}
		return 0.8
	}
	// a stand-alone shared regex object as well
	rxSpec := r.Intn(len(c11.Regexes))
	rxObj := regex.New("rx", c11.Regexes[rxSpec])

	// the shared root: all rules and types added BEFORE the goroutines start
	S := jschema.New(spec.ID, spec.Text, c11.SchemaOptions(sOpt)...)
	if got := setup(S, spec, sh, pShare(spec)*10, r, env); strings.Join(got, ",") != strings.Join(sWant.setup, ",") {
		col.diff(vh.Diff{Component: "C12-result", Input: where + "; sequential set-up of " + spec.ID + ": " + describeSetup(spec, env),
			Impl: strings.Join(got, ","), Model: strings.Join(sWant.setup, ",")})
	}

	var wg sync.WaitGroup
	start := make(chan struct{})
	idents := make(chan [2]uintptr, 4096)
	for g := 0; g < G; g++ {
		wg.Add(1)
		gr := rand.New(rand.NewSource(r.Int63()))
		go func() {
			defer wg.Done()
			<-start
			hammer(col, gr, S, specTarget(spec, sOpt, env, sWant), 6+gr.Intn(8), where, idents)
		}()
	}
	// other roots: created, set up (sharing the type / rule objects), compiled and used concurrently
	nOther := len(others)
	if G >= 8 {
		nOther = len(others) * 2
	}
	for j := 0; j < nOther; j++ {
		wg.Add(1)
		oi := others[j%len(others)]
		oOpt := otherOpt[j]
		oWant := orc.of(oi, oOpt, env)
		gr := rand.New(rand.NewSource(r.Int63()))
		go func() {
			defer wg.Done()
			<-start
			osp := specs()[oi]
			o := jschema.New(osp.ID, osp.Text, c11.SchemaOptions(oOpt)...)
			ow := fmt.Sprintf("round %d (option bits vh.NewRand(%d)), concurrently built root sharing type/rule objects with %s = %q%s (set-up %s) and with %s", round, salt+int64(round)*1000+500,
				spec.ID, spec.Text, c11.OptText(sOpt), describeSetup(spec, env), strings.Join(otherDesc, "; "))
			if got := setup(o, osp, sh, pShare(osp), gr, env); strings.Join(got, ",") != strings.Join(oWant.setup, ",") {
				col.diff(vh.Diff{Component: "C12-result", Input: ow + "; set-up of " + osp.ID + ": " + describeSetup(osp, env),
					Impl: strings.Join(got, ","), Model: "sequential run on fresh objects: " + strings.Join(oWant.setup, ",")})
			}
			hammer(col, gr, o, specTarget(osp, oOpt, env, oWant), 4+gr.Intn(6), ow, nil)
		}()
	}
	// goroutines on the shared regex objects
	var rxs []struct {
		x    *regex.Schema
		spec int
	}
	rxs = append(rxs, struct {
		x    *regex.Schema
		spec int
	}{rxObj, rxSpec})
	for k, t := range sh.types {
		if x, ok := t.(*regex.Schema); ok {
			rxs = append(rxs, struct {
				x    *regex.Schema
				spec int
			}{x, k[1]})
		}
	}
	for j := 0; j < 2+G/8; j++ {
		wg.Add(1)
		gr := rand.New(rand.NewSource(r.Int63()))
		go func() {
			defer wg.Done()
			<-start
			for i := 0; i < 8; i++ {
				t := rxs[gr.Intn(len(rxs))]
				code := []int{0, 1, 2, 3, 3, 3, 4}[gr.Intn(7)]
				if got := observeRegex(t.x, code); got != rxWants[t.spec][code] {
					col.diff(vh.Diff{Component: "C12-result", Input: fmt.Sprintf("round %d; shared regex object %q; call %s()", round, c11.Regexes[t.spec], regexOpName[code]),
						Impl: got, Model: "sequential run on a fresh object: " + rxWants[t.spec][code]})
				}
				col.stat("op_regex_" + regexOpName[code])
				if gr.Intn(2) == 0 {
					runtime.Gosched()
				}
			}
		}()
	}
	close(start)
	wg.Wait()
	close(idents)
	// all goroutines must have seen the same compiled AST object
	var first [2]uintptr
	for id := range idents {
		if first == ([2]uintptr{}) {
			first = id
		} else if id != first {
			col.diff(vh.Diff{Component: "C12-once", Input: where + "; spec " + spec.ID + " = " + fmt.Sprintf("%q", spec.Text),
				Impl: fmt.Sprintf("GetAST handed out different AST objects: %x vs %x", first, id), Model: "the schema is loaded/compiled exactly once: one AST object"})
			break
		}
	}

	// "first use compiles exactly once": G goroutines released together, all call Check first
	F := jschema.New(spec.ID, spec.Text, c11.SchemaOptions(sOpt)...)
	setup(F, spec, nil, 0, nil, env)
	results := make([]string, G)
	ids := make([][2]uintptr, G)
	start2 := make(chan struct{})
	for g := 0; g < G; g++ {
		wg.Add(1)
		go func(g int) {
			defer wg.Done()
			<-start2
			a, _, _ := observe(F, opCheck, "")
			b, _, id := observe(F, opAST, "")
			results[g] = a + " / " + b
			ids[g] = id
		}(g)
	}
	close(start2)
	wg.Wait()
	wantFirst := sWant.ops[opKey(opCheck, 0)] + " / " + sWant.ops[opKey(opAST, 0)]
	for g := range results {
		if results[g] != wantFirst || ids[g] != ids[0] {
			col.diff(vh.Diff{Component: "C12-once", Input: fmt.Sprintf("round %d; %d goroutines race to the first Check() of fresh %s = %q%s (set-up %s)", round, G, spec.ID, spec.Text, c11.OptText(sOpt), describeSetup(spec, env)),
				Impl:  fmt.Sprintf("goroutine %d: %s (AST object %x; goroutine 0 saw %x)", g, results[g], ids[g], ids[0]),
				Model: "every goroutine: " + wantFirst + ", one compiled object"})
			break
		}
	}

	key := fmt.Sprintf("round %d G=%d shared=%s others=%v sharedObjects=%d", round, G, spec.ID, specIDs(others), nShared)
	// option statistics: a strict shared root next to a lenient root that was given one of its type objects (and the reverse)
	mixed := false
	for j := 0; j < nOther; j++ {
		if otherOpt[j] != sOpt && pShare(spec) > 0 && pShare(specs()[others[j%len(others)]]) > 0 {
			for _, a := range spec.Types {
				for _, b := range specs()[others[j%len(others)]].Types {
					if a.Kind == c11.KSchema && b.Kind == c11.KSchema && a.Spec == b.Spec {
						mixed = true
					}
				}
			}
		}
	}
	col.mu.Lock()
	col.res.Case(key, len(spec.Types)+len(spec.Rules) > 0 || sWant.ops["Check()"] == "ok")
	col.res.Stats[fmt.Sprintf("G_%02d", G)]++
	col.res.Stats["shared_root_"+sWant.ops["Check()"]]++
	col.res.Stats[fmt.Sprintf("shared_objects_%d", nShared)]++
	if isKeysRound(round) {
		col.res.Stats["keys_rounds"]++
	}
	if isNumRound(round) {
		col.res.Stats["scalar_rounds"]++
	}
	if sOpt {
		col.res.Stats["opt_shared_root_created_with_KeysAreOptionalByDefault"]++
	}
	if mixed {
		col.res.Stats["opt_strict_and_lenient_root_over_one_type_object"]++
	}
	col.mu.Unlock()
}

func specIDs(is []int) []string {
	var out []string
	for _, i := range is {
		out = append(out, specs()[i].ID)
	}
	return out
}

func child(stream string, onlyRound, repeat int) {
	res := racekit.NewChildResult()
	col := &collector{res: res}
	known := stream == "known"
	if stream == "nested" || stream == "broken" || onlyRound >= 0 {
		// rounds over shared type objects that own types themselves (nested.go)
		var rounds []int
		if onlyRound >= 0 {
			for i := 0; i < repeat; i++ {
				rounds = append(rounds, onlyRound)
			}
		} else {
			for i, n := 0, nestedRounds(stream); i < n; i++ {
				rounds = append(rounds, i)
			}
		}
		inFlight := nestedInFlight
		if onlyRound >= 0 {
			inFlight = 1
		}
		nestedChild(col, stream, rounds, inFlight)
		col.mu.Lock()
		res.Print()
		col.mu.Unlock()
		return
	}
	orc := &oracles{m: map[string]want{}}
	rxWants := map[int][]string{}
	for i := range c11.Regexes {
		rxWants[i] = regexOracle(i)
	}
	plainRounds, keysRounds, numRounds := mainRounds()
	rounds := plainRounds + keysRounds + numRounds
	if known {
		rounds = vh.Pick(40, 400)
	}
	// four rounds in flight at a time: more schedules, and unrelated schemas
	// being compiled and used next to each scenario
	var next int64
	var nmu sync.Mutex
	take := func() int {
		nmu.Lock()
		defer nmu.Unlock()
		next++
		return int(next - 1)
	}
	timedOut := make(chan int, 8)
	var wg sync.WaitGroup
	for w := 0; w < 4; w++ {
		wg.Add(1)
		go func() {
			defer wg.Done()
			for {
				round := take()
				if round >= rounds {
					return
				}
				if !known {
					round = roundID(round)
				}
				done := make(chan struct{})
				go func() {
					defer close(done)
					runRound(col, round, known, orc, rxWants)
				}()
				select {
				case <-done:
				case <-time.After(60 * time.Second):
					timedOut <- round
					return
				}
			}
		}()
	}
	finished := make(chan struct{})
	go func() { wg.Wait(); close(finished) }()
	select {
	case <-finished:
	case round := <-timedOut:
		col.diff(vh.Diff{Component: "C12-result", Input: fmt.Sprintf("round %d of stream %s (VERIF_SEED=%d)", round, stream, vh.Seed()), Impl: "TIMEOUT",
			Model: "every call returns"})
	}
	if known && finishedOK(finished) {
		// the allOf variant of the nested rounds belongs to the known class as well
		var rounds []int
		for i, n := 0, nestedRounds("known"); i < n; i++ {
			rounds = append(rounds, i)
		}
		nestedChild(col, "known", rounds, nestedInFlight)
	}
	col.mu.Lock()
	res.Print()
	col.mu.Unlock()
}

func finishedOK(finished chan struct{}) bool {
	select {
	case <-finished:
		return true
	default:
		return false
	}
}

func nestedRounds(stream string) int {
	switch stream {
	case "known":
		return vh.Pick(60, 600)
	case "broken":
		return vh.Pick(brokenRoundsQuick, brokenRoundsThorough)
	}
	return vh.Pick(200, 3000)
}

const soloRepeat = 12

type soloResult struct {
	keys    map[string]bool // keys of the race reports the round produces alone
	problem string
}

// confirmNested replays the candidate rounds (mark ids; at most 6 distinct
// ones) alone, soloRepeat times each, in child processes of their own.
func confirmNested(stream string, cands []string) map[string]soloResult {
	out := map[string]soloResult{}
	var ids []string
	for _, c := range cands {
		var round int
		if _, err := fmt.Sscanf(c, "nested-round-%d", &round); err != nil {
			continue
		}
		if _, dup := out[c]; !dup && len(ids) < 6 {
			out[c] = soloResult{}
			ids = append(ids, c)
		}
	}
	var mu sync.Mutex
	var wg sync.WaitGroup
	sem := make(chan struct{}, 3)
	for _, id := range ids {
		id := id
		var round int
		fmt.Sscanf(id, "nested-round-%d", &round)
		wg.Add(1)
		go func() {
			defer wg.Done()
			sem <- struct{}{}
			defer func() { <-sem }()
			_, races, problem := racekit.RunChild([]string{"c12-concurrent", "--child", stream, "--round", fmt.Sprint(round), "--repeat", fmt.Sprint(soloRepeat)}, nil, 120*time.Second)
			r := soloResult{keys: map[string]bool{}, problem: problem}
			for _, rc := range races {
				r.keys[rc.Key] = true
			}
			mu.Lock()
			out[id] = r
			mu.Unlock()
		}()
	}
	wg.Wait()
	return out
}

// Run is the command c12-concurrent (cmd/vhrace).  Args: --with-known also
// runs the K-C12-allof stream (its own child process).
func Run(args []string) {
	withKnown := false
	childStream, onlyRound, repeat := "", -1, 50
	for i, a := range args {
		switch a {
		case "--with-known":
			withKnown = true
		case "--child":
			childStream = args[i+1]
		case "--round": // with --child nested|known|broken: only this nested round, --repeat times (replay of a report)
			fmt.Sscan(args[i+1], &onlyRound)
		case "--repeat":
			fmt.Sscan(args[i+1], &repeat)
		}
	}
	if childStream != "" {
		child(childStream, onlyRound, repeat)
		return
	}
	rep := vh.NewReport("c12-concurrent",
		"rounds: one root schema (pool of x/c11: 33 root texts, valid and invalid, with types / enum rules / regex types) fully set up, then "+
			"G in {2,4,8,16,32} goroutines issue 6..13 random Check/Validate(own doc)/Len/Example/GetAST/UsedUserTypes calls on it (racing to its "+
			"first compile) while 1..6 goroutines build, compile and use other roots that add the SAME type and rule objects, and 2..6 goroutines "+
			"call Example/Pattern/Len/Check on shared regex objects; random Gosched; every result compared with a sequential run on fresh objects; "+
			"plus G goroutines racing to the first Check of a fresh schema; child process under the race detector. OPTION: every root and every type "+
			"spec of a round draws jschema.KeysAreOptionalByDefault() independently (probability 1/5; PRNG of its own), the oracle's fresh objects "+
			"likewise; plus KEYS rounds (numbers 100000+k, one per three other rounds): shared root and other roots from the keys family of x/c11 ("+
			"8 shared type texts with UNMARKED keys x 5 root forms) over ONE type object, roots lenient with probability 1/2, type objects 1/4, "+
			"documents = the root's full document and every document lacking exactly one key of it at any depth. Non-trivial = the shared root "+
			"has added types/rules or passes Check. Stream nested (second child): random forests of user-type objects that own types themselves "+
			"(T.AddType(U), U.AddType(V): chains of depth 0..3, 1..2 owned types each, some owned twice; or rule-sets, or / key shortcuts, type / "+
			"enum rules, additionalProperties, self references; no allOf), built once and added to 2..6 roots that are set up, compiled for the "+
			"first time and used by 1..4 goroutines each (2..24 per round), 3 rounds at a time; every root (1/3) and every type object (1/6) created "+
			"with KeysAreOptionalByDefault() independently; documents: example of the sequential run, 4 random mutations, up to 6 copies of it "+
			"lacking exactly one key (any depth); oracle = each root over fresh objects, sequentially; "+
			"race reports are attributed to rounds by stderr marks and confirmed by replaying the round alone. Non-trivial there = an object "+
			"shared by >= 2 roots owns a type that owns (named or anonymous) types and >= 2 roots pass Check. Stream broken (third child): the "+
			"rounds of stream nested over 1..2 BIG flat type objects (object / array texts of 12..240 members: a random unit of 1..4 member lines "+
			"repeated; rules min / minLength / maxLength / inline enums of 4..40 values / an enum rule whose ONE object of 8..250 values is added "+
			"to all type objects of the round / regex / or rule-sets / nested objects and arrays / references to the round's 0..2 small types) "+
			"of which most carry ONE defect that passes AddType and is found only by the check of a root, at a random place of the text (example "+
			"breaking its own rule: minLength, min, max, enum, enum rule, regex, precision, exclusiveMinimum; rule not fitting the JSON type; or "+
			"rule-set without fitting alternative; reference to a type no root has; key shortcut to a non-string type; type rule naming a type of "+
			"another JSON type; additionalProperties naming a missing type; required self reference), the same objects added to 2..6 roots, 4 of "+
			"5 set up before the start, every goroutine's first call is Check / Validate / Example / GetAST, all released together, then random "+
			"mixes; oracle = each root over fresh objects sequentially (error code, position, file), documents from the example of the root over "+
			"the sound variants of its types. Non-trivial there = a defective type object of >= 30 members added to >= 2 roots of the round. "+
			"SCALAR RULES in all three streams (scalars.go): members / scalar types / or alternatives / array elements with min / max (with and "+
			"without exclusiveMinimum / exclusiveMaximum; both bounds equal, sharing the integer part, apart), const, inline enums of numerals, "+
			"precision (type decimal), minLength / maxLength / both / const / enum / regex on strings; numerals spelled as integers, with "+
			"fractions of 1..25 digits, trailing fraction zeros (2.50, 1.0), zero and negative zero, negative, integer parts of 1..21 digits; "+
			"examples next to a bound (sound by exact arithmetic; stream broken: also defect members whose example is on the wrong side by a "+
			"fraction); PROBE documents = the example with scalar leaves replaced by tokens on and around the bounds of the member's rules (same "+
			"integer part with a longer / shorter / differing fraction just above and below, the bound respelled with trailing zeros or an "+
			"exponent, neighbouring integers, other sign, zeros; strings one shorter / on / one longer than a length bound, multi-byte and "+
			"escaped), 10 per root (stream broken 4); main stream: SCALAR rounds (numbers 200000+k, 120 quick / 2400 thorough) over a family of "+
			"20 type texts x 5 root forms (numfamily.go), 14 probe documents per root")
	if racekit.Enabled {
		rep.Extra["race_detector"] = "on"
	} else {
		rep.Extra["race_detector"] = "OFF: binary built without -race (build cmd/vhrace with CGO_ENABLED=1 go build -race)"
		rep.Stat("race_detector_off")
	}
	type streamOut struct {
		res       *racekit.ChildResult
		races     []racekit.Race
		problem   string
		openAtEnd []string
	}
	runStream := func(stream string) streamOut {
		var o streamOut
		o.res, o.races, o.problem, o.openAtEnd = racekit.RunChildMarked([]string{"c12-concurrent", "--child", stream}, nil, time.Duration(vh.Pick(150, 1200))*time.Second)
		return o
	}
	merge := func(stream, class string, o streamOut) {
		if o.res != nil {
			o.res.Merge(rep, class)
		}
		// the nested rounds bracket themselves with marks: a report carries the (few) rounds that were running when
		// it was printed; these are replayed alone to name the one that produces it
		var cands []string
		if o.problem != "" {
			cands = append(cands, o.openAtEnd...)
		}
		for _, r := range o.races {
			cands = append(cands, r.Marks...)
		}
		solo := confirmNested(stream, cands)
		scenario := func(key string, marks []string) string {
			if len(marks) == 0 {
				return ""
			}
			for _, m := range marks {
				if c, ok := solo[m]; ok && key != "" && c.keys[key] {
					return fmt.Sprintf("; REPRODUCED by this round alone (%d repetitions): %s", soloRepeat, describeNestedMark(m, stream))
				}
			}
			for _, m := range marks {
				if c, ok := solo[m]; ok && (len(c.keys) > 0 || c.problem != "") {
					return fmt.Sprintf("; printed while this round was running, which alone (%d repetitions) gives %d distinct race report(s)%s: %s", soloRepeat,
						len(c.keys), map[bool]string{true: " and ends abnormally", false: ""}[c.problem != ""], describeNestedMark(m, stream))
				}
			}
			var sb []string
			for _, m := range marks {
				sb = append(sb, describeNestedMark(m, stream))
			}
			return "; printed while these rounds were running (none reproduces it alone): " + strings.Join(sb, " AND ")
		}
		if o.problem != "" {
			rep.AddDiff(vh.Diff{Component: "C12-result", Input: fmt.Sprintf("child run `vhrace c12-concurrent --child %s` with VERIF_SEED=%d%s", stream, vh.Seed(), scenario("", o.openAtEnd)),
				Impl: o.problem, Model: "the concurrent scenario terminates normally", Class: class})
		}
		for _, r := range o.races {
			rep.AddDiff(vh.Diff{Component: "C12-race", Input: fmt.Sprintf("stream %s of vhrace c12-concurrent, VERIF_SEED=%d (report seen %d times)%s", stream, vh.Seed(), r.Count, scenario(r.Key, r.Marks)),
				Impl: "DATA RACE: " + r.Text, Model: "no data race", Class: class})
		}
		rep.Stats["distinct_race_reports_"+stream] = len(o.races)
		if o.res != nil {
			rep.Stats["result_diffs_"+stream] = o.res.NDiffs
		}
	}
	// the two default streams side by side (two child processes)
	var mainOut, nestedOut, brokenOut streamOut
	var swg sync.WaitGroup
	swg.Add(3)
	go func() { defer swg.Done(); mainOut = runStream("main") }()
	go func() { defer swg.Done(); nestedOut = runStream("nested") }()
	go func() { defer swg.Done(); brokenOut = runStream("broken") }()
	swg.Wait()
	merge("main", "", mainOut)
	merge("nested", "", nestedOut)
	merge("broken", "", brokenOut)
	if withKnown {
		merge("known", "K-C12-allof", runStream("known"))
	}
	rep.Extra["known_stream"] = fmt.Sprint(withKnown)
	rep.Finish()
}
