// numfamily.go: the SCALAR family of the main stream — root and type specs,
// next to the pool of x/c11, whose members carry the numeric and string rules
// of scalars.go.  numFamilyTypes type texts (a scalar with rules; objects of
// 2..4 such members, now and then one with an or rule-set; an array of such
// scalars), each under the name "@S" in five root forms (the type itself, a
// member next to a member of the root's own, an array of it, next to the
// following type of the family, an optional member).  The SCALAR rounds
// (c12.go: numRoundBase) take the shared root and the other roots from the
// forms over ONE type spec, i.e. one type object, and validate the documents of
// mutateDocs: the example of the sequential run, its mutations, and the probe
// documents around the bounds of the rules (own PRNG: a function of VERIF_SEED).
package c12

import (
	"fmt"
	"math/rand"
	"sort"
	"sync"

	"github.com/jsightapi/jsight-schema-go-library/notations/jschema"

	"verifharness/vh"
	"verifharness/x/c11"
)

const numFamilyTypes = 20

type numDocSet struct {
	docs      []string
	probeFrom int
}

var (
	poolOnce  sync.Once
	poolSpecs []c11.SchemaSpec
	numDocs   = map[string]numDocSet{} // root ID -> documents
	numGroups [][]int                  // per type spec of the family: the roots that add it as "@S"
)

// specs: the specs of x/c11 followed by the scalar family; TypeRef.Spec indexes it.
func specs() []c11.SchemaSpec {
	poolOnce.Do(buildNumFamily)
	return poolSpecs
}

func member(g *textGen, f sfield) field {
	k := g.key("v")
	g.note(k, f.probes)
	return field{k + ": " + f.example, f.rule()}
}

func buildNumFamily() {
	poolSpecs = append([]c11.SchemaSpec{}, c11.Schemas...)
	r := vh.NewRand(12300000)
	types := make([]int, numFamilyTypes)
	probes := map[string]map[string][]string{} // spec ID -> probes of its text
	for j := range types {
		g := &textGen{r: r, tag: fmt.Sprintf("n%d_", j)}
		var text string
		switch j % 5 {
		case 0: // a number with rules
			f := numField(r, false)
			g.note("", f.probes)
			text = f.example + " // " + f.rule()
		case 1: // any scalar with rules
			f := scalarMember(r)
			g.note("", f.probes)
			text = f.example + " // " + f.rule()
		case 2:
			f := scalarMember(r)
			g.note("", f.probes)
			text = joinFields("[", "]", []field{{f.example, f.rule()}}, "", "")
		default:
			var fs []field
			for i, n := 0, 2+r.Intn(3); i < n; i++ {
				fs = append(fs, member(g, scalarMember(r)))
			}
			if r.Intn(3) == 0 {
				rule, ex, pr := orRuleP(r)
				k := g.key("o")
				g.note(k, pr)
				fs = append(fs, field{k + ": " + ex, rule})
			}
			text = joinFields("{", "}", fs, "", "")
		}
		id := fmt.Sprintf("nt_%d", j)
		poolSpecs = append(poolSpecs, c11.SchemaSpec{ID: id, Text: text, IsType: true, Ext: true, Bind: true})
		types[j] = len(poolSpecs) - 1
		probes[id] = g.probes
	}
	numGroups = make([][]int, numFamilyTypes)
	for j := range types {
		next := (j + 1) % numFamilyTypes
		S := c11.TypeRef{Name: "@S", Kind: c11.KSchema, Spec: types[j]}
		T := c11.TypeRef{Name: "@T", Kind: c11.KSchema, Spec: types[next]}
		g := &textGen{r: r, tag: fmt.Sprintf("nr%d_", j)}
		forms := []struct {
			text  string
			types []c11.TypeRef
		}{
			{"@S", []c11.TypeRef{S}},
			{joinFields("{", "}", []field{{`"s": @S`, ""}, member(g, scalarMember(r))}, "", ""), []c11.TypeRef{S}},
			{"[@S]", []c11.TypeRef{S}},
			{`{"s": @S, "t": @T}`, []c11.TypeRef{S, T}},
			{joinFields("{", "}", []field{{`"s": @S`, "{optional: true}"}, member(g, numField(r, false))}, "", ""), []c11.TypeRef{S}},
		}
		for f, form := range forms {
			id := fmt.Sprintf("nr_%d_f%d", j, f)
			poolSpecs = append(poolSpecs, c11.SchemaSpec{ID: id, Text: form.text, Types: form.types, Ext: true, Bind: true})
			ri := len(poolSpecs) - 1
			numGroups[j] = append(numGroups[j], ri)
			if f == 3 {
				numGroups[next] = append(numGroups[next], ri)
			}
		}
		probes[fmt.Sprintf("nr_%d", j)] = g.probes
	}
	// the documents: example of the sequential run on fresh objects, mutations, probe documents
	for j := range types {
		for _, ri := range numGroups[j] {
			spec := poolSpecs[ri]
			if _, done := numDocs[spec.ID]; done {
				continue
			}
			var own int
			fmt.Sscanf(spec.ID, "nr_%d_", &own)
			pt := newProbeTab()
			pt.merge(probes[fmt.Sprintf("nr_%d", own)])
			for _, tr := range spec.Types {
				m := probes[poolSpecs[tr.Spec].ID]
				pt.merge(m)
				// the member "s" / "t" holds a value of the type: the tokens of a scalar type belong to that member
				var nameless []string
				for k := range m {
					if k[0] == 0 {
						nameless = append(nameless, k)
					}
				}
				sort.Strings(nameless)
				for _, k := range nameless {
					pt.add(map[string]string{"@S": "s", "@T": "t"}[tr.Name], m[k])
				}
			}
			s := jschema.New(spec.ID, spec.Text)
			numSetup(s, spec)
			_, b, _ := observe(s, opExample, "")
			var d numDocSet
			d.docs, d.probeFrom = mutateDocs(r, string(b), 6, pt, 14)
			numDocs[spec.ID] = d
		}
	}
}

// numSetup: the AddType calls of a root of the family, fresh type objects.
func numSetup(s *jschema.Schema, spec c11.SchemaSpec) {
	for _, tr := range spec.Types {
		t := jschema.New(poolSpecs[tr.Spec].ID, poolSpecs[tr.Spec].Text)
		vh.Recover(func() string { return c11.CanonErr(s.AddType(tr.Name, t)) })
	}
}

// pickNumSpecs: the shared root and the other roots of a SCALAR round: forms over one type spec.
func pickNumSpecs(r *rand.Rand) (int, []int) {
	specs()
	g := numGroups[r.Intn(len(numGroups))]
	var others []int
	for i, n := 0, 1+r.Intn(3); i < n; i++ {
		others = append(others, g[r.Intn(len(g))])
	}
	return g[r.Intn(len(g))], others
}
