// broken.go: the stream "broken" of c12-concurrent — shared type (and rule)
// objects that are INVALID in a way only the check of a root schema finds,
// next to sound ones, and roots whose FIRST compiles overlap inside the check
// of one such object.
//
// The property demands of every call made concurrently the result of the same
// call in a sequential run — also when that result is an error.  A type object
// is loaded once (AddType) and then checked by EVERY root it was added to;
// whatever a root's check leaves behind in (or next to) the shared object
// must not change what the other roots report.  The rounds of nested.go run
// with another forest:
//
//   - 1..2 BIG type objects: an object or array text of 12..360 members made
//     of a short random unit of member lines repeated (rules min / minLength /
//     maxLength / inline enums of 4..64 values / an enum RULE whose object of
//     8..250 values is shared by all type objects of the round / regex / or
//     rule-sets / nested objects and arrays / references to the round's small
//     types: plain, optional, array, type rule, or shortcut), so that the check
//     of ONE type takes 0.1..3 ms under the race detector and the roots really
//     are inside it at the same time;
//   - 0..2 small types (scalars with rules, a long enum, a small object);
//   - most big types (and some small ones) carry ONE defect, at a random place
//     of the text (half of the time in its second half): an example that
//     breaks its own rule (minLength, min, max, inline enum, enum rule, regex,
//     precision, exclusiveMinimum), a rule that does not fit the JSON type, an
//     or rule-set none of whose alternatives fits, a reference to a type no
//     root has, a reference of the wrong kind (key shortcut to a non-string
//     type, type rule naming a type of another JSON type), additionalProperties
//     naming a missing type, a required reference to itself (recursion).  All
//     of these pass AddType (the type loads) and are found by the root's check;
//   - 2..6 roots add the SAME objects (now and then a private copy), four out
//     of five are set up before the start, every goroutine's first call is one
//     that compiles (Check / Validate / Example / GetAST), all released by one
//     barrier; afterwards the usual random mixes;
//   - ORACLE as in nested.go: the root over fresh objects, sequentially (error
//     code, position and file of Check and of every later call); a second
//     sequential run over ONE copy of the objects must agree.  Documents: the
//     example of the same root over the sound variants of its types and
//     mutations of it.
//
// The long texts are written down as a loop in the replay description
// (tspec.recipe); `vhrace c12-concurrent --child broken --round N` replays a
// round alone.
package c12

import (
	"fmt"
	"math/rand"
	"strconv"
	"strings"
)

const (
	brokenSalt           = int64(12900000)
	brokenRoundsQuick    = 150
	brokenRoundsThorough = 1500
)

// bmember: one member line; "<i>" in key / value stands for the repetition number.
type bmember struct {
	key, value, ann string
	showAnn         string // ann as written in the replay description, when ann is long

	probes []string // scalars.go: document tokens around the rules of the member
}

func bm(key, value, ann string) bmember { return bmember{key: key, value: value, ann: ann} }

func (m bmember) line(i int, object bool) field {
	head := m.value
	if object {
		head = m.key + ": " + m.value
	}
	return field{strings.ReplaceAll(head, "<i>", strconv.Itoa(i)), m.ann}
}

func (m bmember) show(object bool) string {
	head := m.value
	if object {
		head = m.key + ": " + m.value
	}
	switch {
	case m.showAnn != "":
		return head + " // " + m.showAnn
	case m.ann != "":
		return head + " // " + m.ann
	}
	return head
}

// bigText: open, `reps` repetitions of the unit, the defect member behind the
// lines of repetition `at`, close.
type bigText struct {
	object bool
	topAnn string
	unit   []bmember
	reps   int
	defect *bmember
	at     int
}

func (b *bigText) render(withDefect bool) string {
	var fs []field
	for i := 0; i < b.reps; i++ {
		for _, m := range b.unit {
			fs = append(fs, m.line(i, b.object))
		}
		if withDefect && b.defect != nil && i == b.at {
			fs = append(fs, b.defect.line(i, b.object))
		}
	}
	if b.object {
		return joinFields("{", "}", fs, b.topAnn, "")
	}
	return joinFields("[", "]", fs, b.topAnn, "")
}

func (b *bigText) members() int {
	n := b.reps * len(b.unit)
	if b.defect != nil {
		n++
	}
	return n
}

func (b *bigText) recipe() string {
	var unit []string
	for _, m := range b.unit {
		unit = append(unit, m.show(b.object))
	}
	brackets := "[ ]"
	if b.object {
		brackets = "{ }"
	}
	d := fmt.Sprintf("TEXT(%s", brackets)
	if b.topAnn != "" {
		d += fmt.Sprintf(" with the rule // %s behind the opening bracket", b.topAnn)
	}
	d += fmt.Sprintf("; for i = 0..%d the member lines «%s» with <i> replaced by i", b.reps-1, strings.Join(unit, "» «"))
	if b.defect != nil {
		d += fmt.Sprintf("; behind the lines of i = %d the member line «%s»", b.at, b.defect.show(b.object))
	}
	return d + "; one member per line, a comma behind every member but the last, the rule as // comment at the end of its line)"
}

// enumShow: enumList(k) as written in the replay description.
func enumShow(k int) string {
	if k <= 6 {
		return enumList(k)
	}
	return fmt.Sprintf("[\"v0\", \"v1\", …, \"v%d\"] /* the %d values \"v0\" to \"v%d\" separated by \", \" */", k-1, k, k-1)
}

func enumList(k int) string {
	var vs []string
	for i := 0; i < k; i++ {
		vs = append(vs, fmt.Sprintf("%q", "v"+strconv.Itoa(i)))
	}
	return "[" + strings.Join(vs, ", ") + "]"
}

type brokenGen struct {
	r      *rand.Rand
	f      *forest
	leaves []*tspec
	rule   *nrule // the round's shared enum rule object (nil: none)
	ruleK  int
}

// soundMember: a member that is right in itself; slot makes its key unique
// within the unit.  used collects the small types it names.
func (g *brokenGen) soundMember(slot int, object bool, usesRule *bool, anon *bool, used map[*tspec]bool) bmember {
	r := g.r
	key := fmt.Sprintf("%q", fmt.Sprintf("k%d_<i>", slot))
	for {
		switch x := r.Intn(29); {
		case x >= 24:
			// a scalar with rules whose numerals / lengths matter (scalars.go)
			f := scalarMember(r)
			return bmember{key: key, value: f.example, ann: f.rule(), probes: f.probes}
		case x < 4:
			return bm(key, "<i>", "{min: 0}")
		case x < 7:
			return bm(key, `"abc"`, []string{"{minLength: 1}", "{maxLength: 8}", "{minLength: 2, maxLength: 8}"}[r.Intn(3)])
		case x < 10:
			k := []int{4, 12, 40}[r.Intn(3)]
			return bmember{key: key, value: fmt.Sprintf("%q", "v"+strconv.Itoa(r.Intn(k))), ann: "{enum: " + enumList(k) + "}", showAnn: "{enum: " + enumShow(k) + "}"}
		case x < 13:
			if g.rule == nil {
				continue
			}
			*usesRule = true
			return bm(key, fmt.Sprintf("%q", "v"+strconv.Itoa(r.Intn(g.ruleK))), "{enum: "+g.rule.name+"}")
		case x < 14:
			return bm(key, `"abc"`, `{regex: "[a-z]+"}`)
		case x < 15:
			*anon = true
			rule, ex := orRule(r)
			return bm(key, ex, rule)
		case x < 16:
			return bm(key, `{"u": 1, "w": "s"}`, "")
		case x < 17:
			return bm(key, `[1, 2]`, "{minItems: 1}")
		case x < 18:
			return bm(key, []string{"true", "null", "2.5"}[r.Intn(3)], "")
		default:
			if len(g.leaves) == 0 {
				continue
			}
			l := g.leaves[r.Intn(len(g.leaves))]
			used[l] = true
			switch y := r.Intn(7); {
			case y < 2:
				return bm(key, l.name, "")
			case y == 2:
				return bm(key, l.name, "{optional: true}")
			case y == 3:
				return bm(key, "["+l.name+"]", "")
			case y == 4 && l.value != "":
				return bm(key, l.value, fmt.Sprintf("{type: %q}", l.name))
			case y == 5 && len(g.leaves) > 1:
				o := g.leaves[(r.Intn(len(g.leaves)-1)+1+indexOf(g.leaves, l))%len(g.leaves)]
				used[o] = true
				*anon = true
				return bm(key, l.name+" | "+o.name, "")
			default:
				return bm(key, l.name, "")
			}
		}
	}
}

func indexOf(ts []*tspec, t *tspec) int {
	for i, x := range ts {
		if x == t {
			return i
		}
	}
	return 0
}

// defectMember: a member line the type LOADS with and no root accepts.  self:
// the name of the type it goes into.
func (g *brokenGen) defectMember(object bool, self string, usesRule *bool, anon *bool, used map[*tspec]bool) (bmember, string) {
	r := g.r
	key := `"d"`
	for {
		switch r.Intn(23) {
		case 19, 20, 21, 22:
			// the example on the wrong side of a numeric rule, by a fraction (scalars.go)
			f := numField(r, true)
			return bmember{key: key, value: f.example, ann: f.rule(), probes: f.probes}, "example-off-by-a-fraction-" + strings.Split(f.kind, "/")[0]
		case 0, 1:
			return bm(key, `"ab"`, "{minLength: 5}"), "example-minLength"
		case 2:
			return bm(key, `1`, "{min: 5}"), "example-min"
		case 3:
			return bm(key, `9`, "{max: 5}"), "example-max"
		case 4:
			k := 3 + r.Intn(30)
			return bmember{key: key, value: `"zz"`, ann: "{enum: " + enumList(k) + "}", showAnn: "{enum: " + enumShow(k) + "}"}, "example-enum"
		case 5:
			if g.rule == nil {
				continue
			}
			*usesRule = true
			return bm(key, `"zz"`, "{enum: "+g.rule.name+"}"), "example-enumrule"
		case 6:
			return bm(key, `"ABC"`, `{regex: "[a-z]+"}`), "example-regex"
		case 7:
			return bm(key, `2.55`, "{precision: 1}"), "example-precision"
		case 8:
			return bm(key, `1`, "{min: 1, exclusiveMinimum: true}"), "example-exclusiveMinimum"
		case 9:
			if r.Intn(2) == 0 {
				return bm(key, `"s"`, "{min: 1}"), "rule-vs-json-type"
			}
			return bm(key, `1`, "{minLength: 1}"), "rule-vs-json-type"
		case 10:
			*anon = true
			return bm(key, `true`, `{or: [{type: "integer"}, {type: "string", minLength: 2}]}`), "or-no-alternative"
		case 11, 12:
			switch r.Intn(3) {
			case 0:
				return bm(key, "@nowhere", ""), "missing-reference"
			case 1:
				return bm(key, "@nowhere", "{optional: true}"), "missing-reference"
			default:
				return bm(key, `1`, `{type: "@nowhere"}`), "missing-reference"
			}
		case 13:
			// key shortcut to a type that is no string
			if !object {
				continue
			}
			for _, l := range g.leaves {
				if l.shape != shString && l.defect == "" {
					used[l] = true
					return bm(l.name, `1`, ""), "wrong-kind-key-shortcut"
				}
			}
			continue
		case 14, 15:
			// type rule naming a type of another JSON type
			for _, l := range g.leaves {
				if l.defect == "" && l.value != `true` {
					used[l] = true
					return bm(key, `true`, fmt.Sprintf("{type: %q}", l.name)), "wrong-kind-type-rule"
				}
			}
			continue
		case 16:
			for _, l := range g.leaves {
				if l.defect == "" {
					used[l] = true
					*anon = true
					return bm(key, `true`, fmt.Sprintf("{or: [%q, {type: \"string\"}]}", l.name)), "or-no-alternative"
				}
			}
			continue
		default:
			if !object { // an array element is no required reference
				continue
			}
			return bm(key, self, ""), "recursion"
		}
	}
}

func (g *brokenGen) add(t *tspec) *tspec {
	t.id = len(g.f.nodes)
	g.f.nodes = append(g.f.nodes, t)
	return t
}

// leaf: a small type.
func (g *brokenGen) leaf() *tspec {
	r := g.r
	t := &tspec{name: fmt.Sprintf("@L%d", len(g.f.nodes))}
	switch x := r.Intn(13); {
	case x >= 10:
		// a scalar type with rules whose numerals / lengths matter (scalars.go)
		f := scalarMember(r)
		t.text, t.shape, t.value = f.example+" // "+f.rule(), shScalar, f.example
		t.probes = map[string][]string{"\x00": f.probes}
		if r.Intn(5) == 0 {
			d := numField(r, true)
			t.sound, t.text, t.value, t.defect = t.text, d.example+" // "+d.rule(), d.example, "example-off-by-a-fraction-"+strings.Split(d.kind, "/")[0]
			t.probes["\x00d"] = d.probes
		}
	case x < 3:
		t.text, t.shape, t.value = `1 // {min: 0}`, shScalar, `1`
		if r.Intn(6) == 0 {
			t.sound, t.text, t.defect = t.text, `1 // {min: 5}`, "example-min"
		}
	case x < 5:
		t.text, t.shape, t.value = `"abc" // {regex: "[a-z]+"}`, shString, `"abc"`
		if r.Intn(6) == 0 {
			t.sound, t.text, t.defect = t.text, `"ABC" // {regex: "[a-z]+"}`, "example-regex"
		}
	case x < 7:
		k := []int{30, 120, 400}[r.Intn(3)]
		v := fmt.Sprintf("%q", "v"+strconv.Itoa(r.Intn(k)))
		t.shape, t.value = shScalar, v
		t.text = v + " // {enum: " + enumList(k) + "}"
		t.recipe = fmt.Sprintf("TEXT(%s // {enum: %s})", v, enumShow(k))
		if r.Intn(4) == 0 {
			t.sound, t.defect = t.text, "example-enum"
			t.text = `"zz" // {enum: ` + enumList(k) + "}"
			t.recipe = strings.Replace(t.recipe, "TEXT("+v, `TEXT("zz"`, 1)
		}
	case x < 8 && g.rule != nil:
		v := fmt.Sprintf("%q", "v"+strconv.Itoa(r.Intn(g.ruleK)))
		t.text, t.shape, t.value = v+" // {enum: "+g.rule.name+"}", shScalar, v
		t.rules = []nrule{*g.rule}
		if r.Intn(4) == 0 {
			t.sound, t.text, t.defect = t.text, `"zz" // {enum: `+g.rule.name+"}", "example-enumrule"
		}
	default:
		t.text, t.shape = "{\n  \"a\": 1, // {min: 0}\n  \"b\": \"s\" // {optional: true}\n}", shObject
		if r.Intn(6) == 0 {
			t.sound, t.defect = t.text, "example-minLength"
			t.text = "{\n  \"a\": 1, // {min: 0}\n  \"b\": \"s\" // {minLength: 5}\n}"
		}
	}
	t.members = 1
	t.late = t.defect != ""
	return g.add(t)
}

// big: a type whose check takes a while.
func (g *brokenGen) big(pDefect int) *tspec {
	r := g.r
	t := &tspec{name: fmt.Sprintf("@T%d", len(g.f.nodes))}
	b := &bigText{object: r.Intn(5) > 0}
	t.shape = shArray
	if b.object {
		t.shape = shObject
	}
	usesRule := false
	used := map[*tspec]bool{}
	n := 1 + r.Intn(4)
	for s := 0; s < n; s++ {
		b.unit = append(b.unit, g.soundMember(s, b.object, &usesRule, &t.anon, used))
	}
	total := []int{12, 30, 50, 50, 80, 80, 120, 240}[r.Intn(8)]
	b.reps = (total + n - 1) / n
	if r.Intn(100) < pDefect {
		if b.object && r.Intn(14) == 0 {
			b.topAnn, t.defect = `{additionalProperties: "@nowhere"}`, "missing-reference-additionalProperties"
			t.late = false
			plain := *b
			plain.topAnn = ""
			t.sound = plain.render(false)
		} else {
			m, kind := g.defectMember(b.object, t.name, &usesRule, &t.anon, used)
			b.defect, t.defect = &m, kind
			b.at = r.Intn(b.reps)
			if r.Intn(2) == 0 {
				b.at = b.reps/2 + r.Intn(b.reps-b.reps/2)
			}
			t.late = b.at >= b.reps/2
			t.sound = b.render(false)
		}
	}
	t.text = b.render(true)
	t.members = b.members()
	// the probes of the members, by member name (array elements: of no member)
	t.probes = map[string][]string{}
	ms := append([]bmember{}, b.unit...)
	if b.defect != nil {
		ms = append(ms, *b.defect)
	}
	for n, m := range ms {
		if len(m.probes) == 0 {
			continue
		}
		if !b.object {
			t.probes[fmt.Sprintf("\x00%d", n)] = m.probes
			continue
		}
		for i := 0; i < b.reps; i++ {
			t.probes[unquoteKey(strings.ReplaceAll(m.key, "<i>", strconv.Itoa(i)))] = m.probes
		}
	}
	if t.members > 8 {
		t.recipe = b.recipe()
	}
	if usesRule {
		t.rules = []nrule{*g.rule}
	}
	for _, l := range g.leaves { // in creation order
		if used[l] {
			t.refs = append(t.refs, l)
		}
	}
	return g.add(t)
}

func genBrokenForest(r *rand.Rand) *forest {
	g := &brokenGen{r: r, f: &forest{}}
	if r.Intn(5) < 3 {
		g.ruleK = []int{8, 60, 250}[r.Intn(3)]
		g.rule = &nrule{name: "@E", text: enumList(g.ruleK), obj: 1,
			recipe: "TEXT(" + enumShow(g.ruleK) + ")"}
	}
	for i, n := 0, r.Intn(3); i < n; i++ {
		g.leaves = append(g.leaves, g.leaf())
	}
	for i, n := 0, 1+r.Intn(2); i < n; i++ {
		g.f.tops = append(g.f.tops, g.big([]int{75, 40}[i]))
	}
	return g.f
}

// soundTwin: rt over the sound variants of its types; nil when none of them has a defect.
func soundTwin(rt *nroot) *nroot {
	twin := *rt
	twin.adds = nil
	some := false
	for _, a := range rt.adds {
		t := a.t
		if t.sound != "" {
			c := *t
			c.text, c.sound, c.defect = t.sound, "", ""
			t, some = &c, true
		}
		twin.adds = append(twin.adds, nadd{t: t, private: a.private})
	}
	if !some {
		return nil
	}
	return &twin
}

func sizeBucket(members int) string {
	switch {
	case members < 20:
		return "001-019"
	case members < 50:
		return "020-049"
	case members < 100:
		return "050-099"
	case members < 200:
		return "100-199"
	default:
		return "200+"
	}
}

// brokenStats: what the round exercised; returns whether it is non-trivial: a
// type object with a defect, of >= 30 members, was added (the object itself,
// not a copy) to >= 2 roots that took part.
func brokenStats(col *collector, roots []*nroot, live []int, targets []target) bool {
	sharedBy := map[*tspec]int{}
	for _, i := range live {
		for _, a := range roots[i].adds {
			if !a.private {
				sharedBy[a.t]++
			}
		}
		if targets[i].w.ops["Check()"] != "ok" {
			col.stat("broken_root_reports_an_error")
		} else {
			col.stat("broken_root_ok")
		}
	}
	nontrivial := false
	for t, n := range sharedBy {
		if n < 2 {
			continue
		}
		if t.defect == "" {
			col.stat("broken_shared_sound_type_members_" + sizeBucket(t.members))
			continue
		}
		col.stat("broken_shared_defect_" + t.defect)
		col.stat("broken_shared_defective_type_members_" + sizeBucket(t.members))
		col.stat(fmt.Sprintf("broken_shared_defective_type_in_%d_roots", n))
		if t.late {
			col.stat("broken_shared_defect_in_second_half_of_text")
		}
		if len(t.refs) == 0 && t.defect != "recursion" && !strings.HasPrefix(t.defect, "missing") {
			col.stat("broken_shared_defective_type_names_no_other_type")
		}
		if len(t.rules) > 0 {
			col.stat("broken_shared_defective_type_with_shared_enum_rule_object")
		}
		if t.members >= 30 {
			nontrivial = true
		}
	}
	return nontrivial
}
