// scalars.go: the VALUE SPACE of the scalar rules — for all three streams.
//
// "Validation only reads the compiled schema" is a statement about every
// branch validation (and the example check of a compile) can take through the
// constraint objects of a SHARED schema: the race detector sees only what the
// goroutines execute.  A rule `{min: 0}` met by the documents `1` and `"zz"`
// executes one branch of one comparison.  This file generates
//
//   - scalar members with numeric rules (min / max with and without
//     exclusiveMinimum / exclusiveMaximum, both bounds — equal, sharing the
//     integer part, apart —, const, inline enums of numerals, precision with
//     type decimal) whose numerals run over the spellings of decimal numbers
//     a schema text admits: integers, fractions of 1..25 digits, trailing
//     fraction zeros (2.50, 1.0, 3.100), zero and negative zero (0.0, -0,
//     -0.00), negative values, integer parts of 1..21 digits; the example is a
//     NEIGHBOUR of a bound on the right side of it (see neighbours);
//   - scalar members with string rules (minLength / maxLength / both / const /
//     inline enum / regex) whose examples have a length ON a bound, with
//     multi-byte characters and escapes where the length does not matter;
//   - for every such member the PROBES: document tokens around its bounds —
//     the bound in every spelling (also with an exponent: 25e-1, 0.25e1,
//     2.5E+0), the same integer part with a longer / shorter / differing
//     fraction just above and just below (2.5001, 2.50000000000000000001,
//     2.4999, 2.49, 2.6), the neighbouring integers (2, 3, 2.0, 3.00, 1.99),
//     the other sign, zero in all spellings; strings one shorter / on / one
//     longer than a bound in ASCII, multi-byte and escaped form.
//
// probeDocs (documents) substitutes probes for the leaves of the example
// document of a root — keyed by member name where the generator knows the
// member, pooled over the round's rules and, for any other number leaf, the
// neighbours of the leaf's own value — so that every comparison branch (sign,
// length of the integer part, digits of the integer part, fraction digit by
// digit, shorter fraction padded on either side) runs concurrently against
// shared constraint objects.  Whether an example is sound is decided here by
// exact rational arithmetic (math/big); what the library answers to a probe is
// taken from the sequential run, as for every other document.
package c12

import (
	stdjson "encoding/json"
	"fmt"
	"math/big"
	"math/rand"
	"sort"
	"strconv"
	"strings"
)

// ---------------------------------------------------------------- decimals

// dec: a decimal numeral, sign / integer part / fraction digits as spelled.
type dec struct {
	neg bool
	ip  string // no leading zeros; "0" for none
	fr  string // may end in zeros (a spelling)
}

func (d dec) abs() string {
	if d.fr == "" {
		return d.ip
	}
	return d.ip + "." + d.fr
}

func (d dec) text() string {
	if d.neg {
		return "-" + d.abs()
	}
	return d.abs()
}

func ratOf(numeral string) *big.Rat {
	q, ok := new(big.Rat).SetString(numeral)
	if !ok {
		panic("c12 scalars: not a numeral: " + numeral)
	}
	return q
}

func isZero(numeral string) bool { return ratOf(numeral).Sign() == 0 }

var intParts = []string{"0", "0", "0", "1", "1", "2", "2", "3", "7", "9", "10", "12", "99", "100", "255", "1000", "65535", "4294967296", "123456789012345678901"}

var fracLens = []int{0, 0, 1, 1, 1, 2, 2, 2, 3, 3, 4, 6, 9, 17, 25}

func randDigits(r *rand.Rand, n int, lastNonZero bool) string {
	b := make([]byte, n)
	for i := range b {
		b[i] = byte('0' + r.Intn(10))
	}
	if n > 0 && lastNonZero && b[n-1] == '0' {
		b[n-1] = byte('1' + r.Intn(9))
	}
	return string(b)
}

func randDec(r *rand.Rand) dec {
	return dec{neg: r.Intn(4) == 0, ip: intParts[r.Intn(len(intParts))], fr: randDigits(r, fracLens[r.Intn(len(fracLens))], true)}
}

// spell: one of the spellings a SCHEMA text admits for the value of d (no exponent).
func spell(r *rand.Rand, d dec) string {
	c := d
	c.fr = strings.TrimRight(c.fr, "0")
	switch r.Intn(5) {
	case 0, 1: // trailing fraction zeros
		c.fr += strings.Repeat("0", 1+r.Intn(3))
	case 2:
		if c.fr != "" {
			c.fr += "0"
		}
	}
	if c.ip == "0" && strings.Trim(c.fr, "0") == "" && r.Intn(2) == 0 {
		c.neg = !c.neg // zero / negative zero
	}
	return c.text()
}

func addInt(ip string, k int64) (string, bool) {
	n, _ := new(big.Int).SetString(ip, 10)
	n.Add(n, big.NewInt(k))
	if n.Sign() < 0 {
		return "", false
	}
	return n.String(), true
}

// stepFrac: the fraction digits fr read as a number of len(fr) digits, plus k (same length); false on over / underflow.
func stepFrac(fr string, k int64) (string, bool) {
	if fr == "" {
		return "", false
	}
	n, _ := new(big.Int).SetString(fr, 10)
	n.Add(n, big.NewInt(k))
	if n.Sign() < 0 {
		return "", false
	}
	s := n.String()
	if len(s) > len(fr) {
		return "", false
	}
	return strings.Repeat("0", len(fr)-len(s)) + s, true
}

// neighbours: numerals on and around the value of d — no exponents, so that
// they can stand in a schema text as well.  Every group is there for a branch
// of a decimal comparison: same integer part and (a) the same fraction spelled
// longer / shorter, (b) a longer fraction just above, (c) a fraction just
// below — longer, equally long, shorter —, (d) any other fraction; (e) the
// integers around; (f) integer parts of another length; (g) the other sign and
// the zeros.
func neighbours(r *rand.Rand, d dec) []string {
	fr := strings.TrimRight(d.fr, "0")
	ip := d.ip
	var abs []string
	add := func(ip, fr string) { abs = append(abs, dec{ip: ip, fr: fr}.abs()) }
	// (a)
	add(ip, fr)
	add(ip, fr+"0")
	add(ip, fr+"00")
	add(ip, fr+strings.Repeat("0", 3+r.Intn(6)))
	// (b)
	add(ip, fr+"1")
	add(ip, fr+"01")
	add(ip, fr+"0001")
	add(ip, fr+"5")
	add(ip, fr+"9")
	add(ip, fr+strings.Repeat("0", r.Intn(4))+randDigits(r, 1+r.Intn(20), true))
	add(ip, fr+"10")
	// (c)
	if lo, ok := stepFrac(fr, -1); ok {
		add(ip, lo+"9")
		add(ip, lo+"99")
		add(ip, lo+"9999")
		add(ip, lo+"5")
		add(ip, lo+"90")
		add(ip, lo+strings.Repeat("9", 8+r.Intn(14)))
		add(ip, lo)
	}
	if hi, ok := stepFrac(fr, 1); ok {
		add(ip, hi)
		add(ip, hi+"0")
	}
	if len(fr) > 0 {
		add(ip, fr[:len(fr)-1])
		if up, ok := stepFrac(fr[:len(fr)-1], 1); ok {
			add(ip, up)
		}
	}
	if len(fr) > 2 {
		add(ip, fr[:len(fr)-2])
		add(ip, fr[:1])
	}
	// (d)
	for _, n := range []int{1, 2, 3, 8, 20} {
		add(ip, randDigits(r, n, r.Intn(3) > 0))
	}
	// (e)
	add(ip, "")
	add(ip, "0")
	add(ip, "00")
	if up, ok := addInt(ip, 1); ok {
		add(up, "")
		add(up, "0")
		add(up, "000"+randDigits(r, 1, true))
	}
	if dn, ok := addInt(ip, -1); ok {
		add(dn, "")
		add(dn, "9")
		add(dn, "99")
		add(dn, strings.Repeat("9", 6+r.Intn(12)))
		add(dn, fr)
	}
	// (f)
	if ip != "0" {
		add(ip+"0", fr)
	}
	if len(ip) > 1 {
		add(ip[:len(ip)-1], fr)
	}
	add(strconv.Itoa(1+r.Intn(9))+ip, "")
	var out []string
	sign, other := "", "-"
	if d.neg {
		sign, other = "-", ""
	}
	for _, a := range abs {
		out = append(out, sign+a)
	}
	// (g)
	for _, i := range r.Perm(len(abs))[:4] {
		out = append(out, other+abs[i])
	}
	out = append(out, other+abs[0], other+abs[1], "0", "-0", "0.0", "-0.0", "0.00", "-0.000", "0.000"+randDigits(r, 1, true), "-0.0"+randDigits(r, 1, true))
	return out
}

// expSpellings: the value of d written with an exponent (document tokens only).
func expSpellings(d dec) []string {
	sign := ""
	if d.neg {
		sign = "-"
	}
	t := d.abs()
	out := []string{sign + t + "e0", sign + t + "E+0", sign + t + "e-0", sign + t + "E00"}
	digits := strings.TrimLeft(d.ip+d.fr, "0")
	if digits == "" {
		digits = "0"
	}
	if d.fr != "" {
		out = append(out, fmt.Sprintf("%s%se-%d", sign, digits, len(d.fr)))
		if digits != "0" {
			out = append(out, fmt.Sprintf("%s%s0E-%d", sign, digits, len(d.fr)+1))
		}
	}
	if d.ip != "0" {
		out = append(out, fmt.Sprintf("%s0.%s%se%d", sign, d.ip, d.fr, len(d.ip)), fmt.Sprintf("%s0.0%s%sE+%d", sign, d.ip, d.fr, len(d.ip)+1))
		if len(d.ip) > 1 {
			out = append(out, fmt.Sprintf("%s%s.%s%se%d", sign, d.ip[:1], d.ip[1:], d.fr, len(d.ip)-1))
		}
	} else if d.fr != "" {
		out = append(out, fmt.Sprintf("%s%s.%se-1", sign, d.fr[:1], d.fr[1:]+"0"))
	}
	return out
}

// ---------------------------------------------------------------- members

// sfield: a scalar member with rules and the document tokens around them.
type sfield struct {
	example string   // the literal of the schema text
	typ     string   // JSON type name for an explicit {type: …} (or rule-sets); "" when the rules admit none (enum)
	rules   []string // "min: 2.50", "exclusiveMinimum: true", …
	probes  []string // raw JSON tokens
	kind    string   // statistics
}

func (f sfield) rule() string { return "{" + strings.Join(f.rules, ", ") + "}" }

// orAlt: the member as an alternative of an or rule-set.
func (f sfield) orAlt() string {
	if len(f.rules) > 0 && strings.HasPrefix(f.rules[0], "type: ") {
		return f.rule()
	}
	return "{" + strings.Join(append([]string{fmt.Sprintf("type: %q", f.typ)}, f.rules...), ", ") + "}"
}

func hasFraction(numeral string) bool { return strings.Contains(numeral, ".") }

func fracDigits(numeral string) int {
	i := strings.Index(numeral, ".")
	if i < 0 {
		return 0
	}
	return len(strings.TrimRight(numeral[i+1:], "0"))
}

// second: a second bound next to a.
func second(r *rand.Rand, a dec) dec {
	fr := strings.TrimRight(a.fr, "0")
	b := a
	switch r.Intn(8) {
	case 0: // the same value
	case 1, 2: // same integer part, longer fraction
		b.fr = fr + strings.Repeat("0", r.Intn(3)) + randDigits(r, 1+r.Intn(4), true)
	case 3: // same integer part, fraction of the same length
		if up, ok := stepFrac(fr, int64(1+r.Intn(9))); ok {
			b.fr = up
		} else {
			b.fr = fr + "5"
		}
	case 4: // same integer part, any fraction
		b.fr = randDigits(r, 1+r.Intn(6), true)
	case 5:
		if up, ok := addInt(a.ip, 1); ok {
			b.ip = up
		}
		if r.Intn(2) == 0 {
			b.fr = ""
		}
	case 6:
		b.neg = !a.neg
	default:
		b = randDec(r)
	}
	return b
}

// numField: a member with numeric rules.  defect: the example lies on the
// WRONG side of one of its rules, as near to the bound as the example of a sound member lies on the right side.
func numField(r *rand.Rand, defect bool) sfield {
	for attempt := 0; ; attempt++ {
		if attempt > 400 {
			panic("c12 scalars: no numeric member found")
		}
		var f sfield
		var bounds []dec
		var lo, hi *big.Rat
		exLo, exHi := false, false
		precision := -1
		wantFloat := r.Intn(6) > 0 // a node of type float also admits integers; a node of type integer no fraction at all
		kind := []string{"min", "min", "min", "max", "max", "max", "minmax", "minmax", "minmax", "minmax", "const", "enum", "enum", "precision", "precision", "minmax-precision"}[r.Intn(16)]
		if defect {
			kind = []string{"min", "min", "max", "max", "minmax", "minmax", "precision", "minmax-precision"}[r.Intn(8)]
		}
		f.kind = kind
		a := randDec(r)
		switch kind {
		case "min":
			bounds = []dec{a}
			lo, exLo = ratOf(a.text()), r.Intn(3) == 0
		case "max":
			bounds = []dec{a}
			hi, exHi = ratOf(a.text()), r.Intn(3) == 0
		case "minmax", "minmax-precision":
			b := second(r, a)
			if ratOf(a.text()).Cmp(ratOf(b.text())) > 0 {
				a, b = b, a
			}
			bounds = []dec{a, b}
			lo, hi = ratOf(a.text()), ratOf(b.text())
			if lo.Cmp(hi) < 0 {
				exLo, exHi = r.Intn(4) == 0, r.Intn(4) == 0
			}
		default:
			bounds = []dec{a}
		}
		if strings.HasSuffix(kind, "precision") {
			precision = 1 + r.Intn(4)
			if r.Intn(3) == 0 {
				precision = fracDigits(a.text()) + r.Intn(2)
			}
			if precision == 0 {
				precision = 1
			}
			wantFloat = true
			f.typ = "decimal"
		}
		// the example: a neighbour of a bound
		var cands []string
		for _, b := range bounds {
			cands = append(cands, neighbours(r, b)...)
		}
		if precision > 0 {
			// as many fraction digits as the precision admits, one fewer, one more; more digits spelled than counted
			for _, b := range bounds {
				for _, n := range []int{precision - 1, precision, precision, precision + 1} {
					if n >= 0 {
						for _, fr := range []string{randDigits(r, n, true), randDigits(r, n, true) + "0", randDigits(r, n, true) + "00"} {
							cands = append(cands, dec{neg: b.neg, ip: b.ip, fr: fr}.text())
						}
					}
				}
			}
		}
		if lo != nil && hi != nil && lo.Cmp(hi) < 0 {
			mid := new(big.Rat).Add(lo, hi)
			mid.Quo(mid, big.NewRat(2, 1))
			cands = append(cands, mid.FloatString(len(bounds[0].fr)+len(bounds[1].fr)+1))
		}
		sound := func(c string) bool {
			q := ratOf(c)
			if lo != nil && (q.Cmp(lo) < 0 || (exLo && q.Cmp(lo) == 0)) {
				return false
			}
			if hi != nil && (q.Cmp(hi) > 0 || (exHi && q.Cmp(hi) == 0)) {
				return false
			}
			return precision < 0 || fracDigits(c) <= precision
		}
		found := false
		for _, i := range r.Perm(len(cands)) {
			c := cands[i]
			if hasFraction(c) != wantFloat || sound(c) == defect {
				continue
			}
			if defect && precision > 0 && !hasFraction(c) {
				continue
			}
			f.example, found = c, true
			break
		}
		if !found {
			continue
		}
		if f.typ == "" {
			f.typ = "integer"
			if wantFloat {
				f.typ = "float"
			}
		}
		// the rules, bounds in one of their spellings
		switch {
		case lo != nil && hi != nil:
			f.rules = []string{"min: " + spell(r, bounds[0]), "max: " + spell(r, bounds[1])}
		case lo != nil:
			f.rules = []string{"min: " + spell(r, bounds[0])}
		case hi != nil:
			f.rules = []string{"max: " + spell(r, bounds[0])}
		}
		if exLo {
			f.rules = append(f.rules, "exclusiveMinimum: true")
			f.kind += "-exclusive"
		} else if lo != nil && r.Intn(8) == 0 {
			f.rules = append(f.rules, "exclusiveMinimum: false")
		}
		if exHi {
			f.rules = append(f.rules, "exclusiveMaximum: true")
			f.kind += "-exclusive"
		} else if hi != nil && r.Intn(8) == 0 {
			f.rules = append(f.rules, "exclusiveMaximum: false")
		}
		if precision > 0 {
			f.rules = append([]string{`type: "decimal"`}, append(f.rules, fmt.Sprintf("precision: %d", precision))...)
		}
		probeBounds := bounds
		switch kind {
		case "const":
			f.example = spell(r, a)
			if hasFraction(f.example) {
				f.typ = "float"
			} else {
				f.typ = "integer"
			}
			f.rules = []string{"const: true"}
		case "enum":
			// numerals of different values (some next to each other), other literals in between
			vals := []dec{a}
			for i, n := 0, 1+r.Intn(4); i < n; i++ {
				vals = append(vals, second(r, vals[r.Intn(len(vals))]))
			}
			var items []string
			seen := map[string]bool{}
			for _, v := range vals {
				if k := ratOf(v.text()).String(); !seen[k] {
					seen[k] = true
					items = append(items, spell(r, v))
				}
			}
			f.example = items[0]
			for _, o := range []string{`"` + items[0] + `"`, `null`, `true`, `"a"`} {
				if r.Intn(3) == 0 {
					items = append(items, o)
				}
			}
			r.Shuffle(len(items), func(i, j int) { items[i], items[j] = items[j], items[i] })
			f.rules = []string{"enum: [" + strings.Join(items, ", ") + "]"}
			f.typ = ""
			probeBounds = vals
			f.probes = append(f.probes, items...)
		}
		if strings.HasSuffix(f.kind, "-exclusive-exclusive") {
			f.kind = strings.TrimSuffix(f.kind, "-exclusive")
		}
		if hasFraction(f.example) {
			f.kind += "/float-example"
		} else {
			f.kind += "/integer-example"
		}
		// the probes
		f.probes = append(f.probes, f.example)
		if hasFraction(f.example) {
			f.probes = append(f.probes, f.example+"0")
		}
		for _, b := range probeBounds {
			f.probes = append(f.probes, neighbours(r, b)...)
			f.probes = append(f.probes, expSpellings(b)...)
			c := b
			c.fr = strings.TrimRight(c.fr, "0") + "0"
			f.probes = append(f.probes, expSpellings(c)[3:]...)
		}
		f.probes = append(f.probes, cands[r.Intn(len(cands))], cands[r.Intn(len(cands))], `"`+f.example+`"`, "null")
		return f
	}
}

// characters of string examples and probes, by class; every entry counts as ONE character
var (
	asciiChars = []string{"a", "b", "z", "A", "0", "7", " ", "-", "_", "."}
	multiChars = []string{"é", "ж", "日", "ß", "€", "😀"}
	escChars   = []string{`\n`, `\"`, `\\`, `\/`, `\t`, `\u0041`, `\u00e9`, `\u65e5`, `\b`}
)

// strLit: a JSON string literal of n characters; class 0 ASCII, 1 with multi-byte characters, 2 with escapes as well.
func strLit(r *rand.Rand, n, class int) string {
	var sb strings.Builder
	sb.WriteByte('"')
	for i := 0; i < n; i++ {
		switch x := r.Intn(6); {
		case class >= 1 && x == 0:
			sb.WriteString(multiChars[r.Intn(len(multiChars))])
		case class >= 2 && x <= 2:
			sb.WriteString(escChars[r.Intn(len(escChars))])
		default:
			sb.WriteString(asciiChars[r.Intn(len(asciiChars))])
		}
	}
	sb.WriteByte('"')
	return sb.String()
}

// otherCase: the literal with the case of its plain letters changed (escapes stay what they are).
func otherCase(lit string) string {
	b := []byte(lit)
	for i := 0; i < len(b); i++ {
		switch {
		case b[i] == '\\' && i+1 < len(b) && b[i+1] == 'u':
			i += 5
		case b[i] == '\\':
			i++
		case b[i] >= 'a' && b[i] <= 'z':
			b[i] -= 32
		case b[i] >= 'A' && b[i] <= 'Z':
			b[i] += 32
		}
	}
	return string(b)
}

func lengthProbes(r *rand.Rand, bounds ...int) []string {
	var out []string
	for _, l := range bounds {
		for _, n := range []int{l - 1, l, l, l + 1} {
			if n >= 0 {
				out = append(out, strLit(r, n, 0), strLit(r, n, 1+r.Intn(2)))
			}
		}
		out = append(out, strLit(r, l+2+r.Intn(40), r.Intn(3)))
	}
	return append(out, `""`, `" "`, "null", "1")
}

// strField: a member with string rules.
func strField(r *rand.Rand) sfield {
	f := sfield{typ: "string"}
	lens := []int{0, 1, 1, 2, 3, 3, 5, 8, 16, 33}
	switch kind := []string{"minLength", "minLength", "maxLength", "maxLength", "minmaxLength", "minmaxLength", "minmaxLength", "const", "enum", "regex"}[r.Intn(10)]; kind {
	case "minLength", "maxLength":
		l := lens[r.Intn(len(lens))]
		n := l // on the bound
		if r.Intn(3) == 0 {
			if n += 1 + r.Intn(3); kind == "maxLength" {
				n = l - imin(l, 1+r.Intn(3))
			}
		}
		f.kind, f.example, f.rules = kind, strLit(r, n, 0), []string{fmt.Sprintf("%s: %d", kind, l)}
		f.probes = lengthProbes(r, l)
	case "minmaxLength":
		lo := lens[r.Intn(len(lens))]
		hi := lo + []int{0, 0, 1, 2, 7}[r.Intn(5)]
		n := []int{lo, hi, lo + r.Intn(hi-lo+1)}[r.Intn(3)]
		f.kind, f.example, f.rules = kind, strLit(r, n, 0), []string{fmt.Sprintf("minLength: %d", lo), fmt.Sprintf("maxLength: %d", hi)}
		if r.Intn(2) == 0 {
			f.rules[0], f.rules[1] = f.rules[1], f.rules[0]
		}
		f.probes = lengthProbes(r, lo, hi)
	case "const":
		n := 1 + r.Intn(6)
		f.kind, f.example, f.rules = kind, strLit(r, n, r.Intn(3)), []string{"const: true"}
		f.probes = append(lengthProbes(r, n), f.example, otherCase(f.example), strings.ReplaceAll(f.example, `\/`, `/`), strings.ReplaceAll(f.example, `\u0041`, `A`),
			strings.ReplaceAll(f.example, `A`, `\u0041`), strings.ReplaceAll(f.example, `é`, `\u00e9`), f.example[:len(f.example)-1]+` "`)
	case "enum":
		items := []string{`"a"`}
		seen := map[string]bool{`"a"`: true}
		for i, n := 0, 1+r.Intn(5); i < n; i++ {
			if s := strLit(r, r.Intn(4), r.Intn(3)); !seen[s] {
				seen[s] = true
				items = append(items, s)
			}
		}
		if r.Intn(2) == 0 {
			items = append(items, spell(r, randDec(r)))
		}
		r.Shuffle(len(items), func(i, j int) { items[i], items[j] = items[j], items[i] })
		f.example = items[r.Intn(len(items))]
		f.kind, f.typ, f.rules = "enum-strings", "", []string{"enum: [" + strings.Join(items, ", ") + "]"}
		f.probes = append(append(lengthProbes(r, 1), items...), otherCase(f.example))
	default:
		lo := 1 + r.Intn(3)
		hi := lo + r.Intn(3)
		f.kind, f.rules = "regex", []string{fmt.Sprintf(`regex: "^[a-z]{%d,%d}$"`, lo, hi)}
		word := func(n int) string { return strings.Repeat("abcxyz", 3)[r.Intn(6):][:n] }
		q := func(s string) string { return `"` + s + `"` }
		f.example = q(word(lo + r.Intn(hi-lo+1)))
		f.probes = []string{q(word(lo - 1)), q(word(lo)), q(word(hi)), q(word(hi + 1)), q(strings.ToUpper(word(lo))), `"é"`, "null", q(word(lo) + " "), q(word(hi-1) + `\n`)}
	}
	return f
}

// scalarMember: a member with numeric (two out of three) or string rules.
func scalarMember(r *rand.Rand) sfield {
	if r.Intn(3) < 2 {
		return numField(r, false)
	}
	return strField(r)
}

// ---------------------------------------------------------------- probe documents

// probeTab: the probes of the texts a root is made of.
type probeTab struct {
	byKey map[string][]string // member name -> tokens around the rules of that member
	nums  []string            // all numeric tokens of the table
	strs  []string
}

func newProbeTab() *probeTab { return &probeTab{byKey: map[string][]string{}} }

func (p *probeTab) add(key string, tokens []string) {
	if len(tokens) == 0 {
		return
	}
	if key != "" {
		p.byKey[key] = append(p.byKey[key], tokens...)
	}
	for _, t := range tokens {
		switch {
		case strings.HasPrefix(t, `"`):
			p.strs = append(p.strs, t)
		case t != "null" && t != "true" && t != "false":
			p.nums = append(p.nums, t)
		}
	}
}

func (p *probeTab) merge(m map[string][]string) {
	keys := make([]string, 0, len(m))
	for k := range m {
		keys = append(keys, k)
	}
	sort.Strings(keys)
	for _, k := range keys {
		if strings.HasPrefix(k, "\x00") { // tokens of a nameless place (a scalar type, an array element): pooled only
			p.add("", m[k])
		} else {
			p.add(k, m[k])
		}
	}
}

// unquoteKey: the member name of a key literal as the generators write it.
func unquoteKey(lit string) string {
	if s, err := strconv.Unquote(lit); err == nil {
		return s
	}
	return lit
}

// probeDocs: up to n copies of the example document v (decoded with
// UseNumber) in which scalar leaves are replaced by probes: the probes of the
// member they stand under where the table has them; otherwise, for a number,
// a numeric probe of the table or a neighbour of the leaf's own value, for a
// string (one time out of three) a string probe of the table.  Half of the
// documents replace ONE leaf (all other members stay valid, so that validation
// gets there), the others every leaf with probability 1/2.
func probeDocs(r *rand.Rand, v interface{}, pt *probeTab, n int) []string {
	if pt == nil {
		pt = newProbeTab()
	}
	leaves := 0
	var count func(x interface{})
	count = func(x interface{}) {
		switch t := x.(type) {
		case map[string]interface{}:
			for _, e := range t {
				count(e)
			}
		case []interface{}:
			for _, e := range t {
				count(e)
			}
		case stdjson.Number, string:
			leaves++
		}
	}
	count(v)
	if leaves == 0 {
		return nil
	}
	var docs []string
	for i := 0; i < n; i++ {
		target, at := -1, 0
		if i%2 == 0 {
			target = r.Intn(leaves)
		}
		replaced := false
		var walk func(x interface{}, key string) interface{}
		walk = func(x interface{}, key string) interface{} {
			switch t := x.(type) {
			case map[string]interface{}:
				keys := make([]string, 0, len(t))
				for k := range t {
					keys = append(keys, k)
				}
				sort.Strings(keys)
				c := map[string]interface{}{}
				for _, k := range keys {
					c[k] = walk(t[k], k)
				}
				return c
			case []interface{}:
				c := make([]interface{}, len(t))
				for j := range t {
					c[j] = walk(t[j], key)
				}
				return c
			case stdjson.Number, string:
				at++
				if (target >= 0 && at-1 != target) || (target < 0 && r.Intn(2) == 0) {
					return x
				}
				own := pt.byKey[key]
				var tok string
				switch num, isNum := x.(stdjson.Number); {
				case len(own) > 0 && r.Intn(8) > 0:
					tok = own[r.Intn(len(own))]
				case isNum && len(pt.nums) > 0 && r.Intn(2) == 0:
					tok = pt.nums[r.Intn(len(pt.nums))]
				case isNum:
					if d, ok := parseDec(string(num)); ok {
						ns := append(neighbours(r, d), expSpellings(d)...)
						tok = ns[r.Intn(len(ns))]
					}
				case len(pt.strs) > 0 && (target >= 0 || r.Intn(3) == 0):
					tok = pt.strs[r.Intn(len(pt.strs))]
				}
				if tok == "" {
					return x
				}
				replaced = true
				return stdjson.RawMessage(tok)
			}
			return x
		}
		d := walk(v, "")
		if !replaced {
			continue
		}
		if out, err := stdjson.Marshal(d); err == nil {
			docs = append(docs, string(out))
		}
	}
	return docs
}

// parseDec: a plain decimal numeral (no exponent).
func parseDec(s string) (dec, bool) {
	var d dec
	if strings.HasPrefix(s, "-") {
		d.neg, s = true, s[1:]
	}
	if s == "" || strings.ContainsAny(s, "eE+-") {
		return d, false
	}
	d.ip = s
	if i := strings.Index(s, "."); i >= 0 {
		d.ip, d.fr = s[:i], s[i+1:]
	}
	for _, c := range d.ip + d.fr {
		if c < '0' || c > '9' {
			return d, false
		}
	}
	return d, d.ip != ""
}
