// nested.go: the stream "nested" of c12-concurrent — shared user-type objects
// that OWN types themselves.
//
// The property speaks of "other schemas - including schemas to which the same
// user-type objects were added".  A user-type object is a full schema: it may
// have had types of its own added (T.AddType(U), U.AddType(V), …) and every
// one of these owns the anonymous types of its or rule-sets / or shortcuts.
// Compiling a root hoists all of that, transitively, into the ROOT's type
// table; the objects below the root must only be read.  One round:
//
//   - a random forest of type objects is built sequentially, bottom-up:
//     1..3 top types, ownership chains of depth 0..3 below them, 1..2 added
//     types per owner, now and then one object owned by two owners (a DAG);
//     texts: objects / arrays / aliases referring to the owned types through
//     plain, optional, nullable, array, or-shortcut, or-rule ("@K" and
//     {type: "@K"}), type-rule, key-shortcut and additionalProperties
//     references, own fields with or rule-sets (2..3 different alternatives),
//     inline enums, enum RULES (AddRule on the type object), nested objects
//     and arrays with or rule-sets, optional self references; leaves: scalars
//     with or rule-sets, regex strings, enums;
//   - 2..6 roots over the SAME objects (each root adds 1..3 of the tops, at
//     times a mid-level object directly as well, at times a private copy
//     instead of the shared object), some set up before the goroutines start,
//     the others created and set up by their own goroutine;
//   - every root and every type object is created with or without
//     jschema.KeysAreOptionalByDefault(), drawn per object (drawOptions);
//     the documents include the example lacking exactly one key (dropOneKey);
//   - every root is compiled for the first time and used by its own 1..4
//     goroutines, all released together: random Check / Validate (example
//     document of the sequential run and mutations of it) / Len / Example /
//     GetAST / UsedUserTypes mixes with random yields;
//   - ORACLE: the same root over a FRESH forest in a sequential run; a second
//     sequential run (all roots over one copy of the forest, calls in the
//     opposite order) must agree with it, otherwise the root is left out;
//     all goroutines of one root must be handed the same AST object;
//   - three rounds run at a time, each bracketed by racekit.Mark lines on
//     stderr: a race report carries the rounds it was printed in, and the
//     parent replays those alone (--round N) to name the one that produces it.
//
// allOf never occurs in this stream (K-C12-allof: a shared type object that
// takes part in an allOf expansion is rewritten in place by every root's
// compile).  The stream "known" (--with-known) runs the same rounds with
// forests in which at least one owner extends an owned object type by allOf.
package c12

import (
	stdjson "encoding/json"
	"fmt"
	"math/rand"
	"runtime"
	"sort"
	"strings"
	"sync"
	"sync/atomic"
	"time"

	root "github.com/jsightapi/jsight-schema-go-library"
	"github.com/jsightapi/jsight-schema-go-library/notations/jschema"
	"github.com/jsightapi/jsight-schema-go-library/rules/enum"

	"verifharness/vh"
	"verifharness/x/c11"
	"verifharness/x/racekit"
)

// ---------------------------------------------------------------- specs

const (
	shObject = iota
	shString // a string type: usable as a key shortcut
	shScalar
	shArray
	shAlias
)

// nrule: one AddRule(name, enum object) call.  obj > 0: the enum OBJECT number
// obj of the round — one object per copy of the round's objects, added to
// every type / root that names it (stream "broken"); obj == 0: a fresh object.
type nrule struct {
	name, text string
	obj        int
	recipe     string // how to write text down, if it is long
}

// tspec: one user-type object of a round.
type tspec struct {
	id    int
	name  string // the name under which every owner adds it
	text  string
	shape int
	rules []nrule  // AddRule calls on the type object itself
	kids  []*tspec // AddType(kid.name, kid object) calls on the type object
	depth int      // longest ownership chain below it
	value string   // scalar leaves: a literal that belongs to the type ("" otherwise)
	anon  bool     // its own text has or rule-sets / or shortcuts: it owns anonymous types
	allOf bool
	opt   bool // the object (shared or private copy) is created with jschema.KeysAreOptionalByDefault()

	// scalars.go: document tokens around the scalar rules of the text, by member name ("\x00…": of no member —
	// the text is a scalar itself, or the rule stands in an array)
	probes map[string][]string

	// stream "broken" (broken.go)
	recipe  string   // how to write text down (a loop), for the replay description
	defect  string   // "" = sound; else the kind of error only the check of a ROOT finds in it
	sound   string   // the text without the defect ("" when there is none)
	members int      // members of the object / array text
	late    bool     // the defect sits in the second half of the text
	refs    []*tspec // types it names without owning them (the root has to add them)
}

type forest struct {
	nodes []*tspec // creation order: owned types precede their owners
	tops  []*tspec
}

type nadd struct {
	t       *tspec
	private bool // a fresh copy of the object (and of everything it owns) instead of the shared one
}

type nroot struct {
	id     string
	text   string
	opt    bool // created with jschema.KeysAreOptionalByDefault(): a lenient root next to strict ones over the same type objects
	rules  []nrule
	adds   []nadd
	probes map[string][]string // as tspec.probes, for the root's own text
	pre    bool                // set up before the goroutines start
	gs     int                 // goroutines using it
}

// enum rule texts with a value that belongs to them
var nestedEnums = []struct{ text, example string }{
	{c11.Enums[0], `"a"`}, {c11.Enums[1], `"x"`}, {c11.Enums[4], `1`}, {c11.Enums[6], `"b"`}, {c11.Enums[7], `"y"`},
	{`["p", "q", 3, null]`, `3`},
}

// alternatives of an or rule-set with a fitting example value
var orAlts = []struct{ rule, example string }{
	{`{type: "integer"}`, `5`}, {`{type: "integer", min: 0}`, `7`}, {`{type: "string"}`, `"s"`}, {`{type: "string", minLength: 2}`, `"str"`},
	{`{type: "boolean"}`, `true`}, {`{type: "null"}`, `null`}, {`{type: "float"}`, `2.5`}, {`{type: "string", regex: "[a-z]+"}`, `"abc"`},
}

// orRule: a rule-set list of 2..3 different alternatives; refs (names of user
// types) are mixed in as "@K" or {type: "@K"}.
func orRule(r *rand.Rand, refs ...string) (rule, example string) {
	rule, example, _ = orRuleP(r, refs...)
	return rule, example
}

// orRuleP: one time out of three one of the alternatives is a scalar type with
// rules from scalars.go (`{type: "float", min: 2.50, max: 3.10}`); the probes
// around its rules are returned as well.
func orRuleP(r *rand.Rand, refs ...string) (rule, example string, probes []string) {
	n := 2 + r.Intn(2)
	perm := r.Perm(len(orAlts))
	var alts []string
	for _, i := range perm[:n] {
		alts = append(alts, orAlts[i].rule)
	}
	example = orAlts[perm[0]].example
	if r.Intn(3) == 0 {
		f := scalarMember(r)
		for f.typ == "" {
			f = scalarMember(r)
		}
		at := r.Intn(n)
		alts[at], probes = f.orAlt(), f.probes
		if at == 0 {
			example = f.example
		}
	}
	for _, ref := range refs {
		a := fmt.Sprintf("%q", ref)
		if r.Intn(2) == 0 {
			a = fmt.Sprintf("{type: %q}", ref)
		}
		at := r.Intn(len(alts) + 1)
		alts = append(alts[:at], append([]string{a}, alts[at:]...)...)
	}
	return "{or: [" + strings.Join(alts, ", ") + "]}", example, probes
}

// field: one member of an object / array text; ann goes behind the comma.
type field struct{ head, ann string }

func joinFields(open, close string, fs []field, topAnn string, indent string) string {
	var sb strings.Builder
	sb.WriteString(open)
	if topAnn != "" {
		sb.WriteString(" // " + topAnn)
	}
	sb.WriteString("\n")
	for i, f := range fs {
		sb.WriteString(indent + "  " + f.head)
		if i < len(fs)-1 {
			sb.WriteString(",")
		}
		if f.ann != "" {
			sb.WriteString(" // " + f.ann)
		}
		sb.WriteString("\n")
	}
	sb.WriteString(indent + close)
	return sb.String()
}

type textGen struct {
	r     *rand.Rand
	rules []nrule
	anon  bool
	tag   string // makes key and rule names unique per object
	n     int

	probes map[string][]string // see tspec.probes
}

// note: the probes of the member written with the key literal keyLit ("": of a nameless place).
func (g *textGen) note(keyLit string, tokens []string) {
	if len(tokens) == 0 {
		return
	}
	if g.probes == nil {
		g.probes = map[string][]string{}
	}
	k := fmt.Sprintf("\x00%d", len(g.probes))
	if keyLit != "" {
		k = unquoteKey(keyLit)
	}
	g.probes[k] = append(g.probes[k], tokens...)
}

func (g *textGen) key(prefix string) string {
	g.n++
	return fmt.Sprintf("%q", fmt.Sprintf("%s%s%d", prefix, g.tag, g.n))
}

// ownField: a member that refers to no user type.
func (g *textGen) ownField(indent string) field {
	r := g.r
	switch x := r.Intn(26); {
	case x >= 20:
		// a scalar with rules whose numerals / lengths matter (scalars.go)
		f := scalarMember(r)
		k := g.key("v")
		g.note(k, f.probes)
		return field{k + ": " + f.example, f.rule()}
	case x < 6:
		rule, ex, pr := orRuleP(r)
		g.anon = true
		k := g.key("o")
		g.note(k, pr)
		return field{k + ": " + ex, rule}
	case x < 8:
		return field{g.key("e") + `: "a"`, `{enum: ["a", "b"]}`}
	case x < 11:
		e := nestedEnums[r.Intn(len(nestedEnums))]
		name := fmt.Sprintf("@e%s%d", g.tag, len(g.rules))
		g.rules = append(g.rules, nrule{name: name, text: e.text})
		return field{g.key("e") + ": " + e.example, "{enum: " + name + "}"}
	case x < 13:
		return field{g.key("p") + ": 1", "{min: 0}"}
	case x < 16:
		rule, ex, pr := orRuleP(r)
		g.anon = true
		k := g.key("o")
		g.note(k, pr)
		inner := []field{{k + ": " + ex, rule}}
		if r.Intn(2) == 0 {
			inner = append(inner, field{g.key("q") + `: "s"`, "{optional: true}"})
		}
		if r.Intn(3) == 0 {
			f := scalarMember(r)
			k := g.key("v")
			g.note(k, f.probes)
			inner = append(inner, field{k + ": " + f.example, f.rule()})
		}
		return field{g.key("n") + ": " + joinFields("{", "}", inner, "", indent+"  "), ""}
	case x < 18:
		k := g.key("l")
		if r.Intn(3) == 0 { // an array of scalars with rules
			f := scalarMember(r)
			g.note(k, f.probes)
			return field{k + ": " + joinFields("[", "]", []field{{f.example, f.rule()}}, "", indent+"  "), ""}
		}
		rule, ex, pr := orRuleP(r)
		g.anon = true
		g.note(k, pr)
		return field{k + ": " + joinFields("[", "]", []field{{ex, rule}}, "", indent+"  "), ""}
	default:
		return field{g.key("s") + `: "abc"`, `{regex: "[a-z]+"}`}
	}
}

// refField: a member that refers to the user type k (others: further names
// that may be mixed into or forms).
func (g *textGen) refField(k *tspec, others []string) field {
	f := g.refField1(k, others)
	// the member holds a value of k: the tokens around the rules of a scalar k belong to this member too
	if i := strings.Index(f.head, `": `); i > 0 && strings.HasPrefix(f.head, `"`) {
		keys := make([]string, 0, len(k.probes))
		for pk := range k.probes {
			if strings.HasPrefix(pk, "\x00") {
				keys = append(keys, pk)
			}
		}
		sort.Strings(keys)
		for _, pk := range keys {
			g.note(f.head[:i+1], k.probes[pk])
		}
	}
	return f
}

func (g *textGen) refField1(k *tspec, others []string) field {
	r := g.r
	for {
		switch r.Intn(11) {
		case 0, 1:
			return field{g.key("c") + ": " + k.name, ""}
		case 2:
			return field{g.key("c") + ": " + k.name, "{optional: true}"}
		case 3:
			return field{g.key("c") + ": " + k.name, "{nullable: true}"}
		case 4:
			return field{g.key("c") + ": [" + k.name + "]", ""}
		case 5:
			if len(others) == 0 {
				continue
			}
			g.anon = true
			o := others[r.Intn(len(others))]
			if r.Intn(2) == 0 {
				return field{g.key("c") + ": " + o + " | " + k.name, ""}
			}
			return field{g.key("c") + ": " + k.name + " | " + o, ""}
		case 6, 7:
			refs := []string{k.name}
			if len(others) > 0 && r.Intn(3) == 0 {
				refs = append(refs, others[r.Intn(len(others))])
			}
			rule, ex := orRule(r, refs...)
			g.anon = true
			return field{g.key("c") + ": " + ex, rule}
		case 8:
			if k.shape != shString {
				continue
			}
			return field{k.name + ": 1", ""}
		case 9:
			// a type rule needs a literal of the type as its example (and admits no object / array literal)
			if k.value == "" {
				continue
			}
			return field{g.key("c") + ": " + k.value, fmt.Sprintf("{type: %q}", k.name)}
		default:
			return field{g.key("c") + ": " + k.name, ""}
		}
	}
}

// ---------------------------------------------------------------- forest

type forestGen struct {
	r     *rand.Rand
	f     *forest
	allOf bool // stream "known": owners may extend an owned object type by allOf

	foreign bool // the forest's one reference to a type its owner does not own is spent
}

func (fg *forestGen) leafText(g *textGen) (text string, shape int, value string) {
	r := fg.r
	switch x := r.Intn(15); {
	case x >= 12:
		// a scalar type with rules whose numerals / lengths matter (scalars.go)
		f := scalarMember(r)
		g.note("", f.probes)
		shape := shScalar
		if f.typ == "string" && !strings.Contains(f.rule(), "const") {
			shape = shString
		}
		return f.example + " // " + f.rule(), shape, f.example
	case x < 2:
		return `"abc" // {regex: "[a-z]+"}`, shString, `"abc"`
	case x < 3:
		return `"ab" // {minLength: 1}`, shString, `"ab"`
	case x < 5:
		rule, ex, pr := orRuleP(r)
		g.anon = true
		g.note("", pr)
		return ex + " // " + rule, shScalar, ex
	case x < 6:
		e := nestedEnums[r.Intn(len(nestedEnums))]
		name := fmt.Sprintf("@e%s", g.tag)
		g.rules = append(g.rules, nrule{name: name, text: e.text})
		return e.example + " // {enum: " + name + "}", shScalar, e.example
	case x < 7:
		return `1 // {min: 0}`, shScalar, `1`
	case x < 8:
		rule, ex, pr := orRuleP(r)
		g.anon = true
		g.note("", pr)
		return joinFields("[", "]", []field{{ex, rule}}, "", ""), shArray, ""
	default:
		var fs []field
		for i, n := 0, 1+r.Intn(3); i < n; i++ {
			fs = append(fs, g.ownField(""))
		}
		return joinFields("{", "}", fs, "", ""), shObject, ""
	}
}

// node creates a type with an ownership chain of exactly `depth` below it.
func (fg *forestGen) node(level, depth int) *tspec {
	r := fg.r
	var kids []*tspec
	if depth > 0 {
		n := 1 + r.Intn(2)
		if level >= 2 && r.Intn(2) == 0 {
			n = 1
		}
		for i := 0; i < n; i++ {
			d := depth - 1
			if i > 0 {
				d = r.Intn(depth)
			}
			// now and then an object that already has an owner (it precedes us, so no cycle)
			if i > 0 && r.Intn(5) == 0 {
				var cands []*tspec
				for _, c := range fg.f.nodes {
					if c.depth <= depth-1 && !c.allOf {
						cands = append(cands, c)
					}
				}
				if len(cands) > 0 {
					c := cands[r.Intn(len(cands))]
					dup := false
					for _, k := range kids {
						dup = dup || k == c
					}
					if !dup {
						kids = append(kids, c)
						continue
					}
				}
			}
			kids = append(kids, fg.node(level+1, d))
		}
	}
	t := &tspec{id: len(fg.f.nodes), kids: kids, depth: depth}
	t.name = fmt.Sprintf("@%c%d", "TUVWX"[level], t.id)
	g := &textGen{r: r, tag: fmt.Sprintf("%c%d_", "tuvwx"[level], t.id)}
	if len(kids) == 0 {
		t.text, t.shape, t.value = fg.leafText(g)
	} else {
		var names []string
		for _, k := range kids {
			names = append(names, k.name)
		}
		switch x := r.Intn(12); {
		case x == 0 && len(kids) == 1:
			t.text, t.shape = kids[0].name, shAlias
		case x == 1:
			t.text, t.shape = strings.Join(names, " | "), shAlias
			g.anon = len(names) > 1
		case x == 2:
			var fs []field
			for _, k := range kids {
				fs = append(fs, field{k.name, ""})
			}
			t.text, t.shape = joinFields("[", "]", fs, "", ""), shArray
		default:
			t.shape = shObject
			var fs []field
			topAnn := ""
			for i, k := range kids {
				if fg.allOf && topAnn == "" && k.shape == shObject && !k.allOf && r.Intn(2) == 0 {
					topAnn = fmt.Sprintf("{allOf: %q}", k.name)
					t.allOf = true
					continue
				}
				var others []string
				for j, o := range names {
					if j != i {
						others = append(others, o)
					}
				}
				fs = append(fs, g.refField(k, others))
			}
			for i, n := 0, r.Intn(3); i < n; i++ {
				fs = append(fs, g.ownField(""))
			}
			if r.Intn(7) == 0 { // recursion through the type itself
				fs = append(fs, field{g.key("self") + ": " + t.name, "{optional: true}"})
			}
			// a type it does not own: resolved only in roots that got it from elsewhere.  At most one per forest: a
			// root with two unrelated errors reports either of them (which one depends on the addresses behind
			// the names of anonymous types) — that choice is no business of C12
			if r.Intn(5) == 0 && len(fg.f.nodes) > 0 && !fg.foreign {
				fg.foreign = true
				o := fg.f.nodes[r.Intn(len(fg.f.nodes))]
				fs = append(fs, field{g.key("x") + ": " + o.name, "{optional: true}"})
			}
			if r.Intn(9) == 0 && topAnn == "" {
				topAnn = fmt.Sprintf("{additionalProperties: %q}", kids[r.Intn(len(kids))].name)
			}
			r.Shuffle(len(fs), func(i, j int) { fs[i], fs[j] = fs[j], fs[i] })
			if len(fs) == 0 {
				fs = append(fs, g.ownField(""))
			}
			t.text = joinFields("{", "}", fs, topAnn, "")
		}
	}
	t.rules, t.anon, t.probes = g.rules, g.anon, g.probes
	fg.f.nodes = append(fg.f.nodes, t)
	return t
}

func genForest(r *rand.Rand, allOf bool) *forest {
	fg := &forestGen{r: r, f: &forest{}, allOf: allOf}
	for i, n := 0, 1+r.Intn(3); i < n; i++ {
		depth := []int{0, 1, 1, 2, 2, 2, 3, 3}[r.Intn(8)]
		if i == 0 && depth == 0 {
			depth = 1 + r.Intn(3)
		}
		fg.f.tops = append(fg.f.tops, fg.node(0, depth))
	}
	return fg.f
}

func (f *forest) hasAllOf() bool {
	for _, t := range f.nodes {
		if t.allOf {
			return true
		}
	}
	return false
}

// genRoots: 2..6 roots over the forest.  broken (stream "broken"): most roots
// are set up before the goroutines start, so that their first compiles begin
// together, and a root that adds a type adds (nine times out of ten) the types
// it names without owning them as well.
func genRoots(r *rand.Rand, f *forest, broken bool) []*nroot {
	var roots []*nroot
	for i, n := 0, 2+r.Intn(5); i < n; i++ {
		rt := &nroot{id: fmt.Sprintf("root%d", i), pre: r.Intn(3) == 0, gs: []int{1, 1, 1, 2, 2, 4}[r.Intn(6)]}
		if broken {
			rt.pre = r.Intn(5) > 0
		}
		g := &textGen{r: r, tag: fmt.Sprintf("r%d_", i)}
		var ts []*tspec
		for j, t := range f.tops {
			if (j == 0 && r.Intn(6) > 0) || (j > 0 && r.Intn(2) == 0) {
				ts = append(ts, t)
			}
		}
		if len(ts) == 0 {
			ts = append(ts, f.tops[r.Intn(len(f.tops))])
		}
		if r.Intn(5) == 0 { // an object somewhere inside the forest, added directly as well
			m := f.nodes[r.Intn(len(f.nodes))]
			dup := false
			for _, t := range ts {
				dup = dup || t == m
			}
			if !dup {
				ts = append(ts, m)
			}
		}
		if broken {
			for _, t := range append([]*tspec{}, ts...) {
				for _, ref := range t.refs {
					dup := false
					for _, o := range ts {
						dup = dup || o == ref
					}
					if !dup && r.Intn(10) > 0 {
						ts = append(ts, ref)
					}
				}
			}
		}
		// a private copy instead of the shared object — only of an object that has nothing in common with the
		// root's other types (otherwise one name would stand for two different objects in the root's table)
		var names []string
		for j, t := range ts {
			private := r.Intn(6) == 0
			for k, o := range ts {
				if k != j && overlap(t, o) {
					private = false
				}
			}
			rt.adds = append(rt.adds, nadd{t: t, private: private})
			names = append(names, t.name)
		}
		switch x := r.Intn(10); {
		case x == 0:
			rt.text = names[0]
		case x == 1:
			rt.text = strings.Join(names, " | ")
		case x == 2:
			var fs []field
			for _, nm := range names {
				fs = append(fs, field{nm, ""})
			}
			rt.text = joinFields("[", "]", fs, "", "")
		default:
			var fs []field
			for j, t := range ts {
				var others []string
				for k, o := range names {
					if k != j {
						others = append(others, o)
					}
				}
				fs = append(fs, g.refField(t, others))
			}
			for j, n := 0, r.Intn(3); j < n; j++ {
				fs = append(fs, g.ownField(""))
			}
			r.Shuffle(len(fs), func(i, j int) { fs[i], fs[j] = fs[j], fs[i] })
			rt.text = joinFields("{", "}", fs, "", "")
		}
		rt.rules, rt.probes = g.rules, g.probes
		roots = append(roots, rt)
	}
	return roots
}

func reach(t *tspec, into map[*tspec]bool) {
	if into[t] {
		return
	}
	into[t] = true
	for _, k := range t.kids {
		reach(k, into)
	}
}

func overlap(a, b *tspec) bool {
	ra, rb := map[*tspec]bool{}, map[*tspec]bool{}
	reach(a, ra)
	reach(b, rb)
	for t := range ra {
		if rb[t] {
			return true
		}
	}
	return false
}

// ---------------------------------------------------------------- objects

// instance: the objects of one copy of (a part of) the forest.
type instance struct {
	types map[*tspec]*jschema.Schema
	enums map[int]*enum.Enum
}

func newInstance() *instance {
	return &instance{types: map[*tspec]*jschema.Schema{}, enums: map[int]*enum.Enum{}}
}

// rule: the enum object of an AddRule call.
func (in *instance) rule(rl nrule) *enum.Enum {
	if rl.obj == 0 {
		return enum.New(rl.name, rl.text)
	}
	if e, ok := in.enums[rl.obj]; ok {
		return e
	}
	e := enum.New(rl.name, rl.text)
	in.enums[rl.obj] = e
	return e
}

// build creates t's object and, first, everything it owns; an object owned
// twice is created once.  The results of the AddRule / AddType calls go to out.
func (in *instance) build(t *tspec, out *[]string) *jschema.Schema {
	if s, ok := in.types[t]; ok {
		return s
	}
	var kids []*jschema.Schema
	for _, k := range t.kids {
		kids = append(kids, in.build(k, out))
	}
	s := jschema.New(t.name, t.text, c11.SchemaOptions(t.opt)...)
	for _, rl := range t.rules {
		e := in.rule(rl)
		name := rl.name
		*out = append(*out, vh.Recover(func() string { return c11.CanonErr(s.AddRule(name, e)) }))
	}
	for i, k := range t.kids {
		i, k := i, k
		*out = append(*out, vh.Recover(func() string { return c11.CanonErr(s.AddType(k.name, root.Schema(kids[i]))) }))
	}
	in.types[t] = s
	return s
}

// setupRoot creates the root over the objects of sh (built on demand) and
// private copies.
func setupRoot(rt *nroot, sh *instance, r *rand.Rand) (*jschema.Schema, []string) {
	var out []string
	yield := func() {
		if r != nil && r.Intn(2) == 0 {
			runtime.Gosched()
		}
	}
	s := jschema.New(rt.id, rt.text, c11.SchemaOptions(rt.opt)...)
	for _, rl := range rt.rules {
		e := sh.rule(rl)
		name := rl.name
		yield()
		out = append(out, vh.Recover(func() string { return c11.CanonErr(s.AddRule(name, e)) }))
	}
	fresh := newInstance()
	for _, a := range rt.adds {
		var obj *jschema.Schema
		var sink []string
		if !a.private {
			obj = sh.build(a.t, &sink)
		} else {
			obj = fresh.build(a.t, &sink)
		}
		name := a.t.name
		yield()
		out = append(out, vh.Recover(func() string { return c11.CanonErr(s.AddType(name, root.Schema(obj))) }))
	}
	return s, out
}

// ---------------------------------------------------------------- describe

func describeTypes(ts []*tspec) string {
	seen := map[*tspec]bool{}
	var sb []string
	var walk func(t *tspec)
	walk = func(t *tspec) {
		if seen[t] {
			return
		}
		seen[t] = true
		for _, k := range t.kids {
			walk(k)
		}
		d := fmt.Sprintf("%s := jschema.New(%q, %q%s)", t.name[1:], t.name, t.text, c11.OptText(t.opt))
		if t.recipe != "" {
			d = fmt.Sprintf("%s := jschema.New(%q, %s%s)", t.name[1:], t.name, t.recipe, c11.OptText(t.opt))
		}
		for _, rl := range t.rules {
			d += fmt.Sprintf("; %s.AddRule(%q, %s)", t.name[1:], rl.name, rl.describe())
		}
		for _, k := range t.kids {
			d += fmt.Sprintf("; %s.AddType(%q, %s)", t.name[1:], k.name, k.name[1:])
		}
		sb = append(sb, d)
	}
	for _, t := range ts {
		walk(t)
	}
	return strings.Join(sb, "; ")
}

func (rl nrule) describe() string {
	text := fmt.Sprintf("%q", rl.text)
	if rl.recipe != "" {
		text = rl.recipe
	}
	if rl.obj > 0 {
		return fmt.Sprintf("enum%d /* ONE object enum.New(%q, %s) for all who add enum%d */", rl.obj, rl.name, text, rl.obj)
	}
	return "enum " + text
}

func (rt *nroot) describe() string {
	d := fmt.Sprintf("%s := jschema.New(%q, %q%s)", rt.id, rt.id, rt.text, c11.OptText(rt.opt))
	for _, rl := range rt.rules {
		d += fmt.Sprintf("; %s.AddRule(%q, %s)", rt.id, rl.name, rl.describe())
	}
	for _, a := range rt.adds {
		how := "the shared object"
		if a.private {
			how = "a private copy"
		}
		d += fmt.Sprintf("; %s.AddType(%q, %s /* %s */)", rt.id, a.t.name, a.t.name[1:], how)
	}
	mode := "created and set up by its first goroutine"
	if rt.pre {
		mode = "set up before the goroutines start"
	}
	return d + fmt.Sprintf(" [%s, used by %d goroutine(s)]", mode, rt.gs)
}

func (rt *nroot) tops() []*tspec {
	var ts []*tspec
	for _, a := range rt.adds {
		ts = append(ts, a.t)
	}
	return ts
}

func describeNested(f *forest, roots []*nroot) string {
	var all []*tspec
	var rs []string
	for _, rt := range roots {
		all = append(all, rt.tops()...)
		rs = append(rs, rt.describe())
	}
	return "shared type objects (built once, sequentially): " + describeTypes(all) + " ||| roots, compiled and used concurrently: " + strings.Join(rs, " || ")
}

// ---------------------------------------------------------------- documents

var fixedDocs = []string{`{}`, `[]`, `"abc"`, `{"a":`}

// mutateDocs: the example of the sequential run and neighbours of it.
//
// The documents from index probeFrom on are the PROBE documents (scalars.go):
// the example with scalar leaves replaced by tokens on and around the bounds
// of the scalar rules (pt: the probes of the texts the root is made of).
func mutateDocs(r *rand.Rand, example string, maxDropDocs int, pt *probeTab, nProbeDocs int) (docs []string, probeFrom int) {
	docs = append([]string{}, fixedDocs...)
	var v interface{}
	dec := stdjson.NewDecoder(strings.NewReader(example))
	dec.UseNumber()
	if example == "" || dec.Decode(&v) != nil {
		return docs, len(docs)
	}
	docs = append(docs, example)
	repl := []interface{}{true, "zz", stdjson.Number("12"), stdjson.Number("-3"), nil, map[string]interface{}{}, []interface{}{}, "abc", stdjson.Number("2.5")}
	var mutate func(v interface{}, budget *int) interface{}
	mutate = func(v interface{}, budget *int) interface{} {
		if *budget == 0 {
			*budget = -1
			switch r.Intn(4) {
			case 0:
				if m, ok := v.(map[string]interface{}); ok {
					c := map[string]interface{}{"extra": stdjson.Number("1")}
					for k, x := range m {
						c[k] = x
					}
					return c
				}
			case 1:
				if m, ok := v.(map[string]interface{}); ok && len(m) > 0 {
					keys := make([]string, 0, len(m))
					for k := range m {
						keys = append(keys, k)
					}
					sort.Strings(keys)
					drop := keys[r.Intn(len(keys))]
					c := map[string]interface{}{}
					for k, x := range m {
						if k != drop {
							c[k] = x
						}
					}
					return c
				}
			}
			return repl[r.Intn(len(repl))]
		}
		*budget--
		switch x := v.(type) {
		case map[string]interface{}:
			keys := make([]string, 0, len(x))
			for k := range x {
				keys = append(keys, k)
			}
			sort.Strings(keys)
			c := map[string]interface{}{}
			for _, k := range keys {
				if *budget >= 0 {
					c[k] = mutate(x[k], budget)
				} else {
					c[k] = x[k]
				}
			}
			return c
		case []interface{}:
			c := make([]interface{}, len(x))
			for i := range x {
				if *budget >= 0 {
					c[i] = mutate(x[i], budget)
				} else {
					c[i] = x[i]
				}
			}
			return c
		}
		return v
	}
	size := strings.Count(example, ":") + strings.Count(example, ",") + 1
	for i := 0; i < 4; i++ {
		b := r.Intn(size + 1)
		if out, err := stdjson.Marshal(mutate(v, &b)); err == nil {
			docs = append(docs, string(out))
		}
	}
	// the example LACKING exactly one key: every (object, key) of it is a candidate (keys of the root's own text, of
	// the types, of objects nested in them); up to maxDropDocs of them, spread evenly over the document (no random choice)
	drops := dropOneKey(v)
	for i, n := 0, imin(len(drops), maxDropDocs); i < n; i++ {
		if d := drops[i*len(drops)/n](); d != "" {
			docs = append(docs, d)
		}
	}
	probeFrom = len(docs)
	return append(docs, probeDocs(r, v, pt, nProbeDocs)...), probeFrom
}

// probesOf: the probes of everything rt is made of.
func probesOf(rt *nroot) *probeTab {
	pt := newProbeTab()
	pt.merge(rt.probes)
	seen := map[*tspec]bool{}
	var walk func(t *tspec)
	walk = func(t *tspec) {
		if seen[t] {
			return
		}
		seen[t] = true
		pt.merge(t.probes)
		for _, k := range t.kids {
			walk(k)
		}
		for _, k := range t.refs {
			walk(k)
		}
	}
	for _, a := range rt.adds {
		walk(a.t)
	}
	return pt
}

func imin(a, b int) int {
	if a < b {
		return a
	}
	return b
}

// dropOneKey lists the documents that lack exactly one key (at any depth) of v, in document order of the sorted keys
// (each as a function that writes the document down: a big example has hundreds of them and few are used).
func dropOneKey(v interface{}) []func() string {
	var out []func() string
	var walk func(x interface{}, rebuild func(interface{}) interface{})
	walk = func(x interface{}, rebuild func(interface{}) interface{}) {
		switch t := x.(type) {
		case map[string]interface{}:
			keys := make([]string, 0, len(t))
			for k := range t {
				keys = append(keys, k)
			}
			sort.Strings(keys)
			for _, drop := range keys {
				drop := drop
				out = append(out, func() string {
					c := map[string]interface{}{}
					for k, e := range t {
						if k != drop {
							c[k] = e
						}
					}
					b, err := stdjson.Marshal(rebuild(c))
					if err != nil {
						return ""
					}
					return string(b)
				})
			}
			for _, k := range keys {
				k := k
				walk(t[k], func(n interface{}) interface{} {
					c := map[string]interface{}{}
					for kk, e := range t {
						c[kk] = e
					}
					c[k] = n
					return rebuild(c)
				})
			}
		case []interface{}:
			for i := range t {
				i := i
				walk(t[i], func(n interface{}) interface{} {
					c := append([]interface{}{}, t...)
					c[i] = n
					return rebuild(c)
				})
			}
		}
	}
	walk(v, func(n interface{}) interface{} { return n })
	return out
}

// ---------------------------------------------------------------- oracle

// nestedOracle: rt over a fresh forest, sequentially.
func nestedOracle(rt *nroot, r *rand.Rand, maxDropDocs, nProbeDocs int) target {
	w := want{ops: map[string]string{}}
	s, setupRes := setupRoot(rt, newInstance(), nil)
	w.setup = setupRes
	example := ""
	for _, code := range []int{opCheck, opLen, opExample, opAST, opUsed} {
		res, b, _ := observe(s, code, "")
		w.ops[opKey(code, 0)] = res
		if code == opExample {
			example = string(b)
		}
	}
	if example == "" && w.ops[opKey(opCheck, 0)] != "ok" {
		// a root that does not compile gives no example: take the one of the same root over the sound variants of
		// its types (stream broken) — documents the sound root accepts must be turned down with the root's error
		if twin := soundTwin(rt); twin != nil {
			ts, _ := setupRoot(twin, newInstance(), nil)
			if _, b, _ := observe(ts, opExample, ""); b != nil {
				example = string(b)
			}
		}
	}
	docs, probeFrom := mutateDocs(r, example, maxDropDocs, probesOf(rt), nProbeDocs)
	for d := range docs {
		res, _, _ := observe(s, opValidate, docs[d])
		w.ops[opKey(opValidate, d)] = res
	}
	return target{id: rt.id, text: rt.text, docs: docs, probeFrom: probeFrom, w: w}
}

// sequentialAgain: a second sequential run, this time all roots one after
// another over ONE copy of the forest (the sharing of the concurrent run, but
// sequential) and with the calls in the opposite order.  A root for which it
// disagrees with the first run depends on call history or on sequential
// sharing — not C12's business (C11) — and is left out of the round.
func sequentialAgain(roots []*nroot, targets []target) (disagree []string) {
	seq := newInstance()
	disagree = make([]string, len(roots)) // "" = the runs agree
	for i, rt := range roots {
		t := targets[i]
		note := func(what, got, want string) {
			if got != want && disagree[i] == "" {
				disagree[i] = fmt.Sprintf("%s: first run (fresh objects) %s, second run (roots one after another over one copy of the objects, calls in opposite order) %s", what, want, got)
			}
		}
		s2, setupRes := setupRoot(rt, seq, nil)
		note("set-up", strings.Join(setupRes, ","), strings.Join(t.w.setup, ","))
		for d := len(t.docs) - 1; d >= 0; d-- {
			res, _, _ := observe(s2, opValidate, t.docs[d])
			note(opKey(opValidate, d)+docText(opValidate, t.docs[d], d), res, t.w.ops[opKey(opValidate, d)])
		}
		for _, code := range []int{opUsed, opAST, opExample, opLen, opCheck} {
			res, _, _ := observe(s2, code, "")
			note(opKey(code, 0), res, t.w.ops[opKey(code, 0)])
		}
	}
	return disagree
}

// ---------------------------------------------------------------- a round

const (
	nestedSalt      = int64(12700000)
	nestedKnownSalt = int64(12800000)
)

func nestedRand(round int, stream string) (*rand.Rand, int64) {
	salt := nestedSalt
	switch stream {
	case "known":
		salt = nestedKnownSalt
	case "broken":
		salt = brokenSalt
	}
	return vh.NewRand(salt + int64(round)*1000), salt + int64(round)*1000
}

// genNested: the scenario of a round (a function of VERIF_SEED and the round
// number only, so that the parent can describe the round a report came from).
func genNested(round int, stream string) (*rand.Rand, *forest, []*nroot, string) {
	r, seed := nestedRand(round, stream)
	var f *forest
	if stream == "broken" {
		f = genBrokenForest(r)
	} else {
		f = genForest(r, stream == "known")
	}
	roots := genRoots(r, f, stream == "broken")
	drawOptions(vh.NewRand(seed+500), f, roots)
	where := fmt.Sprintf("nested round %d (vh.NewRand(%d); replay: VERIF_SEED=%d vhrace c12-concurrent --child %s --round %d)", round, seed, vh.Seed(), stream, round)
	return r, f, roots, where
}

// drawOptions: the option KeysAreOptionalByDefault() belongs to ONE schema
// object.  Every root of the round draws it independently (probability 1/3: a
// lenient root next to strict ones over the same type objects, and the
// reverse), every type object of the forest as well (1/6); a private copy of a
// type object and the objects of the sequential oracle are created with the
// bit of the type.  The keys of the texts are unmarked (required in a strict
// object) apart from the few `optional: true` ones, and the documents include
// the example with one key left out (mutateDocs), so that a strict root has to
// turn down what a lenient root over the same objects accepts.  The bits come
// from a PRNG of their own.
func drawOptions(ro *rand.Rand, f *forest, roots []*nroot) {
	for _, t := range f.nodes {
		t.opt = ro.Intn(6) == 0
	}
	for _, rt := range roots {
		rt.opt = ro.Intn(3) == 0
	}
}

func nestedMarkID(round int) string { return fmt.Sprintf("nested-round-%d", round) }

// DescribeNestedMark turns a mark id back into the scenario text.
func describeNestedMark(id string, stream string) string {
	var round int
	if _, err := fmt.Sscanf(id, "nested-round-%d", &round); err != nil {
		return id
	}
	_, f, roots, where := genNested(round, stream)
	return where + ": " + describeNested(f, roots)
}

// prepared: scenario and sequential oracle of a round (private objects only:
// computed ahead by worker goroutines while earlier rounds run).
type prepared struct {
	round    int
	skip     bool
	r        *rand.Rand
	f        *forest
	roots    []*nroot
	where    string
	scenario string
	targets  []target
	live     []int
	stream   string
}

func prepareNestedRound(col *collector, round int, stream string) *prepared {
	r, f, roots, where := genNested(round, stream)
	p := &prepared{round: round, r: r, f: f, roots: roots, where: where, stream: stream}
	if stream == "known" && !f.hasAllOf() {
		col.stat("nested_known_round_without_allOf_skipped")
		p.skip = true
		return p
	}
	p.scenario = describeNested(f, roots)
	// sequential oracle, fresh objects per root
	p.targets = make([]target, len(roots))
	for i, rt := range roots {
		// documents lacking one key of the example: 6; 2 in stream broken (its examples have hundreds of members)
		maxDropDocs := 6
		if stream == "broken" {
			maxDropDocs = 2
		}
		// probe documents (scalars.go): 10; 4 in stream broken
		nProbeDocs := 10
		if stream == "broken" {
			nProbeDocs = 4
		}
		p.targets[i] = nestedOracle(rt, r, maxDropDocs, nProbeDocs)
		p.targets[i].setup = p.scenario + " ||| this root: " + rt.id
		// stream broken: the roots' FIRST compiles are what has to overlap
		p.targets[i].firstCompile = stream == "broken"
	}
	for i, why := range sequentialAgain(roots, p.targets) {
		if why != "" {
			col.stat("nested_root_sequential_runs_disagree_left_out")
			col.mu.Lock()
			if _, have := col.res.Extra["nested_left_out_example"]; !have {
				col.res.Extra["nested_left_out_example"] = why + " <<< " + where + "; " + p.targets[i].setup
			}
			col.mu.Unlock()
			continue
		}
		p.live = append(p.live, i)
	}
	return p
}

func runNestedRound(col *collector, p *prepared) {
	if p.skip {
		return
	}
	round, r, f, roots, where, scenario, targets, live := p.round, p.r, p.f, p.roots, p.where, p.scenario, p.targets, p.live

	racekit.Mark(true, nestedMarkID(round))
	defer racekit.Mark(false, nestedMarkID(round))

	// the shared objects: everything any root adds, built once
	sh := newInstance()
	var sink []string
	for _, rt := range roots {
		for _, a := range rt.adds {
			if !a.private {
				sh.build(a.t, &sink)
			}
		}
	}

	checkSetup := func(i int, got []string) {
		if strings.Join(got, ",") != strings.Join(targets[i].w.setup, ",") {
			col.diff(vh.Diff{Component: "C12-result", Input: where + "; " + targets[i].setup + "; results of the root's AddRule / AddType calls",
				Impl: strings.Join(got, ","), Model: "sequential run on fresh objects: " + strings.Join(targets[i].w.setup, ",")})
		}
	}
	objs := make([]*jschema.Schema, len(roots))
	for _, i := range live {
		if roots[i].pre {
			s, got := setupRoot(roots[i], sh, r)
			checkSetup(i, got)
			objs[i] = s
		}
	}

	var wg sync.WaitGroup
	start := make(chan struct{})
	idents := make([]chan [2]uintptr, len(roots))
	total := 0
	for _, i := range live {
		i := i
		rt := roots[i]
		idents[i] = make(chan [2]uintptr, 256)
		seeds := make([]int64, rt.gs)
		for g := range seeds {
			seeds[g] = r.Int63()
		}
		total += rt.gs
		w := fmt.Sprintf("%s; %s", where, rt.id)
		use := func(s *jschema.Schema, gr *rand.Rand) {
			hammer(col, gr, s, targets[i], 5+gr.Intn(6), w, idents[i])
		}
		if rt.pre {
			for g := 0; g < rt.gs; g++ {
				wg.Add(1)
				gr := rand.New(rand.NewSource(seeds[g]))
				go func() {
					defer wg.Done()
					<-start
					use(objs[i], gr)
				}()
			}
			continue
		}
		wg.Add(1)
		go func() {
			defer wg.Done()
			gr := rand.New(rand.NewSource(seeds[0]))
			<-start
			s, got := setupRoot(rt, sh, gr)
			checkSetup(i, got)
			for g := 1; g < rt.gs; g++ {
				wg.Add(1)
				fr := rand.New(rand.NewSource(seeds[g]))
				go func() {
					defer wg.Done()
					use(s, fr)
				}()
			}
			use(s, gr)
		}()
	}
	close(start)
	wg.Wait()

	// the goroutines of one root must have seen one compiled AST object
	for _, i := range live {
		close(idents[i])
		var first [2]uintptr
		for id := range idents[i] {
			if first == ([2]uintptr{}) {
				first = id
			} else if id != first {
				col.diff(vh.Diff{Component: "C12-once", Input: where + "; " + targets[i].setup,
					Impl: fmt.Sprintf("GetAST handed out different AST objects: %x vs %x", first, id), Model: "the schema is loaded/compiled exactly once: one AST object"})
				break
			}
		}
	}

	// statistics
	maxDepth, sharedBy, nestedAnon, okRoots := 0, map[*tspec]int{}, 0, 0
	for _, i := range live {
		for _, a := range roots[i].adds {
			if !a.private {
				sharedBy[a.t]++
			}
		}
		if targets[i].w.ops["Check()"] == "ok" {
			okRoots++
		}
		col.stat("nested_root_" + errClass(targets[i].w.ops["Check()"]))
	}
	deepShared := false // an object shared by >= 2 roots that owns a type which owns types (named or anonymous)
	for t, n := range sharedBy {
		if n < 2 {
			continue
		}
		if t.depth > maxDepth {
			maxDepth = t.depth
		}
		for _, k := range t.kids {
			if k.anon || len(k.kids) > 0 {
				deepShared = true
				nestedAnon++
			}
		}
	}
	nontrivial := deepShared && okRoots >= 2
	if p.stream == "broken" {
		nontrivial = brokenStats(col, roots, live, targets)
	}
	col.mu.Lock()
	col.res.Case(scenario, nontrivial)
	col.res.Stats[fmt.Sprintf("nested_roots_%d", len(live))]++
	col.res.Stats[fmt.Sprintf("nested_goroutines_%02d", total)]++
	col.res.Stats[fmt.Sprintf("nested_shared_chain_depth_%d", maxDepth)]++
	col.res.Stats[fmt.Sprintf("nested_types_%02d", len(f.nodes))]++
	if deepShared {
		col.res.Stats["nested_shared_object_owning_a_type_that_owns_types"]++
	}
	// a strict and a lenient root over one shared type object
	strictBy, lenientBy := map[*tspec]bool{}, map[*tspec]bool{}
	for _, i := range live {
		for _, a := range roots[i].adds {
			if !a.private {
				if roots[i].opt {
					lenientBy[a.t] = true
				} else {
					strictBy[a.t] = true
				}
			}
		}
	}
	for t := range strictBy {
		if lenientBy[t] {
			col.res.Stats["opt_nested_rounds_strict_and_lenient_root_over_one_type_object"]++
			break
		}
	}
	col.mu.Unlock()
}

func errClass(res string) string {
	if i := strings.IndexAny(res, "@ "); i > 0 {
		return res[:i]
	}
	return res
}

// nestedInFlight: rounds running at a time.  Every round has its own 2..24
// goroutines; a few rounds side by side give the throughput (the library is
// slow under the race detector) and foreign compiles next to each scenario.
// The Mark lines attribute a race report to the (at most nestedInFlight)
// rounds that were running; the parent then replays these one by one to name
// the one that produces the report (confirmNested).
const nestedInFlight = 3

func nestedChild(col *collector, stream string, rounds []int, inFlight int) {
	// scenarios and oracles are prepared ahead, in order, by a few workers
	preps := make([]chan *prepared, len(rounds))
	for i := range preps {
		preps[i] = make(chan *prepared, 1)
	}
	tickets := make(chan int, len(rounds))
	execTickets := make(chan int, len(rounds))
	for i := range rounds {
		tickets <- i
		execTickets <- i
	}
	close(tickets)
	close(execTickets)
	ahead := make(chan struct{}, 16) // at most this many prepared rounds waiting
	for w := 0; w < 5; w++ {
		go func() {
			for i := range tickets {
				ahead <- struct{}{}
				preps[i] <- prepareNestedRound(col, rounds[i], stream)
			}
		}()
	}
	var wg sync.WaitGroup
	var stop int32
	for w := 0; w < inFlight; w++ {
		wg.Add(1)
		go func() {
			defer wg.Done()
			for i := range execTickets {
				if atomic.LoadInt32(&stop) != 0 {
					return
				}
				var p *prepared
				select {
				case p = <-preps[i]:
					<-ahead
				case <-time.After(90 * time.Second):
					atomic.StoreInt32(&stop, 1)
					col.diff(vh.Diff{Component: "C12-result", Input: describeNestedMark(nestedMarkID(rounds[i]), stream) + "; the sequential oracle run (or one before it)", Impl: "TIMEOUT", Model: "every call returns"})
					return
				}
				done := make(chan struct{})
				go func() {
					defer close(done)
					runNestedRound(col, p)
				}()
				select {
				case <-done:
				case <-time.After(60 * time.Second):
					atomic.StoreInt32(&stop, 1)
					col.diff(vh.Diff{Component: "C12-result", Input: describeNestedMark(nestedMarkID(rounds[i]), stream), Impl: "TIMEOUT", Model: "every call returns"})
					return
				}
			}
		}()
	}
	wg.Wait()
}
