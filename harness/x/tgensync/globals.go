package tgensync

// F5 — stores into package-level variables outside `init` (shared mutable state that neither a once cell nor a
// mutex protects): `v = …`, `v[i] = …`, `v.f = …`, `v++`, `v = append(v, …)`, `delete(v, …)`, `&v` taken.

import (
	"go/ast"
	"go/token"
	"go/types"
	"sort"
)

type globalWrite struct {
	pkg, fn, what string
}

func (w *world) globalWrites() []globalWrite {
	var out []globalWrite
	seen := map[globalWrite]bool{}
	for _, p := range w.order {
		if p.tpkg == nil {
			continue
		}
		isGlobal := func(e ast.Expr) (string, bool) {
			for {
				switch x := unparen(e).(type) {
				case *ast.IndexExpr:
					e = x.X
					continue
				case *ast.SliceExpr:
					e = x.X
					continue
				case *ast.StarExpr:
					e = x.X
					continue
				case *ast.SelectorExpr:
					if _, isSel := p.info.Selections[x]; isSel {
						e = x.X
						continue
					}
					if v, ok := p.info.Uses[x.Sel].(*types.Var); ok && v.Parent() == v.Pkg().Scope() {
						return v.Pkg().Name() + "." + v.Name(), true
					}
					return "", false
				case *ast.Ident:
					if v, ok := p.info.Uses[x].(*types.Var); ok && v.Pkg() != nil && v.Parent() == v.Pkg().Scope() {
						return v.Name(), true
					}
					return "", false
				}
				return "", false
			}
		}
		for fi, f := range p.files {
			_ = fi
			for _, d := range f.Decls {
				fd, ok := d.(*ast.FuncDecl)
				if !ok || fd.Body == nil || (fd.Recv == nil && fd.Name.Name == "init") {
					continue
				}
				add := func(name, how string) {
					g := globalWrite{p.rel, funcLabel(fd), how + " " + name}
					if !seen[g] {
						seen[g] = true
						out = append(out, g)
					}
				}
				ast.Inspect(fd.Body, func(n ast.Node) bool {
					switch x := n.(type) {
					case *ast.AssignStmt:
						if x.Tok == token.DEFINE {
							return true
						}
						for _, l := range x.Lhs {
							if name, ok := isGlobal(l); ok {
								add(name, "store")
							}
						}
					case *ast.IncDecStmt:
						if name, ok := isGlobal(x.X); ok {
							add(name, "store")
						}
					case *ast.CallExpr:
						if id, ok := unparen(x.Fun).(*ast.Ident); ok {
							if _, isB := p.info.Uses[id].(*types.Builtin); isB && (id.Name == "delete" || id.Name == "copy" || id.Name == "clear") && len(x.Args) > 0 {
								if name, ok := isGlobal(x.Args[0]); ok {
									add(name, "store")
								}
							}
						}
					case *ast.UnaryExpr:
						if x.Op == token.AND {
							if _, isLit := unparen(x.X).(*ast.CompositeLit); !isLit {
								if name, ok := isGlobal(x.X); ok {
									add(name, "address of")
								}
							}
						}
					}
					return true
				})
			}
		}
	}
	sort.Slice(out, func(i, j int) bool {
		if out[i].pkg != out[j].pkg {
			return out[i].pkg < out[j].pkg
		}
		if out[i].fn != out[j].fn {
			return out[i].fn < out[j].fn
		}
		return out[i].what < out[j].what
	})
	return out
}

func (w *world) globalVarCount() int {
	n := 0
	for _, p := range w.order {
		if p.tpkg == nil {
			continue
		}
		sc := p.tpkg.Scope()
		for _, nm := range sc.Names() {
			if _, ok := sc.Lookup(nm).(*types.Var); ok {
				n++
			}
		}
	}
	return n
}
