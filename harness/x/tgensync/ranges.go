package tgensync

// F4 — inventory of `for … range <map>` sites in non-test, non-generated library code, with a
// syntactic classification of the loop body:
//
//	"free"    the body only stores into maps keyed per element, deletes from maps, counts
//	          (++ / += on integers), possibly under side-effect-free conditions with `continue`;
//	"sorted"  as "free", plus appends to slices each of which is sorted later in the same function
//	          (sort.* / slices.Sort* call mentioning the slice) before anything else can use it;
//	"other"   anything else (returns / breaks / panics, calls for effect, appends without a sort,
//	          plain assignments …): an order-SENSITIVE CANDIDATE that needs a reviewed entry in the tie.

import (
	"go/ast"
	"go/token"
	"go/types"
	"sort"
	"strings"
)

type rangeSite struct {
	pkg     string
	fn      string
	ordinal int
	class   string
	why     string // first reason for "other" (informational)
	pos     token.Position
}

func unparen(e ast.Expr) ast.Expr {
	for {
		p, ok := e.(*ast.ParenExpr)
		if !ok {
			return e
		}
		e = p.X
	}
}

func isMapType(t types.Type) bool {
	if t == nil {
		return false
	}
	_, ok := t.Underlying().(*types.Map)
	return ok
}

func isIntegerType(t types.Type) bool {
	if t == nil {
		return false
	}
	b, ok := t.Underlying().(*types.Basic)
	return ok && b.Info()&types.IsInteger != 0
}

// exprKey renders an lvalue-ish expression (identifiers and field selections) for comparison.
func exprKey(e ast.Expr) string {
	switch x := unparen(e).(type) {
	case *ast.Ident:
		return x.Name
	case *ast.SelectorExpr:
		k := exprKey(x.X)
		if k == "" {
			return ""
		}
		return k + "." + x.Sel.Name
	case *ast.StarExpr:
		return exprKey(x.X)
	case *ast.UnaryExpr:
		if x.Op == token.AND {
			return exprKey(x.X)
		}
	}
	return ""
}

type rangeClassifier struct {
	w        *world
	info     *types.Info
	appended map[string]bool // slices appended to
	why      string
}

func (c *rangeClassifier) bad(why string) bool {
	if c.why == "" {
		c.why = why
	}
	return false
}

// pure: an expression without calls for effect — only conversions, builtins len/cap/string-ish
// conversions, selector/index/arith expressions, composite literals, and calls of methods/functions are NOT pure.
func (c *rangeClassifier) pure(e ast.Expr) bool {
	ok := true
	ast.Inspect(e, func(n ast.Node) bool {
		switch x := n.(type) {
		case *ast.CallExpr:
			if tv, found := c.info.Types[x.Fun]; found && tv.IsType() {
				return true // conversion
			}
			if id, isId := unparen(x.Fun).(*ast.Ident); isId {
				if _, isB := c.info.Uses[id].(*types.Builtin); isB && (id.Name == "len" || id.Name == "cap" || id.Name == "make" || id.Name == "new") {
					return true
				}
			}
			ok = false
			return false
		case *ast.FuncLit:
			ok = false
			return false
		case *ast.UnaryExpr:
			if x.Op == token.ARROW {
				ok = false
				return false
			}
		}
		return true
	})
	return ok
}

func (c *rangeClassifier) stmts(list []ast.Stmt) bool {
	for _, s := range list {
		if !c.stmt(s) {
			return false
		}
	}
	return true
}

func (c *rangeClassifier) stmt(s ast.Stmt) bool {
	switch x := s.(type) {
	case *ast.EmptyStmt:
		return true
	case *ast.BlockStmt:
		return c.stmts(x.List)
	case *ast.BranchStmt:
		if x.Tok == token.CONTINUE && x.Label == nil {
			return true
		}
		return c.bad(x.Tok.String())
	case *ast.IncDecStmt:
		if isIntegerType(c.info.TypeOf(x.X)) {
			return true
		}
		return c.bad("inc/dec of a non-integer")
	case *ast.ExprStmt:
		if call, ok := x.X.(*ast.CallExpr); ok {
			if id, ok := unparen(call.Fun).(*ast.Ident); ok {
				if _, isB := c.info.Uses[id].(*types.Builtin); isB && id.Name == "delete" && len(call.Args) == 2 && c.pure(call.Args[1]) {
					return true
				}
			}
			if c.keyedSetter(call) {
				return true
			}
			return c.bad("call for effect")
		}
		return c.bad("expression statement")
	case *ast.AssignStmt:
		return c.assign(x)
	case *ast.IfStmt:
		if x.Init != nil {
			// `v, ok := m[k]` style lookups only
			as, ok := x.Init.(*ast.AssignStmt)
			if !ok || as.Tok != token.DEFINE {
				return c.bad("if-init that is not a definition")
			}
			for _, r := range as.Rhs {
				if !c.pure(r) {
					return c.bad("if-init with a call")
				}
			}
		}
		if !c.pure(x.Cond) {
			return c.bad("condition with a call")
		}
		if !c.stmts(x.Body.List) {
			return false
		}
		if x.Else != nil {
			return c.stmt(x.Else)
		}
		return true
	case *ast.DeclStmt:
		return true
	}
	return c.bad("statement " + strings.TrimPrefix(strings.TrimPrefix(typeName(s), "*ast."), "ast."))
}

func typeName(v interface{}) string {
	switch v.(type) {
	case *ast.ReturnStmt:
		return "return"
	case *ast.ForStmt:
		return "for"
	case *ast.RangeStmt:
		return "range"
	case *ast.SwitchStmt, *ast.TypeSwitchStmt:
		return "switch"
	case *ast.GoStmt:
		return "go"
	case *ast.DeferStmt:
		return "defer"
	case *ast.SendStmt:
		return "send"
	case *ast.LabeledStmt:
		return "label"
	case *ast.SelectStmt:
		return "select"
	}
	return "?"
}

func (c *rangeClassifier) assign(x *ast.AssignStmt) bool {
	// definitions of loop-local variables from pure expressions
	if x.Tok == token.DEFINE {
		for _, r := range x.Rhs {
			if !c.pure(r) {
				return c.bad("local defined from a call")
			}
		}
		return true
	}
	if len(x.Lhs) != 1 || len(x.Rhs) != 1 {
		return c.bad("multi-assignment")
	}
	lhs, rhs := unparen(x.Lhs[0]), x.Rhs[0]
	// m2[key] = pure / m2[key] op= pure
	if ix, ok := lhs.(*ast.IndexExpr); ok && isMapType(c.info.TypeOf(ix.X)) {
		if !c.pure(ix.Index) || !c.pure(rhs) {
			return c.bad("map store computed by a call")
		}
		if x.Tok != token.ASSIGN && !isIntegerType(c.info.TypeOf(lhs)) {
			return c.bad("non-integer op= on a map element")
		}
		// the stored value must not depend on the target map's current size (len(m2))
		tgt := exprKey(ix.X)
		dep := false
		ast.Inspect(rhs, func(n ast.Node) bool {
			if call, ok := n.(*ast.CallExpr); ok && len(call.Args) == 1 && tgt != "" && exprKey(call.Args[0]) == tgt {
				dep = true
			}
			return true
		})
		if dep {
			return c.bad("map store depends on the target's size")
		}
		return true
	}
	// counters: n += pure-integer, n -= …
	if (x.Tok == token.ADD_ASSIGN || x.Tok == token.SUB_ASSIGN || x.Tok == token.OR_ASSIGN || x.Tok == token.AND_ASSIGN || x.Tok == token.XOR_ASSIGN) &&
		isIntegerType(c.info.TypeOf(lhs)) && c.pure(rhs) {
		return true
	}
	// s = append(s, pure…)
	if x.Tok == token.ASSIGN {
		if call, ok := unparen(rhs).(*ast.CallExpr); ok {
			if id, ok := unparen(call.Fun).(*ast.Ident); ok {
				if _, isB := c.info.Uses[id].(*types.Builtin); isB && id.Name == "append" && len(call.Args) >= 1 {
					k := exprKey(lhs)
					if k != "" && k == exprKey(call.Args[0]) {
						for _, a := range call.Args[1:] {
							if !c.pure(a) {
								return c.bad("append of a value computed by a call")
							}
						}
						c.appended[k] = true
						return true
					}
				}
			}
		}
	}
	return c.bad("assignment to a variable")
}

// sortedLater: is there, after `after` in the function body, a call of a sorting function whose
// arguments mention the slice `key`, with no other mention of the slice in between?
func sortedLater(info *types.Info, body *ast.BlockStmt, after token.Pos, key string) bool {
	type mention struct {
		pos  token.Pos
		sort bool
	}
	var ms []mention
	var sortCalls []*ast.CallExpr
	ast.Inspect(body, func(n ast.Node) bool {
		call, ok := n.(*ast.CallExpr)
		if !ok || call.Pos() <= after {
			return true
		}
		if f := calleeOf(info, call); f != nil && f.Pkg() != nil {
			pp, name := f.Pkg().Path(), f.Name()
			isSort := (pp == "sort" && (name == "Strings" || name == "Ints" || name == "Float64s" || name == "Slice" || name == "SliceStable" || name == "Sort" || name == "Stable")) ||
				((pp == "slices" || strings.HasSuffix(pp, "/slices")) && strings.HasPrefix(name, "Sort"))
			if isSort && len(call.Args) >= 1 {
				hit := false
				ast.Inspect(call.Args[0], func(m ast.Node) bool {
					if e, ok := m.(ast.Expr); ok && exprKey(e) == key {
						hit = true
					}
					return true
				})
				if hit {
					sortCalls = append(sortCalls, call)
				}
			}
		}
		return true
	})
	if len(sortCalls) == 0 {
		return false
	}
	first := sortCalls[0]
	// mentions as the argument of len / cap do not observe the order
	lenOnly := map[token.Pos]bool{}
	ast.Inspect(body, func(n ast.Node) bool {
		if call, ok := n.(*ast.CallExpr); ok && len(call.Args) == 1 {
			if id, ok := unparen(call.Fun).(*ast.Ident); ok && (id.Name == "len" || id.Name == "cap") {
				if _, isB := info.Uses[id].(*types.Builtin); isB {
					lenOnly[unparen(call.Args[0]).Pos()] = true
				}
			}
		}
		return true
	})
	ast.Inspect(body, func(n ast.Node) bool {
		e, ok := n.(ast.Expr)
		if !ok || e.Pos() <= after {
			return true
		}
		if _, isSel := n.(*ast.SelectorExpr); !isSel {
			if _, isId := n.(*ast.Ident); !isId {
				return true
			}
		}
		if exprKey(e) == key {
			if !lenOnly[e.Pos()] {
				ms = append(ms, mention{e.Pos(), e.Pos() >= first.Pos() && e.End() <= first.End()})
			}
			return false
		}
		return true
	})
	sort.Slice(ms, func(i, j int) bool { return ms[i].pos < ms[j].pos })
	return len(ms) > 0 && ms[0].sort
}

func (w *world) rangeSites() []rangeSite {
	var out []rangeSite
	for _, p := range w.order {
		for fi, f := range p.files {
			if p.gen[fi] {
				continue
			}
			for _, d := range f.Decls {
				fd, ok := d.(*ast.FuncDecl)
				if !ok || fd.Body == nil {
					continue
				}
				ord := 0
				ast.Inspect(fd.Body, func(n ast.Node) bool {
					rs, ok := n.(*ast.RangeStmt)
					if !ok {
						return true
					}
					if !isMapType(p.info.TypeOf(rs.X)) {
						return true
					}
					c := &rangeClassifier{w: w, info: p.info, appended: map[string]bool{}}
					class := "free"
					if !c.pure(rs.X) && false {
						class = "other"
					}
					if !c.stmts(rs.Body.List) {
						class = "other"
					} else if len(c.appended) > 0 {
						class = "sorted"
						keys := make([]string, 0, len(c.appended))
						for k := range c.appended {
							keys = append(keys, k)
						}
						sort.Strings(keys)
						for _, k := range keys {
							if !sortedLater(p.info, fd.Body, rs.End(), k) {
								class = "other"
								c.why = "append to " + k + " without a later sort"
								break
							}
						}
					}
					out = append(out, rangeSite{pkg: p.rel, fn: funcLabel(fd), ordinal: ord, class: class, why: c.why, pos: w.fset.Position(rs.Pos())})
					ord++
					return true
				})
			}
		}
	}
	sort.SliceStable(out, func(i, j int) bool {
		if out[i].pkg != out[j].pkg {
			return out[i].pkg < out[j].pkg
		}
		if out[i].fn != out[j].fn {
			return out[i].fn < out[j].fn
		}
		return out[i].ordinal < out[j].ordinal
	})
	return out
}

// keyedSetter: a call `x.M(k, v)` with pure arguments of a library method whose whole body is
// `recv.f[param] = param` with f a map — a keyed store like `m[k] = v`.
func (c *rangeClassifier) keyedSetter(call *ast.CallExpr) bool {
	for _, a := range call.Args {
		if !c.pure(a) {
			return false
		}
	}
	callee := calleeOf(c.info, call)
	if callee == nil || callee.Pkg() == nil {
		return false
	}
	p, ok := c.w.pkgs[callee.Pkg().Path()]
	if !ok {
		return false
	}
	for _, f := range p.files {
		for _, d := range f.Decls {
			fd, ok := d.(*ast.FuncDecl)
			if !ok || fd.Body == nil || p.info.Defs[fd.Name] != types.Object(callee) {
				continue
			}
			if len(fd.Body.List) != 1 {
				return false
			}
			as, ok := fd.Body.List[0].(*ast.AssignStmt)
			if !ok || as.Tok != token.ASSIGN || len(as.Lhs) != 1 || len(as.Rhs) != 1 {
				return false
			}
			ix, ok := unparen(as.Lhs[0]).(*ast.IndexExpr)
			if !ok || !isMapType(p.info.TypeOf(ix.X)) {
				return false
			}
			isParam := func(e ast.Expr) bool {
				id, ok := unparen(e).(*ast.Ident)
				if !ok || fd.Type.Params == nil {
					return false
				}
				for _, fl := range fd.Type.Params.List {
					for _, nm := range fl.Names {
						if p.info.Defs[nm] == p.info.Uses[id] {
							return true
						}
					}
				}
				return false
			}
			return isParam(ix.Index) && isParam(as.Rhs[0])
		}
	}
	return false
}
