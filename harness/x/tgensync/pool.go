package tgensync

// F2 — copy-out. Pool types: sync.Pool and every library struct type holding one (BufferPool); their getters and
// putters are found structurally (a method that reaches sync.Pool.Get / .Put on its receiver's pool).
// A CONSUMER is a function outside the pool types that calls a getter. For each consumer:
//   putsBack      some putter is called with the pooled object (directly, deferred, or in a deferred closure);
//   returnsAlias  putsBack, and some returned expression may alias memory owned by the pooled object:
//                 the object itself, a reference-carrying field of it, the reference-carrying result of a method
//                 called on it (`buf.Bytes()`), a slice / index / conversion / address of such a thing, a local
//                 assigned from such a thing, the result of passing such a thing to a function that may hand it
//                 back (functions of the package are summarised: `copyBytes` = append([]byte(nil), b...) does not;
//                 unknown functions are assumed to) — except fields that are re-initialised from untainted values
//                 before EVERY Put of the object (the loader's reset()).
//   live          reachable in the static call graph from an exported function, a method, or a function used as a value.

import (
	"go/ast"
	"go/token"
	"go/types"
	"sort"
	"strings"
)

type poolRow struct {
	pkg, fn, pool string
	putsBack      bool
	returnsAlias  bool
	live          bool
}

type poolAnalysis struct {
	w         *world
	poolTypes map[*types.Named]bool
	getters   map[*types.Func]bool
	putters   map[*types.Func]bool
	funcs     map[*types.Func]*funcInfo
	summaries map[*types.Func][]bool // param index -> may the result alias it
	busy      map[*types.Func]bool
}

func hasRefs(t types.Type, seen map[types.Type]bool) bool {
	if t == nil {
		return true
	}
	if seen == nil {
		seen = map[types.Type]bool{}
	}
	if seen[t] {
		return false
	}
	seen[t] = true
	switch u := t.Underlying().(type) {
	case *types.Basic:
		return u.Kind() == types.UnsafePointer
	case *types.Pointer, *types.Slice, *types.Map, *types.Chan, *types.Signature, *types.Interface:
		return true
	case *types.Struct:
		for i := 0; i < u.NumFields(); i++ {
			if hasRefs(u.Field(i).Type(), seen) {
				return true
			}
		}
		return false
	case *types.Array:
		return hasRefs(u.Elem(), seen)
	case *types.Tuple:
		for i := 0; i < u.Len(); i++ {
			if hasRefs(u.At(i).Type(), seen) {
				return true
			}
		}
		return false
	}
	return true
}

func newPoolAnalysis(w *world) *poolAnalysis {
	a := &poolAnalysis{w: w, poolTypes: map[*types.Named]bool{}, getters: map[*types.Func]bool{}, putters: map[*types.Func]bool{},
		funcs: map[*types.Func]*funcInfo{}, summaries: map[*types.Func][]bool{}, busy: map[*types.Func]bool{}}
	for _, fi := range w.allFuncs() {
		if fi.obj != nil {
			a.funcs[fi.obj] = fi
		}
	}
	// pool wrapper types
	for changed := true; changed; {
		changed = false
		for _, p := range w.order {
			if p.tpkg == nil {
				continue
			}
			sc := p.tpkg.Scope()
			for _, nm := range sc.Names() {
				tn, ok := sc.Lookup(nm).(*types.TypeName)
				if !ok || tn.IsAlias() {
					continue
				}
				n, ok := tn.Type().(*types.Named)
				if !ok || a.poolTypes[n] {
					continue
				}
				st := structOf(n)
				if st == nil {
					continue
				}
				for i := 0; i < st.NumFields(); i++ {
					if a.isPoolType(st.Field(i).Type()) {
						a.poolTypes[n] = true
						changed = true
						break
					}
				}
			}
		}
	}
	// getters / putters of the wrappers
	for changed := true; changed; {
		changed = false
		for f, fi := range a.funcs {
			rn := recvNamed(f)
			if rn == nil || !a.poolTypes[rn.Origin()] || fi.decl.Body == nil {
				continue
			}
			ast.Inspect(fi.decl.Body, func(n ast.Node) bool {
				call, ok := n.(*ast.CallExpr)
				if !ok {
					return true
				}
				switch a.poolOp(fi.p.info, call) {
				case "get":
					if !a.getters[f] {
						a.getters[f] = true
						changed = true
					}
				case "put":
					if !a.putters[f] {
						a.putters[f] = true
						changed = true
					}
				}
				return true
			})
		}
	}
	return a
}

func (a *poolAnalysis) isPoolType(t types.Type) bool {
	n := namedOf(t)
	if n == nil {
		return false
	}
	if isSyncType(n, "Pool") {
		return true
	}
	return a.poolTypes[n.Origin()]
}

// poolOp: "get" / "put" when the call is a getter / putter on a pool-typed expression, else "".
func (a *poolAnalysis) poolOp(info *types.Info, call *ast.CallExpr) string {
	se, ok := unparen(call.Fun).(*ast.SelectorExpr)
	if !ok {
		return ""
	}
	rt := info.TypeOf(se.X)
	if rt == nil || !a.isPoolType(rt) {
		return ""
	}
	if isSyncType(namedOf(rt), "Pool") {
		switch se.Sel.Name {
		case "Get":
			return "get"
		case "Put":
			return "put"
		}
		return ""
	}
	if f := calleeOf(info, call); f != nil {
		if a.getters[f] {
			return "get"
		}
		if a.putters[f] {
			return "put"
		}
	}
	return ""
}

func poolExprText(e ast.Expr) string {
	switch x := unparen(e).(type) {
	case *ast.Ident:
		return x.Name
	case *ast.SelectorExpr:
		return poolExprText(x.X) + "." + x.Sel.Name
	case *ast.StarExpr:
		return poolExprText(x.X)
	case *ast.UnaryExpr:
		return poolExprText(x.X)
	case *ast.CallExpr:
		return poolExprText(x.Fun) + "()"
	}
	return "?"
}

// taint state of one function body
type taint struct {
	a       *poolAnalysis
	p       *pkg
	vars    map[types.Object]bool            // tainted locals / parameters
	pooled  map[types.Object]bool            // the pooled objects themselves
	severed map[types.Object]map[string]bool // pooled object -> fields re-initialised before every Put
}

func (t *taint) aliases(e ast.Expr) bool {
	info := t.p.info
	switch x := unparen(e).(type) {
	case nil:
		return false
	case *ast.Ident:
		obj := info.Uses[x]
		if obj == nil {
			obj = info.Defs[x]
		}
		return obj != nil && t.vars[obj] && hasRefs(obj.Type(), nil)
	case *ast.BasicLit:
		return false
	case *ast.SelectorExpr:
		sel, ok := info.Selections[x]
		if !ok {
			return false // qualified identifier
		}
		if sel.Kind() != types.FieldVal {
			// method value bound to a tainted receiver
			return t.aliases(x.X)
		}
		if !t.aliases(x.X) {
			return false
		}
		if !hasRefs(info.TypeOf(x), nil) {
			return false
		}
		if id, ok := unparen(x.X).(*ast.Ident); ok {
			if obj := info.Uses[id]; obj != nil && t.pooled[obj] && t.severed[obj][x.Sel.Name] {
				return false
			}
		}
		return true
	case *ast.StarExpr:
		return t.aliases(x.X) && hasRefs(info.TypeOf(x), nil)
	case *ast.UnaryExpr:
		if x.Op == token.AND {
			// address of (a part of) a tainted thing points into it whatever the type
			return t.mentionsTainted(x.X)
		}
		return false
	case *ast.BinaryExpr:
		return false
	case *ast.SliceExpr:
		return t.aliases(x.X)
	case *ast.IndexExpr:
		return t.aliases(x.X) && hasRefs(info.TypeOf(x), nil)
	case *ast.TypeAssertExpr:
		return t.aliases(x.X)
	case *ast.KeyValueExpr:
		return t.aliases(x.Value)
	case *ast.CompositeLit:
		for _, el := range x.Elts {
			if t.aliases(el) {
				return true
			}
		}
		return false
	case *ast.FuncLit:
		return t.mentionsTainted(x.Body)
	case *ast.CallExpr:
		return t.callAliases(x)
	}
	return true
}

func (t *taint) mentionsTainted(n ast.Node) bool {
	hit := false
	ast.Inspect(n, func(m ast.Node) bool {
		if id, ok := m.(*ast.Ident); ok {
			if obj := t.p.info.Uses[id]; obj != nil && t.vars[obj] {
				hit = true
			}
		}
		return !hit
	})
	return hit
}

func (t *taint) callAliases(call *ast.CallExpr) bool {
	info := t.p.info
	rt := info.TypeOf(call)
	if rt != nil && !hasRefs(rt, nil) {
		return false
	}
	// conversion
	if tv, ok := info.Types[call.Fun]; ok && tv.IsType() {
		if len(call.Args) != 1 || !t.aliases(call.Args[0]) {
			return false
		}
		// string <-> []byte conversions copy
		from, to := info.TypeOf(call.Args[0]), tv.Type
		if isStringType(from) || isStringType(to) {
			return false
		}
		return true
	}
	if id, ok := unparen(call.Fun).(*ast.Ident); ok {
		if _, isB := info.Uses[id].(*types.Builtin); isB {
			switch id.Name {
			case "append":
				if len(call.Args) == 0 {
					return false
				}
				if t.aliases(call.Args[0]) {
					return true
				}
				// appended elements are copied; they carry an alias only if the element type has references
				if sl, ok := info.TypeOf(call.Args[0]).Underlying().(*types.Slice); ok && hasRefs(sl.Elem(), nil) {
					for _, a := range call.Args[1:] {
						if t.aliases(a) {
							return true
						}
					}
				}
				return false
			case "make", "new", "len", "cap", "copy", "min", "max":
				return false
			}
			for _, a := range call.Args {
				if t.aliases(a) {
					return true
				}
			}
			return false
		}
	}
	// receiver
	var recv ast.Expr
	if se, ok := unparen(call.Fun).(*ast.SelectorExpr); ok {
		if _, isSel := info.Selections[se]; isSel {
			recv = se.X
		}
	}
	callee := calleeOf(info, call)
	if callee != nil && callee.Pkg() != nil {
		pp, nm := callee.Pkg().Path(), callee.Name()
		if (pp == "bytes" || pp == "slices" || pp == "strings" || pp == "maps") && nm == "Clone" {
			return false
		}
		if sum := t.a.summary(callee); sum != nil {
			// sum[0] is the receiver for methods
			idx := 0
			if recvNamed(callee) != nil {
				if recv != nil && sum[0] && t.aliases(recv) {
					return true
				}
				idx = 1
			}
			for i, arg := range call.Args {
				j := idx + i
				if j >= len(sum) {
					j = len(sum) - 1 // variadic tail
				}
				if j >= 0 && j < len(sum) && sum[j] && t.aliases(arg) {
					return true
				}
			}
			return false
		}
	}
	if recv != nil && t.aliases(recv) {
		return true
	}
	if recv == nil {
		// call of a function value that is itself tainted (closure over the pooled object)
		if t.aliases(call.Fun) {
			return true
		}
	}
	for _, a := range call.Args {
		if t.aliases(a) {
			return true
		}
	}
	return false
}

func isStringType(t types.Type) bool {
	if t == nil {
		return false
	}
	b, ok := t.Underlying().(*types.Basic)
	return ok && b.Info()&types.IsString != 0
}

// propagate: locals assigned from aliasing expressions become tainted (flow-insensitive fixpoint).
func (t *taint) propagate(body *ast.BlockStmt) {
	info := t.p.info
	mark := func(l ast.Expr) bool {
		id, ok := unparen(l).(*ast.Ident)
		if !ok || id.Name == "_" {
			return false
		}
		obj := info.Defs[id]
		if obj == nil {
			obj = info.Uses[id]
		}
		if obj == nil || t.vars[obj] {
			return false
		}
		t.vars[obj] = true
		return true
	}
	for changed := true; changed; {
		changed = false
		ast.Inspect(body, func(n ast.Node) bool {
			switch x := n.(type) {
			case *ast.AssignStmt:
				if len(x.Lhs) == len(x.Rhs) {
					for i := range x.Lhs {
						if t.aliases(x.Rhs[i]) && mark(x.Lhs[i]) {
							changed = true
						}
					}
				} else if len(x.Rhs) == 1 && t.aliases(x.Rhs[0]) {
					for _, l := range x.Lhs {
						if mark(l) {
							changed = true
						}
					}
				}
			case *ast.ValueSpec:
				for i, v := range x.Values {
					if t.aliases(v) {
						if len(x.Names) == len(x.Values) {
							if mark(x.Names[i]) {
								changed = true
							}
						} else {
							for _, nm := range x.Names {
								if mark(nm) {
									changed = true
								}
							}
						}
					}
				}
			case *ast.RangeStmt:
				if t.aliases(x.X) {
					if x.Value != nil && mark(x.Value) {
						changed = true
					}
				}
			}
			return true
		})
	}
}

func (t *taint) returnsAlias(fd *ast.FuncDecl) bool {
	hit := false
	var walk func(n ast.Node)
	walk = func(n ast.Node) {
		ast.Inspect(n, func(m ast.Node) bool {
			if hit {
				return false
			}
			switch x := m.(type) {
			case *ast.FuncLit:
				return false
			case *ast.ReturnStmt:
				for _, r := range x.Results {
					if t.aliases(r) {
						hit = true
					}
				}
			}
			return true
		})
	}
	walk(fd.Body)
	if !hit && fd.Type.Results != nil {
		for _, fl := range fd.Type.Results.List {
			for _, nm := range fl.Names {
				if obj := t.p.info.Defs[nm]; obj != nil && t.vars[obj] && hasRefs(obj.Type(), nil) {
					hit = true
				}
			}
		}
	}
	return hit
}

// summary: for a function of the library with a body, which parameters (receiver first) may be aliased by a result.
func (a *poolAnalysis) summary(f *types.Func) []bool {
	if s, ok := a.summaries[f]; ok {
		return s
	}
	fi, ok := a.funcs[f]
	if !ok || fi.decl.Body == nil {
		return nil
	}
	if a.busy[f] {
		return nil // recursion: the caller falls back to the conservative rule
	}
	a.busy[f] = true
	defer delete(a.busy, f)
	var params []types.Object
	if fi.decl.Recv != nil {
		var o types.Object
		if len(fi.decl.Recv.List) > 0 && len(fi.decl.Recv.List[0].Names) > 0 {
			o = fi.p.info.Defs[fi.decl.Recv.List[0].Names[0]]
		}
		params = append(params, o)
	}
	if fi.decl.Type.Params != nil {
		for _, fl := range fi.decl.Type.Params.List {
			if len(fl.Names) == 0 {
				params = append(params, nil)
			}
			for _, nm := range fl.Names {
				params = append(params, fi.p.info.Defs[nm])
			}
		}
	}
	out := make([]bool, len(params))
	for i, p := range params {
		if p == nil {
			continue
		}
		t := &taint{a: a, p: fi.p, vars: map[types.Object]bool{p: true}, pooled: map[types.Object]bool{}, severed: map[types.Object]map[string]bool{}}
		t.propagate(fi.decl.Body)
		out[i] = t.returnsAlias(fi.decl)
	}
	a.summaries[f] = out
	return out
}

// fieldsReinitialised: fields of `obj` assigned from untainted expressions by the statements `stmts`
// (directly, or by a method of the package called on obj whose body assigns receiver fields).
func (t *taint) fieldsReinitialised(stmts []ast.Stmt, obj types.Object) map[string]bool {
	info := t.p.info
	out := map[string]bool{}
	isObj := func(e ast.Expr) bool {
		id, ok := unparen(e).(*ast.Ident)
		return ok && info.Uses[id] == obj
	}
	for _, s := range stmts {
		switch x := s.(type) {
		case *ast.AssignStmt:
			if x.Tok != token.ASSIGN || len(x.Lhs) != len(x.Rhs) {
				continue
			}
			for i, l := range x.Lhs {
				if se, ok := unparen(l).(*ast.SelectorExpr); ok && isObj(se.X) && !t.aliases(x.Rhs[i]) {
					out[se.Sel.Name] = true
				}
			}
		case *ast.ExprStmt:
			call, ok := x.X.(*ast.CallExpr)
			if !ok {
				continue
			}
			se, ok := unparen(call.Fun).(*ast.SelectorExpr)
			if !ok || !isObj(se.X) {
				continue
			}
			callee := calleeOf(info, call)
			fi, ok := t.a.funcs[callee]
			if callee == nil || !ok || fi.decl.Body == nil || fi.decl.Recv == nil || len(fi.decl.Recv.List) == 0 || len(fi.decl.Recv.List[0].Names) == 0 {
				continue
			}
			recv := fi.p.info.Defs[fi.decl.Recv.List[0].Names[0]]
			for _, bs := range fi.decl.Body.List {
				as, ok := bs.(*ast.AssignStmt)
				if !ok || as.Tok != token.ASSIGN || len(as.Lhs) != len(as.Rhs) {
					continue
				}
				for i, l := range as.Lhs {
					if fs, ok := unparen(l).(*ast.SelectorExpr); ok {
						if id, ok := unparen(fs.X).(*ast.Ident); ok && fi.p.info.Uses[id] == recv {
							// the new value must not come from the receiver itself
							fromRecv := false
							ast.Inspect(as.Rhs[i], func(m ast.Node) bool {
								if id, ok := m.(*ast.Ident); ok && fi.p.info.Uses[id] == recv {
									fromRecv = true
								}
								return !fromRecv
							})
							if !fromRecv {
								out[fs.Sel.Name] = true
							}
						}
					}
				}
			}
		}
	}
	return out
}

func (a *poolAnalysis) rows() []poolRow {
	live := a.w.liveFuncs()
	var out []poolRow
	for _, fi := range a.w.allFuncs() {
		if fi.obj == nil || fi.decl.Body == nil {
			continue
		}
		if rn := recvNamed(fi.obj); rn != nil && a.poolTypes[rn.Origin()] {
			continue // the pool's own methods
		}
		info := fi.p.info
		// pooled objects: x := P.Get() / x := P.Get().(*T) / var x = …
		t := &taint{a: a, p: fi.p, vars: map[types.Object]bool{}, pooled: map[types.Object]bool{}, severed: map[types.Object]map[string]bool{}}
		pools := map[string]bool{}
		direct := false // a getter result used without a local (returned / passed on directly)
		getCall := func(e ast.Expr) *ast.CallExpr {
			e = unparen(e)
			if ta, ok := e.(*ast.TypeAssertExpr); ok {
				e = unparen(ta.X)
			}
			if call, ok := e.(*ast.CallExpr); ok && a.poolOp(info, call) == "get" {
				return call
			}
			return nil
		}
		bound := map[*ast.CallExpr]bool{}
		ast.Inspect(fi.decl.Body, func(n ast.Node) bool {
			switch x := n.(type) {
			case *ast.AssignStmt:
				for i, r := range x.Rhs {
					if call := getCall(r); call != nil && i < len(x.Lhs) {
						if id, ok := unparen(x.Lhs[i]).(*ast.Ident); ok {
							obj := info.Defs[id]
							if obj == nil {
								obj = info.Uses[id]
							}
							if obj != nil {
								t.vars[obj], t.pooled[obj] = true, true
								bound[call] = true
								pools[poolExprText(call.Fun.(*ast.SelectorExpr).X)] = true
							}
						}
					}
				}
			case *ast.ValueSpec:
				for i, r := range x.Values {
					if call := getCall(r); call != nil && i < len(x.Names) {
						if obj := info.Defs[x.Names[i]]; obj != nil {
							t.vars[obj], t.pooled[obj] = true, true
							bound[call] = true
							pools[poolExprText(call.Fun.(*ast.SelectorExpr).X)] = true
						}
					}
				}
			}
			return true
		})
		ast.Inspect(fi.decl.Body, func(n ast.Node) bool {
			if call, ok := n.(*ast.CallExpr); ok && a.poolOp(info, call) == "get" && !bound[call] {
				direct = true
				pools[poolExprText(call.Fun.(*ast.SelectorExpr).X)] = true
			}
			return true
		})
		if len(pools) == 0 {
			continue
		}
		// puts, and what is re-initialised before each of them
		putsBack := false
		first := map[types.Object]bool{}
		var scan func(list []ast.Stmt)
		scan = func(list []ast.Stmt) {
			for i, s := range list {
				var call *ast.CallExpr
				switch x := s.(type) {
				case *ast.ExprStmt:
					call, _ = x.X.(*ast.CallExpr)
				case *ast.DeferStmt:
					call = x.Call
				case *ast.GoStmt:
					call = x.Call
				}
				if call != nil && a.poolOp(info, call) == "put" && len(call.Args) == 1 {
					if id, ok := unparen(call.Args[0]).(*ast.Ident); ok {
						if obj := info.Uses[id]; obj != nil && t.pooled[obj] {
							putsBack = true
							var before []ast.Stmt
							if _, isDefer := s.(*ast.DeferStmt); !isDefer {
								before = list[:i]
							}
							re := t.fieldsReinitialised(before, obj)
							if !first[obj] {
								first[obj] = true
								t.severed[obj] = re
							} else {
								for f := range t.severed[obj] {
									if !re[f] {
										delete(t.severed[obj], f)
									}
								}
							}
						}
					}
				}
			}
		}
		ast.Inspect(fi.decl.Body, func(n ast.Node) bool {
			switch x := n.(type) {
			case *ast.BlockStmt:
				scan(x.List)
			case *ast.CaseClause:
				scan(x.Body)
			case *ast.CommClause:
				scan(x.Body)
			}
			return true
		})
		t.propagate(fi.decl.Body)
		alias := t.returnsAlias(fi.decl)
		if direct {
			// a pooled object that never got a name: nothing can put it back; flag a direct `return P.Get()` as an
			// alias only if something is put back in this function
			ast.Inspect(fi.decl.Body, func(n ast.Node) bool {
				if rs, ok := n.(*ast.ReturnStmt); ok {
					for _, r := range rs.Results {
						if getCall(r) != nil && putsBack {
							alias = true
						}
					}
				}
				return true
			})
		}
		names := make([]string, 0, len(pools))
		for k := range pools {
			names = append(names, k)
		}
		sort.Strings(names)
		out = append(out, poolRow{pkg: fi.p.rel, fn: funcLabel(fi.decl), pool: strings.Join(names, "+"), putsBack: putsBack,
			returnsAlias: alias && putsBack, live: live[fi.obj]})
	}
	sort.Slice(out, func(i, j int) bool {
		if out[i].pkg != out[j].pkg {
			return out[i].pkg < out[j].pkg
		}
		return out[i].fn < out[j].fn
	})
	return out
}

// liveFuncs: functions reachable in the static call graph from the roots: exported functions, every method
// (interface dispatch is not resolved), init / main, and every function used as a value.
func (w *world) liveFuncs() map[*types.Func]bool {
	funcs := map[*types.Func]*funcInfo{}
	for _, fi := range w.allFuncs() {
		if fi.obj != nil {
			funcs[fi.obj] = fi
		}
	}
	live := map[*types.Func]bool{}
	var work []*types.Func
	add := func(f *types.Func) {
		if f == nil {
			return
		}
		f = f.Origin()
		if _, ok := funcs[f]; ok && !live[f] {
			live[f] = true
			work = append(work, f)
		}
	}
	for f, fi := range funcs {
		if fi.decl.Recv != nil || fi.decl.Name.IsExported() || fi.decl.Name.Name == "init" || fi.decl.Name.Name == "main" {
			add(f)
		}
	}
	// functions used as values anywhere (including package-level initialisers)
	for _, p := range w.order {
		for _, file := range p.files {
			calls := map[*ast.Ident]bool{}
			ast.Inspect(file, func(n ast.Node) bool {
				if call, ok := n.(*ast.CallExpr); ok {
					switch f := unparen(call.Fun).(type) {
					case *ast.Ident:
						calls[f] = true
					case *ast.SelectorExpr:
						calls[f.Sel] = true
					}
				}
				return true
			})
			inFunc := map[*ast.Ident]bool{}
			for _, d := range file.Decls {
				if fd, ok := d.(*ast.FuncDecl); ok {
					inFunc[fd.Name] = true
				}
			}
			ast.Inspect(file, func(n ast.Node) bool {
				id, ok := n.(*ast.Ident)
				if !ok || calls[id] || inFunc[id] {
					return true
				}
				if f, ok := p.info.Uses[id].(*types.Func); ok {
					add(f)
				}
				return true
			})
			// calls in package-level variable initialisers run at start-up
			for _, d := range file.Decls {
				if gd, ok := d.(*ast.GenDecl); ok {
					ast.Inspect(gd, func(n ast.Node) bool {
						if call, ok := n.(*ast.CallExpr); ok {
							add(calleeOf(p.info, call))
						}
						return true
					})
				}
			}
		}
	}
	for len(work) > 0 {
		f := work[len(work)-1]
		work = work[:len(work)-1]
		fi := funcs[f]
		if fi.decl.Body == nil {
			continue
		}
		ast.Inspect(fi.decl.Body, func(n ast.Node) bool {
			if call, ok := n.(*ast.CallExpr); ok {
				add(calleeOf(fi.p.info, call))
			}
			return true
		})
	}
	return live
}
