package tgensync

// F1 — once guards.
//
// Cell types: sync.Once, and every library struct type that holds a cell by value and has a method taking a
// function (ErrOnce, ErrOnceWithValue — found structurally, not by name).
// Owner types: every library struct type with a field of a cell type (jschema.Schema, json.Document, enum.Enum,
// regex.Schema, and the cell wrappers themselves).
//
// For every entry point of an owner's package (exported functions and methods; plus, failing closed, every function
// with accesses that no entry point reaches) the body is interpreted abstractly, following calls inside the package
// (inlined, the receiver and the arguments substituted), with the set of once-cells whose `Do` has certainly
// completed on the current path ("guards", per base expression: `s.compile()` guards `s`, not `typ`) and the set of
// cells whose function is currently running ("inside"). Guards only grow along a path (a once never un-runs), so a
// closure is interpreted with the guards of the place it is created at, branches are merged by intersection, and the
// state after a loop is the state before it. What `X.cell.Do(f)` guarantees afterwards is the cell itself plus
// whatever every normal exit of `f` guarantees (`compile`'s function calls `load` on all paths: compile ⇒ load).
//
// Every access to a field of an owner type is recorded with that context. Afterwards:
//   - a field is LAZY when it is written inside some once function and never written outside one (writes through a
//     freshly allocated local — constructors — do not count); its groups are the innermost cells it is written under;
//   - a read of a lazy field is GUARDED when a cell of one of its groups is among the guards (or running) for the
//     same base expression; reads through a fresh local do not count;
//   - row (type, method, cell, guarded): the entry point touches the cell (calls its Do, or reads a field of its
//     group); guarded = every such read is guarded;
//   - row (type, method, writesOutsideOnce): an exported method of the owner writes one of the owner's fields
//     outside every once function (through a non-fresh base).

import (
	"go/ast"
	"go/token"
	"go/types"
	"sort"
	"strings"
)

type gkey struct {
	root types.Object
	path string
}

type base struct {
	root types.Object
	path string
	ok   bool
}

type ostate struct {
	guards map[gkey]bool
	inside map[gkey]bool
	order  []gkey // the running cells, outermost first
	fresh  map[types.Object]bool
}

func newOState() *ostate {
	return &ostate{guards: map[gkey]bool{}, inside: map[gkey]bool{}, fresh: map[types.Object]bool{}}
}

func (s *ostate) clone() *ostate {
	c := newOState()
	for k := range s.guards {
		c.guards[k] = true
	}
	for k := range s.inside {
		c.inside[k] = true
	}
	c.order = append([]gkey(nil), s.order...)
	for k := range s.fresh {
		c.fresh[k] = true
	}
	return c
}

// meet: guards := guards ∩ o.guards (inside / fresh are scoped and restored by the callers)
func meetStates(list []*ostate) *ostate {
	if len(list) == 0 {
		return nil
	}
	r := list[0].clone()
	for _, o := range list[1:] {
		for k := range r.guards {
			if !o.guards[k] {
				delete(r.guards, k)
			}
		}
		for k := range r.fresh {
			if !o.fresh[k] {
				delete(r.fresh, k)
			}
		}
	}
	return r
}

type accessEvent struct {
	owner   *types.Named
	field   *types.Var
	write   bool
	guards  []*types.Var // cells of the owner guarding (or running on) the same base
	insides []*types.Var // cells of the owner currently running on the same base (innermost last)
	fresh   bool
	noBase  bool
	entry   string
	entryFn *types.Func
	fn      string
}

type touchEvent struct {
	owner   *types.Named
	cell    *types.Var
	entry   string
	entryFn *types.Func
}

type onceAnalysis struct {
	w         *world
	cellTypes map[*types.Named]bool
	owners    map[*types.Named][]*types.Var // owner -> its cell fields
	ownerOf   map[*types.Var]*types.Named   // non-cell field of an owner -> owner
	cellOwner map[*types.Var]*types.Named   // cell field -> owner
	funcs     map[*types.Func]*funcInfo
	relevant  map[*types.Func]bool
	events    []accessEvent
	touches   []touchEvent
	visited   map[*types.Func]bool
	wrappers  []wrapperRow
}

type wrapperRow struct {
	typ, method string
	ok          bool
}

type octx struct {
	a       *onceAnalysis
	p       *pkg
	entry   string
	entryFn *types.Func
	env     map[types.Object]base
	stack   []*types.Func
	fnName  string
}

func libNamed(w *world, n *types.Named) bool {
	if n == nil || n.Obj() == nil || n.Obj().Pkg() == nil {
		return false
	}
	_, ok := w.pkgs[n.Obj().Pkg().Path()]
	return ok
}

func structOf(n *types.Named) *types.Struct {
	if n == nil {
		return nil
	}
	s, _ := n.Underlying().(*types.Struct)
	return s
}

func hasFuncParamMethod(n *types.Named) bool {
	for i := 0; i < n.NumMethods(); i++ {
		sig := n.Method(i).Type().(*types.Signature)
		for j := 0; j < sig.Params().Len(); j++ {
			if _, ok := sig.Params().At(j).Type().Underlying().(*types.Signature); ok {
				return true
			}
		}
	}
	return false
}

func (a *onceAnalysis) isCellType(t types.Type) bool {
	n := namedOf(t)
	if n == nil {
		return false
	}
	return a.cellTypes[n.Origin()]
}

func newOnceAnalysis(w *world) *onceAnalysis {
	a := &onceAnalysis{w: w, cellTypes: map[*types.Named]bool{}, owners: map[*types.Named][]*types.Var{},
		ownerOf: map[*types.Var]*types.Named{}, cellOwner: map[*types.Var]*types.Named{}, funcs: map[*types.Func]*funcInfo{},
		relevant: map[*types.Func]bool{}, visited: map[*types.Func]bool{}}
	// all named struct types of the library
	var named []*types.Named
	for _, p := range w.order {
		if p.tpkg == nil {
			continue
		}
		sc := p.tpkg.Scope()
		for _, nm := range sc.Names() {
			tn, ok := sc.Lookup(nm).(*types.TypeName)
			if !ok || tn.IsAlias() {
				continue
			}
			if n, ok := tn.Type().(*types.Named); ok && structOf(n) != nil {
				named = append(named, n)
			}
		}
	}
	isSyncOnce := func(t types.Type) bool {
		if _, ptr := t.(*types.Pointer); ptr {
			return false
		}
		return isSyncType(t, "Once")
	}
	// cell types: fixpoint
	for changed := true; changed; {
		changed = false
		for _, n := range named {
			if a.cellTypes[n] || !hasFuncParamMethod(n) {
				continue
			}
			st := structOf(n)
			for i := 0; i < st.NumFields(); i++ {
				ft := st.Field(i).Type()
				if isSyncOnce(ft) || a.isCellType(ft) {
					a.cellTypes[n] = true
					changed = true
					break
				}
			}
		}
	}
	for _, n := range named {
		st := structOf(n)
		var cells []*types.Var
		for i := 0; i < st.NumFields(); i++ {
			ft := st.Field(i).Type()
			if isSyncOnce(ft) || a.isCellType(ft) {
				cells = append(cells, st.Field(i))
			}
		}
		if len(cells) == 0 {
			continue
		}
		a.owners[n] = cells
		for _, c := range cells {
			a.cellOwner[c] = n
		}
		for i := 0; i < st.NumFields(); i++ {
			f := st.Field(i)
			if a.cellOwner[f] == nil {
				a.ownerOf[f] = n
			}
		}
	}
	for _, fi := range w.allFuncs() {
		if fi.obj != nil {
			a.funcs[fi.obj] = fi
		}
	}
	a.computeRelevant()
	return a
}

// relevant: functions of an owner's package that (transitively, inside the package) access an owner's field or a cell.
func (a *onceAnalysis) computeRelevant() {
	callers := map[*types.Func][]*types.Func{}
	for f, fi := range a.funcs {
		if fi.decl.Body == nil {
			continue
		}
		direct := false
		ast.Inspect(fi.decl.Body, func(n ast.Node) bool {
			switch x := n.(type) {
			case *ast.SelectorExpr:
				if sel, ok := fi.p.info.Selections[x]; ok && sel.Kind() == types.FieldVal {
					if v, ok := sel.Obj().(*types.Var); ok {
						v = originVar(v)
						if a.ownerOf[v] != nil || a.cellOwner[v] != nil {
							direct = true
						}
					}
				}
			case *ast.CallExpr:
				if c := calleeOf(fi.p.info, x); c != nil {
					if ci, ok := a.funcs[c]; ok && ci.p == fi.p {
						callers[c] = append(callers[c], f)
					}
				}
				// a cell that is not a field (package-level or local once)
				if se, ok := unparen(x.Fun).(*ast.SelectorExpr); ok {
					if a.isCellType(fi.p.info.TypeOf(se.X)) || isSyncType(derefType(fi.p.info.TypeOf(se.X)), "Once") {
						direct = true
					}
				}
			}
			return true
		})
		if direct {
			a.relevant[f] = true
		}
	}
	work := make([]*types.Func, 0, len(a.relevant))
	for f := range a.relevant {
		work = append(work, f)
	}
	for len(work) > 0 {
		f := work[len(work)-1]
		work = work[:len(work)-1]
		for _, c := range callers[f] {
			if !a.relevant[c] {
				a.relevant[c] = true
				work = append(work, c)
			}
		}
	}
}

func derefType(t types.Type) types.Type {
	if t == nil {
		return nil
	}
	if p, ok := t.Underlying().(*types.Pointer); ok {
		return p.Elem()
	}
	return t
}

// originVar maps a field of an instantiated generic struct back to the field of the generic declaration.
func originVar(v *types.Var) *types.Var {
	if v == nil {
		return nil
	}
	return v.Origin()
}

// ---- abstract interpretation ---------------------------------------------------------------------------------

func (c *octx) baseOf(e ast.Expr) base {
	switch x := unparen(e).(type) {
	case *ast.Ident:
		obj := c.p.info.Uses[x]
		if obj == nil {
			obj = c.p.info.Defs[x]
		}
		if obj == nil {
			return base{}
		}
		if b, ok := c.env[obj]; ok {
			return b
		}
		if _, isVar := obj.(*types.Var); !isVar {
			return base{}
		}
		return base{root: obj, ok: true}
	case *ast.SelectorExpr:
		if sel, ok := c.p.info.Selections[x]; ok && sel.Kind() == types.FieldVal {
			b := c.baseOf(x.X)
			if !b.ok {
				return base{}
			}
			return base{root: b.root, path: b.path + "." + x.Sel.Name, ok: true}
		}
		// qualified package-level variable
		if obj, ok := c.p.info.Uses[x.Sel].(*types.Var); ok {
			return base{root: obj, ok: true}
		}
	case *ast.StarExpr:
		return c.baseOf(x.X)
	case *ast.UnaryExpr:
		if x.Op == token.AND {
			return c.baseOf(x.X)
		}
	}
	return base{}
}

func (c *octx) cellsOn(b base, owner *types.Named, set map[gkey]bool) []*types.Var {
	var out []*types.Var
	if !b.ok {
		return nil
	}
	for _, cell := range c.a.owners[owner] {
		if set[gkey{b.root, b.path + "." + cell.Name()}] {
			out = append(out, cell)
		}
	}
	return out
}

func (c *octx) access(sel *ast.SelectorExpr, st *ostate, write bool) {
	s, ok := c.p.info.Selections[sel]
	if !ok || s.Kind() != types.FieldVal {
		return
	}
	v, ok := s.Obj().(*types.Var)
	if !ok {
		return
	}
	v = originVar(v)
	owner := c.a.ownerOf[v]
	if owner == nil {
		return
	}
	b := c.baseOf(sel.X)
	ev := accessEvent{owner: owner, field: v, write: write, entry: c.entry, entryFn: c.entryFn, fn: c.fnName, noBase: !b.ok}
	if b.ok {
		ev.guards = c.cellsOn(b, owner, st.guards)
		for _, k := range st.order { // outermost first
			for _, cell := range c.a.owners[owner] {
				if k.root == b.root && k.path == b.path+"."+cell.Name() {
					ev.insides = append(ev.insides, cell)
				}
			}
		}
		ev.fresh = st.fresh[b.root]
	}
	c.a.events = append(c.a.events, ev)
}

// lhs: the target of an assignment / inc-dec / delete / copy.
func (c *octx) lhs(e ast.Expr, st *ostate) {
	e = unparen(e)
	switch x := e.(type) {
	case *ast.SelectorExpr:
		if s, ok := c.p.info.Selections[x]; ok && s.Kind() == types.FieldVal {
			if v, ok := s.Obj().(*types.Var); ok && c.a.ownerOf[originVar(v)] != nil {
				c.access(x, st, true)
				c.expr(x.X, st)
				return
			}
		}
		c.lhs(x.X, st) // a field of something reached through an owner's field: counts as a write of that field
		return
	case *ast.IndexExpr:
		c.expr(x.Index, st)
		c.lhs(x.X, st)
		return
	case *ast.SliceExpr:
		c.lhs(x.X, st)
		return
	case *ast.StarExpr:
		c.lhs(x.X, st)
		return
	}
	c.expr(e, st)
}

// expr interprets an expression; it returns true when evaluation certainly does not return (panic).
func (c *octx) expr(e ast.Expr, st *ostate) (diverges bool) {
	switch x := e.(type) {
	case nil:
		return false
	case *ast.ParenExpr:
		return c.expr(x.X, st)
	case *ast.SelectorExpr:
		c.access(x, st, false)
		return c.expr(x.X, st)
	case *ast.StarExpr:
		return c.expr(x.X, st)
	case *ast.UnaryExpr:
		if x.Op == token.AND {
			if se, ok := unparen(x.X).(*ast.SelectorExpr); ok {
				if s, ok := c.p.info.Selections[se]; ok && s.Kind() == types.FieldVal {
					if v, ok := s.Obj().(*types.Var); ok && c.a.ownerOf[originVar(v)] != nil {
						c.access(se, st, true) // the address escapes: treated as a write
						return c.expr(se.X, st)
					}
				}
			}
		}
		return c.expr(x.X, st)
	case *ast.BinaryExpr:
		c.expr(x.X, st)
		if x.Op == token.LAND || x.Op == token.LOR {
			c.expr(x.Y, st.clone()) // the right operand may not run: its guards do not count
			return false
		}
		c.expr(x.Y, st)
		return false
	case *ast.IndexExpr:
		c.expr(x.X, st)
		c.expr(x.Index, st)
	case *ast.IndexListExpr:
		c.expr(x.X, st)
	case *ast.SliceExpr:
		c.expr(x.X, st)
		c.expr(x.Low, st)
		c.expr(x.High, st)
		c.expr(x.Max, st)
	case *ast.TypeAssertExpr:
		c.expr(x.X, st)
	case *ast.KeyValueExpr:
		c.expr(x.Value, st)
	case *ast.CompositeLit:
		for _, el := range x.Elts {
			c.expr(el, st)
		}
	case *ast.FuncLit:
		c.funcBody(x.Body, st.clone())
	case *ast.CallExpr:
		return c.call(x, st)
	}
	return false
}

func (c *octx) isFresh(e ast.Expr) bool {
	switch x := unparen(e).(type) {
	case *ast.CompositeLit:
		return true
	case *ast.UnaryExpr:
		if x.Op == token.AND {
			_, ok := unparen(x.X).(*ast.CompositeLit)
			return ok
		}
	case *ast.CallExpr:
		if id, ok := unparen(x.Fun).(*ast.Ident); ok {
			if _, isB := c.p.info.Uses[id].(*types.Builtin); isB && id.Name == "new" {
				return true
			}
		}
	}
	return false
}

func (c *octx) call(call *ast.CallExpr, st *ostate) (diverges bool) {
	info := c.p.info
	// conversion
	if tv, ok := info.Types[call.Fun]; ok && tv.IsType() {
		for _, a := range call.Args {
			c.expr(a, st)
		}
		return false
	}
	if id, ok := unparen(call.Fun).(*ast.Ident); ok {
		if _, isB := info.Uses[id].(*types.Builtin); isB {
			switch id.Name {
			case "panic":
				for _, a := range call.Args {
					c.expr(a, st)
				}
				return true
			case "delete", "copy", "clear":
				if len(call.Args) > 0 {
					c.lhs(call.Args[0], st)
					for _, a := range call.Args[1:] {
						c.expr(a, st)
					}
				}
				return false
			}
			for _, a := range call.Args {
				c.expr(a, st)
			}
			return false
		}
	}
	// X.cell.Do(f)
	if se, ok := unparen(call.Fun).(*ast.SelectorExpr); ok {
		rt := info.TypeOf(se.X)
		if rt != nil && (c.a.isCellType(rt) || isSyncType(derefType(rt), "Once") || isSyncType(rt, "Once")) {
			var fnArg ast.Expr
			for _, a := range call.Args {
				if t := info.TypeOf(a); t != nil {
					if _, isSig := t.Underlying().(*types.Signature); isSig {
						fnArg = a
						continue
					}
				}
				c.expr(a, st)
			}
			if fnArg != nil {
				cb := c.baseOf(se.X)
				// the owner of the cell (when the cell is a field of an owner)
				if cs, ok := unparen(se.X).(*ast.SelectorExpr); ok {
					if s, ok := info.Selections[cs]; ok && s.Kind() == types.FieldVal {
						if v, ok := s.Obj().(*types.Var); ok {
							if owner := c.a.cellOwner[originVar(v)]; owner != nil {
								c.a.touches = append(c.a.touches, touchEvent{owner: owner, cell: originVar(v), entry: c.entry, entryFn: c.entryFn})
							}
						}
					}
					c.expr(cs.X, st)
				}
				var key gkey
				if cb.ok {
					key = gkey{cb.root, cb.path}
				}
				in := st.clone()
				if cb.ok {
					in.guards[key] = true
					in.inside[key] = true
					in.order = append(in.order, key)
				}
				out := c.funcValue(fnArg, in)
				if out == nil {
					out = in
				}
				for k := range out.guards {
					st.guards[k] = true
				}
				return false
			}
		}
	}
	// receiver / function expression
	switch f := unparen(call.Fun).(type) {
	case *ast.SelectorExpr:
		c.expr(f.X, st)
	case *ast.Ident:
	default:
		c.expr(call.Fun, st)
	}
	callee := calleeOf(info, call)
	var ci *funcInfo
	if callee != nil {
		if fi, ok := c.a.funcs[callee]; ok && fi.p == c.p && fi.decl.Body != nil && c.a.relevant[callee] && len(c.stack) < 16 {
			onStack := false
			for _, s := range c.stack {
				if s == callee {
					onStack = true
				}
			}
			if !onStack {
				ci = fi
			}
		}
	}
	for _, a := range call.Args {
		c.expr(a, st)
	}
	if ci == nil {
		return false
	}
	// inline the callee: bind receiver and parameters to the caller's bases
	in := st.clone()
	saved := map[types.Object]*base{}
	bind := func(param types.Object, arg ast.Expr) {
		if param == nil {
			return
		}
		if old, ok := c.env[param]; ok {
			o := old
			saved[param] = &o
		} else {
			saved[param] = nil
		}
		b := c.baseOf(arg)
		if b.ok {
			c.env[param] = b
		} else {
			delete(c.env, param)
			if c.isFresh(arg) {
				in.fresh[param] = true
			}
		}
	}
	fd := ci.decl
	if fd.Recv != nil && len(fd.Recv.List) > 0 && len(fd.Recv.List[0].Names) > 0 {
		if se, ok := unparen(call.Fun).(*ast.SelectorExpr); ok {
			bind(ci.p.info.Defs[fd.Recv.List[0].Names[0]], se.X)
		}
	}
	i := 0
	if fd.Type.Params != nil {
		for _, fl := range fd.Type.Params.List {
			for _, nm := range fl.Names {
				if i < len(call.Args) {
					if _, variadic := fl.Type.(*ast.Ellipsis); !variadic {
						bind(ci.p.info.Defs[nm], call.Args[i])
					}
				}
				i++
			}
			if len(fl.Names) == 0 {
				i++
			}
		}
	}
	c.a.visited[callee] = true
	c.stack = append(c.stack, callee)
	savedName := c.fnName
	c.fnName = funcLabel(fd)
	out := c.funcBody(fd.Body, in)
	c.fnName = savedName
	c.stack = c.stack[:len(c.stack)-1]
	for p, b := range saved {
		if b == nil {
			delete(c.env, p)
		} else {
			c.env[p] = *b
		}
	}
	if out == nil {
		return true // every path of the callee panics
	}
	for k := range out.guards {
		st.guards[k] = true
	}
	return false
}

// funcValue interprets the function a once cell runs: a literal, or a named function / method value of the package.
func (c *octx) funcValue(e ast.Expr, in *ostate) *ostate {
	switch x := unparen(e).(type) {
	case *ast.FuncLit:
		return c.funcBody(x.Body, in)
	case *ast.Ident, *ast.SelectorExpr:
		var obj types.Object
		var recv ast.Expr
		if id, ok := x.(*ast.Ident); ok {
			obj = c.p.info.Uses[id]
		} else {
			se := x.(*ast.SelectorExpr)
			if s, ok := c.p.info.Selections[se]; ok {
				obj = s.Obj()
				recv = se.X
			} else {
				obj = c.p.info.Uses[se.Sel]
			}
		}
		if f, ok := obj.(*types.Func); ok {
			f = f.Origin()
			if fi, ok := c.a.funcs[f]; ok && fi.p == c.p && fi.decl.Body != nil {
				var restore func()
				if recv != nil && fi.decl.Recv != nil && len(fi.decl.Recv.List) > 0 && len(fi.decl.Recv.List[0].Names) > 0 {
					param := fi.p.info.Defs[fi.decl.Recv.List[0].Names[0]]
					old, had := c.env[param]
					if b := c.baseOf(recv); b.ok {
						c.env[param] = b
					}
					restore = func() {
						if had {
							c.env[param] = old
						} else {
							delete(c.env, param)
						}
					}
				}
				c.a.visited[f] = true
				c.stack = append(c.stack, f)
				savedName := c.fnName
				c.fnName = funcLabel(fi.decl)
				out := c.funcBody(fi.decl.Body, in)
				c.fnName = savedName
				c.stack = c.stack[:len(c.stack)-1]
				if restore != nil {
					restore()
				}
				return out
			}
		}
	}
	c.expr(e, in)
	return in
}

// funcBody interprets a function body; the result is the meet of the states at its normal exits (nil: none).
func (c *octx) funcBody(body *ast.BlockStmt, st *ostate) *ostate {
	var rets []*ostate
	insideBefore, orderBefore := st.inside, st.order
	end, term := c.block(body.List, st, &rets)
	if !term {
		rets = append(rets, end)
	}
	out := meetStates(rets)
	if out != nil {
		out.inside, out.order = insideBefore, orderBefore
	}
	return out
}

func hasLooseBreak(list []ast.Stmt) bool {
	found := false
	var walk func(n ast.Node, inLoop bool)
	walk = func(n ast.Node, inLoop bool) {
		ast.Inspect(n, func(m ast.Node) bool {
			if found || m == nil {
				return false
			}
			switch x := m.(type) {
			case *ast.FuncLit:
				return false
			case *ast.ForStmt, *ast.RangeStmt, *ast.SwitchStmt, *ast.TypeSwitchStmt, *ast.SelectStmt:
				// breaks inside belong to the inner construct; labelled breaks / gotos still matter
				ast.Inspect(m, func(k ast.Node) bool {
					if b, ok := k.(*ast.BranchStmt); ok && (b.Label != nil || b.Tok == token.GOTO) {
						found = true
					}
					return !found
				})
				return false
			case *ast.BranchStmt:
				if x.Tok == token.BREAK || x.Tok == token.GOTO || x.Tok == token.FALLTHROUGH {
					found = true
				}
			}
			return true
		})
	}
	for _, s := range list {
		walk(s, false)
	}
	return found
}

func (c *octx) block(list []ast.Stmt, st *ostate, rets *[]*ostate) (*ostate, bool) {
	for _, s := range list {
		var term bool
		st, term = c.stmt(s, st, rets)
		if term {
			return st, true
		}
	}
	return st, false
}

func (c *octx) stmt(s ast.Stmt, st *ostate, rets *[]*ostate) (*ostate, bool) {
	switch x := s.(type) {
	case nil:
		return st, false
	case *ast.BlockStmt:
		return c.block(x.List, st, rets)
	case *ast.LabeledStmt:
		return c.stmt(x.Stmt, st, rets)
	case *ast.ExprStmt:
		if c.expr(x.X, st) {
			return st, true
		}
	case *ast.SendStmt:
		c.expr(x.Chan, st)
		c.expr(x.Value, st)
	case *ast.IncDecStmt:
		c.lhs(x.X, st)
		c.readOfLhs(x.X, st)
	case *ast.AssignStmt:
		for _, r := range x.Rhs {
			if c.expr(r, st) {
				return st, true
			}
		}
		for i, l := range x.Lhs {
			if x.Tok == token.DEFINE {
				if id, ok := l.(*ast.Ident); ok && len(x.Lhs) == len(x.Rhs) {
					if obj := c.p.info.Defs[id]; obj != nil {
						if c.isFresh(x.Rhs[i]) {
							st.fresh[obj] = true
						} else if b := c.baseOf(x.Rhs[i]); b.ok && derefPtr(c.p.info.TypeOf(x.Rhs[i])) {
							// alias of a pointer-typed base: `x := s` / `x := s.f`
							c.env[obj] = b
						}
					}
				}
				continue
			}
			c.lhs(l, st)
			if x.Tok != token.ASSIGN {
				c.readOfLhs(l, st)
			}
		}
	case *ast.DeclStmt:
		if gd, ok := x.Decl.(*ast.GenDecl); ok {
			for _, sp := range gd.Specs {
				if vs, ok := sp.(*ast.ValueSpec); ok {
					for i, v := range vs.Values {
						c.expr(v, st)
						if i < len(vs.Names) && c.isFresh(v) {
							if obj := c.p.info.Defs[vs.Names[i]]; obj != nil {
								st.fresh[obj] = true
							}
						}
					}
				}
			}
		}
	case *ast.GoStmt:
		c.expr(x.Call, st.clone())
	case *ast.DeferStmt:
		c.expr(x.Call, st.clone())
	case *ast.ReturnStmt:
		for _, r := range x.Results {
			if c.expr(r, st) {
				return st, true
			}
		}
		*rets = append(*rets, st.clone())
		return st, true
	case *ast.BranchStmt:
		return st, true
	case *ast.IfStmt:
		if x.Init != nil {
			var t bool
			st, t = c.stmt(x.Init, st, rets)
			if t {
				return st, true
			}
		}
		c.expr(x.Cond, st)
		thenSt, thenT := c.block(x.Body.List, st.clone(), rets)
		elseSt, elseT := st, false
		if x.Else != nil {
			elseSt, elseT = c.stmt(x.Else, st.clone(), rets)
		}
		switch {
		case thenT && elseT:
			return st, true
		case thenT:
			return elseSt, false
		case elseT:
			return thenSt, false
		}
		return meetStates([]*ostate{thenSt, elseSt}), false
	case *ast.ForStmt:
		if x.Init != nil {
			st, _ = c.stmt(x.Init, st, rets)
		}
		c.expr(x.Cond, st)
		body := st.clone()
		body, _ = c.block(x.Body.List, body, rets)
		if x.Post != nil {
			c.stmt(x.Post, body, rets)
		}
		return st, false
	case *ast.RangeStmt:
		c.expr(x.X, st)
		c.block(x.Body.List, st.clone(), rets)
		return st, false
	case *ast.SwitchStmt:
		if x.Init != nil {
			st, _ = c.stmt(x.Init, st, rets)
		}
		c.expr(x.Tag, st)
		return c.clauses(x.Body.List, st, rets)
	case *ast.TypeSwitchStmt:
		if x.Init != nil {
			st, _ = c.stmt(x.Init, st, rets)
		}
		switch a := x.Assign.(type) {
		case *ast.AssignStmt:
			for _, r := range a.Rhs {
				c.expr(r, st)
			}
		case *ast.ExprStmt:
			c.expr(a.X, st)
		}
		return c.clauses(x.Body.List, st, rets)
	case *ast.SelectStmt:
		return c.clauses(x.Body.List, st, rets)
	}
	return st, false
}

func derefPtr(t types.Type) bool {
	if t == nil {
		return false
	}
	_, ok := t.Underlying().(*types.Pointer)
	return ok
}

// readOfLhs: `x.f++`, `x.f += …` also read the field.
func (c *octx) readOfLhs(e ast.Expr, st *ostate) {
	if se, ok := unparen(e).(*ast.SelectorExpr); ok {
		c.access(se, st, false)
	}
}

func (c *octx) clauses(list []ast.Stmt, st *ostate, rets *[]*ostate) (*ostate, bool) {
	var ends []*ostate
	hasDefault := false
	loose := false
	for _, cl := range list {
		var body []ast.Stmt
		cs := st.clone()
		switch x := cl.(type) {
		case *ast.CaseClause:
			if x.List == nil {
				hasDefault = true
			}
			for _, e := range x.List {
				c.expr(e, cs)
			}
			body = x.Body
		case *ast.CommClause:
			if x.Comm == nil {
				hasDefault = true
			} else {
				cs, _ = c.stmt(x.Comm, cs, rets)
			}
			body = x.Body
		}
		if hasLooseBreak(body) {
			loose = true
		}
		end, term := c.block(body, cs, rets)
		if !term {
			ends = append(ends, end)
		}
	}
	if loose {
		return st, false
	}
	if !hasDefault {
		ends = append(ends, st)
	}
	if len(ends) == 0 {
		return st, true
	}
	return meetStates(ends), false
}

// ---- driving the analysis and deriving the rows ------------------------------------------------------------------

type onceGuardRow struct {
	typ, method, cell string
	guarded           bool
}
type onceWriteRow struct {
	typ, method string
	writes      bool
}
type onceCellRow struct {
	typ, cell  string
	lazyFields int
	users      int // exported methods of the owner that touch the cell
}

func typeLabel(w *world, n *types.Named) string {
	rel := ""
	if p, ok := w.pkgs[n.Obj().Pkg().Path()]; ok {
		rel = p.rel
	}
	if rel == "" {
		return n.Obj().Name()
	}
	return rel + "." + n.Obj().Name()
}

func (a *onceAnalysis) run() (guards []onceGuardRow, writes []onceWriteRow, cells []onceCellRow) {
	w := a.w
	ownerPkgs := map[*pkg]bool{}
	for n := range a.owners {
		if p, ok := w.pkgs[n.Obj().Pkg().Path()]; ok {
			ownerPkgs[p] = true
		}
	}
	var funcs []*funcInfo
	for _, fi := range w.allFuncs() {
		if fi.obj != nil && ownerPkgs[fi.p] && fi.decl.Body != nil {
			funcs = append(funcs, fi)
		}
	}
	// methods of an owner are labelled by their name, everything else by "Recv.Name" / "Name"
	entryLabel := func(fi *funcInfo) string {
		if rn := recvNamed(fi.obj); rn != nil && a.owners[rn.Origin()] != nil {
			return fi.decl.Name.Name
		}
		return "~" + funcLabel(fi.decl)
	}
	runEntry := func(fi *funcInfo, label string) {
		c := &octx{a: a, p: fi.p, entry: label, entryFn: fi.obj, env: map[types.Object]base{}, fnName: funcLabel(fi.decl)}
		c.stack = []*types.Func{fi.obj}
		a.visited[fi.obj] = true
		c.funcBody(fi.decl.Body, newOState())
	}
	for _, fi := range funcs {
		if fi.decl.Name.IsExported() && a.relevant[fi.obj] {
			runEntry(fi, entryLabel(fi))
		}
	}
	// fail closed: relevant functions no exported entry point reaches are entry points of their own
	for _, fi := range funcs {
		if a.relevant[fi.obj] && !a.visited[fi.obj] {
			runEntry(fi, "<unreached>"+entryLabel(fi))
		}
	}

	// lazy fields and their groups
	type finfo struct {
		insideWrites  map[*types.Var]bool
		outsideWrites bool
	}
	fields := map[*types.Var]*finfo{}
	for _, ev := range a.events {
		if !ev.write || ev.fresh {
			continue
		}
		fi := fields[ev.field]
		if fi == nil {
			fi = &finfo{insideWrites: map[*types.Var]bool{}}
			fields[ev.field] = fi
		}
		if len(ev.insides) == 0 {
			fi.outsideWrites = true
		} else {
			fi.insideWrites[ev.insides[len(ev.insides)-1]] = true
		}
	}
	groups := map[*types.Var][]*types.Var{} // lazy field -> cells
	for f, fi := range fields {
		if fi.outsideWrites || len(fi.insideWrites) == 0 {
			continue
		}
		for cell := range fi.insideWrites {
			groups[f] = append(groups[f], cell)
		}
		sort.Slice(groups[f], func(i, j int) bool { return groups[f][i].Name() < groups[f][j].Name() })
	}

	type gk struct {
		owner *types.Named
		entry string
		cell  *types.Var
	}
	grows := map[gk]bool{} // value: guarded so far
	touch := func(k gk, ok bool) {
		if old, seen := grows[k]; seen {
			grows[k] = old && ok
		} else {
			grows[k] = ok
		}
	}
	userCount := map[*types.Var]map[string]bool{}
	for _, t := range a.touches {
		touch(gk{t.owner, t.entry, t.cell}, true)
		if recvNamed(t.entryFn) != nil && recvNamed(t.entryFn).Origin() == t.owner && t.entryFn.Exported() {
			if userCount[t.cell] == nil {
				userCount[t.cell] = map[string]bool{}
			}
			userCount[t.cell][t.entry] = true
		}
	}
	for _, ev := range a.events {
		cellsOfField, lazy := groups[ev.field]
		if ev.write || !lazy || ev.fresh {
			continue
		}
		inGroup := func(c *types.Var) bool {
			for _, g := range cellsOfField {
				if g == c {
					return true
				}
			}
			return false
		}
		var by []*types.Var
		for _, g := range ev.guards {
			if inGroup(g) {
				by = append(by, g)
			}
		}
		if len(by) > 0 {
			for _, g := range by {
				touch(gk{ev.owner, ev.entry, g}, true)
			}
		} else {
			for _, g := range cellsOfField {
				touch(gk{ev.owner, ev.entry, g}, false)
			}
		}
	}
	for k, ok := range grows {
		guards = append(guards, onceGuardRow{typ: typeLabel(w, k.owner), method: k.entry, cell: k.cell.Name(), guarded: ok})
	}
	sort.Slice(guards, func(i, j int) bool {
		x, y := guards[i], guards[j]
		if x.typ != y.typ {
			return x.typ < y.typ
		}
		if x.method != y.method {
			return x.method < y.method
		}
		return x.cell < y.cell
	})

	// writes outside once, per exported method of the owner
	wr := map[string]map[string]bool{}
	for _, fi := range funcs {
		rn := recvNamed(fi.obj)
		if rn == nil || a.owners[rn.Origin()] == nil || !fi.decl.Name.IsExported() {
			continue
		}
		tl := typeLabel(w, rn.Origin())
		if wr[tl] == nil {
			wr[tl] = map[string]bool{}
		}
		wr[tl][fi.decl.Name.Name] = false
	}
	for _, ev := range a.events {
		if !ev.write || ev.fresh || len(ev.insides) > 0 {
			continue
		}
		rn := recvNamed(ev.entryFn)
		if rn == nil || rn.Origin() != ev.owner || !ev.entryFn.Exported() || strings.HasPrefix(ev.entry, "<unreached>") {
			continue
		}
		tl := typeLabel(w, ev.owner)
		if wr[tl] != nil {
			wr[tl][ev.entryFn.Name()] = true
		}
	}
	for tl, ms := range wr {
		for m, b := range ms {
			writes = append(writes, onceWriteRow{typ: tl, method: m, writes: b})
		}
	}
	sort.Slice(writes, func(i, j int) bool {
		if writes[i].typ != writes[j].typ {
			return writes[i].typ < writes[j].typ
		}
		return writes[i].method < writes[j].method
	})

	// cells
	lazyCount := map[*types.Var]int{}
	for _, cs := range groups {
		for _, c := range cs {
			lazyCount[c]++
		}
	}
	for owner, cs := range a.owners {
		for _, c := range cs {
			cells = append(cells, onceCellRow{typ: typeLabel(w, owner), cell: c.Name(), lazyFields: lazyCount[c], users: len(userCount[c])})
		}
	}
	sort.Slice(cells, func(i, j int) bool {
		if cells[i].typ != cells[j].typ {
			return cells[i].typ < cells[j].typ
		}
		return cells[i].cell < cells[j].cell
	})
	return
}

// wrapper rows: in a method of a cell type that takes a function, the function parameter is called only inside
// a function literal handed to an inner cell.
func (a *onceAnalysis) wrapperRows() []wrapperRow {
	var out []wrapperRow
	for f, fi := range a.funcs {
		rn := recvNamed(f)
		if rn == nil || !a.cellTypes[rn.Origin()] || fi.decl.Body == nil {
			continue
		}
		var params []types.Object
		if fi.decl.Type.Params != nil {
			for _, fl := range fi.decl.Type.Params.List {
				for _, nm := range fl.Names {
					if obj := fi.p.info.Defs[nm]; obj != nil {
						if _, ok := obj.Type().Underlying().(*types.Signature); ok {
							params = append(params, obj)
						}
					}
				}
			}
		}
		if len(params) == 0 {
			continue
		}
		isParam := func(e ast.Expr) bool {
			id, ok := unparen(e).(*ast.Ident)
			if !ok {
				return false
			}
			for _, p := range params {
				if fi.p.info.Uses[id] == p {
					return true
				}
			}
			return false
		}
		ok := true
		used := false
		var walk func(n ast.Node, inCell bool)
		walk = func(n ast.Node, inCell bool) {
			ast.Inspect(n, func(m ast.Node) bool {
				call, isCall := m.(*ast.CallExpr)
				if !isCall {
					if id, isId := m.(*ast.Ident); isId && isParam(id) && !inCell {
						ok = false // the function value is used outside an inner cell
					}
					return true
				}
				if se, isSel := unparen(call.Fun).(*ast.SelectorExpr); isSel {
					rt := fi.p.info.TypeOf(se.X)
					if rt != nil && (a.isCellType(rt) || isSyncType(rt, "Once")) {
						for _, arg := range call.Args {
							if isParam(arg) {
								used = true // handed to the inner cell as it is
								continue
							}
							if fl, isLit := unparen(arg).(*ast.FuncLit); isLit {
								ast.Inspect(fl.Body, func(k ast.Node) bool {
									if id, isId := k.(*ast.Ident); isId && isParam(id) {
										used = true
									}
									return true
								})
								continue
							}
							walk(arg, inCell)
						}
						return false
					}
				}
				return true
			})
		}
		walk(fi.decl.Body, false)
		out = append(out, wrapperRow{typ: typeLabel(a.w, rn.Origin()), method: fi.decl.Name.Name, ok: ok && used})
	}
	sort.Slice(out, func(i, j int) bool {
		if out[i].typ != out[j].typ {
			return out[i].typ < out[j].typ
		}
		return out[i].method < out[j].method
	})
	return out
}
