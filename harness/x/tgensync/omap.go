package tgensync

// F3 — lock bracketing of the lock-bearing container types (the generated ordered maps) and of the generator's
// template. The analysis is syntactic (go/ast) so that the same code reads the three generated files and the
// rendered template; only the discovery of the types (struct with a sync.RWMutex / sync.Mutex field) and the search
// for accesses from outside the type's methods use go/types.
//
// Row per exported method:
//   lockKind   "Lock" / "RLock": the first statement that mentions the receiver is `m.mx.Lock()` / `m.mx.RLock()`;
//              "late": the receiver is used before the lock is taken; "none": no lock at the top level of the body
//   deferred   the statement after the lock is `defer m.mx.Unlock()` / `RUnlock()` (matching the lock)
//   released   deferred, or the matching unlock directly precedes every return and ends the body
//   writes     the method, or an unexported method of the type it calls (transitively), stores into a data field
//              (`m.f = …`, `m.f[k] = …`, `delete(m.f, k)`, `copy(m.f, …)`, `m.f++`)
//   writesUnderWriteLock   not writes, or lockKind = "Lock" and deferred
//   callbackUnder   the lock kind held while a function-typed parameter is called ("" when none is)
//   callsLocking    the method calls an exported (locking) method of the same receiver: self-deadlock with sync.RWMutex
//   rangesOverMap   the method (or an unexported method it calls) ranges over the Go map field instead of the order slice

import (
	"bytes"
	"go/ast"
	"go/parser"
	"go/token"
	"go/types"
	"sort"
	"strings"
	"text/template"
)

type omapRow struct {
	typ, method          string
	lockKind             string
	deferred, released   bool
	writes               bool
	writesUnderWriteLock bool
	callbackUnder        string
	callsLocking         bool
	rangesOverMap        bool
}

type omapEscape struct {
	typ, where, what string
}

type methodAST struct {
	name string
	recv string // receiver identifier
	decl *ast.FuncDecl
}

// analyseLockedType: methods = all methods of the type (AST). mutex = name of the mutex field ("" = infer).
func analyseLockedType(typ string, methods []methodAST, mutex string, mapFields map[string]bool) []omapRow {
	byName := map[string]methodAST{}
	for _, m := range methods {
		byName[m.name] = m
	}
	// infer the mutex field: the field f with calls m.f.Lock / RLock / Unlock / RUnlock
	if mutex == "" {
		cnt := map[string]int{}
		for _, m := range methods {
			ast.Inspect(m.decl, func(n ast.Node) bool {
				if call, ok := n.(*ast.CallExpr); ok {
					if f, op := lockCall(call, m.recv, ""); op != "" {
						cnt[f]++
					}
				}
				return true
			})
		}
		best := 0
		for f, c := range cnt {
			if c > best || (c == best && f < mutex) {
				mutex, best = f, c
			}
		}
	}
	// infer the Go-map fields: `delete(m.f, k)` or `m.f = map[…]…{}` / make(map[…]…)
	if mapFields == nil {
		mapFields = map[string]bool{}
		for _, m := range methods {
			recvField := func(e ast.Expr) string {
				if se, ok := unparen(e).(*ast.SelectorExpr); ok {
					if id, ok := unparen(se.X).(*ast.Ident); ok && id.Name == m.recv && m.recv != "" {
						return se.Sel.Name
					}
				}
				return ""
			}
			ast.Inspect(m.decl, func(n ast.Node) bool {
				switch x := n.(type) {
				case *ast.CallExpr:
					if id, ok := unparen(x.Fun).(*ast.Ident); ok && id.Name == "delete" && len(x.Args) == 2 {
						if f := recvField(x.Args[0]); f != "" {
							mapFields[f] = true
						}
					}
				case *ast.AssignStmt:
					for i, l := range x.Lhs {
						if f := recvField(l); f != "" && i < len(x.Rhs) {
							switch r := unparen(x.Rhs[i]).(type) {
							case *ast.CompositeLit:
								if _, ok := r.Type.(*ast.MapType); ok {
									mapFields[f] = true
								}
							case *ast.CallExpr:
								if id, ok := unparen(r.Fun).(*ast.Ident); ok && id.Name == "make" && len(r.Args) > 0 {
									if _, ok := r.Args[0].(*ast.MapType); ok {
										mapFields[f] = true
									}
								}
							}
						}
					}
				}
				return true
			})
		}
	}
	// direct writes / callee lists per method
	type info struct {
		writes  bool
		ranges  bool
		callees []string
	}
	infos := map[string]*info{}
	for _, m := range methods {
		in := &info{}
		infos[m.name] = in
		if m.decl.Body == nil {
			continue
		}
		isData := func(e ast.Expr) bool { // rooted at m.<field> with field != mutex
			for {
				switch x := unparenAST(e).(type) {
				case *ast.IndexExpr:
					e = x.X
					continue
				case *ast.SliceExpr:
					e = x.X
					continue
				case *ast.StarExpr:
					e = x.X
					continue
				case *ast.SelectorExpr:
					if id, ok := unparenAST(x.X).(*ast.Ident); ok && id.Name == m.recv && m.recv != "" {
						return x.Sel.Name != mutex
					}
					e = x.X
					continue
				}
				return false
			}
		}
		ast.Inspect(m.decl.Body, func(n ast.Node) bool {
			switch x := n.(type) {
			case *ast.AssignStmt:
				if x.Tok == token.DEFINE {
					return true
				}
				for _, l := range x.Lhs {
					if isData(l) {
						in.writes = true
					}
				}
			case *ast.IncDecStmt:
				if isData(x.X) {
					in.writes = true
				}
			case *ast.CallExpr:
				if id, ok := unparenAST(x.Fun).(*ast.Ident); ok && (id.Name == "delete" || id.Name == "copy" || id.Name == "clear") && len(x.Args) > 0 && isData(x.Args[0]) {
					in.writes = true
				}
				if se, ok := unparenAST(x.Fun).(*ast.SelectorExpr); ok {
					if id, ok := unparenAST(se.X).(*ast.Ident); ok && id.Name == m.recv && m.recv != "" {
						if _, isMethod := byName[se.Sel.Name]; isMethod {
							in.callees = append(in.callees, se.Sel.Name)
						}
					}
				}
			case *ast.UnaryExpr:
				if x.Op == token.AND && isData(x.X) {
					in.writes = true // address of a data field escapes
				}
			case *ast.RangeStmt:
				if se, ok := unparenAST(x.X).(*ast.SelectorExpr); ok {
					if id, ok := unparenAST(se.X).(*ast.Ident); ok && id.Name == m.recv && m.recv != "" && mapFields[se.Sel.Name] {
						in.ranges = true
					}
				}
			}
			return true
		})
	}
	var transRanges func(name string, seen map[string]bool) bool
	transRanges = func(name string, seen map[string]bool) bool {
		if seen[name] {
			return false
		}
		seen[name] = true
		in := infos[name]
		if in == nil {
			return false
		}
		if in.ranges {
			return true
		}
		for _, c := range in.callees {
			if !ast.IsExported(c) && transRanges(c, seen) {
				return true
			}
		}
		return false
	}
	var transWrites func(name string, seen map[string]bool) bool
	transWrites = func(name string, seen map[string]bool) bool {
		if seen[name] {
			return false
		}
		seen[name] = true
		in := infos[name]
		if in == nil {
			return false
		}
		if in.writes {
			return true
		}
		for _, c := range in.callees {
			if !ast.IsExported(c) && transWrites(c, seen) {
				return true
			}
		}
		return false
	}
	var rows []omapRow
	for _, m := range methods {
		if !ast.IsExported(m.name) || m.decl.Body == nil {
			continue
		}
		r := omapRow{typ: typ, method: m.name, lockKind: "none"}
		list := m.decl.Body.List
		lockIdx := -1
		for i, s := range list {
			if !mentions(s, m.recv) {
				continue
			}
			if es, ok := s.(*ast.ExprStmt); ok {
				if call, ok := es.X.(*ast.CallExpr); ok {
					if _, op := lockCall(call, m.recv, mutex); op == "Lock" || op == "RLock" {
						r.lockKind = op
						lockIdx = i
						break
					}
				}
			}
			// the receiver is used before any lock
			for _, s2 := range list[i:] {
				if es, ok := s2.(*ast.ExprStmt); ok {
					if call, ok := es.X.(*ast.CallExpr); ok {
						if _, op := lockCall(call, m.recv, mutex); op == "Lock" || op == "RLock" {
							r.lockKind = "late"
						}
					}
				}
			}
			break
		}
		unlockName := map[string]string{"Lock": "Unlock", "RLock": "RUnlock"}[r.lockKind]
		if lockIdx >= 0 && lockIdx+1 < len(list) {
			if ds, ok := list[lockIdx+1].(*ast.DeferStmt); ok {
				if _, op := lockCall(ds.Call, m.recv, mutex); op == unlockName {
					r.deferred = true
				}
			}
		}
		r.released = r.deferred
		if lockIdx >= 0 && !r.deferred {
			r.released = releasedOnEveryPath(m.decl.Body, m.recv, mutex, unlockName)
		}
		r.writes = transWrites(m.name, map[string]bool{})
		r.rangesOverMap = transRanges(m.name, map[string]bool{})
		r.writesUnderWriteLock = !r.writes || (r.lockKind == "Lock" && r.deferred)
		// callbacks: calls of parameters
		params := map[string]bool{}
		if m.decl.Type.Params != nil {
			for _, fl := range m.decl.Type.Params.List {
				for _, nm := range fl.Names {
					params[nm.Name] = true
				}
			}
		}
		cb := false
		ast.Inspect(m.decl.Body, func(n ast.Node) bool {
			if call, ok := n.(*ast.CallExpr); ok {
				if id, ok := unparenAST(call.Fun).(*ast.Ident); ok && params[id.Name] {
					cb = true
				}
			}
			return true
		})
		if cb {
			r.callbackUnder = r.lockKind
		}
		for _, c := range infos[m.name].callees {
			if ast.IsExported(c) {
				r.callsLocking = true
			}
		}
		rows = append(rows, r)
	}
	sort.Slice(rows, func(i, j int) bool { return rows[i].method < rows[j].method })
	return rows
}

func unparenAST(e ast.Expr) ast.Expr { return unparen(e) }

func mentions(n ast.Node, name string) bool {
	if name == "" {
		return false
	}
	hit := false
	ast.Inspect(n, func(m ast.Node) bool {
		if id, ok := m.(*ast.Ident); ok && id.Name == name {
			hit = true
		}
		return !hit
	})
	return hit
}

// lockCall recognises recv.<field>.<Lock|RLock|Unlock|RUnlock>() (field = mutex, or any when mutex == "").
func lockCall(call *ast.CallExpr, recv, mutex string) (field, op string) {
	se, ok := unparen(call.Fun).(*ast.SelectorExpr)
	if !ok || len(call.Args) != 0 {
		return "", ""
	}
	switch se.Sel.Name {
	case "Lock", "RLock", "Unlock", "RUnlock":
	default:
		return "", ""
	}
	inner, ok := unparen(se.X).(*ast.SelectorExpr)
	if !ok {
		return "", ""
	}
	id, ok := unparen(inner.X).(*ast.Ident)
	if !ok || id.Name != recv || recv == "" {
		return "", ""
	}
	if mutex != "" && inner.Sel.Name != mutex {
		return "", ""
	}
	return inner.Sel.Name, se.Sel.Name
}

func releasedOnEveryPath(body *ast.BlockStmt, recv, mutex, unlock string) bool {
	ok := true
	isUnlock := func(s ast.Stmt) bool {
		es, isE := s.(*ast.ExprStmt)
		if !isE {
			return false
		}
		call, isC := es.X.(*ast.CallExpr)
		if !isC {
			return false
		}
		_, op := lockCall(call, recv, mutex)
		return op == unlock
	}
	var walk func(list []ast.Stmt)
	walk = func(list []ast.Stmt) {
		for i, s := range list {
			if _, isRet := s.(*ast.ReturnStmt); isRet {
				if i == 0 || !isUnlock(list[i-1]) {
					ok = false
				}
			}
			ast.Inspect(s, func(n ast.Node) bool {
				switch x := n.(type) {
				case *ast.FuncLit:
					return false
				case *ast.BlockStmt:
					if ast.Node(x) != ast.Node(s) {
						walk(x.List)
						return false
					}
				case *ast.CaseClause:
					walk(x.Body)
					return false
				case *ast.CommClause:
					walk(x.Body)
					return false
				}
				return true
			})
		}
	}
	walk(body.List)
	n := len(body.List)
	if n == 0 {
		return false
	}
	if _, isRet := body.List[n-1].(*ast.ReturnStmt); !isRet && !isUnlock(body.List[n-1]) {
		ok = false
	}
	return ok
}

// ---- discovery ------------------------------------------------------------------------------------------------------

func (w *world) lockedTypes() (rows []omapRow, escapes []omapEscape, types_ []string, others []string) {
	type lt struct {
		named *types.Named
		p     *pkg
		mutex string
		data  map[*types.Var]bool
		maps  map[string]bool
	}
	var lts []*lt
	for _, p := range w.order {
		if p.tpkg == nil {
			continue
		}
		sc := p.tpkg.Scope()
		for _, nm := range sc.Names() {
			tn, ok := sc.Lookup(nm).(*types.TypeName)
			if !ok || tn.IsAlias() {
				continue
			}
			n, ok := tn.Type().(*types.Named)
			if !ok {
				continue
			}
			st := structOf(n)
			if st == nil {
				continue
			}
			mutex := ""
			for i := 0; i < st.NumFields(); i++ {
				ft := st.Field(i).Type()
				if _, ptr := ft.(*types.Pointer); ptr {
					continue
				}
				if isSyncType(ft, "RWMutex") || isSyncType(ft, "Mutex") {
					mutex = st.Field(i).Name()
				}
			}
			if mutex == "" {
				continue
			}
			l := &lt{named: n, p: p, mutex: mutex, data: map[*types.Var]bool{}, maps: map[string]bool{}}
			for i := 0; i < st.NumFields(); i++ {
				l.data[st.Field(i)] = true
				if isMapType(st.Field(i).Type()) {
					l.maps[st.Field(i).Name()] = true
				}
			}
			lts = append(lts, l)
		}
	}
	for _, l := range lts {
		var methods []methodAST
		generated := false
		for fi, f := range l.p.files {
			for _, d := range f.Decls {
				fd, ok := d.(*ast.FuncDecl)
				if !ok || fd.Recv == nil || len(fd.Recv.List) == 0 || recvTypeName(fd.Recv.List[0].Type) != l.named.Obj().Name() {
					continue
				}
				recv := ""
				if len(fd.Recv.List[0].Names) > 0 {
					recv = fd.Recv.List[0].Names[0].Name
				}
				methods = append(methods, methodAST{name: fd.Name.Name, recv: recv, decl: fd})
				if l.p.gen[fi] {
					generated = true
				}
			}
		}
		label := typeLabel(w, l.named)
		if !generated {
			// a mutex-carrying type that is not a generated container: listed, not analysed here
			others = append(others, label)
			continue
		}
		types_ = append(types_, label)
		rows = append(rows, analyseLockedType(label, methods, l.mutex, l.maps)...)
		// escapes: fields / unexported methods of the type used outside its methods (same package: nothing else can)
		for _, f := range l.p.files {
			for _, d := range f.Decls {
				fd, isFunc := d.(*ast.FuncDecl)
				if isFunc && fd.Recv != nil && len(fd.Recv.List) > 0 && recvTypeName(fd.Recv.List[0].Type) == l.named.Obj().Name() {
					continue
				}
				where := "<package level>"
				if isFunc {
					where = funcLabel(fd)
				}
				ast.Inspect(d, func(n ast.Node) bool {
					switch x := n.(type) {
					case *ast.SelectorExpr:
						sel, ok := l.p.info.Selections[x]
						if !ok {
							return true
						}
						switch o := sel.Obj().(type) {
						case *types.Var:
							if l.data[o.Origin()] {
								escapes = append(escapes, omapEscape{label, where, "field " + o.Name()})
							}
						case *types.Func:
							if rn := recvNamed(o); rn != nil && rn.Origin() == l.named && !o.Exported() {
								escapes = append(escapes, omapEscape{label, where, "method " + o.Name()})
							}
						}
					case *ast.CompositeLit:
						// a literal builds a fresh object; it matters only when it adopts values the caller keeps
						if tn := namedOf(l.p.info.TypeOf(x)); tn != nil && tn.Origin() == l.named {
							for _, el := range x.Elts {
								v := el
								if kv, ok := el.(*ast.KeyValueExpr); ok {
									v = kv.Value
								}
								if !freshValue(l.p.info, v) {
									escapes = append(escapes, omapEscape{label, where, "literal adopting a caller's value"})
									break
								}
							}
						}
					}
					return true
				})
			}
		}
	}
	sort.SliceStable(rows, func(i, j int) bool {
		if rows[i].typ != rows[j].typ {
			return rows[i].typ < rows[j].typ
		}
		return rows[i].method < rows[j].method
	})
	sort.Strings(types_)
	sort.Strings(others)
	return
}

// templateRows renders the ordered-map template of internal/cmd/generator (the largest string literal with template
// actions in a file that imports text/template) with stand-in names and analyses the result.
func (w *world) templateRows() (rows []omapRow, problem string) {
	var best string
	for _, p := range w.order {
		if !strings.HasSuffix(p.rel, "internal/cmd/generator") {
			continue
		}
		for _, f := range p.files {
			usesTemplate := false
			for _, im := range f.Imports {
				if im.Path.Value == `"text/template"` {
					usesTemplate = true
				}
			}
			if !usesTemplate {
				continue
			}
			ast.Inspect(f, func(n ast.Node) bool {
				if bl, ok := n.(*ast.BasicLit); ok && bl.Kind == token.STRING && strings.Contains(bl.Value, "{{") &&
					strings.Contains(bl.Value, "Lock()") && len(bl.Value) > len(best) {
					best = bl.Value
				}
				return true
			})
		}
	}
	if best == "" {
		return nil, "template not found"
	}
	var text string
	if strings.HasPrefix(best, "`") {
		text = strings.Trim(best, "`")
	} else {
		return nil, "template is not a raw string literal"
	}
	t, err := template.New("").Option("missingkey=error").Parse(text)
	if err != nil {
		return nil, "template does not parse: " + err.Error()
	}
	data := map[string]interface{}{
		"Name": "TemplateMap", "CapitalizedName": "TemplateMap", "PkgName": "tpl", "KeyType": "string", "ValueType": "int",
		"UsedImports": map[string]struct{}{"bytes": {}, "encoding/json": {}},
	}
	var buf bytes.Buffer
	if err := t.Execute(&buf, data); err != nil {
		return nil, "template does not execute with the stand-in data: " + err.Error()
	}
	fset := token.NewFileSet()
	f, err := parser.ParseFile(fset, "template_rendered.go", buf.Bytes(), 0)
	if err != nil {
		return nil, "rendered template does not parse: " + err.Error()
	}
	var methods []methodAST
	for _, d := range f.Decls {
		fd, ok := d.(*ast.FuncDecl)
		if !ok || fd.Recv == nil || len(fd.Recv.List) == 0 || recvTypeName(fd.Recv.List[0].Type) != "TemplateMap" {
			continue
		}
		recv := ""
		if len(fd.Recv.List[0].Names) > 0 {
			recv = fd.Recv.List[0].Names[0].Name
		}
		methods = append(methods, methodAST{name: fd.Name.Name, recv: recv, decl: fd})
	}
	return analyseLockedType("template", methods, "", nil), ""
}

// freshValue: make(…), new(…), a literal, nil, a constant, or a composite literal of fresh values.
func freshValue(info *types.Info, e ast.Expr) bool {
	switch x := unparen(e).(type) {
	case *ast.BasicLit:
		return true
	case *ast.Ident:
		if x.Name == "nil" || x.Name == "true" || x.Name == "false" {
			return true
		}
		_, isConst := info.Uses[x].(*types.Const)
		return isConst
	case *ast.CompositeLit:
		for _, el := range x.Elts {
			v := el
			if kv, ok := el.(*ast.KeyValueExpr); ok {
				v = kv.Value
			}
			if !freshValue(info, v) {
				return false
			}
		}
		return true
	case *ast.CallExpr:
		if id, ok := unparen(x.Fun).(*ast.Ident); ok {
			if _, isB := info.Uses[id].(*types.Builtin); isB && (id.Name == "make" || id.Name == "new") {
				return true
			}
		}
	}
	return false
}
