// Package c11schema: tie of the orchestration model of the public jschema.Schema object (lean/JSight/SchemaObj.lean,
// theorems C11_schema_*) to the real library. A random PROGRAM over 2-4 schema objects (texts from a fixed pool: loads /
// fails to load before `inner` is set / fails to load after `inner` is set / empty root / needs an enum rule / needs
// types) calls every public method (Len, Example, AddType, AddRule, Check, Build, Validate, GetAST, UsedUserTypes) in
// random order on random receivers, the ADDED object of an AddType being any object of the pool (also the receiver
// itself, also an object that is a type of another root, also an object that has types of its own). The driver (`sobj`)
// runs the same program on the model with SYMBOLIC stages: its answer for each call is the CLOSED FORM of the theorems —
// which stage result the answer is (load of which text with which rules; compile of which text over which type tables
// — of the receiver and of every other loaded object — as they were when the receiver's first compiling call ran) or
// which glue answer (ok,
// duplicate, invalid name, empty type, already compiled, rule nil, wrapped load error). The harness evaluates that
// closed form on FRESH objects (one per description, nothing else ever called on them) and compares with what the
// history object answered. Only the public API is used.
package c11schema

import (
	"fmt"
	"math/rand"
	"strconv"
	"strings"

	jlib "github.com/jsightapi/jsight-schema-go-library"
	"github.com/jsightapi/jsight-schema-go-library/formats/json"
	"github.com/jsightapi/jsight-schema-go-library/notations/jschema"
	"github.com/jsightapi/jsight-schema-go-library/rules/enum"

	"verifharness/vh"
	c11 "verifharness/x/c11"
)

type textT struct {
	text string
	kind int
}

var texts = []textT{
	{`{"a": 1}`, 0},
	{`@t`, 0},
	{`{"k": @t, "m": [@u]}`, 0},
	{`{"a": }`, 1},
	{`1 // {min: 1, max: 0}`, 2},
	{``, 3},
	{`"a" // {enum: @e}`, 4},
	{`"x" // {type: "@u"}`, 0},
	{`[1, 2]`, 0},
	{`{"z": @v}`, 0}, // no `@t | @u`: the unnamed types a load puts into inner.types (and hoisting copies) are outside the model
	{`{"a":1,"a":2}`, 1},
	{`{"p": 1, "q": "s"}`, 0},
}

var docs = []string{`{"a": 1}`, `[1,2]`, `"x"`, `{"k": 1, "m": [2]}`, `{"a": }`, `1`, `{"p": 2}`, `{"k": {"a": 5}, "m": ["x"]}`, ``}

var names = []string{"@t", "@u", "@t", "@u", "@v", "@e", "t", "@"}

func mkRule(kind string) jlib.Rule {
	switch kind {
	case "n":
		return nil
	case "b":
		return enum.New("e", `["a", `)
	}
	return enum.New("e", `["a","b"]`)
}

func errS(err error) string {
	if err == nil {
		return "nil"
	}
	return c11.CanonPtr(err.Error())
}

func mkSchema(tid int, opt bool) *jschema.Schema {
	name := "t" + strconv.Itoa(tid)
	if opt {
		return jschema.New(name, texts[tid].text, jschema.KeysAreOptionalByDefault())
	}
	return jschema.New(name, texts[tid].text)
}

// fresh object of a loaded description `<tid>.<opt>.<rules joined by +>` (prefix `E.` = empty root)
func freshLoaded(l string) *jschema.Schema {
	l = strings.TrimPrefix(l, "E.")
	ps := strings.SplitN(l, ".", 3)
	tid, _ := strconv.Atoi(ps[0])
	s := mkSchema(tid, ps[1] == "1")
	if len(ps) == 3 && ps[2] != "" {
		for _, rn := range strings.Split(ps[2], "+") {
			_ = s.AddRule(rn, mkRule("v"))
		}
	}
	return s
}

// fresh pool of a compiled description `<i>#<j>=<loaded>,<name>><k>,…#…`: every loaded object with its table
func freshCompiled(c string) (*jschema.Schema, string) {
	ps := strings.Split(c, "#")
	root, _ := strconv.Atoi(ps[0])
	objs := map[int]*jschema.Schema{}
	for _, o := range ps[1:] {
		f := strings.Split(o, ",")
		kv := strings.SplitN(f[0], "=", 2)
		j, _ := strconv.Atoi(kv[0])
		objs[j] = freshLoaded(kv[1])
	}
	for _, o := range ps[1:] {
		f := strings.Split(o, ",")
		kv := strings.SplitN(f[0], "=", 2)
		j, _ := strconv.Atoi(kv[0])
		for _, e := range f[1:] {
			nk := strings.SplitN(e, ">", 2)
			k, _ := strconv.Atoi(nk[1])
			if objs[k] == nil {
				return nil, "ORACLE-NOOBJ"
			}
			if err := objs[j].AddType(nk[0], objs[k]); err != nil {
				return nil, "ORACLE-ADDTYPE " + errS(err)
			}
		}
	}
	return objs[root], ""
}

func lenS(s *jschema.Schema) string {
	n, err := s.Len()
	return fmt.Sprintf("%d|%s", n, errS(err))
}
func usedS(s *jschema.Schema) string {
	u, err := s.UsedUserTypes()
	if err != nil {
		return errS(err)
	}
	return fmt.Sprintf("%q|nil", u)
}
func exS(s *jschema.Schema) string {
	b, err := s.Example()
	if err != nil {
		return errS(err)
	}
	return fmt.Sprintf("%s|nil", b)
}
func astS(s *jschema.Schema) string {
	a, err := s.GetAST()
	if err != nil {
		return errS(err)
	}
	return c11.CanonPtr(c11.ASTJSON(a)) + "|nil"
}
func valS(s *jschema.Schema, d int) string {
	return errS(s.Validate(json.New("doc", docs[d])))
}

// expected: the closed form of the model evaluated on fresh objects
func expected(tok string) string {
	f := strings.SplitN(tok, " ", 3)
	switch f[0] {
	case "ok":
		return "nil"
	case "AC":
		return "schema is already compiled"
	case "RN":
		return "rule is nil"
	case "RE":
		return errS(mkRule("b").Check())
	case "LE":
		_, err := freshLoaded(f[1]).UsedUserTypes()
		return errS(err)
	case "WLE":
		_, err := freshLoaded(f[1]).UsedUserTypes()
		return "load added type: " + errS(err)
	case "ET":
		return "ET " + f[1]
	case "BN":
		return errS(jschema.New("x", "1").AddType(f[1], jschema.New("y", "2")))
	case "DUP":
		x := jschema.New("x", "1")
		_ = x.AddType(f[1], jschema.New("y", "2"))
		return errS(x.AddType(f[1], jschema.New("y", "2")))
	case "LEN":
		tid, _ := strconv.Atoi(f[1])
		return lenS(mkSchema(tid, false))
	case "US":
		return usedS(freshLoaded(f[1]))
	case "CK":
		s, e := freshCompiled(f[1])
		if e != "" {
			return e
		}
		return errS(s.Check())
	case "AST":
		s, e := freshCompiled(f[1])
		if e != "" {
			return e
		}
		return astS(s)
	case "EX":
		s, e := freshCompiled(f[1])
		if e != "" {
			return e
		}
		return exS(s)
	case "VA":
		s, e := freshCompiled(f[2])
		if e != "" {
			return e
		}
		d, _ := strconv.Atoi(f[1])
		return valS(s, d)
	}
	return "UNKNOWN-TOKEN " + tok
}

type prog struct {
	objs []string // tid:kind:opt
	tids []int
	opts []bool
	ops  []string
}

func gen(r *rand.Rand, malformed bool) prog {
	var p prog
	n := 2 + r.Intn(3)
	for i := 0; i < n; i++ {
		tid := r.Intn(len(texts))
		if !malformed && r.Intn(3) != 0 {
			tid = []int{0, 1, 2, 7, 8, 9, 11, 6}[r.Intn(8)]
		}
		opt := r.Intn(4) == 0
		p.tids = append(p.tids, tid)
		p.opts = append(p.opts, opt)
		o := 0
		if opt {
			o = 1
		}
		p.objs = append(p.objs, fmt.Sprintf("%d:%d:%d", tid, texts[tid].kind, o))
	}
	k := 3 + r.Intn(12)
	for c := 0; c < k; c++ {
		i := r.Intn(n)
		switch r.Intn(12) {
		case 0:
			p.ops = append(p.ops, fmt.Sprintf("len:%d", i))
		case 1:
			p.ops = append(p.ops, fmt.Sprintf("ex:%d", i))
		case 2, 3, 4, 5:
			nm := names[r.Intn(len(names))]
			if !malformed && r.Intn(8) != 0 {
				nm = names[r.Intn(5)]
			}
			p.ops = append(p.ops, fmt.Sprintf("at:%d:%s:%d", i, nm, r.Intn(n)))
		case 6:
			p.ops = append(p.ops, fmt.Sprintf("ar:%d:%s:%s", i, []string{"@e", "@e", "@f"}[r.Intn(3)], []string{"v", "v", "v", "n", "b"}[r.Intn(5)]))
		case 7:
			p.ops = append(p.ops, fmt.Sprintf("ck:%d", i))
		case 8:
			p.ops = append(p.ops, fmt.Sprintf("bd:%d", i))
		case 9:
			p.ops = append(p.ops, fmt.Sprintf("va:%d:%d", i, r.Intn(len(docs))))
		case 10:
			p.ops = append(p.ops, fmt.Sprintf("ast:%d", i))
		case 11:
			p.ops = append(p.ops, fmt.Sprintf("us:%d", i))
		}
	}
	return p
}

func (p prog) request() string {
	return fmt.Sprintf("sobj %d %s %s", len(p.objs), strings.Join(p.objs, " "), strings.Join(p.ops, " "))
}

// realRun: the program on the real library, one answer per call
func realRun(p prog) []string {
	ss := make([]*jschema.Schema, len(p.tids))
	for i := range ss {
		ss[i] = mkSchema(p.tids[i], p.opts[i])
	}
	out := make([]string, 0, len(p.ops))
	for _, op := range p.ops {
		f := strings.Split(op, ":")
		i, _ := strconv.Atoi(f[1])
		s := ss[i]
		out = append(out, vh.Recover(func() string {
			switch f[0] {
			case "len":
				return lenS(s)
			case "ex":
				return exS(s)
			case "at":
				j, _ := strconv.Atoi(f[3])
				err := s.AddType(f[2], ss[j])
				if err != nil && strings.Contains(err.Error(), "must not be empty") {
					return "ET " + f[2]
				}
				return errS(err)
			case "ar":
				return errS(s.AddRule(f[2], mkRule(f[3])))
			case "ck":
				return errS(s.Check())
			case "bd":
				return errS(s.Build())
			case "va":
				d, _ := strconv.Atoi(f[2])
				return valS(s, d)
			case "ast":
				return astS(s)
			case "us":
				return usedS(s)
			}
			return "?"
		}))
	}
	return out
}

func Run(args []string) {
	rep := vh.NewReport("c11-schema", "random programs over 2-4 jschema.Schema objects (texts from a fixed pool of 12: loading, failing before / after `inner` is set, empty root, needing an enum rule, needing types @t / @u), 3-14 calls of Len / Example / AddType (added object = any object of the pool, names @t @u @v @e, invalid names) / AddRule (valid, nil, failing rule) / Check / Build / Validate (9 documents) / GetAST / UsedUserTypes on random receivers; stream structured (2/3): mostly loading texts and valid names, stream malformed (1/3): uniform; the driver `sobj` runs the orchestration model with symbolic stages and answers the closed form of each answer (which load / which compile over which flat table as it was at the receiver's first compiling call / which glue answer); compared: the answer of the history object = that closed form evaluated on fresh objects; nontrivial = at least one successful AddType and one compiling call")
	r := vh.NewRand(5311)
	n := vh.Pick(20000, 400000)
	progs := make([]prog, n)
	reqs := make([]string, n)
	for i := range progs {
		progs[i] = gen(r, i%3 == 2)
		reqs[i] = progs[i].request()
		if i%3 == 2 {
			rep.Stat("stream_malformed")
		} else {
			rep.Stat("stream_structured")
		}
	}
	replies := vh.AskModelSharded(reqs, 16)
	memo := map[string]string{}
	for i, rp := range replies {
		p := progs[i]
		toks := strings.Split(rp, " ; ")
		if len(toks) != len(p.ops) {
			rep.AddDiff(vh.Diff{Component: "sobj driver reply", Input: reqs[i], Impl: "", Model: rp, Level: "correspondence"})
			continue
		}
		real := realRun(p)
		okAdd, comp := false, false
		for k, t := range toks {
			b := strings.LastIndex(t, " {")
			tok, evs := t[:b], t[b+2:len(t)-1]
			if strings.HasPrefix(p.ops[k], "at:") && tok == "ok" {
				okAdd = true
			}
			if strings.Contains(evs, "c") {
				comp = true
			}
			if evs == "" {
				rep.Stat("call_all_cached")
			} else {
				rep.Stat("call_runs_stage")
			}
			rep.Stat("answer_" + strings.SplitN(tok, " ", 2)[0])
			want, ok := memo[tok]
			if !ok {
				want = vh.Recover(func() string { return expected(tok) })
				memo[tok] = want
			}
			if real[k] != want {
				rep.AddDiff(vh.Diff{Component: "c11-schema: answer of call " + strconv.Itoa(k) + " (" + p.ops[k] + ") on the history object vs closed form " + tok + " on fresh objects", Input: reqs[i], Impl: real[k], Model: want})
				break
			}
		}
		rep.Stat(fmt.Sprintf("objects_%d", len(p.objs)))
		rep.Case(reqs[i], okAdd && comp)
	}
	rep.Finish()
}
