// Package tprodkit: the breadth-first product-state explorer shared by schema-tprod and enum-tprod
// (T-prod of DESIGN.md §2.1 for the two annotated scanners; json-tprod is the original, for the plain JSON scanner).
//
// A STATE is a pair (implementation key, model key): the canonical key of the real scanner's whole control state
// after a byte prefix (hook VerifSchemaProbe / VerifEnumProbe: step-function identity incl. the step captured by a
// closure, return-step stack, lexeme-stack event types, context stack, every flag) and the model's state after the
// same prefix (driver `skey` / `ekey`). Both sides read the prefix as `Next` does, without the end-of-input rule.
// From the representative prefix p of every state (the first, i.e. a shortest, prefix that reached it) the explorer
// feeds
//
//	(1) p+c        for all 256 bytes c;
//	(2) p+c+l      for c, l over one representative per byte class (ByteReps, ~45 bytes): the scanners peek one
//	               byte ahead (`*` before `/`, `#` before `#`) and one byte back (a blank before `|`), so what a
//	               byte does depends on its neighbour; the key after p was taken with "end of input" as the
//	               look-ahead of p's last byte, hence the two-byte probes from the state BEFORE the peeking byte;
//	(3) p+c+l+m    for c, l, m over PeekBytes (the closing `###` of a block comment is recognised by a two-byte
//	               look-ahead and skipped in one step);
//
// and compares per probe: the events delivered since the scanner began to read the last two bytes of p (what they
// deliver may depend on the probe bytes) (type and absolute span), the kind of outcome (a state / error / stop / crash), error code and index, and in length mode
// the length reported at a stop. A probe that ends in a not yet seen pair creates a state; states whose nesting
// depth (objects + arrays on the lexeme stack) is within the bound are expanded in turn. For every state the
// end-of-input rule is compared too: full event list (events mode) or Len (length mode) of the representative prefix
// through the ordinary hooks, i.e. the real Next / Length loops. At the end the pair relation must be functional in
// both directions.
package tprodkit

import (
	"fmt"
	"os"
	"strconv"
	"strings"
	"sync"
	"time"

	"verifharness/vh"
)

// ByteReps: one representative (a few for the classes with internal structure) per byte class of the scanners.
var ByteReps = []byte(" \t\n\r{}[]:,\"\\/#@*|-_+019.eEtrufalsnbcAxZ'!\x01\x1f\x7f\xc3")

// PeekBytes: the bytes the scanners look ahead for, plus a blank, a line break and an ordinary byte.
var PeekBytes = []byte("#/* \nx")

// Machine describes one scanner: how to ask the implementation and the model.
type Machine struct {
	Name  string
	Modes []string
	// Impl returns "<events>|<key or outcome>" of the real scanner (never panics).
	Impl func(mode string, data []byte, from int) string
	// Req is the driver request answering the same.
	Req func(mode string, data []byte, from int) string
	// FanCmd is the driver's fan-out request family (`skeys` / `ekeys`): one request per state, answering all probes.
	FanCmd string
	// Full / FullReq: the whole-input observable of the mode (event list or Len), end-of-input rule included.
	Full    func(mode string, data []byte) string
	FullReq func(mode string, data []byte) string
	// Canon coarsens an implementation key where it is merely finer than the control state (documented by the caller).
	Canon func(implKey string) string
	// Depth of an implementation key: objects + arrays on the lexeme stack.
	Depth func(implKey string) int
}

type state struct {
	rep   []byte
	depth int
}

func split(r string) (evs, out string) {
	i := strings.Index(r, "|")
	if i < 0 {
		return "", r
	}
	return r[:i], r[i+1:]
}

func kind(out string) string {
	switch {
	case strings.HasPrefix(out, "K:"):
		return "state"
	case strings.HasPrefix(out, "ERR "):
		code := out[4:]
		if i := strings.IndexByte(code, ' '); i >= 0 {
			code = code[:i]
		}
		switch code { // the usual ones without allocation
		case "301":
			return "err_301"
		case "302":
			return "err_302"
		case "304":
			return "err_304"
		case "810":
			return "err_810"
		case "1600":
			return "err_1600"
		}
		return "err_" + code
	case strings.HasPrefix(out, "STOP"):
		return "stop"
	case strings.HasPrefix(out, "CRASH"):
		return "crash"
	}
	return "other"
}

// from: the events are compared from two bytes before the end of the state's prefix: what the last prefix bytes
// deliver may depend on the probe bytes (look-ahead of at most two bytes).
func from(prefix []byte) int {
	if len(prefix) < 2 {
		return 0
	}
	return len(prefix) - 2
}

func hexOrDash(b []byte) string {
	if len(b) == 0 {
		return "-"
	}
	return vh.Hex(b)
}

// askSharded: the requests over n driver processes (also for few, expensive requests).
func askSharded(lines []string, n int) []string {
	if len(lines) < 2 {
		return vh.AskModel(lines)
	}
	if n > len(lines) {
		n = len(lines)
	}
	out := make([]string, len(lines))
	var wg sync.WaitGroup
	chunk := (len(lines) + n - 1) / n
	for i := 0; i < len(lines); i += chunk {
		j := i + chunk
		if j > len(lines) {
			j = len(lines)
		}
		wg.Add(1)
		go func(i, j int) {
			defer wg.Done()
			copy(out[i:j], vh.AskModel(lines[i:j]))
		}(i, j)
	}
	wg.Wait()
	return out
}

func envInt(name string, def int) int {
	if v := os.Getenv(name); v != "" {
		if n, err := strconv.Atoi(v); err == nil {
			return n
		}
	}
	return def
}

// probeSet: the suffixes fed from a state, shortest first, and the alphabets that generate them on the driver's side.
type probeSet struct {
	suffixes [][]byte
	a1, a2   []byte // two-byte probes: first byte over a1, second over a2
	a3       []byte // three-byte probes over a3
}

func newProbeSet(a1, a2, a3 []byte) probeSet {
	ps := probeSet{a1: a1, a2: a2, a3: a3}
	for c := 0; c < 256; c++ {
		ps.suffixes = append(ps.suffixes, []byte{byte(c)})
	}
	for _, c := range a1 {
		for _, l := range a2 {
			ps.suffixes = append(ps.suffixes, []byte{c, l})
		}
	}
	for _, c := range a3 {
		for _, l := range a3 {
			for _, k := range a3 {
				ps.suffixes = append(ps.suffixes, []byte{c, l, k})
			}
		}
	}
	return ps
}

func (ps probeSet) describe() string {
	return fmt.Sprintf("256 one-byte + %d two-byte + %d three-byte", len(ps.a1)*len(ps.a2), len(ps.a3)*len(ps.a3)*len(ps.a3))
}

// outcome classes of one probe, computed in parallel
const (
	resAgree   = iota // same events, same non-state outcome
	resState          // same events, both sides in a state: the pair is looked at serially
	resEvents         // events differ
	resOutcome        // outcome kind / error / stop differs
)

// Explore runs the product exploration of one machine and fills the report: the full probe set from states of nesting
// depth <= fullDepth, the light one (one-byte and three-byte probes) from deeper states up to lightDepth.
// With wide, the two-byte probes range over all 256 x 256 byte pairs (affordable for a small state space only).
func Explore(rep *vh.Report, m Machine, fullDepth, lightDepth int, wide bool) {
	fullDepth = envInt("VERIF_TPROD_DEPTH", fullDepth)
	lightDepth = envInt("VERIF_TPROD_LIGHTDEPTH", lightDepth)
	if lightDepth < fullDepth {
		lightDepth = fullDepth
	}
	maxStates := envInt("VERIF_TPROD_MAXSTATES", 1500000)
	full := newProbeSet(ByteReps, ByteReps, PeekBytes)
	if wide {
		all := make([]byte, 256)
		for i := range all {
			all[i] = byte(i)
		}
		full = newProbeSet(all, all, PeekBytes)
	}
	light := newProbeSet(nil, nil, PeekBytes)
	rep.Extra["probes_per_state"] = fmt.Sprintf("nesting depth <= %d: %s", fullDepth, full.describe())
	if lightDepth > fullDepth {
		rep.Extra["probes_per_state"] += fmt.Sprintf("; nesting depth %d..%d: %s", fullDepth+1, lightDepth, light.describe())
	}
	rep.Extra["depth_bound"] = strconv.Itoa(lightDepth)
	rep.Extra["depth_bound_full_probes"] = strconv.Itoa(fullDepth)
	const workers = 16
	var serial, modelWall, bothWall time.Duration
	defer func() {
		rep.Extra["wall_breakdown_s"] = fmt.Sprintf("probing (implementation and model side by side) %.1f, of which waiting for the model %.1f; serial bookkeeping %.1f",
			bothWall.Seconds(), modelWall.Seconds(), serial.Seconds())
	}()

	for _, mode := range m.Modes {
		seen := map[string]*state{}
		implToModel := map[string]string{}
		modelToImpl := map[string]string{}
		canonOf := map[string]string{} // raw implementation key -> canonical
		rawCount := map[string]int{}   // canonical implementation key -> number of raw keys
		outcomes := map[string]int{}
		truncated := false

		// learn registers the pair reached by input; returns the new state or nil
		learn := func(input []byte, ik, mk string) *state {
			ck, ok := canonOf[ik]
			if !ok {
				ck = m.Canon(ik)
				canonOf[ik] = ck
				rawCount[ck]++
			}
			if prev, ok := implToModel[ck]; !ok {
				implToModel[ck] = mk
			} else if prev != mk {
				rep.AddDiff(vh.Diff{Component: m.Name + "-relation", Level: "correspondence", Input: fmt.Sprintf("mode=%s prefix=%q", mode, input),
					Impl: ik, Model: mk, Note: "pair relation not functional: this implementation key is also paired with model state " + prev})
			}
			if prev, ok := modelToImpl[mk]; !ok {
				modelToImpl[mk] = ck
			} else if prev != ck {
				rep.AddDiff(vh.Diff{Component: m.Name + "-relation", Level: "correspondence", Input: fmt.Sprintf("mode=%s prefix=%q", mode, input),
					Impl: ik, Model: mk, Note: "pair relation not injective: this model state is also paired with implementation key " + prev})
			}
			pk := ck + " ~ " + mk
			if _, ok := seen[pk]; ok {
				return nil
			}
			st := &state{rep: append([]byte(nil), input...), depth: m.Depth(ik)}
			seen[pk] = st
			rep.States++
			rep.Distinct++
			rep.Stat(fmt.Sprintf("states_%s_depth_%d", mode, st.depth))
			if len(rep.Samples) < 8 && (len(seen) == 1 || len(seen)%211 == 0) {
				rep.Samples = append(rep.Samples, fmt.Sprintf("mode %s %q: %s", mode, input, pk))
			}
			return st
		}

		// the initial state
		i0, m0 := m.Impl(mode, nil, 0), vh.AskModel([]string{m.Req(mode, nil, 0)})[0]
		_, ik0 := split(i0)
		_, mk0 := split(m0)
		if !strings.HasPrefix(ik0, "K:") || !strings.HasPrefix(mk0, "K:") {
			rep.AddDiff(vh.Diff{Component: m.Name, Level: "correspondence", Input: "mode=" + mode + " empty prefix", Impl: i0, Model: m0, Note: "no initial state"})
			continue
		}
		frontier := []*state{learn(nil, ik0, mk0)}
		fullQueue := []*state{frontier[0]}

		// expand feeds the probe set from every state of part
		expand := func(part []*state, ps probeSet, next *[]*state) {
			ns := len(ps.suffixes)
			np := len(part) * ns
			impl := make([]string, np)
			midx := make([]int32, np)
			tbls := make([][]string, len(part))
			res := make([]uint8, np)
			reqs := make([]string, len(part))
			for k, st := range part {
				reqs[k] = m.FanCmd + " " + mode + " " + hexOrDash(st.rep) + " " + hexOrDash(ps.a1) + " " + hexOrDash(ps.a2) + " " + hexOrDash(ps.a3)
			}
			var wg sync.WaitGroup
			wg.Add(1)
			tStart := time.Now()
			go func() { // the model: one fan-out request per state
				defer wg.Done()
				defer func() { modelWall += time.Since(tStart) }()
				for k, r := range askSharded(reqs, workers) {
					halves := strings.SplitN(r, "\t\t", 2)
					if len(halves) != 2 {
						panic("malformed fan-out reply: " + r)
					}
					tbls[k] = strings.Split(halves[0], "\t")
					idx := strings.Fields(halves[1])
					if len(idx) != ns {
						panic(fmt.Sprintf("fan-out reply answers %d of %d probes", len(idx), ns))
					}
					for j, w := range idx {
						n, err := strconv.Atoi(w)
						if err != nil || n >= len(tbls[k]) {
							panic("malformed fan-out reply: " + r)
						}
						midx[k*ns+j] = int32(n)
					}
				}
			}()
			for w := 0; w < workers; w++ {
				wg.Add(1)
				go func(w int) {
					defer wg.Done()
					buf := make([]byte, 0, 64)
					for k := w; k < len(part); k += workers {
						st := part[k]
						for j, suf := range ps.suffixes {
							buf = append(append(buf[:0], st.rep...), suf...)
							impl[k*ns+j] = m.Impl(mode, buf, from(st.rep))
						}
					}
				}(w)
			}
			wg.Wait()
			bothWall += time.Since(tStart)
			// classify every probe (parallel), then look at states and differences serially
			counts := make([]map[string]int, workers)
			for w := 0; w < workers; w++ {
				wg.Add(1)
				go func(w int) {
					defer wg.Done()
					cnt := map[string]int{}
					counts[w] = cnt
					for k := w; k < len(part); k += workers {
						for j := 0; j < ns; j++ {
							i := k*ns + j
							im, mo := impl[i], tbls[k][midx[i]]
							ie, io := split(im)
							me, mout := split(mo)
							ki := kind(io)
							cnt[ki]++
							switch {
							case ie != me:
								res[i] = resEvents
							case ki != kind(mout) || (ki != "state" && io != mout):
								res[i] = resOutcome
							case ki == "state":
								res[i] = resState
							default:
								res[i] = resAgree
							}
						}
					}
				}(w)
			}
			wg.Wait()
			for _, cnt := range counts {
				for k, n := range cnt {
					outcomes[k] += n
				}
			}
			rep.Transitions += np
			rep.Evaluations += np
			tSerial := time.Now()
			defer func() { serial += time.Since(tSerial) }()
			// suffix-major order: the one-byte probes of all states first, so that representatives stay short;
			// within one state a (model reply, implementation reply) pair is looked at once
			donePair := make([]map[int32]string, len(part))
			for j := 0; j < ns; j++ {
				for k := range part {
					i := k*ns + j
					switch res[i] {
					case resAgree:
					case resState:
						if donePair[k] == nil {
							donePair[k] = map[int32]string{}
						}
						if prev, ok := donePair[k][midx[i]]; ok && prev == impl[i] {
							continue
						}
						donePair[k][midx[i]] = impl[i]
						_, io := split(impl[i])
						_, mo := split(tbls[k][midx[i]])
						input := append(append([]byte(nil), part[k].rep...), ps.suffixes[j]...)
						if st := learn(input, io, mo); st != nil {
							fullQueue = append(fullQueue, st)
							if st.depth <= lightDepth {
								*next = append(*next, st)
							}
						}
					case resEvents:
						rep.AddDiff(vh.Diff{Component: m.Name + "-events", Level: "correspondence", Input: fmt.Sprintf("mode=%s state-prefix=%q probe=%q", mode, part[k].rep, ps.suffixes[j]),
							Impl: impl[i], Model: tbls[k][midx[i]], Note: "events delivered by the probe bytes differ"})
					case resOutcome:
						rep.AddDiff(vh.Diff{Component: m.Name + "-outcome", Level: "correspondence", Input: fmt.Sprintf("mode=%s state-prefix=%q probe=%q", mode, part[k].rep, ps.suffixes[j]),
							Impl: impl[i], Model: tbls[k][midx[i]], Note: "outcome (state / error code and index / stop and length / crash) differs"})
					}
				}
			}
		}

		for len(frontier) > 0 && !truncated {
			var next []*state
			var fullPart, lightPart []*state
			for _, st := range frontier {
				if st.depth <= fullDepth {
					fullPart = append(fullPart, st)
				} else {
					lightPart = append(lightPart, st)
				}
			}
			for _, job := range []struct {
				states []*state
				ps     probeSet
				chunk  int
			}{{fullPart, full, 16 + 600000/len(full.suffixes)}, {lightPart, light, 1024}} {
				for lo := 0; lo < len(job.states) && !truncated; lo += job.chunk {
					hi := lo + job.chunk
					if hi > len(job.states) {
						hi = len(job.states)
					}
					expand(job.states[lo:hi], job.ps, &next)
					if rep.States > maxStates {
						truncated = true
						rep.AddDiff(vh.Diff{Component: m.Name, Level: "correspondence", Input: "mode=" + mode, Impl: "", Model: "",
							Note: fmt.Sprintf("exploration stopped at %d states (VERIF_TPROD_MAXSTATES): the state space within the depth bound is larger than expected", rep.States)})
					}
				}
			}
			frontier = next
		}

		// the end-of-input rule from every state, through the real Next / Length loops
		for lo := 0; lo < len(fullQueue); lo += 100000 {
			hi := lo + 100000
			if hi > len(fullQueue) {
				hi = len(fullQueue)
			}
			part := fullQueue[lo:hi]
			impl := make([]string, len(part))
			reqs := make([]string, len(part))
			var wg sync.WaitGroup
			for w := 0; w < workers; w++ {
				wg.Add(1)
				go func(w int) {
					defer wg.Done()
					for i := w; i < len(part); i += workers {
						impl[i] = m.Full(mode, part[i].rep)
						reqs[i] = m.FullReq(mode, part[i].rep)
					}
				}(w)
			}
			wg.Wait()
			model := vh.AskModelSharded(reqs, workers)
			for i, st := range part {
				if impl[i] != model[i] {
					rep.AddDiff(vh.Diff{Component: m.Name + "-end-of-input", Level: "correspondence", Input: fmt.Sprintf("mode=%s whole input=%q", mode, st.rep),
						Impl: impl[i], Model: model[i], Note: reqs[i]})
				}
			}
			rep.Evaluations += len(part)
			rep.Stats["end_of_input_"+mode] += len(part)
		}

		for k, n := range outcomes {
			rep.Stats["outcome_"+mode+"_"+k] = n
		}
		rep.Stats["pairs_"+mode] = len(seen)
		rep.Stats["impl_keys_"+mode] = len(implToModel)
		rep.Stats["model_keys_"+mode] = len(modelToImpl)
		maxLen := 0
		for _, st := range seen {
			if len(st.rep) > maxLen {
				maxLen = len(st.rep)
			}
		}
		rep.Stats["longest_representative_"+mode] = maxLen
		coarse := 0
		for _, n := range rawCount {
			if n > 1 {
				coarse++
			}
		}
		if coarse > 0 {
			rep.Stats["coarsened_impl_keys_"+mode] = coarse
		}
	}
	rep.Exhaustive = true
}
