package c09

// Property NAMES. C09 quantifies over type graphs; how the properties that carry the edges are named
// is not part of the graph: a property name of a schema is an ARBITRARY JSON string, and the verdict
// (links, used types, recursion, termination) must depend on the graph only. The generators name
// properties k1, k2, …; Rekey renames them (on the edges that carry the cycles and on the edges that
// break them alike) with ordinary QUOTED keys whose content looks like another syntactic class of the
// schema language: a user type name (the JSON-LD spelling "@graph", "@id"; the names of the graph's
// own types "@t0"…, of its MISSING types "@m0", of the key shortcuts of the same object), comment and
// annotation openers, rule names and type keywords, quotes and escapes (some decode to names of the
// other classes), structural characters, the empty name. Real key shortcuts (`@k: …`) stay what they
// are, so a quoted "@t1" may sit next to the shortcut @t1 in one object.
//
// All entries are RAW spellings (the text between the quotes); two spellings of one name (`@t1`,
// `\u0040t1`) are the SAME property: names stay distinct (decoded) over the whole graph, as the
// generators' own names are, so that renaming never introduces a duplicate key (directly or through
// allOf).

import (
	"encoding/json"
	"math/rand"
	"strings"

	tg "verifharness/x/tgraph"
)

var (
	// the content is (or starts like) a user type name: quoted, it is NOT a key shortcut and NOT a reference
	keyTypeNameLike = []string{"@graph", "@parent", "@next", "@id", "@context", "@type", "@list", "@value",
		"@t0", "@t1", "@t2", "@t3", "@t4", "@t5", "@m0", "@m1", "@e0", "@root", "@A-b_9", "@0", "@", "@@a", "@a b", "@a.b", "@é",
		"@t0|@t1", "@t0 | @t1", "@-", "@_"}
	// comment / annotation openers and closers
	keyCommentLike = []string{"#x", "#", "###", "//", "/*", "*/", "/* x */", "// x", "a // b", "a#b", "/",
		"// {optional: true}", `/* {type: \"@t0\"} */`, `// {or: [\"@t0\", \"@t1\"]}`}
	// the DECODED name begins and / or ends with a double quote
	keyQuoted = []string{`\"x\"`, `\"\"`, `\"`, `\"@t0\"`, `\"a`, `a\"`, `a\"b`, `\u0022x\u0022`, `\"\\\"`, `\": @t0, \"`}
	// escape sequences (some decode to names of the other classes)
	keyEscapes = []string{`\\`, `a\\b`, `\\\\`, `\/`, `\/\/`, `\/*`, `\n`, `a\tb`, `\r\n`, `\b\f`, `\u0041`,
		`\u0040next`, `\u0040t0`, `\u0040t1`, `@\u0074\u0032`, `\u0040m0`, `\u00e9`, `\ud83d\ude00`, `\u0023x`, `a\u0020b`, `\\n`, `\\u0040t0`, `\\@t0`}
	// rule names, type names, literals, numbers
	keyKeywords = []string{"or", "type", "optional", "nullable", "allOf", "additionalProperties", "enum", "const", "min", "regex",
		"any", "mixed", "integer", "string", "object", "array", "true", "false", "null", "1", "-1.5", "TYPE", "ROOT"}
	// structural characters and blanks
	keyStructural = []string{"", " ", "  ", "{", "}", "[", "]", "{}", "[]", ":", ",", "a:b", "a,b", "a: 1", "{optional: true}",
		"[@t0]", "|", "a | b", "@t0 // {optional: true}", "'", "`", "%s", "\u00a0"}
)

var specialKeyPools = [][]string{keyTypeNameLike, keyTypeNameLike, keyTypeNameLike, keyCommentLike, keyQuoted, keyEscapes, keyEscapes, keyKeywords, keyStructural, {""}}

// DecodeKey: the property name a raw spelling denotes.
func DecodeKey(raw string) string {
	if !strings.Contains(raw, `\`) {
		return raw
	}
	var s string
	if err := json.Unmarshal([]byte(`"`+raw+`"`), &s); err != nil {
		panic("key spelling " + raw + ": " + err.Error())
	}
	return s
}

// KeyClass: the syntactic class a property name (given by its raw spelling) looks like.
func KeyClass(raw string) string {
	d := DecodeKey(raw)
	switch {
	case d == "":
		return "empty"
	case d[0] == '@':
		return "typename-like"
	case d[0] == '"' || d[len(d)-1] == '"':
		return "quote-wrapped"
	case d[0] == '#' || strings.Contains(d, "//") || strings.Contains(d, "/*") || strings.Contains(d, "*/"):
		return "comment-like"
	case strings.Contains(raw, `\`):
		return "escapes"
	case strings.TrimSpace(d) == "" || strings.ContainsAny(d, "{}[]:,|'`"):
		return "structural"
	}
	for _, k := range keyKeywords {
		if d == k {
			return "keyword"
		}
	}
	return "ordinary"
}

// specialKey picks the raw spelling of a special name: one of the pools, or a name composed from a
// class marker and an ordinary name.
func specialKey(r *rand.Rand) string {
	if r.Intn(5) == 0 {
		pre := []string{"@", "@", "@", "#", "//", "/*", `\"`, `\\`, `@`}[r.Intn(9)]
		mid := []string{"a", "id", "name", "k1", "Z_9", "v-1", "type", "t0", "t1", "t2", "x y", "é", "prev", "child", "node"}[r.Intn(15)]
		suf := []string{"", "", "", "", `\"`, "*/", " ", `\n`, ":"}[r.Intn(9)]
		return pre + mid + suf
	}
	pool := specialKeyPools[r.Intn(len(specialKeyPools))]
	return pool[r.Intn(len(pool))]
}

func cloneNode(n *tg.Node) *tg.Node {
	if n == nil {
		return nil
	}
	c := *n
	c.Names = append([]string(nil), n.Names...)
	c.OrRule = append([]string(nil), n.OrRule...)
	c.AllOf = append([]string(nil), n.AllOf...)
	c.Items = nil
	for _, it := range n.Items {
		c.Items = append(c.Items, cloneNode(it))
	}
	c.Props = nil
	for _, p := range n.Props {
		p.Val = cloneNode(p.Val)
		c.Props = append(c.Props, p)
	}
	return &c
}

// Rekey returns a copy of the graph (same types, same edges, same order of everything) in which each
// ordinary property name is replaced, with probability p %, by a special name; the names of the copy
// are pairwise distinct (decoded) wherever those of the original are. Key shortcuts are kept.
func Rekey(g *tg.Graph, r *rand.Rand, p int) *tg.Graph {
	out := &tg.Graph{Root: cloneNode(g.Root), RootOpt: g.RootOpt} // the option of every schema object is kept
	for _, t := range g.Types {
		out.Types = append(out.Types, tg.TypeDef{Name: t.Name, Body: cloneNode(t.Body), Opt: t.Opt})
	}
	used := map[string]bool{}
	all := func(f func(obj *tg.Node, pr *tg.Prop)) {
		visit := func(n *tg.Node) {
			n.Walk(func(m *tg.Node) {
				for i := range m.Props {
					if !m.Props[i].Shortcut {
						f(m, &m.Props[i])
					}
				}
			})
		}
		visit(out.Root)
		for _, t := range out.Types {
			visit(t.Body)
		}
	}
	all(func(_ *tg.Node, pr *tg.Prop) { used[DecodeKey(pr.Key)] = true })
	renamed := map[string]string{} // two properties of the original with one name keep one name
	all(func(obj *tg.Node, pr *tg.Prop) {
		if k, ok := renamed[pr.Key]; ok {
			pr.Key = k
			return
		}
		if r.Intn(100) >= p {
			return
		}
		for try := 0; try < 6; try++ {
			k := specialKey(r)
			if try == 0 && r.Intn(3) == 0 {
				// the quoted name of a key shortcut of the same object / of a type of the graph
				var cand []string
				for _, q := range obj.Props {
					if q.Shortcut {
						cand = append(cand, q.Key)
					}
				}
				if len(cand) == 0 {
					for _, t := range out.Types {
						cand = append(cand, t.Name)
					}
				}
				if len(cand) > 0 {
					k = cand[r.Intn(len(cand))]
				}
			}
			if d := DecodeKey(k); !used[d] {
				used[d] = true
				renamed[pr.Key] = k
				pr.Key = k
				return
			}
		}
	})
	return out
}
