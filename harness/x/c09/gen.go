package c09

import (
	"fmt"
	"math/rand"

	tg "verifharness/x/tgraph"
)

// ---- random graphs (≤ 6 types, every reference form, MISSING types) ----

// Options of the random generator.
type Options struct {
	Missing     bool // some graphs reference undefined types
	Enums       bool // literals with {enum: @e0} (strings "ab","cd") / {enum: @e1} (integers 1,2,3); the caller registers the rules
	OrContainer bool // rarely: `{} // {or: [{type: "object"}, {type: "string"}]}` / `[] // {or: […]}`
	StringRules bool // string key types with regex / minLength
	ExoticKeys  bool // property names with escapes: control characters (\u0001 \u000b \u001f), DEL, \u0041, \/, surrogate pairs, \" \\
	ManyKeys    bool // key shortcuts in every 4th object instead of every 8th, 25 % of them with a key type of any sort
}

// EnumRules: the enum rules the generated texts may mention (Options.Enums).
var EnumRules = [][2]string{{"@e0", `["ab", "cd"]`}, {"@e1", `[1, 2, 3]`}}

type tsort int

const (
	sObj tsort = iota
	sAlias
	sArr
	sInt
	sStr
)

type gen struct {
	r       *rand.Rand
	names   []string
	sorts   []tsort
	missing bool // may reference undefined types
	opts    Options
	keyNo   int
	cur     int // index of the type whose body is generated (len(names) for the root)
}

// exoticKeyParts: escape spellings inside property names (raw schema text between the quotes).
var exoticKeyParts = []string{`\u0001`, `\u000b`, `\u001f`, `\u007f`, `\u0041`, `\/`, `\ud83d\ude00`, `\"`, `\\`, `é`, `\n`, `\u00e9`, " ", `\udb40\udc01`}

func (g *gen) key() string {
	g.keyNo++
	k := fmt.Sprintf("k%d", g.keyNo)
	if g.opts.ExoticKeys && g.r.Intn(4) == 0 {
		k += exoticKeyParts[g.r.Intn(len(exoticKeyParts))]
		if g.r.Intn(3) == 0 {
			k = exoticKeyParts[g.r.Intn(len(exoticKeyParts))] + k
		}
	}
	return k
}

func (g *gen) pick() string {
	if g.missing && g.r.Intn(8) == 0 {
		return fmt.Sprintf("@m%d", g.r.Intn(2))
	}
	return g.names[g.r.Intn(len(g.names))]
}

// pickSort picks a type of the wanted sort (with probability anyP % any type at all); later
// restricts to types declared after the current one (keeps most allOf chains acyclic).
func (g *gen) pickSort(want tsort, anyP int, later bool) (string, bool) {
	if g.r.Intn(100) < anyP {
		return g.pick(), true
	}
	var cand []string
	for i, s := range g.sorts {
		if s == want && !(later && g.cur < len(g.names) && i <= g.cur) {
			cand = append(cand, g.names[i])
		}
	}
	if len(cand) == 0 {
		return "", false
	}
	return cand[g.r.Intn(len(cand))], true
}

func (g *gen) ref() *tg.Node {
	n := &tg.Node{Kind: tg.KRef}
	k := 1
	if g.r.Intn(4) == 0 {
		k = 2 + g.r.Intn(2)
	}
	for i := 0; i < k; i++ {
		t := g.pick()
		dup := false
		for _, have := range n.Names {
			dup = dup || have == t
		}
		if !dup {
			n.Names = append(n.Names, t)
		}
	}
	n.Nullable = g.r.Intn(7) == 0
	return n
}

// pickInt: mostly a type that can accept the example 1 (literal-family or alias sort).
func (g *gen) pickInt() string {
	if g.r.Intn(4) > 0 {
		w := sInt
		if g.r.Intn(3) == 0 {
			w = sAlias
		}
		if t, ok := g.pickSort(w, 0, false); ok {
			return t
		}
	}
	return g.pick()
}

func (g *gen) litRef() *tg.Node {
	n := &tg.Node{Kind: tg.KLit, Lit: "1"}
	switch g.r.Intn(5) {
	case 0, 1:
		n.TypeRef = g.pickInt()
	case 2:
		n.OrRule = []string{g.pickInt(), `{type: "integer"}`}
	case 3:
		n.OrRule = []string{`"string"`, g.pickInt()}
	case 4:
		a, b := g.pickInt(), g.pickInt()
		if a == b {
			n.OrRule = []string{a, `{type: "integer"}`}
		} else {
			n.OrRule = []string{a, b}
		}
	}
	return n
}

func (g *gen) value(depth int) *tg.Node {
	x := g.r.Intn(100)
	switch {
	case x < 50:
		return g.ref()
	case x < 62 && depth > 0:
		n := &tg.Node{Kind: tg.KArr}
		for i := 1 + g.r.Intn(2); i > 0; i-- {
			n.Items = append(n.Items, g.value(depth-1))
		}
		return n
	case x < 70 && depth > 0:
		return g.object(depth - 1)
	case x < 85:
		return g.litRef()
	}
	return g.leaf()
}

func (g *gen) leaf() *tg.Node {
	if g.opts.OrContainer && g.r.Intn(25) == 0 {
		if g.r.Intn(2) == 0 {
			return &tg.Node{Kind: tg.KObj, OrRule: []string{`{type: "object"}`, `{type: "string"}`}}
		}
		return &tg.Node{Kind: tg.KArr, OrRule: []string{`{type: "integer"}`, `{type: "array"}`}}
	}
	if g.opts.Enums && g.r.Intn(4) == 0 {
		if g.r.Intn(2) == 0 {
			return &tg.Node{Kind: tg.KLit, Lit: `"ab"`, Extra: "enum: @e0"}
		}
		return &tg.Node{Kind: tg.KLit, Lit: "1", Extra: "enum: @e1"}
	}
	n := &tg.Node{Kind: tg.KLit, Lit: []string{"1", `"ab"`, "true", "null", "2.50", `"a\"b\\ \u00e9é"`}[g.r.Intn(6)]}
	if !g.opts.Enums { // the C09 mirror knows integer / string / boolean leaves only
		n.Lit = []string{"1", `"ab"`, "true"}[g.r.Intn(3)]
	} else if g.r.Intn(6) == 0 {
		n.Nullable = true
	}
	return n
}

func (g *gen) object(depth int) *tg.Node {
	n := &tg.Node{Kind: tg.KObj}
	for i := g.r.Intn(4); i > 0; i-- {
		p := tg.Prop{Key: g.key(), Val: g.value(depth)}
		p.Val.Optional = g.r.Intn(10) < 3
		n.Props = append(n.Props, p)
	}
	oneIn, anyP := 8, 12
	if g.opts.ManyKeys {
		oneIn, anyP = 4, 25
	}
	if g.r.Intn(oneIn) == 0 {
		if k, ok := g.pickSort(sStr, anyP, false); ok {
			p := tg.Prop{Key: k, Shortcut: true, Val: g.value(depth)}
			p.Val.Optional = g.r.Intn(10) < 3
			at := g.r.Intn(len(n.Props) + 1)
			n.Props = append(n.Props[:at], append([]tg.Prop{p}, n.Props[at:]...)...)
		}
	}
	if g.r.Intn(5) == 0 {
		for i := 1 + g.r.Intn(2); i > 0; i-- {
			if p, ok := g.pickSort(sObj, 4, true); ok {
				dup := false
				for _, have := range n.AllOf {
					dup = dup || have == p
				}
				if !dup {
					n.AllOf = append(n.AllOf, p)
				}
			}
		}
		n.AllOfList = g.r.Intn(2) == 0
	}
	if g.r.Intn(9) == 0 {
		n.AddProps = g.pick()
	}
	return n
}

func (g *gen) body(s tsort) *tg.Node {
	switch s {
	case sObj:
		return g.object(1)
	case sAlias:
		return g.ref()
	case sArr:
		n := &tg.Node{Kind: tg.KArr}
		for i := g.r.Intn(3); i > 0; i-- {
			n.Items = append(n.Items, g.value(1))
		}
		return n
	case sInt:
		if g.r.Intn(3) == 0 {
			if g.opts.Enums && g.r.Intn(3) == 0 {
				return &tg.Node{Kind: tg.KLit, Lit: "1", Extra: "enum: @e1"}
			}
			return &tg.Node{Kind: tg.KLit, Lit: "1"}
		}
		return g.litRef()
	}
	n := &tg.Node{Kind: tg.KLit, Lit: `"ab"`}
	if g.opts.StringRules {
		n.Extra = []string{"", "", `regex: "a.*"`, "minLength: 1", `regex: "^[a-c]+$", maxLength: 5`}[g.r.Intn(5)]
	}
	if g.opts.Enums && n.Extra == "" && g.r.Intn(4) == 0 {
		n.Extra = "enum: @e0"
	}
	return n
}

// RandomGraph: a random type graph over 1..maxTypes user types (plus, with Options.Missing, up to two
// undefined names) using every reference form.
func RandomGraph(r *rand.Rand, maxTypes int, opts Options) *tg.Graph {
	g := &gen{r: r, missing: opts.Missing && r.Intn(4) == 0, opts: opts}
	n := 1 + r.Intn(maxTypes)
	for i := 0; i < n; i++ {
		g.names = append(g.names, fmt.Sprintf("@t%d", i))
		x := r.Intn(100)
		s := sObj
		switch {
		case x < 45:
		case x < 65:
			s = sAlias
		case x < 75:
			s = sArr
		case x < 90:
			s = sInt
		default:
			s = sStr
		}
		g.sorts = append(g.sorts, s)
	}
	out := &tg.Graph{}
	for i := 0; i < n; i++ {
		g.cur = i
		out.Types = append(out.Types, tg.TypeDef{Name: g.names[i], Body: g.body(g.sorts[i])})
	}
	g.cur = n
	defer func() { repair(r, out); DrawOptions(r, out) }()
	switch x := r.Intn(10); {
	case x < 5:
		out.Root = g.object(1)
		if len(out.Root.Props) == 0 {
			out.Root.Props = []tg.Prop{{Key: g.key(), Val: g.ref()}}
		}
	case x < 8:
		out.Root = g.ref()
	case x < 9:
		out.Root = &tg.Node{Kind: tg.KArr, Items: []*tg.Node{g.value(1)}}
	default:
		out.Root = g.litRef()
	}
	return out
}

// ---- the option KeysAreOptionalByDefault, per schema OBJECT ----

// DrawOptions: the option belongs to ONE schema object, so the root and every added type draw it independently
// (one graph in four keeps every object plain, one in eight sets it everywhere). Independently of that, an unmarked
// property (no `optional` rule) becomes an explicit `optional: false` with probability 1/5 in every object, so that
// all three markings occur in objects of either setting: in a plain object an unmarked key CARRIES a chain of required
// references and `optional: true` breaks it; in an object with the option an unmarked key BREAKS it and only
// `optional: false` carries it.
func DrawOptions(r *rand.Rand, g *tg.Graph) {
	mode := r.Intn(8)
	draw := func() bool {
		switch mode {
		case 0, 1:
			return false
		case 2:
			return true
		}
		return r.Intn(2) == 0
	}
	g.RootOpt = draw()
	for i := range g.Types {
		g.Types[i].Opt = draw()
	}
	mark := func(n *tg.Node) {
		n.Walk(func(m *tg.Node) {
			for _, p := range m.Props {
				if !p.Val.Optional && r.Intn(5) == 0 {
					p.Val.Required = true
				}
			}
		})
	}
	mark(g.Root)
	for _, t := range g.Types {
		mark(t.Body)
	}
}

// WithOptions: every setting of the option over the root and the types of g (2^(1+n) graphs sharing the bodies),
// the all-plain one first.
func WithOptions(g *tg.Graph, emit func(*tg.Graph)) {
	n := len(g.Types)
	for bits := 0; bits < 1<<(n+1); bits++ {
		c := &tg.Graph{Root: g.Root, RootOpt: bits&1 != 0, Types: append([]tg.TypeDef(nil), g.Types...)}
		for i := range c.Types {
			c.Types[i].Opt = bits&(2<<i) != 0
		}
		emit(c)
	}
}

// ---- structured family (bounded-exhaustive): one template per type ----

// template t with targets a, b (indices into names, len(names) = "missing").
const nTemplates = 20

func arity(t int) int {
	switch t {
	case 0, 1, 2:
		return 0
	case 6, 7, 17:
		return 2
	}
	return 1
}

func tmpl(t int, key string, a, b string) *tg.Node {
	ref := func(n ...string) *tg.Node { return &tg.Node{Kind: tg.KRef, Names: n} }
	obj := func(v *tg.Node) *tg.Node { return &tg.Node{Kind: tg.KObj, Props: []tg.Prop{{Key: key, Val: v}}} }
	one := func() *tg.Node { return &tg.Node{Kind: tg.KLit, Lit: "1"} }
	switch t {
	case 0:
		return one()
	case 1:
		return &tg.Node{Kind: tg.KLit, Lit: `"ab"`}
	case 2:
		return &tg.Node{Kind: tg.KObj}
	case 3: // required property
		return obj(ref(a))
	case 4: // optional property
		v := ref(a)
		v.Optional = true
		return obj(v)
	case 5: // array item
		return obj(&tg.Node{Kind: tg.KArr, Items: []*tg.Node{ref(a)}})
	case 6: // or-shortcut property
		if a == b {
			return nil
		}
		return obj(ref(a, b))
	case 7: // or-shortcut alias
		if a == b {
			return nil
		}
		return ref(a, b)
	case 8: // alias
		return ref(a)
	case 9: // allOf parent
		n := obj(one())
		n.AllOf = []string{a}
		return n
	case 10: // additionalProperties
		n := obj(one())
		n.AddProps = a
		return n
	case 11: // {type: "@a"} on a literal type
		n := one()
		n.TypeRef = a
		return n
	case 12: // {or: ["@a", {type: "integer"}]}
		n := one()
		n.OrRule = []string{a, `{type: "integer"}`}
		return n
	case 13: // key shortcut
		return &tg.Node{Kind: tg.KObj, Props: []tg.Prop{{Key: a, Shortcut: true, Val: one()}}}
	case 14: // array type
		return &tg.Node{Kind: tg.KArr, Items: []*tg.Node{ref(a)}}
	case 15: // {type} on a property
		n := one()
		n.TypeRef = a
		return obj(n)
	case 16: // nullable reference
		v := ref(a)
		v.Nullable = true
		return obj(v)
	case 17: // {or: ["@a", "@b"]} on a property
		if a == b {
			return nil
		}
		n := one()
		n.OrRule = []string{a, b}
		return obj(n)
	case 18: // allOf list + own required reference
		n := obj(ref(a))
		n.AllOf = []string{a}
		n.AllOfList = true
		return n
	case 19: // property marked `optional: false` (3 is the UNMARKED property)
		v := ref(a)
		v.Required = true
		return obj(v)
	}
	return nil
}

// bodies enumerates every body of the family for one type over the given target names.
func bodies(key string, targets []string, templates []int, ordered bool) []*tg.Node {
	var out []*tg.Node
	for _, t := range templates {
		switch arity(t) {
		case 0:
			out = append(out, tmpl(t, key, "", ""))
		case 1:
			for _, a := range targets {
				out = append(out, tmpl(t, key, a, ""))
			}
		case 2:
			for i, a := range targets {
				for _, b := range targets[i+1:] {
					out = append(out, tmpl(t, key, a, b))
					if ordered {
						out = append(out, tmpl(t, key, b, a))
					}
				}
			}
		}
	}
	return out
}

func allTemplates() []int {
	tt := make([]int, nTemplates)
	for i := range tt {
		tt[i] = i
	}
	return tt
}

// family enumerates root × bodies^n.
func family(n int, withMissing bool, templates []int, roots []int, emit func(*tg.Graph)) {
	names := make([]string, n)
	for i := range names {
		names[i] = fmt.Sprintf("@t%d", i)
	}
	targets := append([]string(nil), names...)
	if withMissing {
		targets = append(targets, "@m0")
	}
	per := make([][]*tg.Node, n)
	for i := range per {
		per[i] = bodies(fmt.Sprintf("p%d", i), targets, templates, n <= 2)
	}
	var rootBodies []*tg.Node
	for _, rt := range roots {
		rootBodies = append(rootBodies, tmpl(rt, "r", "@t0", "@t1"))
	}
	idx := make([]int, n)
	for {
		for _, rb := range rootBodies {
			g := &tg.Graph{Root: rb}
			for i := 0; i < n; i++ {
				g.Types = append(g.Types, tg.TypeDef{Name: names[i], Body: per[i][idx[i]]})
			}
			emit(g)
		}
		i := 0
		for ; i < n; i++ {
			idx[i]++
			if idx[i] < len(per[i]) {
				break
			}
			idx[i] = 0
		}
		if i == n {
			return
		}
	}
}

// repair: most of the time, make the rule members of a literal EXAMPLE node admit its example value
// (otherwise Check stops with 1301 / 204 before anything interesting happens): the as-coded mirror
// names the offending node; `{type: "@t"}` becomes `{or: ["@t", {type: "integer"}]}`.
func repair(r *rand.Rand, g *tg.Graph) {
	for round := 0; round < 8; round++ {
		fixed := false
		try := func(name string, root *tg.Node, self bool) {
			p := Predict(g, name, root, self, false)
			if p.class != "OTHER" || p.src == nil || p.src.Kind != tg.KLit || r.Intn(100) < 12 {
				return
			}
			n := p.src
			if n.TypeRef != "" {
				n.OrRule = []string{n.TypeRef, `{type: "integer"}`}
				n.TypeRef = ""
				fixed = true
				return
			}
			for i, m := range n.OrRule {
				if m == `"string"` {
					n.OrRule[i] = `"integer"`
					fixed = true
					return
				}
			}
			if len(n.OrRule) > 0 {
				n.OrRule = append(n.OrRule, `{type: "integer"}`)
				fixed = true
			}
		}
		try("root", g.Root, false)
		for _, t := range g.Types {
			if !fixed {
				try(t.Name, t.Body, true)
			}
		}
		if !fixed {
			return
		}
	}
}

// ---- dense small families (quick tier): sibling order, or-list interplay, key-shortcut diamonds ----

func (g *gen) denseValue() *tg.Node {
	pick := func() string { return g.names[g.r.Intn(len(g.names))] }
	x := g.r.Intn(100)
	switch {
	case x < 50:
		return &tg.Node{Kind: tg.KRef, Names: []string{pick()}}
	case x < 75:
		n := &tg.Node{Kind: tg.KRef}
		for _, i := range g.r.Perm(len(g.names))[:2+g.r.Intn(2)] {
			n.Names = append(n.Names, g.names[i])
		}
		return n
	case x < 87:
		return &tg.Node{Kind: tg.KRef, Names: []string{pick()}, Optional: true}
	case x < 95:
		return &tg.Node{Kind: tg.KArr, Items: []*tg.Node{{Kind: tg.KRef, Names: []string{pick()}}}}
	}
	return &tg.Node{Kind: tg.KRef, Names: []string{pick()}, Nullable: true}
}

func (g *gen) denseObject(min, max int) *tg.Node {
	n := &tg.Node{Kind: tg.KObj}
	for i := min + g.r.Intn(max-min+1); i > 0; i-- {
		n.Props = append(n.Props, tg.Prop{Key: g.key(), Val: g.denseValue()})
	}
	return n
}

// DenseGraph: 3..4 types; bodies leaf object / alias / or-alias / object with 1..2 reference properties;
// root = object with 2..3 reference properties. Many of these graphs are legal and cyclic, and the
// verdict depends on how sibling references and or-list members interact.
func DenseGraph(r *rand.Rand) *tg.Graph {
	g := &gen{r: r}
	n := 3 + r.Intn(2)
	for i := 0; i < n; i++ {
		g.names = append(g.names, fmt.Sprintf("@t%d", i))
	}
	out := &tg.Graph{}
	for i := 0; i < n; i++ {
		var b *tg.Node
		switch x := r.Intn(100); {
		case x < 20:
			b = &tg.Node{Kind: tg.KObj, Props: []tg.Prop{{Key: g.key(), Val: &tg.Node{Kind: tg.KLit, Lit: "1"}}}}
		case x < 30:
			b = &tg.Node{Kind: tg.KRef, Names: []string{g.names[r.Intn(n)]}}
		case x < 55:
			b = &tg.Node{Kind: tg.KRef}
			for _, j := range r.Perm(n)[:2] {
				b.Names = append(b.Names, g.names[j])
			}
		default:
			b = g.denseObject(1, 2)
		}
		out.Types = append(out.Types, tg.TypeDef{Name: g.names[i], Body: b})
	}
	out.Root = g.denseObject(2, 3)
	DrawOptions(r, out)
	return out
}

// KeyGraph: key shortcuts whose types are string literals, aliases and or-lists over shared targets
// (diamonds, chains, cycles), occasionally a non-string leaf.
func KeyGraph(r *rand.Rand) *tg.Graph {
	g := &gen{r: r}
	n := 3 + r.Intn(3)
	for i := 0; i < n; i++ {
		g.names = append(g.names, fmt.Sprintf("@t%d", i))
	}
	keyObj := func() *tg.Node {
		o := &tg.Node{Kind: tg.KObj, Props: []tg.Prop{{Key: g.names[r.Intn(n)], Shortcut: true, Val: &tg.Node{Kind: tg.KLit, Lit: "1"}}}}
		if r.Intn(3) == 0 {
			o.Props = append(o.Props, tg.Prop{Key: g.key(), Val: &tg.Node{Kind: tg.KLit, Lit: "true"}})
		}
		return o
	}
	out := &tg.Graph{}
	for i := 0; i < n; i++ {
		var b *tg.Node
		switch x := r.Intn(100); {
		case x < 35:
			b = &tg.Node{Kind: tg.KLit, Lit: `"x"`}
		case x < 60:
			b = &tg.Node{Kind: tg.KRef, Names: []string{g.names[r.Intn(n)]}}
		case x < 88:
			b = &tg.Node{Kind: tg.KRef}
			for _, j := range r.Perm(n)[:2+r.Intn(2)] {
				b.Names = append(b.Names, g.names[j])
			}
		case x < 92:
			b = &tg.Node{Kind: tg.KLit, Lit: "1"}
		case x < 95:
			b = &tg.Node{Kind: tg.KObj}
		default:
			b = keyObj()
		}
		out.Types = append(out.Types, tg.TypeDef{Name: g.names[i], Body: b})
	}
	out.Root = keyObj()
	DrawOptions(r, out)
	return out
}
