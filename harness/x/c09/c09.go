// Package c09: property C09 — user-type references are resolved completely and recursion is
// decided correctly — checked directly on the real library over generated type graphs.
//
// A case is a type graph (root schema + user types, possibly referencing MISSING types). It is
// compiled the way the repository's own tests (and the API core) compile type graphs: the root
// document schema `root` with every type AddType'd, plus every type as its own root schema (file
// name = type name, every type added, itself registered under its own name). "Check rejects the
// graph" = at least one of these Check() calls fails. Reading taken where the statement is
// ambiguous: a graph that has a missing type AND another defect may be rejected with the other
// error if that one is met first (the as-coded mirror decides which is first).
package c09

import (
	"fmt"
	"math/rand"
	"regexp"
	"runtime"
	"sort"
	"strings"
	"sync"

	"verifharness/vh"
	tg "verifharness/x/tgraph"
)

const command = "c09-typegraph"

type kase struct {
	linked bool // every type object has every type added as well (tgraph.Req.Linked)
	no     int
	g      *tg.Graph
	roots  []*tg.Node // schema i's root node
	names  []string   // schema i's file name
	self   []bool
	opts   []bool // schema i's OBJECT is created with jschema.KeysAreOptionalByDefault()
}

func mkCase(no int, g *tg.Graph) *kase {
	k := &kase{no: no, g: g}
	k.roots = append(k.roots, g.Root)
	k.names = append(k.names, "root")
	k.self = append(k.self, false)
	k.opts = append(k.opts, g.RootOpt)
	for _, t := range g.Types {
		k.roots = append(k.roots, t.Body)
		k.names = append(k.names, t.Name)
		k.self = append(k.self, true)
		k.opts = append(k.opts, t.Opt)
	}
	return k
}

// instance builds a small document following the schema (depth-bounded), to drive Validate
// through the type expansions.
func instance(g *tg.Graph, n *tg.Node, depth int, r *rand.Rand) string {
	if n == nil || depth < 0 {
		return []string{"1", "null", `"ab"`, "{}", "[]"}[r.Intn(5)]
	}
	switch n.Kind {
	case tg.KLit:
		return n.Lit
	case tg.KRef:
		if n.Nullable && r.Intn(3) == 0 {
			return "null"
		}
		return instance(g, g.Type(n.Names[r.Intn(len(n.Names))]), depth-1, r)
	case tg.KArr:
		var parts []string
		for _, it := range n.Items {
			parts = append(parts, instance(g, it, depth-1, r))
		}
		if len(n.Items) > 0 && r.Intn(3) == 0 {
			parts = append(parts, instance(g, n.Items[r.Intn(len(n.Items))], depth-1, r))
		}
		return "[" + strings.Join(parts, ",") + "]"
	case tg.KObj:
		var parts []string
		var props func(o *tg.Node, d int)
		props = func(o *tg.Node, d int) {
			for _, p := range o.Props {
				if p.Val.Optional && r.Intn(2) == 0 {
					continue
				}
				key := `"` + p.Key + `"`
				if p.Shortcut {
					key = `"ab"`
				}
				parts = append(parts, key+":"+instance(g, p.Val, depth-1, r))
			}
			if d > 0 {
				for _, par := range o.AllOf {
					if pt := g.Type(par); pt != nil && pt.Kind == tg.KObj {
						props(pt, d-1)
					}
				}
			}
		}
		props(n, 3)
		if n.AddProps != "" && r.Intn(2) == 0 {
			parts = append(parts, `"zz":`+instance(g, g.Type(n.AddProps), depth-1, r))
		}
		return "{" + strings.Join(parts, ",") + "}"
	}
	return "1"
}

var reKey1304 = regexp.MustCompile(`^E1304 Key shortcut "([^"]*)"`)

// keyResolvesToString: following aliases / or-lists from the key type, no type is missing, no alias
// cycle is reachable and every non-alias type reached has a string literal as its root. Then the key
// shortcut is string-typed whatever the order of members and however often a target is shared.
func keyResolvesToString(g *tg.Graph, key string) bool {
	state := map[string]int{} // 1 = on path, 2 = done
	var visit func(t string) bool
	visit = func(t string) bool {
		switch state[t] {
		case 1:
			return false
		case 2:
			return true
		}
		b := g.Type(t)
		if b == nil {
			return false
		}
		if b.Kind != tg.KRef {
			return b.Kind == tg.KLit && strings.HasPrefix(b.Lit, `"`)
		}
		state[t] = 1
		for _, m := range b.Names {
			if !visit(m) {
				return false
			}
		}
		state[t] = 2
		return true
	}
	return visit(key)
}

var reNotFound = regexp.MustCompile(`^E1302 Type "([^"]*)" not found`)

// classify maps Check()'s rendered verdict to the classes of the mirror.
func classify(s string) (class, name string) {
	switch {
	case s == "OK":
		return "OK", ""
	case strings.HasPrefix(s, "E1302 "):
		if m := reNotFound.FindStringSubmatch(s); m != nil {
			return "E1302", m[1]
		}
		return "E1302", "?"
	case strings.HasPrefix(s, "E1303 "):
		return "E1303", ""
	case strings.HasPrefix(s, "E1304 "):
		if m := reKey1304.FindStringSubmatch(s); m != nil {
			return "E1304", m[1]
		}
		return "E1304", ""
	case strings.HasPrefix(s, "E703 "):
		return "E703", ""
	case strings.HasPrefix(s, "E104 "), strings.HasPrefix(s, "X Infinity recursion detected"):
		return "E104", ""
	case strings.HasPrefix(s, "PANIC"), strings.HasPrefix(s, "TIMEOUT"):
		return strings.Fields(s)[0], ""
	}
	return "OTHER", ""
}

// The recursion verdicts of clause (3a). 703 (allOf recursion) is deliberately not one of them: allOf is a
// compile-time inclusion of the parent's properties, so an allOf cycle is ill-founded even when it passes
// through an optional property or an array item (`@t = {"k": { // {allOf: "@t", optional: true}\n}}`).
func isRecursionClass(c string) bool { return c == "E104" || c == "E1303" }

// requiredCycle: is there a cycle through ≥ 2 distinct types along references in required positions
// (not below an optional property — optional by its rule or, unmarked, by the option of the type's OWN object —, not
// inside an array; or-members, {type}, {or}, allOf parents and key-shortcut types count; additionalProperties does
// not)? Alias cycles are cycles of this graph.
func requiredCycle(g *tg.Graph) bool {
	edges := map[string][]string{}
	var collect func(from string, n *tg.Node, opt bool)
	collect = func(from string, n *tg.Node, opt bool) {
		m := *n
		m.AddProps = "" // additionalProperties demands nothing
		edges[from] = append(edges[from], m.NodeRefs()...)
		for _, p := range n.Props {
			if !tg.PropOptional(p.Val, opt) {
				collect(from, p.Val, opt)
			}
		}
	}
	for _, t := range g.Types {
		collect(t.Name, t.Body, t.Opt)
	}
	// reach[a][b]: path of length ≥ 1
	reach := func(a string) map[string]bool {
		seen := map[string]bool{}
		stack := append([]string(nil), edges[a]...)
		for len(stack) > 0 {
			x := stack[len(stack)-1]
			stack = stack[:len(stack)-1]
			if !seen[x] {
				seen[x] = true
				stack = append(stack, edges[x]...)
			}
		}
		return seen
	}
	for _, a := range g.Types {
		ra := reach(a.Name)
		for b := range ra {
			if b != a.Name && reach(b)[a.Name] {
				return true
			}
		}
	}
	return false
}

// ruleCycle: is there a cycle made only of {type}/{or} RULE references between types whose root is a
// literal EXAMPLE node carrying such a rule (not a shortcut)? On a LEGAL graph such a cycle necessarily
// passes through an or-list with a terminating member, yet collectAllowedJsonTypes (check_schema.go)
// reports 1303 on any revisit (class K-C09-orrule1303).
func ruleCycle(g *tg.Graph) bool {
	edges := map[string][]string{}
	for _, t := range g.Types {
		if b := t.Body; b.Kind == tg.KLit && (b.TypeRef != "" || len(b.OrRule) > 0) {
			edges[t.Name] = b.NodeRefs()
		}
	}
	for a := range edges {
		seen := map[string]bool{}
		stack := append([]string(nil), edges[a]...)
		for len(stack) > 0 {
			x := stack[len(stack)-1]
			stack = stack[:len(stack)-1]
			if !seen[x] {
				seen[x] = true
				stack = append(stack, edges[x]...)
			}
		}
		if seen[a] {
			return true
		}
	}
	return false
}

func features(g *tg.Graph, rep *vh.Report) (edges int) {
	seen := map[string]bool{}
	visit := func(n *tg.Node, isRoot bool) {
		n.Walk(func(m *tg.Node) {
			f := ""
			switch {
			case m.Kind == tg.KRef && len(m.Names) > 1:
				f = "or_shortcut"
			case m.Kind == tg.KRef && m.Nullable:
				f = "ref_nullable"
			case m.Kind == tg.KRef:
				f = "ref"
			case m.TypeRef != "":
				f = "type_rule"
			case len(m.OrRule) > 0:
				f = "or_rule"
			}
			if f != "" {
				seen[f] = true
			}
			if m.Optional && len(m.NodeRefs()) > 0 {
				seen["optional_ref"] = true
			}
			if m.Kind == tg.KArr && len(m.Items) > 0 {
				seen["array_item"] = true
			}
			if len(m.AllOf) > 0 {
				seen["allOf"] = true
			}
			if m.AddProps != "" {
				seen["additionalProperties"] = true
			}
			for _, p := range m.Props {
				if p.Shortcut {
					seen["key_shortcut"] = true
					continue
				}
				c := KeyClass(p.Key)
				if c == "ordinary" {
					continue
				}
				seen["keyname_"+c] = true
				d := DecodeKey(p.Key)
				if g.Type(d) != nil {
					seen["keyname_is_a_type_name_of_the_graph"] = true
				}
				for _, q := range m.Props {
					if q.Shortcut && q.Key == d {
						seen["keyname_equals_key_shortcut_of_the_object"] = true
					}
				}
				refs := false
				p.Val.Walk(func(x *tg.Node) { refs = refs || len(x.NodeRefs()) > 0 })
				switch {
				case !refs:
				case p.Val.Optional:
					seen["keyname_"+c+"_on_optional_edge"] = true
				case p.Val.Kind == tg.KArr:
					seen["keyname_"+c+"_on_array_edge"] = true
				default:
					seen["keyname_"+c+"_on_required_edge"] = true
				}
			}
			if !isRoot {
				edges += len(m.NodeRefs())
			}
		})
	}
	visit(g.Root, true)
	for _, t := range g.Types {
		visit(t.Body, false)
		if t.Body.Kind == tg.KRef {
			seen["alias_type"] = true
		}
	}
	for f := range seen {
		rep.Stat("form_" + f)
	}
	return edges
}

// optArg: how the option of one schema object shows in the replay text.
func optArg(opt bool) string {
	if opt {
		return ", jschema.KeysAreOptionalByDefault()"
	}
	return ""
}

func replay(k *kase, i int) string {
	var sb strings.Builder
	fmt.Fprintf(&sb, "schema under Check: jschema.New(%q, text%s) with text =\n%s\n", k.names[i], optArg(k.opts[i]), k.roots[i].Text())
	if k.linked {
		sb.WriteString("LINKED universe: one jschema.New(name, text) per type, every type AddType'd to every type (itself included) and to the schema under Check\n")
	}
	sb.WriteString("AddType (fresh jschema.New(name, text) each; [opt] = that object is created with jschema.KeysAreOptionalByDefault(), the others without")
	if k.self[i] {
		sb.WriteString("; " + k.names[i] + " = the schema itself")
	}
	sb.WriteString("):")
	for _, t := range k.g.Types {
		o := ""
		if t.Opt {
			o = " [opt]"
		}
		sb.WriteString("\n" + t.Name + o + " = " + t.Body.Text())
	}
	return sb.String()
}

// debugging aid: `vh c09-typegraph --skip=C09-false-reject,…` drops the diffs of these components
var skip = map[string]bool{}

// addDiff: vh.Report keeps a few witnesses per (component, level, class) and counts every diff per class.
func addDiff(rep *vh.Report, d vh.Diff) {
	if skip[d.Component] || (d.Class != "" && skip[d.Class]) {
		return
	}
	rep.AddDiff(d)
}

func Run(args []string) {
	if len(args) > 0 && args[0] == "--child" {
		tg.ChildMain()
		return
	}
	for _, a := range args {
		if strings.HasPrefix(a, "--skip=") {
			for _, c := range strings.Split(a[7:], ",") {
				skip[c] = true
			}
		}
	}
	rep := vh.NewReport(command, "type graphs: property NAMES: every second graph has 30..100 % of its property names (on required, optional and array edges alike) replaced by quoted names that look like user type names (JSON-LD @graph, the graph's own / missing type names, the key shortcuts of the same object), comment / annotation openers, rule and type keywords, quotes, escapes (\\u0040t0), structural characters, the empty name (stats keyname_*); quick = 10k random graphs over 1..6 user types + up to 2 MISSING names + 8k dense graphs (3..4 types: two/three-reference objects, aliases, or-lists) + 4k key-shortcut graphs (key types = string literals / aliases / or-lists over shared targets); every 2nd/3rd case LINKED (every type object has every type added too), the others with plain type objects; bodies object/array/alias/or-shortcut/literal with {type}/{or}, properties unmarked / optional: true / optional: false / nullable, array items, key shortcuts, allOf (string and list), additionalProperties; the option jschema.KeysAreOptionalByDefault() is drawn per schema OBJECT (root and every added type independently: 2 graphs in 8 all plain, 1 in 8 all with the option, 5 in 8 independent), so unmarked keys carry chains of required references in plain objects and break them in objects with the option; required = read with the option of the object whose text holds the property; besides the graph-level verdict (some Check among root + every type as its own root fails iff the graph is illegal) every schema whose OWN root has no finite value along the references its Check can follow must be rejected by its own Check (C09-false-accept-schema); false rejects are judged on graphs legal under both readings of unmarked keys (CheckRecursion ignores the option: calibration stat legal_only_by_default_optional_rejected); thorough adds the bounded-exhaustive one-template-per-type family, every sixth graph of it a second time with all names from the pool (20 one-reference templates x all targets: every graph over 1 and 2 types incl. a missing target and both member orders, 14 templates over 3 types, 6 templates {leaf, required, optional, array item, or-shortcut alias, alias} over 4 types; and 12 / 12 / 6 templates over 1 / 2 / 3 types under EVERY setting of the option over root and types). Each graph is compiled as root schema + every type as its own root. nontrivial = at least one type body references a type")
	seed := vh.Seed()
	workers := runtime.NumCPU()
	if workers > 16 {
		workers = 16
	}
	reqs := make(chan *tg.Req, 4*workers)
	cases := map[int]*kase{}
	var casesMu sync.Mutex
	emitNo := 0
	linkedNext := false
	emitPlain := func(g *tg.Graph, r *rand.Rand) {
		k := mkCase(emitNo, g)
		emitNo++
		k.linked = linkedNext
		req := &tg.Req{ID: k.no, Example: true, Linked: k.linked}
		for i := range k.roots {
			req.Schemas = append(req.Schemas, tg.SchemaReq{Name: k.names[i], Text: k.roots[i].Text(), SelfAdd: k.self[i], Opt: k.opts[i]})
		}
		for _, t := range g.Types {
			req.Types = append(req.Types, [2]string{t.Name, t.Body.Text()})
			req.TypeOpts = append(req.TypeOpts, t.Opt)
		}
		req.Docs = []string{"{}", "[]", "1", instance(g, g.Root, 4, r), instance(g, g.Root, 6, r)}
		if len(g.Types) > 0 {
			req.Docs = append(req.Docs, instance(g, g.Types[r.Intn(len(g.Types))].Body, 5, r))
		}
		casesMu.Lock()
		cases[k.no] = k
		casesMu.Unlock()
		reqs <- req
	}
	// random streams: every second graph has 30..100 % of its property names taken from the pool of names
	// that look like type names / comments / rules / … (keys.go)
	emit := func(g *tg.Graph, r *rand.Rand) {
		if r.Intn(2) == 0 {
			g = Rekey(g, r, 30+r.Intn(71))
		}
		emitPlain(g, r)
	}
	// exhaustive family: every graph as enumerated, every sixth one once more with all names from the pool
	emitBoth := func(r *rand.Rand) func(*tg.Graph) {
		return func(g *tg.Graph) {
			emitPlain(g, r)
			if r.Intn(6) == 0 {
				emitPlain(Rekey(g, r, 100), r)
			}
		}
	}
	go func() {
		defer close(reqs)
		nRandom := vh.Pick(10000, 250000)
		for i := 0; i < nRandom; i++ {
			r := rand.New(rand.NewSource(seed*1000003 + 909 + int64(i)*7919))
			linkedNext = i%3 == 0
			emit(RandomGraph(r, 6, Options{Missing: true}), r)
		}
		for i, n := 0, vh.Pick(8000, 200000); i < n; i++ {
			r := rand.New(rand.NewSource(seed*1000003 + 911 + int64(i)*7919))
			linkedNext = i%2 == 0
			emit(DenseGraph(r), r)
		}
		for i, n := 0, vh.Pick(4000, 100000); i < n; i++ {
			r := rand.New(rand.NewSource(seed*1000003 + 912 + int64(i)*7919))
			linkedNext = i%2 == 0
			emit(KeyGraph(r), r)
		}
		linkedNext = false
		if vh.Tier() == "thorough" {
			r := vh.NewRand(910)
			family(1, true, allTemplates(), []int{3, 8, 14, 15}, emitBoth(r))
			family(2, true, allTemplates(), []int{3, 8, 14, 6}, emitBoth(r))
			family(3, false, []int{0, 1, 3, 4, 5, 6, 7, 8, 9, 11, 12, 13, 16, 18}, []int{3, 14}, emitBoth(r))
			family(4, false, []int{0, 3, 4, 5, 7, 8}, []int{3}, emitBoth(r))
			// the same family under EVERY setting of the option over the root and the types (the all-plain setting is the
			// family above): {leaf, empty object, unmarked / optional: true / optional: false property, array item,
			// or-shortcut property, or-shortcut alias, alias, allOf, {type} on a property, nullable} over 1 and 2 types,
			// {leaf, unmarked, optional: true, optional: false, alias, array item} over 3
			both := emitBoth(r)
			withOpts := func(g *tg.Graph) {
				first := true
				WithOptions(g, func(c *tg.Graph) {
					if !first {
						both(c)
					}
					first = false
				})
			}
			optTemplates := []int{0, 2, 3, 4, 5, 6, 7, 8, 9, 15, 16, 19}
			family(1, false, optTemplates, []int{3, 8, 19, 4}, withOpts)
			family(2, false, optTemplates, []int{3, 8, 19, 6}, withOpts)
			family(3, false, []int{0, 3, 4, 5, 8, 19}, []int{3, 8}, withOpts)
		}
	}()

	tg.RunPool(command, workers, reqs, func(req *tg.Req, res tg.Res) bool {
		casesMu.Lock()
		k := cases[req.ID]
		delete(cases, req.ID)
		casesMu.Unlock()
		return evaluate(rep, k, res)
	})
	rep.Finish()
}

func evaluate(rep *vh.Report, k *kase, res tg.Res) bool {
	g := k.g
	edges := features(g, rep)
	rep.Case(g.Canon(), edges > 0)
	rep.Stat(fmt.Sprintf("types_%d", len(g.Types)))
	if res.Crash != "" {
		addDiff(rep, vh.Diff{Component: "C09-crash", Input: replay(k, 0) + "\n(all of root + each type as own root, Check / Example / Validate in one child process)", Impl: "CRASH " + res.Crash, Model: "no library call may kill the process"})
		rep.Stat("crash")
		return true
	}
	if res.Timeout {
		at := "child watchdog"
		for i, s := range res.Schemas {
			if strings.Contains(s.Check+s.ExErr+s.ValEx+strings.Join(s.Docs, " "), "TIMEOUT") {
				at = fmt.Sprintf("schema %s: check=%s example=%s validate(example)=%s docs=%v", k.names[i], s.Check, s.ExErr, s.ValEx, s.Docs)
			}
		}
		addDiff(rep, vh.Diff{Component: "C09-termination", Input: replay(k, 0), Impl: "TIMEOUT " + at, Model: fmt.Sprintf("every call returns within %v", tg.CallDeadline)})
		return false
	}
	if len(res.Schemas) != len(k.roots) {
		addDiff(rep, vh.Diff{Component: "C09-harness", Input: replay(k, 0), Impl: fmt.Sprintf("%d results", len(res.Schemas)), Model: fmt.Sprintf("%d schemas", len(k.roots))})
		return true
	}

	anyMissing := len(g.Missing(g.Root)) > 0
	if anyMissing {
		rep.Stat("graphs_with_missing_type")
	}
	rejected, rejectedBy := false, ""
	recursionReject := -1
	mirrorAccepts := true
	for i, s := range res.Schemas {
		root := k.roots[i]
		if s.AddErr != "" || (s.UsedErr != "OK" && s.UsedErr != "") {
			addDiff(rep, vh.Diff{Component: "C09-harness", Input: replay(k, i), Impl: "AddType/UsedUserTypes failed: " + s.AddErr + " " + s.UsedErr, Model: "generated schema text loads"})
			return true
		}
		// (2) USED TYPES
		want := root.Refs()
		got := append([]string(nil), s.Used...)
		sort.Strings(got)
		if strings.Join(got, " ") != strings.Join(want, " ") {
			addDiff(rep, vh.Diff{Component: "C09-used-types", Input: "schema text:\n" + root.Text(), Impl: fmt.Sprintf("UsedUserTypes() = %v", s.Used), Model: fmt.Sprintf("exactly the referenced names, each once: %v", want)})
		}
		if len(want) > 0 {
			rep.Stat("used_types_nonempty")
		}

		class, name := classify(s.Check)
		rep.Stat("verdict_" + class)
		if class == "PANIC" {
			addDiff(rep, vh.Diff{Component: "C09-crash", Input: replay(k, i), Impl: s.Check, Model: "Check returns an error value"})
			continue
		}
		pred := Predict(g, k.names[i], root, k.self[i], k.linked)
		if pred.class != "OK" {
			mirrorAccepts = false
		}
		if pred.class == "OTHER" {
			rep.Stat("other_" + strings.Fields(pred.why)[0])
		}
		// (1) LINKS
		missing := g.Missing(root)
		isMissing := func(n string) bool {
			for _, m := range missing {
				if m == n {
					return true
				}
			}
			return false
		}
		switch {
		case class == "E1302" && !isMissing(name):
			addDiff(rep, vh.Diff{Component: "C09-links", Input: replay(k, i), Impl: s.Check, Model: fmt.Sprintf("1302 must name a referenced type that was not added; missing = %v", missing)})
		case len(missing) > 0 && class == "OK":
			addDiff(rep, vh.Diff{Component: "C09-links", Input: replay(k, i), Impl: "Check() = nil", Model: fmt.Sprintf("Check fails with 1302 naming one of %v", missing)})
		case len(missing) > 0 && pred.class == "E1302" && class != "E1302":
			addDiff(rep, vh.Diff{Component: "C09-links", Input: replay(k, i), Impl: s.Check, Model: fmt.Sprintf("Check fails with 1302 naming one of %v (no other defect is met earlier)", missing)})
		}
		if len(missing) > 0 && class != "E1302" && class != "OK" {
			rep.Stat("missing_masked_by_earlier_error")
		}
		// key shortcuts: the recursion guard of the key-type resolution must not reject a legal (acyclic, all-string) key type
		if class == "E1304" && name != "" && keyResolvesToString(g, name) {
			addDiff(rep, vh.Diff{Component: "C09-false-reject", Input: replay(k, i), Impl: s.Check, Model: "key shortcut " + name + ": no alias cycle is reachable from it and every alternative resolves to a string type: Check must accept the key shortcut"})
		}
		// as-coded correspondence
		if class != pred.class || (class == "E1302" && pred.name != "" && pred.name != name) {
			addDiff(rep, vh.Diff{Component: "C09-dfs-as-coded", Level: "correspondence", Input: replay(k, i), Impl: s.Check, Model: fmt.Sprintf("as-coded mirror predicts %s %s %s", pred.class, pred.name, pred.why)})
		}
		if class != "OK" {
			if !rejected {
				rejectedBy = k.names[i] + ": " + s.Check
			}
			rejected = true
			if isRecursionClass(class) && recursionReject < 0 {
				recursionReject = i
			}
		}
	}

	// (3) RECURSION: only on graphs without missing types. Which property is a REQUIRED reference is read per schema
	// object (tg.PropOptional: an unmarked key follows the option of the object whose text holds it).
	if !anyMissing {
		if g.AnyOpt() {
			rep.Stat("graph_with_KeysAreOptionalByDefault_on_some_object")
			n := 0
			for _, o := range k.opts {
				if o {
					n++
				}
			}
			if n < len(k.opts) {
				rep.Stat("graph_with_mixed_option_settings")
			}
		}
		inh := g.InhabitedTypes()
		legal := tg.InhabitedIn(g.Root, inh, g.RootOpt)
		var dead []string
		for _, t := range g.Types {
			if !inh[t.Name] {
				legal = false
				dead = append(dead, t.Name)
			}
		}
		// CALIBRATION (reported, recorded as an observation, not a diff): checker.CheckRecursion never looks at the
		// option — an unmarked key always counts as a required edge, also inside an object created with
		// KeysAreOptionalByDefault (`@t = {"x": @t}` with the option on @t is rejected although {} inhabits it). So the
		// false-REJECT direction is judged only on graphs that are legal under BOTH readings: with every unmarked key
		// read as required (=> legal per object as well, the per-object reading only removes required edges).
		legalBoth := legal
		if legal && g.AnyOpt() {
			cons := g.InhabitedTypesConservative()
			legalBoth = tg.InhabitedIn(g.Root, cons, false)
			for _, t := range g.Types {
				legalBoth = legalBoth && cons[t.Name]
			}
		}
		switch {
		case legal:
			rep.Stat("graph_legal")
			if recursionReject >= 0 && !legalBoth {
				rep.Stat("legal_only_by_default_optional_rejected")
			} else if recursionReject >= 0 {
				d := vh.Diff{Component: "C09-false-reject", Input: replay(k, recursionReject), Impl: res.Schemas[recursionReject].Check, Model: "root and every type have a finite inhabitant (every cycle passes through an optional property, an array or a terminating or-alternative): Check must not report recursion"}
				if c, _ := classify(res.Schemas[recursionReject].Check); c == "E1303" && ruleCycle(g) {
					d.Class = "K-C09-orrule1303"
					rep.Stat("graph_legal_rejected_K-C09-orrule1303")
				} else {
					rep.Stat("graph_legal_rejected_recursion_UNCLASSIFIED")
				}
				addDiff(rep, d)
			}
			if !legalBoth {
				rep.Stat("graph_legal_only_by_default_optional")
			}
			if rejected {
				rep.Stat("graph_legal_rejected_for_other_reason")
			} else {
				rep.Stat("graph_legal_accepted")
			}
		case rejected:
			rep.Stat("graph_illegal_rejected")
		default:
			cyc := requiredCycle(g)
			d := vh.Diff{Component: "C09-false-accept", Input: replay(k, 0) + "\n(also each type as its own root: all Check() = nil)", Impl: "every Check() = nil", Model: fmt.Sprintf("uninhabited (no finite value): root inhabited=%v, uninhabited types %v: some Check must fail", tg.InhabitedIn(g.Root, inh, g.RootOpt), dead)}
			if mirrorAccepts && cyc {
				d.Class = "K-C09-cycle"
				rep.Stat("graph_illegal_accepted_K-C09-cycle")
			} else {
				rep.Stat("graph_illegal_accepted_UNCLASSIFIED")
			}
			addDiff(rep, d)
		}
		// informative: what a caller that only checks the root document schema would see
		if !tg.InhabitedIn(g.Root, inh, g.RootOpt) && res.Schemas[0].Check == "OK" {
			rep.Stat("root_only_usage_uninhabited_root_accepted")
		}

		// (3b) PER SCHEMA: a schema whose OWN root has no finite value along the references its Check can follow (see
		// perschema.go) must be rejected by its own Check, whatever the Checks of the other schemas of the graph say.
		// (When every Check accepts, the graph-level verdict above has already reported the graph.)
		if rejected {
			for i, s := range res.Schemas {
				finite := rootFinite(g, k.names[i], k.roots[i], k.opts[i], k.self[i], k.linked)
				if k.linked && finite != tg.InhabitedIn(k.roots[i], inh, k.opts[i]) {
					addDiff(rep, vh.Diff{Component: "C09-harness", Input: replay(k, i), Impl: fmt.Sprintf("path-based expansion: finite=%v", finite), Model: "equals the least fixpoint when every table is complete"})
				}
				if finite {
					continue
				}
				rep.Stat("schema_root_without_finite_value")
				if c, _ := classify(s.Check); c != "OK" {
					rep.Stat("schema_root_without_finite_value_rejected")
					continue
				}
				d := vh.Diff{Component: "C09-false-accept-schema", Input: replay(k, i), Impl: "Check() = nil", Model: "the root of this schema has no finite value: a chain of required references (each property read with the option of the schema object whose text holds it) returns to a type being expanded on every way through it: this Check must fail"}
				if p := Predict(g, k.names[i], k.roots[i], k.self[i], k.linked); p.class == "OK" && requiredCycle(g) {
					d.Class = "K-C09-cycle"
					rep.Stat("schema_root_without_finite_value_accepted_K-C09-cycle")
				} else {
					rep.Stat("schema_root_without_finite_value_accepted_UNCLASSIFIED")
				}
				addDiff(rep, d)
			}
		}
	}
	_ = rejectedBy

	// (4) TERMINATION is enforced by the deadlines (TIMEOUT above); count what ran
	for _, s := range res.Schemas {
		if s.Check == "OK" {
			rep.Stat("accepted_schemas_example_and_validate_ran")
			if s.ExErr != "" {
				rep.Stat("example_error")
			}
			if strings.HasPrefix(s.ExErr, "PANIC") || strings.HasPrefix(s.ValEx, "PANIC") {
				addDiff(rep, vh.Diff{Component: "C09-crash", Input: replay(k, 0), Impl: s.ExErr + " " + s.ValEx, Model: "Example / Validate return"})
			}
			for _, d := range s.Docs {
				if strings.HasPrefix(d, "PANIC") {
					addDiff(rep, vh.Diff{Component: "C09-crash", Input: replay(k, 0), Impl: d, Model: "Validate returns"})
				}
				if d == "OK" {
					rep.Stat("validate_doc_ok")
				} else {
					rep.Stat("validate_doc_rejected")
				}
			}
		}
	}
	return true
}
