package c09

// The recursion verdict of ONE schema under Check, read per schema OBJECT.
//
// C09: "Check rejects a type graph iff some chain of required references returns to a type being expanded". Whether a
// property is a REQUIRED reference is a fact about the schema object whose text holds it: `optional: true` never,
// `optional: false` always, an unmarked key iff THAT object was created without jschema.KeysAreOptionalByDefault().
// The root and every added type are separate objects and may be created with different settings.
//
// rootFinite expands the root of schema i the way a chain of required references is followed — depth first, a type
// that is being expanded (on the path; the schema's own name from the start) has no finite value there — and answers
// whether the root has a finite value. Names are resolved as the library resolves them: the text of the schema under
// Check in its own type table (every type of the graph); the text of an added type in the table of THAT object, which
// holds every type in a LINKED universe and nothing otherwise (then a name that is not on the path is not expanded and
// counts as finite: only what the check can see is demanded of it; that it cannot see more is K-C09-cycle, judged at
// graph level). With complete tables (linked) this is exactly the least-fixpoint inhabitation of tgraph.InhabitedIn:
// a finite value of least height never repeats a type along a path.

import (
	"strings"

	tg "verifharness/x/tgraph"
)

// RootFiniteAsSeen: rootFinite for other packages (c15 asks whether the blindness of the recursion check for the
// tables of added types — K-C09-cycle — can explain that a schema with an uninhabited type passed Check).
func RootFiniteAsSeen(g *tg.Graph, name string, root *tg.Node, opt, self, linked bool) bool {
	return rootFinite(g, name, root, opt, self, linked)
}

type finiteEval struct {
	g      *tg.Graph
	linked bool
	onPath map[string]bool
	steps  int
}

// rootFinite: has the root node of schema i (file name `name`, registered under its own name when self) a finite value?
func rootFinite(g *tg.Graph, name string, root *tg.Node, opt, self, linked bool) bool {
	e := &finiteEval{g: g, linked: linked, onPath: map[string]bool{}}
	if self {
		e.onPath[name] = true
	}
	return e.node(root, opt, true)
}

// typ: a reference to `name` met in a text whose object knows (known) or does not know the types of the graph.
func (e *finiteEval) typ(name string, known bool) bool {
	if e.onPath[name] {
		return false
	}
	if !known {
		return true
	}
	body := e.g.Type(name)
	if body == nil {
		return true // a missing type: a matter of clause (1), never judged here
	}
	e.steps++
	if e.steps > 200000 {
		return true // give up on the side that raises no alarm
	}
	e.onPath[name] = true
	defer delete(e.onPath, name)
	return e.node(body, e.g.Opt(name), e.linked)
}

func (e *finiteEval) member(mm []string, known bool) bool {
	for _, m := range mm {
		if !strings.HasPrefix(m, "@") || e.typ(m, known) {
			return true
		}
	}
	return false
}

func (e *finiteEval) node(n *tg.Node, opt, known bool) bool {
	switch n.Kind {
	case tg.KLit:
		if n.TypeRef != "" {
			return e.typ(n.TypeRef, known)
		}
		if len(n.OrRule) > 0 {
			return e.member(n.OrRule, known)
		}
		return true
	case tg.KRef:
		return e.member(n.Names, known)
	case tg.KArr:
		if len(n.OrRule) > 0 {
			return e.member(n.OrRule, known)
		}
		return true
	case tg.KObj:
		if len(n.OrRule) > 0 {
			return e.member(n.OrRule, known)
		}
		for _, p := range n.AllOf {
			if !e.typ(p, known) {
				return false
			}
		}
		for _, p := range n.Props {
			if tg.PropOptional(p.Val, opt) {
				continue
			}
			if p.Shortcut && !e.typ(p.Key, known) {
				return false
			}
			if !e.node(p.Val, opt, known) {
				return false
			}
		}
		return true
	}
	return false
}
