package c09

// "The compile pipeline as coded": a Go mirror, on the IR, of what Schema.Check() does with a
// root schema and its type table, precise enough to predict the CLASS of the first error:
//
//	loader.CompileAllOf        -> E703 (allOf recursion), E1302 (parent missing), OTHER (704 non-object
//	                              parent, duplicate key, additionalProperties conflict)
//	checker.CheckRootSchema    -> E1302, E1303 (json type undeterminable due to recursion), E1304 (key
//	                              shortcut is not a string), OTHER (1301 incorrect user type, 204 example
//	                              value matches no alternative)
//	checker.CheckRecursion     -> E104 ("Infinity recursion detected"): ONLY references met while walking
//	                              a schema whose own type table knows the name are expanded; inside the body
//	                              of an added type the table is that type's own (empty) table, so only a
//	                              revisit of a name already on the path fails (known finding K-C09-cycle).
//
// Sources mirrored: notations/jschema/internal/loader/compiler_all_of.go,
// notations/jschema/internal/checker/check_schema.go, list.go, check_recusrion.go.

import (
	"sort"
	"strings"

	tg "verifharness/x/tgraph"
)

type ckey struct {
	key      string
	shortcut bool
}

type cnode struct {
	src      *tg.Node
	kind     tg.Kind
	lit      string   // json type of a literal: integer, string, …
	names    []string // types-list: reference members / {type} / {or} members ("#integer" … for builtin members)
	isRef    bool     // MixedValueNode
	optional bool
	allOf    []string
	addProps string
	keys     []ckey
	children []*cnode
}

type cschema struct {
	root  *cnode
	table map[string]*cschema
}

func litType(s string) string {
	switch {
	case strings.HasPrefix(s, `"`):
		return "string"
	case s == "true" || s == "false":
		return "boolean"
	case s == "null":
		return "null"
	case strings.ContainsAny(s, ".eE"):
		return "float"
	}
	return "integer"
}

func builtinName(m string) string {
	for _, t := range []string{"integer", "string", "float", "boolean", "object", "array", "null"} {
		if strings.Contains(m, `"`+t+`"`) {
			return "#" + t
		}
	}
	return "#any"
}

func build(n *tg.Node) *cnode {
	c := &cnode{src: n, kind: n.Kind, optional: n.Optional}
	switch n.Kind {
	case tg.KLit:
		c.lit = litType(n.Lit)
	case tg.KRef:
		c.isRef = true
		c.names = append(c.names, n.Names...)
	case tg.KArr:
		for _, it := range n.Items {
			c.children = append(c.children, build(it))
		}
	case tg.KObj:
		for _, p := range n.Props {
			k := p.Key
			if !p.Shortcut {
				k = DecodeKey(k) // two spellings of one name are one key
			}
			c.keys = append(c.keys, ckey{k, p.Shortcut})
			c.children = append(c.children, build(p.Val))
		}
		c.allOf = append(c.allOf, n.AllOf...)
		c.addProps = n.AddProps
	}
	if n.TypeRef != "" {
		c.names = []string{n.TypeRef}
	}
	for _, m := range n.OrRule {
		if strings.HasPrefix(m, "@") {
			c.names = append(c.names, m)
		} else {
			c.names = append(c.names, builtinName(m))
		}
	}
	return c
}

// buildSchema: root schema `name` with all graph types added; selfAdd registers the root itself
// under its own name (instead of a fresh copy of the type's text). linked: every type's own table
// holds every type as well (one shared universe of type objects).
func buildSchema(g *tg.Graph, name string, root *tg.Node, selfAdd, linked bool) *cschema {
	rs := &cschema{root: build(root), table: map[string]*cschema{}}
	for _, t := range g.Types {
		if selfAdd && t.Name == name {
			rs.table[t.Name] = rs
		} else {
			rs.table[t.Name] = &cschema{root: build(t.Body), table: map[string]*cschema{}}
		}
	}
	if linked {
		for _, t := range rs.table {
			t.table = rs.table
		}
	}
	return rs
}

type cerr struct {
	class string // E703 E1302 E1303 E1304 E104 OTHER
	name  string // E1302: the missing name ("" = some missing or-shortcut member)
	why   string
	src   *tg.Node // OTHER 1301 / 204: the literal node whose rule members do not admit its example value
}

type mirror struct {
	rs         *cschema
	processing map[string]bool
	compiled   map[string]bool
	found      map[string]bool
	allowed    map[string]bool
	visited    map[string]bool
}

func fail(class, name, why string) { panic(cerr{class: class, name: name, why: why}) }

// PredictClass: the class of Check()'s verdict as coded: OK, E703, E1302, E1303, E1304, E104, OTHER.
func PredictClass(g *tg.Graph, name string, root *tg.Node, selfAdd bool) string {
	return Predict(g, name, root, selfAdd, false).class
}

// Predict returns the class of Check()'s verdict: "OK" or the first error.
func Predict(g *tg.Graph, name string, root *tg.Node, selfAdd, linked bool) (res cerr) {
	defer func() {
		if r := recover(); r != nil {
			if e, ok := r.(cerr); ok {
				res = e
				return
			}
			panic(r)
		}
	}()
	m := &mirror{rs: buildSchema(g, name, root, selfAdd, linked), processing: map[string]bool{}, compiled: map[string]bool{},
		found: map[string]bool{}, allowed: map[string]bool{}, visited: map[string]bool{name: true}}
	m.compileAllOf()
	m.checkRootSchema()
	if !m.recursion(m.rs.root, m.rs.table) {
		return cerr{class: "E104"}
	}
	return cerr{class: "OK"}
}

// RecursionAsCoded: the verdict of checker.CheckRecursion alone as the unchanged tree codes it (run after
// CompileAllOf): it follows every property that does not say `optional: true` — the option KeysAreOptionalByDefault
// plays no part in it — and resolves names in the table of the object whose text holds them. known = false when the
// mirror cannot compile allOf for the schema (then Check fails earlier and the question does not arise).
func RecursionAsCoded(g *tg.Graph, name string, root *tg.Node, selfAdd, linked bool) (accepts, known bool) {
	defer func() {
		if r := recover(); r != nil {
			if _, ok := r.(cerr); ok {
				accepts, known = false, false
				return
			}
			panic(r)
		}
	}()
	m := &mirror{rs: buildSchema(g, name, root, selfAdd, linked), processing: map[string]bool{}, compiled: map[string]bool{},
		found: map[string]bool{}, allowed: map[string]bool{}, visited: map[string]bool{name: true}}
	m.compileAllOf()
	return m.recursion(m.rs.root, m.rs.table), true
}

func (m *mirror) sortedNames() []string {
	names := make([]string, 0, len(m.rs.table))
	for n := range m.rs.table {
		names = append(names, n)
	}
	sort.Strings(names)
	return names
}

// ---- loader.CompileAllOf ----

func (m *mirror) compileAllOf() {
	m.processNode(m.rs.root)
	for _, n := range m.sortedNames() {
		m.processType(n)
	}
}

func (m *mirror) processNode(n *cnode) {
	if n.allOf != nil {
		for _, name := range n.allOf {
			m.extendWith(n, name)
		}
		n.allOf = nil
	}
	for _, c := range n.children {
		m.processNode(c)
	}
}

func (m *mirror) extendWith(to *cnode, name string) {
	from := m.processType(name).root
	if from.kind != tg.KObj {
		fail("OTHER", name, "704 allOf parent is not an object")
	}
	if from.addProps != "" {
		if to.addProps != "" {
			if to.addProps != from.addProps {
				fail("OTHER", name, "additionalProperties conflict")
			}
		} else {
			to.addProps = from.addProps
		}
	}
	for i, c := range from.children {
		k := from.keys[i]
		for _, have := range to.keys {
			if have == k {
				fail("OTHER", name, "duplicate key "+k.key)
			}
		}
		to.keys = append(to.keys, k)
		to.children = append(to.children, c)
	}
}

func (m *mirror) processType(name string) *cschema {
	if m.processing[name] {
		fail("E703", name, "")
	}
	typ, ok := m.rs.table[name]
	if !ok {
		fail("E1302", name, "allOf")
	}
	if m.compiled[name] {
		return typ
	}
	m.processing[name] = true
	m.processNode(typ.root)
	delete(m.processing, name)
	m.compiled[name] = true
	return typ
}

// ---- checker.CheckRootSchema ----

func walk(n *cnode, seen map[*cnode]bool, f func(*cnode)) {
	if seen[n] {
		return
	}
	seen[n] = true
	f(n)
	for _, c := range n.children {
		walk(c, seen, f)
	}
}

func (m *mirror) checkRootSchema() {
	m.checkNode(m.rs.root)
	// Unnamed types ("#0x…" sort before "@…"): the only ones that can fail are the or-shortcut nodes
	// (each or-shortcut registers itself as the root of unnamed types): a missing member -> 1302.
	seen := map[*cnode]bool{}
	for _, name := range m.sortedNames() {
		walk(m.rs.table[name].root, seen, func(n *cnode) {
			if n.isRef && len(n.names) >= 2 {
				for _, t := range n.names {
					if _, ok := m.rs.table[t]; !ok {
						fail("E1302", "", "or-shortcut member (unnamed type)")
					}
				}
			}
		})
	}
	for _, name := range m.sortedNames() {
		m.checkNode(m.rs.table[name].root)
	}
}

func (m *mirror) typeRoot(name string) *cnode {
	if strings.HasPrefix(name, "#") {
		return &cnode{kind: tg.KLit, lit: name[1:]} // unnamed type of a builtin or-member: a mixed node of that json type
	}
	t, ok := m.rs.table[name]
	if !ok {
		fail("E1302", name, "getType")
	}
	return t.root
}

func (n *cnode) jsonType() string {
	switch {
	case n.isRef:
		return "mixed"
	case n.kind == tg.KObj:
		return "object"
	case n.kind == tg.KArr:
		return "array"
	}
	return n.lit
}

func (m *mirror) checkNode(n *cnode) {
	m.checkLinks(n)
	switch n.kind {
	case tg.KLit:
		m.checkLiteral(n)
	case tg.KObj:
		for _, k := range n.keys {
			if !k.shortcut {
				continue
			}
			s, ok := m.rs.table[k.key]
			if !ok {
				fail("E1302", k.key, "key shortcut")
			}
			if t := m.actualRootType(s, map[string]bool{}); t != "string" {
				fail("E1304", k.key, t)
			}
		}
		if n.addProps != "" {
			m.typeRoot(n.addProps)
		}
	}
	for _, c := range n.children {
		m.checkNode(c)
	}
}

func (m *mirror) actualRootType(s *cschema, visiting map[string]bool) string {
	t := s.root.jsonType()
	if t != "mixed" {
		return t
	}
	types := map[string]bool{}
	tt := ""
	for _, tn := range s.root.names {
		if visiting[tn] {
			return "mixed"
		}
		ss, ok := m.rs.table[tn]
		if !ok {
			return "mixed"
		}
		visiting[tn] = true
		tt = m.actualRootType(ss, visiting)
		delete(visiting, tn)
		types[tt] = true
	}
	if len(types) == 1 {
		return tt
	}
	return "mixed"
}

func (m *mirror) checkLinks(n *cnode) {
	if n.names == nil {
		return
	}
	m.found = map[string]bool{}
	m.allowed = map[string]bool{}
	m.collectAllowed(n)
	if !m.allowed[n.jsonType()] && !m.allowed["*"] {
		panic(cerr{class: "OTHER", why: "1301 incorrect user type", src: n.src})
	}
}

func (m *mirror) collectAllowed(n *cnode) {
	if n.isRef {
		m.allowed["*"] = true
		for _, t := range n.names {
			if _, ok := m.rs.table[t]; !ok {
				fail("E1302", t, "reference")
			}
		}
		return
	}
	if n.names == nil {
		m.allowed[n.jsonType()] = true
		return
	}
	for _, t := range n.names {
		if m.found[t] {
			fail("E1303", t, "")
		}
		m.found[t] = true
		m.collectAllowed(m.typeRoot(t))
		delete(m.found, t)
	}
}

// checkLiteral: the example value must satisfy at least one node of the (deduplicated) expansion.
func (m *mirror) checkLiteral(n *cnode) {
	added := map[string]bool{}
	var list []*cnode
	var buildList func(x *cnode)
	buildList = func(x *cnode) {
		if x.names != nil {
			for _, t := range x.names {
				if !added[t] {
					added[t] = true
					buildList(m.typeRoot(t))
				}
			}
			return
		}
		list = append(list, x)
	}
	buildList(n)
	for _, x := range list {
		if x.kind == tg.KLit && (x.lit == n.lit || x.lit == "any") {
			return
		}
	}
	panic(cerr{class: "OTHER", why: "204/… example value matches no alternative", src: n.src})
}

// ---- checker.CheckRecursion ----

// recursion returns false when "Infinity recursion detected".
func (m *mirror) recursion(n *cnode, types map[string]*cschema) bool {
	if n.optional {
		return true
	}
	switch {
	case n.isRef:
		bad := 0
		for _, t := range n.names {
			if !m.recursionType(t, types) {
				bad++
			}
		}
		return !(bad > 0 && bad == len(n.names))
	case n.kind == tg.KObj:
		for _, c := range n.children {
			if !m.recursion(c, types) {
				return false
			}
		}
	}
	return true
}

func (m *mirror) recursionType(name string, types map[string]*cschema) bool {
	if m.visited[name] {
		return false
	}
	m.visited[name] = true
	defer delete(m.visited, name)
	t, ok := types[name]
	if !ok {
		return true
	}
	return m.recursion(t.root, t.table)
}
