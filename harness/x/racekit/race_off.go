//go:build !race

package racekit

// Enabled reports whether the binary was built with -race.
const Enabled = false
