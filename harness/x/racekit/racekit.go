// Package racekit: run a scenario in a child process of the same binary under
// the race detector and collect (a) the child's report and (b) the distinct
// data-race reports of its stderr.
package racekit

import (
	"bufio"
	"bytes"
	"context"
	"encoding/json"
	"fmt"
	"os"
	"os/exec"
	"sort"
	"strings"
	"time"

	"verifharness/vh"
)

// Race is one distinct race report.
type Race struct {
	Key   string // first two frames of the first stack
	Text  string // abbreviated report
	Count int
	Marks []string // ids of the Mark scopes that were open in the child when the report was first printed
}

// MarkPrefix starts a scope line on the child's stderr: "RACEKIT-MARK +id"
// opens the scope id, "RACEKIT-MARK -id" closes it.  A child that runs its
// scenarios one after another (or a few at a time) brackets each of them with
// Mark calls; every race report is then attributed to the scenarios that were
// running when the detector printed it (Race.Marks), and a child that died
// to the ones it died in (OpenMarks).
const MarkPrefix = "RACEKIT-MARK "

// Mark writes a scope line (one unbuffered write to stderr, the stream the
// race detector writes its reports to).
func Mark(open bool, id string) {
	sign := "-"
	if open {
		sign = "+"
	}
	os.Stderr.WriteString("\n" + MarkPrefix + sign + id + "\n")
}

// markState tracks the open scopes while stderr is read front to back.
type markState struct{ open []string }

func (m *markState) feed(text string) {
	for {
		i := strings.Index(text, MarkPrefix)
		if i < 0 {
			return
		}
		text = text[i+len(MarkPrefix):]
		line := text
		if j := strings.IndexByte(line, '\n'); j >= 0 {
			line = line[:j]
		}
		line = strings.TrimSpace(line)
		if len(line) < 2 {
			continue
		}
		id := line[1:]
		switch line[0] {
		case '+':
			m.open = append(m.open, id)
		case '-':
			for k, o := range m.open {
				if o == id {
					m.open = append(append([]string{}, m.open[:k]...), m.open[k+1:]...)
					break
				}
			}
		}
	}
}

// OpenMarks lists the scopes still open at the end of the child's stderr.
func OpenMarks(stderr string) []string {
	var m markState
	m.feed(stderr)
	return m.open
}

// ChildResult is what the child prints on its last stdout line after "CHILD ".
type ChildResult struct {
	Evaluations int               `json:"evaluations"`
	Cases       []ChildCase       `json:"cases"`
	Stats       map[string]int    `json:"stats"`
	Diffs       []vh.Diff         `json:"diffs"`
	NDiffs      int               `json:"ndiffs"`
	Extra       map[string]string `json:"extra"`
}

type ChildCase struct {
	Key        string `json:"k"`
	Nontrivial bool   `json:"n"`
}

func NewChildResult() *ChildResult {
	return &ChildResult{Stats: map[string]int{}, Extra: map[string]string{}}
}

func (c *ChildResult) Case(key string, nontrivial bool) {
	c.Evaluations++
	c.Cases = append(c.Cases, ChildCase{key, nontrivial})
}
func (c *ChildResult) Stat(name string) { c.Stats[name]++ }
func (c *ChildResult) AddDiff(d vh.Diff) {
	c.NDiffs++
	if len(c.Diffs) < 25 {
		c.Diffs = append(c.Diffs, d)
	}
}

// Print emits the result as the child's last stdout line.
func (c *ChildResult) Print() {
	b, _ := json.Marshal(c)
	fmt.Println("CHILD " + string(b))
}

// Merge folds a child's result into the parent's report; class (if non-empty)
// is stamped on every diff that has none.
func (c *ChildResult) Merge(rep *vh.Report, class string) {
	for _, cs := range c.Cases {
		rep.Case(cs.Key, cs.Nontrivial)
	}
	for k, v := range c.Stats {
		rep.Stats[k] += v
	}
	for k, v := range c.Extra {
		rep.Extra[k] = v
	}
	for _, d := range c.Diffs {
		if d.Class == "" {
			d.Class = class
		}
		rep.AddDiff(d)
	}
	for i := len(c.Diffs); i < c.NDiffs; i++ {
		rep.NDiffs++
	}
}

// RunChild re-executes the running binary with args, GORACE set so that the
// run continues after a report, and returns the child's result, the distinct
// race reports, and a non-empty problem string when the child did not finish
// properly ("TIMEOUT", crash text).
func RunChild(args []string, env []string, timeout time.Duration) (*ChildResult, []Race, string) {
	res, races, problem, _ := RunChildMarked(args, env, timeout)
	return res, races, problem
}

// RunChildMarked is RunChild for a child that uses Mark: it also returns the
// scopes that were open when the child's stderr ended (of interest when the
// child crashed or was killed).
func RunChildMarked(args []string, env []string, timeout time.Duration) (*ChildResult, []Race, string, []string) {
	exe, err := os.Executable()
	if err != nil {
		return nil, nil, "cannot find own executable: " + err.Error(), nil
	}
	ctx, cancel := context.WithTimeout(context.Background(), timeout)
	defer cancel()
	cmd := exec.CommandContext(ctx, exe, args...)
	cmd.Env = append(os.Environ(), "GORACE=halt_on_error=0 history_size=4")
	cmd.Env = append(cmd.Env, env...)
	// stderr is parsed while it arrives: a change that races on every call makes the child print gigabytes of reports
	var stdout bytes.Buffer
	stderr := &raceSink{p: newRaceParser()}
	cmd.Stdout = &stdout
	cmd.Stderr = stderr
	runErr := cmd.Run()
	races := stderr.finish()
	var res *ChildResult
	sc := bufio.NewScanner(&stdout)
	sc.Buffer(make([]byte, 1<<20), 1<<28)
	for sc.Scan() {
		if l := sc.Text(); strings.HasPrefix(l, "CHILD ") {
			r := NewChildResult()
			if json.Unmarshal([]byte(l[6:]), r) == nil {
				res = r
			}
		}
	}
	problem := ""
	if ctx.Err() != nil {
		problem = "TIMEOUT"
	} else if res == nil {
		problem = fmt.Sprintf("child ended without a result (%v)%s; stderr tail: %s", runErr, stderr.fatal, stderr.tail)
	}
	// exit status 66 = "races were reported": expected, not a problem
	return res, races, problem, stderr.p.marks.open
}

const raceHeader = "WARNING: DATA RACE"

// raceSink is the child's stderr: it hands complete reports to the parser as
// they arrive and keeps only the distinct ones and the last 1500 bytes.
type raceSink struct {
	p     *raceParser
	acc   []byte
	tail  []byte
	fatal string // the first "fatal error:" / "panic:" line of the runtime
}

func (k *raceSink) Write(b []byte) (int, error) {
	if k.fatal == "" {
		for _, w := range []string{"fatal error: ", "panic: "} {
			if i := bytes.Index(b, []byte(w)); i >= 0 && (i == 0 || b[i-1] == '\n') {
				l := b[i:]
				if j := bytes.IndexByte(l, '\n'); j >= 0 {
					l = l[:j]
				}
				k.fatal = ": " + string(l)
				break
			}
		}
	}
	k.acc = append(k.acc, b...)
	k.tail = append(k.tail, b...)
	if len(k.tail) > 1500 {
		k.tail = append([]byte{}, k.tail[len(k.tail)-1500:]...)
	}
	if len(k.acc) > 1<<20 {
		if i := bytes.LastIndex(k.acc, []byte(raceHeader)); i > 0 {
			// everything before the last header consists of complete reports
			k.p.feed(string(k.acc[:i]))
			k.acc = append([]byte{}, k.acc[i:]...)
		} else if len(k.acc) > 1<<23 {
			if j := bytes.LastIndexByte(k.acc, '\n'); j > 0 {
				k.p.feed(string(k.acc[:j+1]))
				k.acc = append([]byte{}, k.acc[j+1:]...)
			}
		}
	}
	return len(b), nil
}

func (k *raceSink) finish() []Race {
	k.p.feed(string(k.acc))
	k.acc = nil
	return k.p.races()
}

// ParseRaces extracts the distinct "WARNING: DATA RACE" reports.
func ParseRaces(stderr string) []Race {
	p := newRaceParser()
	p.feed(stderr)
	return p.races()
}

type raceParser struct {
	byKey map[string]*Race
	marks markState
}

func newRaceParser() *raceParser { return &raceParser{byKey: map[string]*Race{}} }

// feed takes the next piece of stderr; a piece ends where a report ends (it
// is the whole stderr, or it was cut in front of a report header).
func (p *raceParser) feed(stderr string) {
	byKey, marks := p.byKey, &p.marks
	blocks := strings.Split(stderr, raceHeader)
	marks.feed(blocks[0])
	for _, b := range blocks[1:] {
		openNow := append([]string{}, marks.open...)
		marks.feed(b)
		if i := strings.Index(b, "=================="); i >= 0 {
			b = b[:i]
		}
		lines := strings.Split(b, "\n")
		// frames of the first stack: "  func()" followed by "      file:line +0x.."
		var frames []string
		var stacks []string
		cur := ""
		for i := 0; i < len(lines); i++ {
			l := lines[i]
			if strings.HasPrefix(l, "  ") && !strings.HasPrefix(l, "   ") && i+1 < len(lines) {
				loc := strings.TrimSpace(lines[i+1])
				if j := strings.Index(loc, " +0x"); j >= 0 {
					loc = loc[:j]
				}
				fr := strings.TrimSpace(l) + " " + loc
				if len(frames) < 2 && len(stacks) == 0 {
					frames = append(frames, fr)
				}
				cur += fr + " <- "
				i++
			} else if strings.TrimSpace(l) == "" {
				if cur != "" {
					stacks = append(stacks, cur)
					cur = ""
				}
			} else if !strings.HasPrefix(l, " ") && strings.TrimSpace(l) != "" {
				// header line: "Write at 0x.. by goroutine N:" — drop addresses
				h := strings.TrimSpace(l)
				if j := strings.Index(h, " at 0x"); j >= 0 {
					h = h[:j]
				}
				cur = h + ": "
			}
		}
		if cur != "" {
			stacks = append(stacks, cur)
		}
		key := strings.Join(frames, " <- ")
		if key == "" {
			key = "unparsed race report"
		}
		text := strings.Join(stacks, " || ")
		if len(text) > 1800 {
			text = text[:1800] + "…"
		}
		if r, ok := byKey[key]; ok {
			r.Count++
		} else {
			byKey[key] = &Race{Key: key, Text: text, Count: 1, Marks: openNow}
		}
	}
}

func (p *raceParser) races() []Race {
	var out []Race
	for _, r := range p.byKey {
		out = append(out, *r)
	}
	sort.Slice(out, func(i, j int) bool { return out[i].Key < out[j].Key })
	return out
}
