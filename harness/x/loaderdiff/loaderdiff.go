// Package loaderdiff: T-diff for the text → node-tree step (schema scanner model + loader model in Lean)
// against the real library's GetAST(): node kinds in source order, keys and key-shortcut flags, literal
// values, rule names in written order (synthesised shortcut rules first), note text; and the binding errors
// 402 / 801..804 with their positions.
package loaderdiff

import (
	stderrors "errors"
	"fmt"
	"strings"

	jlib "github.com/jsightapi/jsight-schema-go-library"
	"github.com/jsightapi/jsight-schema-go-library/notations/jschema"

	"verifharness/vh"
	"verifharness/x/c13"
)

func hx(s string) string { return vh.Hex([]byte(s)) }

func dump(n jlib.ASTNode, isChildOfObject bool) string {
	var sb strings.Builder
	sb.WriteByte('(')
	switch n.TokenType {
	case jlib.TokenTypeObject:
		sb.WriteByte('o')
	case jlib.TokenTypeArray:
		sb.WriteByte('a')
	case jlib.TokenTypeShortcut:
		sb.WriteByte('m')
	default:
		sb.WriteByte('l')
	}
	if isChildOfObject {
		f := "p"
		if n.IsKeyShortcut {
			f = "s"
		}
		fmt.Fprintf(&sb, " k=%s:%s", hx(n.Key), f)
	}
	if n.TokenType != jlib.TokenTypeObject && n.TokenType != jlib.TokenTypeArray {
		fmt.Fprintf(&sb, " v=%s", hx(n.Value))
	}
	var names []string
	if n.Rules != nil {
		n.Rules.EachSafe(func(k string, _ jlib.RuleASTNode) { names = append(names, hx(k)) })
	}
	sb.WriteString(" r=[" + strings.Join(names, ",") + "]")
	if n.Comment != "" {
		fmt.Fprintf(&sb, " c=%s", hx(n.Comment))
	}
	for _, c := range n.Children {
		sb.WriteByte(' ')
		sb.WriteString(dump(c, n.TokenType == jlib.TokenTypeObject))
	}
	sb.WriteByte(')')
	return sb.String()
}

var bindingCodes = map[int]bool{402: true, 801: true, 802: true, 803: true, 804: true, 301: true, 302: true, 303: true, 304: true}

// real: canonical tree, or "ERR code pos" for the error classes the model covers, or "" (outside the model).
func real(root string, types map[string]string) string {
	return vh.Recover(func() string {
		s := jschema.New("s", root)
		for name, text := range types {
			if err := s.AddType("@"+name, jschema.New("@"+name, text)); err != nil {
				return ""
			}
		}
		ast, err := s.GetAST()
		if err != nil {
			var pe jlib.ParsingError
			if stderrors.As(err, &pe) && bindingCodes[pe.ErrCode()] && !strings.Contains(err.Error(), "@") {
				return fmt.Sprintf("ERR %d %d", pe.ErrCode(), pe.Position())
			}
			var pe2 jlib.ParsingError
			if stderrors.As(err, &pe2) && bindingCodes[pe2.ErrCode()] {
				return fmt.Sprintf("ERR? %d %d", pe2.ErrCode(), pe2.Position())
			}
			return ""
		}
		if ast.TokenType == "" && len(ast.Children) == 0 && ast.Value == "" {
			return "EMPTY"
		}
		return dump(ast, false)
	})
}

func Run(args []string) {
	rep := vh.NewReport("loader-diff", "schemas of the c13 generator (nested objects / arrays / scalars / shortcuts with rules and notes, in random spellings: line ends, indentation, comments, inline vs multi-line annotations, quoted names, trailing commas) and 1-3 byte mutations of them; real GetAST() vs Lean scanner + loader model: node tree in source order, keys, shortcut flags, values, rule names in order, notes; loader errors 402/801-804 and scanner errors 301-304 with positions; nontrivial = tree with at least one annotated node")
	r := vh.NewRand(77)
	n := vh.Pick(6000, 150000)
	alphabet := []byte("{}[]:,\"\\/#@*|-_01. \n\rtn")
	var reqs, impl, inputs []string
	add := func(root string, types map[string]string, mutated bool) {
		got := real(root, types)
		if got == "" {
			rep.Stat("outside_model")
			return
		}
		if strings.HasPrefix(got, "ERR? ") {
			// an error of the covered classes, but raised inside an added type: position refers to that type's text
			rep.Stat("error_in_added_type")
			return
		}
		if strings.HasPrefix(got, "ERR") {
			rep.Stat("real_" + strings.Fields(got)[1])
		} else {
			rep.Stat("tree")
		}
		reqs = append(reqs, "load "+hx(root))
		impl = append(impl, got)
		inputs = append(inputs, fmt.Sprintf("%q", root))
		rep.Case(root, strings.Contains(root, "//") || strings.Contains(root, "/*"))
	}
	for i := 0; i < n; i++ {
		st := c13.GenSchemaText(vh.Seed()*1000003 + int64(i))
		add(st.Root, st.Types, false)
		for _, t := range st.Types {
			add(t, nil, false)
		}
		if i%2 == 0 {
			m := string(vh.Mutate(r, []byte(st.Root), alphabet))
			add(m, st.Types, true)
		}
	}
	model := vh.AskModelSharded(reqs, 16)
	for i := range reqs {
		want := impl[i]
		got := model[i]
		if strings.HasPrefix(want, "ERR") {
			// the model must report the same error; model errors outside its classes cannot occur
			if got != want {
				rep.AddDiff(vh.Diff{Component: "loader-error", Input: inputs[i], Impl: want, Model: got, Level: "correspondence"})
			}
			continue
		}
		if got != want {
			rep.AddDiff(vh.Diff{Component: "loader-tree", Input: inputs[i], Impl: want, Model: got, Level: "correspondence"})
		}
	}
	rep.Finish()
}
