// Package schematprod: T-prod (product-state exploration, see package tprodkit) of the jSchema scanner
// (notations/jschema/internal/scanner through the verif hook VerifSchemaProbe) against the Lean model
// (SchemaScan.dispatch / SchemaRun.processFound, driver request `skey E|L <hex> <from>`), events mode and length mode;
// the end-of-input rule of every state through VerifSchemaEvents / VerifSchemaLen vs `sscan E|L`.
package schematprod

import (
	"fmt"
	"strings"

	"github.com/jsightapi/jsight-schema-go-library/notations/jschema"

	"verifharness/vh"
	"verifharness/x/tprodkit"
)

// canon: the two guard closures installed after an inline annotation (in stateInlineAnnotationText and in
// stateInlineAnnotationTextSkip) have the same body and capture the same thing (the step function to return to);
// the implementation key tells them apart by their compiler-given names, the control state does not. They are
// folded into one name; everything else of the key is kept.
var canon = strings.NewReplacer("stateInlineAnnotationText.func1(", "guard(", "stateInlineAnnotationTextSkip.func1(", "guard(")

func depth(key string) int {
	i := strings.Index(key, "|s=")
	if i < 0 {
		return 0
	}
	s := key[i+3:]
	if j := strings.Index(s, "|"); j >= 0 {
		s = s[:j]
	}
	return strings.Count(s, "O") + strings.Count(s, "A")
}

func Run(args []string) {
	// The control state of this scanner is large (58 step functions x return stack x lexeme stack x context stack x
	// annotation mode x 5 flags): 2.4 k pairs per mode at nesting depth <= 1, ~20 k at <= 2, ~200 k at <= 3.
	fullDepth, lightDepth := vh.Pick(1, 2), vh.Pick(2, 3)
	rep := vh.NewReport("schema-tprod", fmt.Sprintf("reachable pairs (implementation control-state key, model state) of the jSchema scanner, events mode and length mode; pairs of nesting depth (objects + arrays on the lexeme stack, those of annotations included) <= %d are expanded; from every expanded pair: all 256 next bytes and three-byte probes over %q (two-byte look-ahead); from pairs of depth <= %d also two-byte probes over %d x %d byte-class representatives (look-ahead / look-behind); compared per probe: delivered events with spans, outcome kind, error code+index, Len at a stop; per pair: end-of-input rule (full events / Len); pair relation functional both ways; nontrivial = a distinct pair",
		lightDepth, tprodkit.PeekBytes, fullDepth, len(tprodkit.ByteReps), len(tprodkit.ByteReps)))
	tprodkit.Explore(rep, tprodkit.Machine{
		Name:  "schema-tprod",
		Modes: []string{"E", "L"},
		Impl: func(mode string, data []byte, from int) string {
			return vh.Recover(func() string { return jschema.VerifSchemaProbe(data, from, mode == "L") })
		},
		Req: func(mode string, data []byte, from int) string {
			return fmt.Sprintf("skey %s %s %d", mode, vh.Hex(data), from)
		},
		FanCmd: "skeys",
		Full: func(mode string, data []byte) string {
			return vh.Recover(func() string {
				if mode == "L" {
					return jschema.VerifSchemaLen(data)
				}
				return jschema.VerifSchemaEvents(data)
			})
		},
		FullReq: func(mode string, data []byte) string { return "sscan " + mode + " " + vh.Hex(data) },
		Canon:   canon.Replace,
		Depth:   depth,
	}, fullDepth, lightDepth, false)
	rep.Finish()
}
