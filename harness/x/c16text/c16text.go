// Package c16text: harness command `c16-text` — T-diff of the TEXT-level AST model (Lean `AstText.astOfText`:
// schema scanner model → loader model → AST builders incl. rule values, nested items, sources, notes; driver
// command `astt`) against the real GetAST().
//
// Streams: (a) the c16 generator (abstract schema → JSight text in many surface styles; user types and named enum
// rules added to the real schema), (b) the c13 generator (other printer, other rule mix), (c) 1-3 byte mutations of
// both (mostly malformed or oddly formed texts), (d) a hand-written list of corner spellings.
//
// Oracle per case (the contract of `AstText.astOfText`):
//   - real GetAST returns an AST: the model must return the same AST (canonical dump: every field of every node and
//     of every rule node, in order) or `UNSUP` (counted; the share is reported and must stay below 20 % on the
//     generated streams);
//   - real GetAST fails with a scanner / loader error (301-304, 402, 701, 801-804): the model must report the same
//     code and position, or `UNSUP` (an embedded rule value its readers refuse);
//     (one structural exception: 801 from an embedded enum / or / allOf value loader at an EARLIER position than the
//     model's error — the loader model passes over the events inside such a value);
//     (second structural exception: 402 while the model's AST carries an allOf rule — the key collision is found by
//     CompileAllOf, a later phase);
//   - real GetAST fails otherwise (constraint constructors, compile, check, links, recursion): the model's AST is
//     what load() built before the later phase failed — not observable through GetAST: counted, not compared.
package c16text

import (
	stderrors "errors"
	"fmt"
	"runtime"
	"strings"
	"sync"

	jlib "github.com/jsightapi/jsight-schema-go-library"
	"github.com/jsightapi/jsight-schema-go-library/notations/jschema"
	"github.com/jsightapi/jsight-schema-go-library/rules/enum"

	"verifharness/vh"
	"verifharness/x/c13"
	"verifharness/x/c16"
)

func hx(s string) string { return vh.Hex([]byte(s)) }

func src(s jlib.RuleASTNodeSource) string {
	switch s {
	case jlib.RuleASTNodeSourceManual:
		return "m"
	case jlib.RuleASTNodeSourceGenerated:
		return "g"
	}
	return "u"
}

func dumpRules(m *jlib.RuleASTNodes) string {
	var parts []string
	if m != nil {
		m.EachSafe(func(k string, v jlib.RuleASTNode) { parts = append(parts, hx(k)+"="+dumpR(v)) })
	}
	return strings.Join(parts, ",")
}

func dumpR(v jlib.RuleASTNode) string {
	var items []string
	for _, it := range v.Items {
		items = append(items, dumpR(it))
	}
	return "<" + v.TokenType + ";" + hx(v.Value) + ";" + hx(v.Comment) + ";" + src(v.Source) + ";p[" + dumpRules(v.Properties) +
		"];i[" + strings.Join(items, ",") + "]>"
}

func dumpN(n jlib.ASTNode, inObj bool) string {
	var sb strings.Builder
	sb.WriteString("(" + n.TokenType)
	if inObj {
		f := "p"
		if n.IsKeyShortcut {
			f = "s"
		}
		sb.WriteString(" k=" + hx(n.Key) + ":" + f)
	}
	sb.WriteString(" t=" + hx(n.SchemaType) + " v=" + hx(n.Value) + " c=" + hx(n.Comment) + " r=[" + dumpRules(n.Rules) + "]")
	for _, c := range n.Children {
		sb.WriteString(" " + dumpN(c, n.TokenType == jlib.TokenTypeObject))
	}
	sb.WriteString(")")
	return sb.String()
}

var bindingCodes = map[int]bool{402: true, 701: true, 801: true, 802: true, 803: true, 804: true, 301: true, 302: true, 303: true, 304: true}

type tcase struct {
	root  string
	types [][2]string
	enums [][2]string
	tag   string
}

// real: canonical dump / "ERR code pos" (binding class) / "OTHER <code>" (any other failure) / "EMPTY".
func real(c tcase) string {
	return vh.Recover(func() string {
		classify := func(err error, where string) string {
			var pe jlib.ParsingError
			if stderrors.As(err, &pe) {
				if bindingCodes[pe.ErrCode()] {
					return fmt.Sprintf("ERR %d %d", pe.ErrCode(), pe.Position())
				}
				return fmt.Sprintf("OTHER %d", pe.ErrCode())
			}
			return "OTHER bare " + where
		}
		s := jschema.New("root", c.root)
		for _, e := range c.enums {
			if err := s.AddRule(e[0], enum.New(e[0], e[1])); err != nil {
				return classify(err, "addrule")
			}
		}
		// the added types and rules are valid texts: AddType loads the ROOT first and hands back its error
		for _, t := range c.types {
			if err := s.AddType(t[0], jschema.New(t[0], t[1])); err != nil {
				return classify(err, "addtype")
			}
		}
		ast, err := s.GetAST()
		if err != nil {
			return classify(err, "getast")
		}
		if ast.TokenType == "" && len(ast.Children) == 0 && ast.Value == "" {
			return "EMPTY"
		}
		return dumpN(ast, false)
	})
}

var corner = []string{
	`1`, `"a"`, `true`, `null`, `1.50`, `{}`, `[]`, `@a`, `@a | @b`, `@a|@b  |  @a`,
	`1 // {min: 0}`, `1 // {min: 0, max: 5, }`, `1 /* {min: 0} */`, "1 /*\n {min: 0,\n max: 5\n}\n - note */",
	`1 // note only`, `1 // {} - x`, `1 // {"min": 0, "type" : "integer"}`, `"s" // {regex: "a\\.b\"é"}`,
	`"s" // {type: "email"}`, `1.5 // {precision: 2}`, `1.5 // {type: "decimal", precision: 1}`, `1 // {type: "any"}`,
	`1 // {type: "@a"}`, `1 // {or: ["@a", "integer", {type: "string", minLength: 1}, {enum: [1, "x"]}]}`,
	`1 // {enum: [1, 2.0, "x", true, null]}`, `1 // {enum: @E}`, "1 /* {enum: [1, // one\n 2 // two\n]} */",
	"1 /* {enum: [ // zero\n 1]} */", `{} // {allOf: "@a"}`, `{} // {allOf: ["@a", "@b"]}`, `{} // {allOf: ["@a"]}`, `{} // {allOf: []}`,
	`{} // {additionalProperties: true}`, `{} // {additionalProperties: "true"}`, `{} // {additionalProperties: "@a"}`, `{} // {additionalProperties: "any"}`,
	`{} // {additionalProperties: "string"}`, `{} // {additionalProperties: false}`, `[] // {minItems: 0, maxItems: 10}`,
	"{\n \"a\": 1, // {optional: true}\n @k: 2, // {nullable: false}\n \"c\": [\n  @a, // x\n  @a | @b // {optional: false} - y\n ]\n}",
	`@a // {optional: true}`, `@a // {type: "@a"}`, `@a // {type: "mixed"}`, `@a | @b // {or: ["@a", "@b"]}`, `@a // {nullable: true} - n`,
	`1 // {min: 1, min: 2}`, `1 // {foo: 1}`, `1 // {min: "x"}`, `1 // {nullable: 1}`, `1 // {minLength: 01}`, `"s" // {minLength: 99999999999999999999999}`,
	`1 // {const: true, nullable: true, optional: false}`, `1 // {exclusiveMinimum: true, min: 0}`, `1 // {or: ["@a"]}`, `1 // {or: []}`,
	`1 // {or: [{}, "@a"]}`, `1 // {or: [{type: "@a"}, {type: "@b", nullable: true}]}`, `1 // {or: ["decimal", "@a"]}`, `1 // {or: ["enum", "@a"]}`,
	`1 // {or: [1, "@a"]}`, `1 // {enum: [1, 1]}`, `1 // {enum: [1, "1"]}`, `1 // {enum: [[1]]}`, `1 // {enum: 1}`, `{} // {allOf: "a"}`, `{} // {allOf: 1}`,
	`"A\n" // {const: true}`, `{"A": 1}`, `{"a": {"b": [1, [2, {"c": null}]]}}`, `[1, "a"] // two`, "[\n 1, // {min: 0} - one\n \"a\" // {minLength: 1} - two\n]",
	`1 // {regex: "a\'b"}`, `"x" // {regex: "\ud800"}`, `1 // { min : 0 , "max" : 5 } -   spaced note  `, `1 // {type: "integer"} - ü é`,
}

func Run(args []string) {
	rep := vh.NewReport("c16-text", "schema texts of the c16 generator (abstract schema → JSight in many surface styles, with the user types and named "+
		"enum rules added to the real schema), of the c13 generator, 1-3 byte mutations of both and a list of corner spellings; real GetAST() "+
		"(canonical dump of every node field and every rule node: token type, value, comment, source, properties, items) = Lean text-level model "+
		"astOfText (driver `astt`), or the same scanner / loader error; nontrivial = the model answered with an AST holding a rule or a note")
	r := vh.NewRand(16077)
	n := vh.Pick(9000, 900000)
	alphabet := []byte("{}[]:,\"\\/#@*|-_01. \n\rtnea")
	var cases []tcase
	for _, c := range corner {
		cases = append(cases, tcase{root: c, tag: "corner",
			types: [][2]string{{"@a", `1`}, {"@b", `"s"`}, {"@k", `"key"`}}, enums: [][2]string{{"@E", `[1, 2]`}}})
	}
	base := vh.Seed()*1000003 + 16077
	for i := 0; i < n; i++ {
		c, _ := c16.GenCase(base*7919 + int64(i))
		tc := tcase{root: c.Schema, types: c.Types, enums: c.Enums, tag: "c16gen"}
		cases = append(cases, tc)
		if i%3 == 0 {
			m := tc
			m.root = string(vh.Mutate(r, []byte(tc.root), alphabet))
			m.tag = "c16mut"
			cases = append(cases, m)
		}
		if i%2 == 0 {
			st := c13.GenSchemaText(vh.Seed()*1000003 + int64(i))
			var ts [][2]string
			for _, nm := range sortedKeys(st.Types) {
				ts = append(ts, [2]string{"@" + nm, st.Types[nm]})
			}
			tc2 := tcase{root: st.Root, types: ts, tag: "c13gen"}
			cases = append(cases, tc2)
			if i%4 == 0 {
				m := tc2
				m.root = string(vh.Mutate(r, []byte(tc2.root), alphabet))
				m.tag = "c13mut"
				cases = append(cases, m)
			}
		}
	}
	impl := make([]string, len(cases))
	var wg sync.WaitGroup
	next := make(chan int, 1024)
	for w := 0; w < runtime.NumCPU(); w++ {
		wg.Add(1)
		go func() {
			defer wg.Done()
			for i := range next {
				impl[i] = real(cases[i])
			}
		}()
	}
	for i := range cases {
		next <- i
	}
	close(next)
	wg.Wait()
	reqs := make([]string, len(cases))
	for i, c := range cases {
		reqs[i] = "astt " + hx(c.root)
	}
	model := vh.AskModelSharded(reqs, 16)
	genOK, genUnsup := 0, 0
	for i, c := range cases {
		want, got := impl[i], model[i]
		input := fmt.Sprintf("%q", c.root)
		if len(c.enums) > 0 {
			input += fmt.Sprintf(" enums=%q", c.enums)
		}
		nontriv := strings.HasPrefix(got, "(") && (strings.Contains(got, "=<") || !strings.Contains(got, " c= "))
		rep.Case(c.tag+":"+c.root, nontriv)
		rep.Stat("stream_" + c.tag)
		unsup := strings.HasPrefix(got, "UNSUP")
		if unsup {
			rep.Stat("model_unsup")
			rep.Stat("unsup:" + strings.TrimPrefix(got, "UNSUP "))
		}
		switch {
		case strings.HasPrefix(want, "("):
			rep.Stat("real_ast")
			if c.tag == "c16gen" || c.tag == "c13gen" {
				genOK++
				if unsup {
					genUnsup++
				}
			}
			if unsup {
				rep.Stat("real_ast_model_unsup")
			} else if got != want {
				rep.AddDiff(vh.Diff{Component: "c16-text-ast", Input: input, Impl: clip(want), Model: clip(got), Note: firstDiff(want, got)})
			} else {
				rep.Stat("ast_equal")
				countFeatures(rep, got)
			}
		case strings.HasPrefix(want, "ERR "):
			rep.Stat("real_err_" + strings.Fields(want)[1])
			if unsup {
				rep.Stat("real_err_model_unsup")
			} else if strings.HasPrefix(want, "ERR 402 ") && strings.HasPrefix(got, "(") && strings.Contains(got, "616c6c4f66=") {
				// 402 raised by CompileAllOf (the same parent / the same key inherited twice): a later phase, the
				// model's AST carries the allOf rule
				rep.Stat("real_402_from_allOf_expansion")
			} else if embeddedFirst(want, got) {
				// 801 raised by an embedded value loader (enum / or / allOf) on an event the loader model passes
				// over, before the model's own (later) error: the loader model leaves those values uninterpreted
				rep.Stat("real_801_inside_embedded_value_first")
			} else if got != want {
				rep.AddDiff(vh.Diff{Component: "c16-text-error", Input: input, Impl: want, Model: clip(got), Level: "correspondence"})
			} else {
				rep.Stat("err_equal")
			}
		case want == "EMPTY":
			rep.Stat("real_empty")
			if !unsup && !strings.HasPrefix(got, "ERR") {
				rep.AddDiff(vh.Diff{Component: "c16-text-empty", Input: input, Impl: want, Model: clip(got), Level: "correspondence"})
			}
		default:
			// a failure outside the scanner / loader classes: GetAST withholds the AST of load()
			rep.Stat("real_other_error")
			rep.Stat("real_other_error_" + c.tag)
			if (c.tag == "c16gen" || c.tag == "c13gen") && strings.HasPrefix(got, "(") {
				// the generated streams are valid by construction: GetAST must not fail on them
				rep.AddDiff(vh.Diff{Component: "c16-text-valid", Input: input, Impl: want, Model: clip(got),
					Note: "GetAST failed on a generated schema (valid by construction) for which the model has an AST"})
			}
			if strings.HasPrefix(got, "(") {
				rep.Stat("real_other_error_model_ast")
			} else if strings.HasPrefix(got, "ERR") {
				rep.Stat("real_other_error_model_err")
				rep.Stat("real_" + strings.ReplaceAll(want, " ", "_") + "_model_" + strings.Fields(got)[1])
			}
		}
	}
	if genOK > 0 {
		rep.Stats["generated_unsup_permille"] = 1000 * genUnsup / genOK
		if 5*genUnsup > genOK {
			rep.AddDiff(vh.Diff{Component: "c16-text-coverage", Input: "generated streams", Impl: fmt.Sprintf("%d ASTs", genOK),
				Model: fmt.Sprintf("%d UNSUP (above 20 %%)", genUnsup), Level: "correspondence"})
		}
	}
	rep.Finish()
}

func embeddedFirst(want, got string) bool {
	var c1, p1, c2, p2 int
	if n, _ := fmt.Sscanf(want, "ERR %d %d", &c1, &p1); n != 2 {
		return false
	}
	if c1 == 801 && strings.HasPrefix(got, "PANIC ") {
		return true // the loader model ran on past the refused value into an event sequence the library never sees
	}
	if n, _ := fmt.Sscanf(got, "ERR %d %d", &c2, &p2); n != 2 {
		return false
	}
	return c1 == 801 && p1 < p2
}

func sortedKeys(m map[string]string) []string {
	var ks []string
	for k := range m {
		ks = append(ks, k)
	}
	for i := range ks {
		for j := i + 1; j < len(ks); j++ {
			if ks[j] < ks[i] {
				ks[i], ks[j] = ks[j], ks[i]
			}
		}
	}
	return ks
}

func clip(s string) string {
	if len(s) > 1500 {
		return s[:1500] + "…"
	}
	return s
}

func firstDiff(a, b string) string {
	i := 0
	for i < len(a) && i < len(b) && a[i] == b[i] {
		i++
	}
	lo := i - 40
	if lo < 0 {
		lo = 0
	}
	ha, hb := i+60, i+60
	if ha > len(a) {
		ha = len(a)
	}
	if hb > len(b) {
		hb = len(b)
	}
	return fmt.Sprintf("first difference at %d: real …%s | model …%s", i, a[lo:ha], b[lo:hb])
}

func countFeatures(rep *vh.Report, d string) {
	for _, f := range [][2]string{{";g;", "feat_generated_rule"}, {"<object;", "feat_or_ruleset"}, {"<reference;", "feat_rule_reference"},
		{"656e756d=<array", "feat_enum_inline"}, {"616c6c4f66=", "feat_allOf"}, {"6f72=<array", "feat_or"}, {"(reference", "feat_shortcut_node"},
		{":s t=", "feat_key_shortcut"}} {
		if strings.Contains(d, f[0]) {
			rep.Stat(f[1])
		}
	}
	if !strings.Contains(d, " c= ") || strings.Count(d, " c= ") < strings.Count(d, " c=") {
		rep.Stat("feat_note")
	}
}
