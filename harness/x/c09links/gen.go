package c09links

import (
	"fmt"
	"math/rand"
	"strings"

	tg "verifharness/x/tgraph"
)

// ---- IR: the Go twin of `LK.N` (lean/JSight/Links.lean) ----

type kind int

const (
	kLit kind = iota
	kRef
	kArr
	kObj
)

// member of an or rule: a user type (written "@A" or {type: "@A"}) or a builtin (written "integer" or {type: "integer"})
type member struct {
	user bool
	name string // user: "@A"
	jt   string // builtin: int str flt bool null
	obj  bool   // written as a rule-set object
}

type prop struct {
	key      string
	shortcut bool
	val      *node
}

type node struct {
	kind kind
	// literal
	jt      string // int str flt bool null
	typ     string // {type: "@A"}
	members []member
	enum    string // {enum: @E}
	// reference
	names []string
	// array
	items []*node
	// object
	allOf     []string
	allOfList bool
	addp      string
	addpFirst bool // print additionalProperties before allOf
	props     []prop
	// noise
	optional, nullable bool
}

var litText = map[string]string{"int": "1", "str": `"ab"`, "flt": "2.5", "bool": "true", "null": "null"}
var jtWord = map[string]string{"int": "integer", "str": "string", "flt": "float", "bool": "boolean", "null": "null"}

func (m member) text() string {
	switch {
	case m.user && m.obj:
		return `{type: "` + m.name + `"}`
	case m.user:
		return m.name // tgraph quotes names starting with '@'
	case m.obj:
		return `{type: "` + jtWord[m.jt] + `"}`
	}
	return `"` + jtWord[m.jt] + `"`
}

// toTG converts to the printer's IR (one EXAMPLE node per line).
func (n *node) toTG() *tg.Node {
	t := &tg.Node{Optional: n.optional, Nullable: n.nullable}
	switch n.kind {
	case kLit:
		t.Kind = tg.KLit
		t.Lit = litText[n.jt]
		t.TypeRef = n.typ
		for _, m := range n.members {
			t.OrRule = append(t.OrRule, m.text())
		}
		if n.enum != "" {
			t.Extra = "enum: " + n.enum
		}
	case kRef:
		t.Kind = tg.KRef
		t.Names = n.names
	case kArr:
		t.Kind = tg.KArr
		for _, it := range n.items {
			t.Items = append(t.Items, it.toTG())
		}
	case kObj:
		t.Kind = tg.KObj
		t.AllOf = n.allOf
		t.AllOfList = n.allOfList
		if n.addp != "" && n.addpFirst {
			t.Extra = `additionalProperties: "` + n.addp + `"`
		} else {
			t.AddProps = n.addp
		}
		for _, p := range n.props {
			t.Props = append(t.Props, tg.Prop{Key: p.key, Shortcut: p.shortcut, Val: p.val.toTG()})
		}
	}
	return t
}

func (n *node) text() string { return n.toTG().Text() }

// sx: the S-expression the Lean driver reads (`lk`, Driver/LK.lean).
func (n *node) sx() string {
	switch n.kind {
	case kLit:
		tl := "-"
		if n.typ != "" {
			tl = "(t " + n.typ + ")"
		} else if len(n.members) > 0 {
			mm := make([]string, len(n.members))
			for i, m := range n.members {
				switch {
				case m.user && m.obj:
					mm[i] = "(t " + m.name + ")"
				case m.user:
					mm[i] = m.name
				default:
					mm[i] = "(b " + m.jt + ")"
				}
			}
			tl = "(o " + strings.Join(mm, " ") + ")"
		}
		e := "-"
		if n.enum != "" {
			e = n.enum
		}
		return "(l " + n.jt + " " + tl + " " + e + ")"
	case kRef:
		return "(r " + strings.Join(n.names, " ") + ")"
	case kArr:
		var sb strings.Builder
		sb.WriteString("(a")
		for _, it := range n.items {
			sb.WriteString(" " + it.sx())
		}
		sb.WriteString(")")
		return sb.String()
	}
	var sb strings.Builder
	sb.WriteString("(o (ao")
	for _, p := range n.allOf {
		sb.WriteString(" " + p)
	}
	ap := "-"
	if n.addp != "" {
		ap = n.addp
	}
	sb.WriteString(") (ap " + ap + ")")
	for _, p := range n.props {
		sc := "0"
		if p.shortcut {
			sc = "1"
		}
		sb.WriteString(" (p " + p.key + " " + sc + " " + p.val.sx() + ")")
	}
	sb.WriteString(")")
	return sb.String()
}

type tdef struct {
	name  string
	body  *node
	owner int // -1: added to the root; i: added to the type object number i (`types[i].AddType(name, this)`); -2: created, never added
}

type graph struct {
	root  *node
	types []tdef
	rules [][2]string // enum rules registered with the root and with every type
	tag   string      // generator stream
}

func (g *graph) sx() string {
	var sb strings.Builder
	sb.WriteString("lk (g " + g.root.sx())
	for _, t := range g.types {
		switch {
		case t.owner >= 0:
			sb.WriteString(" (n " + t.name + " " + g.types[t.owner].name + " " + t.body.sx() + ")")
		case t.owner == -2:
			sb.WriteString(" (x " + t.name + " " + t.body.sx() + ")")
		default:
			sb.WriteString(" (t " + t.name + " " + t.body.sx() + ")")
		}
	}
	sb.WriteString(")")
	return sb.String()
}

func (g *graph) canon() string {
	var sb strings.Builder
	sb.WriteString("ROOT " + g.root.text())
	for _, t := range g.types {
		own := ""
		if t.owner >= 0 {
			own = " (added to " + g.types[t.owner].name + ")"
		} else if t.owner == -2 {
			own = " (created, added to nothing)"
		}
		sb.WriteString("\nTYPE " + t.name + own + " = " + t.body.text())
	}
	for _, r := range g.rules {
		sb.WriteString("\nRULE " + r[0] + " = " + r[1])
	}
	return sb.String()
}

func (n *node) walk(f func(*node)) {
	f(n)
	for _, it := range n.items {
		it.walk(f)
	}
	for _, p := range n.props {
		p.val.walk(f)
	}
}

// ---- generators ----

type sort int

const (
	sObj sort = iota
	sStr
	sInt
	sAlias
	sArr
)

// namePool: names that differ in case, carry digits, '-', '_', and two long ones.
var namePool = []string{"@a", "@A", "@a1", "@A1", "@a_b", "@a-b", "@T0", "@t0", "@Ab", "@aB", "@x9",
	"@" + strings.Repeat("L", 40), "@" + strings.Repeat("L", 39) + "l", "@m0", "@M0", "@zz"}

type gen struct {
	r       *rand.Rand
	names   []string // the table
	sorts   []sort
	pool    []string // what references are drawn from when a miss is allowed
	missP   int      // per-mille probability that a reference is drawn from the pool at large (so possibly missing)
	wild    bool     // ignore sorts
	keyNo   int
	enumOK  []string // registered enum rule names
	cur     int
	dupHeat bool // favour one name, so that it is referenced many times
	hot     string
}

func (g *gen) key() string {
	g.keyNo++
	return fmt.Sprintf("k%d", g.keyNo)
}

func (g *gen) anyName() string {
	if g.dupHeat && g.r.Intn(2) == 0 {
		return g.hot
	}
	if len(g.names) == 0 || g.r.Intn(1000) < g.missP {
		return g.pool[g.r.Intn(len(g.pool))]
	}
	return g.names[g.r.Intn(len(g.names))]
}

// pick a type of one of the wanted sorts (or, when missing is allowed / wild, anything)
func (g *gen) pick(want ...sort) string {
	if g.wild || g.r.Intn(1000) < g.missP {
		return g.anyName()
	}
	if g.dupHeat && g.r.Intn(2) == 0 {
		return g.hot
	}
	var cand []string
	for i, s := range g.sorts {
		for _, w := range want {
			if s == w {
				cand = append(cand, g.names[i])
			}
		}
	}
	if len(cand) == 0 {
		return g.anyName()
	}
	return cand[g.r.Intn(len(cand))]
}

func (g *gen) distinct(k int, f func() string) []string {
	var out []string
	for i := 0; i < 4*k && len(out) < k; i++ {
		x := f()
		dup := false
		for _, y := range out {
			dup = dup || x == y
		}
		if !dup {
			out = append(out, x)
		}
	}
	return out
}

func (g *gen) ref() *node {
	k := 1
	if g.r.Intn(3) == 0 {
		k = 2 + g.r.Intn(2)
	}
	n := &node{kind: kRef, names: g.distinct(k, g.anyName)}
	n.nullable = g.r.Intn(8) == 0
	return n
}

// literal of type jt with references to types that accept it
func (g *gen) litRef(jt string) *node {
	n := &node{kind: kLit, jt: jt}
	want := []sort{sInt}
	if jt == "str" {
		want = []sort{sStr}
	}
	if g.r.Intn(4) == 0 {
		want = append(want, sAlias)
	}
	pk := func() string { return g.pick(want...) }
	switch g.r.Intn(6) {
	case 0, 1:
		n.typ = pk()
	default:
		m := 2 + g.r.Intn(2)
		users := g.distinct(1+g.r.Intn(m), pk)
		for _, u := range users {
			n.members = append(n.members, member{user: true, name: u, obj: g.r.Intn(3) == 0})
		}
		seen := map[string]bool{}
		for len(n.members) < m || len(n.members) < 2 {
			b := jt
			if g.r.Intn(3) == 0 {
				b = []string{"int", "str", "flt", "bool", "null"}[g.r.Intn(5)]
			}
			if seen[b] {
				b = jt
				if seen[b] {
					break
				}
			}
			seen[b] = true
			n.members = append(n.members, member{jt: b, obj: g.r.Intn(2) == 0})
		}
		if len(n.members) < 2 {
			n.members = nil
			n.typ = pk()
		} else {
			g.r.Shuffle(len(n.members), func(i, j int) { n.members[i], n.members[j] = n.members[j], n.members[i] })
		}
	}
	return n
}

func (g *gen) leaf() *node {
	jt := []string{"int", "str", "flt", "bool", "null"}[g.r.Intn(5)]
	n := &node{kind: kLit, jt: jt}
	if len(g.enumOK) > 0 && g.r.Intn(5) == 0 {
		n.jt = "str"
		n.enum = g.enumOK[g.r.Intn(len(g.enumOK))]
	}
	return n
}

func (g *gen) value(depth int) *node {
	x := g.r.Intn(100)
	switch {
	case x < 40:
		return g.ref()
	case x < 52 && depth > 0:
		n := &node{kind: kArr}
		for i := g.r.Intn(3); i > 0; i-- {
			n.items = append(n.items, g.value(depth-1))
		}
		return n
	case x < 64 && depth > 0:
		return g.object(depth - 1)
	case x < 84:
		return g.litRef([]string{"int", "int", "str"}[g.r.Intn(3)])
	}
	return g.leaf()
}

func (g *gen) object(depth int) *node {
	n := &node{kind: kObj}
	for i := g.r.Intn(4); i > 0; i-- {
		p := prop{key: g.key(), val: g.value(depth)}
		p.val.optional = g.r.Intn(10) < 3
		n.props = append(n.props, p)
	}
	if g.r.Intn(4) == 0 {
		ks := g.distinct(1+g.r.Intn(4), func() string { return g.pick(sStr) })
		for _, k := range ks {
			p := prop{key: k, shortcut: true, val: g.value(depth)}
			at := g.r.Intn(len(n.props) + 1)
			n.props = append(n.props[:at], append([]prop{p}, n.props[at:]...)...)
		}
	}
	if g.r.Intn(4) == 0 {
		later := func() string {
			if g.wild || g.r.Intn(1000) < g.missP || g.r.Intn(12) == 0 {
				return g.pick(sObj)
			}
			// keep most allOf graphs acyclic: parents declared after the current type
			var cand []string
			for i, s := range g.sorts {
				if s == sObj && i > g.cur {
					cand = append(cand, g.names[i])
				}
			}
			if len(cand) == 0 {
				return ""
			}
			return cand[g.r.Intn(len(cand))]
		}
		for _, p := range g.distinct(1+g.r.Intn(2), later) {
			if p != "" {
				n.allOf = append(n.allOf, p)
			}
		}
		n.allOfList = g.r.Intn(2) == 0
	}
	if g.r.Intn(6) == 0 {
		n.addp = g.anyName()
		n.addpFirst = g.r.Intn(2) == 0
	}
	return n
}

func (g *gen) body(s sort) *node {
	switch s {
	case sObj:
		return g.object(1 + g.r.Intn(2))
	case sAlias:
		return g.ref()
	case sArr:
		n := &node{kind: kArr}
		for i := g.r.Intn(3); i > 0; i-- {
			n.items = append(n.items, g.value(1))
		}
		return n
	case sInt:
		if g.r.Intn(3) > 0 {
			return &node{kind: kLit, jt: "int"}
		}
		return g.litRef("int")
	}
	if g.r.Intn(3) > 0 {
		n := &node{kind: kLit, jt: "str"}
		if len(g.enumOK) > 0 && g.r.Intn(4) == 0 {
			n.enum = g.enumOK[g.r.Intn(len(g.enumOK))]
		}
		return n
	}
	return g.litRef("str")
}

// randomGraph: 0..maxTypes added types drawn from the name pool.
func randomGraph(r *rand.Rand, maxTypes int, wild bool) *graph {
	g := &gen{r: r, wild: wild, pool: namePool}
	switch r.Intn(4) {
	case 0:
		g.missP = 0
	case 1:
		g.missP = 40
	case 2:
		g.missP = 150
	case 3:
		g.missP = 400
	}
	out := &graph{tag: "structured"}
	if wild {
		out.tag = "wild"
	}
	perm := r.Perm(len(namePool))
	nt := r.Intn(maxTypes + 1)
	for i := 0; i < nt; i++ {
		g.names = append(g.names, namePool[perm[i]])
		x := r.Intn(100)
		s := sObj
		switch {
		case x < 40:
		case x < 55:
			s = sStr
		case x < 70:
			s = sInt
		case x < 88:
			s = sAlias
		default:
			s = sArr
		}
		g.sorts = append(g.sorts, s)
	}
	// enum rules: names may coincide with type names (different tables)
	if r.Intn(3) == 0 {
		for i := 1 + r.Intn(2); i > 0; i-- {
			nm := namePool[r.Intn(len(namePool))]
			dup := false
			for _, e := range g.enumOK {
				dup = dup || e == nm
			}
			if !dup {
				g.enumOK = append(g.enumOK, nm)
				out.rules = append(out.rules, [2]string{nm, `["ab", "cd"]`})
			}
		}
	}
	if r.Intn(5) == 0 {
		g.hot = g.anyName()
		g.dupHeat = true
	}
	for i := 0; i < nt; i++ {
		g.cur = i
		out.types = append(out.types, tdef{g.names[i], g.body(g.sorts[i]), -1})
	}
	g.cur = nt
	switch x := r.Intn(10); {
	case x < 5:
		out.root = g.object(2)
	case x < 7:
		out.root = g.ref()
	case x < 8:
		out.root = &node{kind: kArr, items: []*node{g.value(1), g.value(1)}}
	case x < 9:
		out.root = g.litRef("int")
	default:
		out.root = g.leaf() // references only inside the added types
	}
	if r.Intn(3) == 0 {
		out.assignOwners(r)
	}
	return out
}

// ownership: with probability 1/3 the graph gets an ownership structure: every type but the first is added to the
// root or to an EARLIER type object (so every type reaches the root table by hoisting), favouring chains.
func (g *graph) assignOwners(r *rand.Rand) {
	if len(g.types) < 2 {
		return
	}
	for i := 1; i < len(g.types); i++ {
		switch x := r.Intn(10); {
		case x < 5:
			g.types[i].owner = i - 1 // chain
		case x < 8:
			g.types[i].owner = r.Intn(i)
		}
	}
	if r.Intn(6) == 0 { // an object that is added to nothing: whatever was added to it (directly or not) is in no table
		g.types[r.Intn(len(g.types))].owner = -2
	}
	g.tag += "+owned"
}

// keysGraph: objects with 2..4 key shortcuts, in the root and inside an added type; one of them — first, middle
// or last — names a type that is missing or is not a string type (an integer, an object, an alias of an integer,
// an or-alias of a string and an integer, an alias cycle); sometimes none, sometimes two.
func keysGraph(r *rand.Rand) *graph {
	g := &graph{tag: "keys"}
	good := []tdef{td("@s1", lit("str")), td("@s2", &node{kind: kLit, jt: "str"}), td("@s3", ref("@s1")), td("@s4", ref("@s1", "@s2")),
		td("@s5", typ("str", "@s1")), td("@s6", ref("@s3"))}
	bad := []tdef{td("@i1", lit("int")), td("@o1", obj()), td("@ai", ref("@i1")), td("@mx", ref("@s1", "@i1")), td("@cy", ref("@cy")),
		td("@ar", arr()), td("@am", ref("@nowhere")), td("@b1", lit("bool"))}
	g.types = append(g.types, good...)
	g.types = append(g.types, bad...)
	r.Shuffle(len(g.types), func(i, j int) { g.types[i], g.types[j] = g.types[j], g.types[i] })
	pno := 0
	keyObj := func() *node {
		n := 2 + r.Intn(3)
		o := &node{kind: kObj}
		perm := r.Perm(len(good))
		for i := 0; i < n; i++ {
			o.props = append(o.props, sc(good[perm[i]].name, lit("int")))
		}
		nbad := []int{0, 1, 1, 1, 1, 1, 2}[r.Intn(7)]
		for _, at := range r.Perm(n)[:nbad] {
			if r.Intn(2) == 0 {
				o.props[at].key = []string{"@missing", "@S1", "@s7", "@s"}[r.Intn(4)]
			} else {
				o.props[at].key = bad[r.Intn(len(bad))].name
			}
		}
		// no duplicate keys
		seen := map[string]bool{}
		var pp []prop
		for _, p := range o.props {
			if !seen[p.key] {
				seen[p.key] = true
				pp = append(pp, p)
			}
		}
		o.props = pp
		// plain properties in between
		for i := r.Intn(3); i > 0; i-- {
			at := r.Intn(len(o.props) + 1)
			pno++
			p := pr(fmt.Sprintf("p%d", pno), lit("int"))
			o.props = append(o.props[:at], append([]prop{p}, o.props[at:]...)...)
		}
		return o
	}
	switch r.Intn(3) {
	case 0:
		g.root = keyObj()
	case 1:
		g.root = obj(pr("in", ref("@holder")))
		g.types = append(g.types, td("@holder", keyObj()))
	default:
		g.root = obj(pr("a", keyObj()), pr("in", ref("@holder")))
		g.types = append(g.types, td("@holder", obj(pr("deep", arr(keyObj())))))
	}
	if r.Intn(3) == 0 {
		g.assignOwners(r)
	}
	return g
}

// chainGraph: ownership chains 3..5 levels deep — root.AddType(@c0, C0); C0.AddType(@c1, C1); C1.AddType(@c2, C2) … —
// with references along the chain in every reference form; the last type references one more name, which is
// added to the last type, or to the root, or nowhere (then it is the one Check must name).
func chainGraph(r *rand.Rand) *graph {
	g := &graph{tag: "chain"}
	depth := 3 + r.Intn(3)
	name := func(i int) string { return fmt.Sprintf("@c%d", i) }
	qno := 0
	link := func(to string, last bool) *node {
		switch r.Intn(7) {
		case 0:
			return obj(pr("x", ref(to)))
		case 1:
			return obj(pr("x", arr(ref(to))))
		case 2:
			return obj(pr("x", ref(to, "@leaf")))
		case 3:
			return addp(obj(pr("y", lit("int"))), to)
		case 4:
			return obj(pr("x", orr("int", u(to), b("int"))))
		case 5:
			if last {
				return obj(sc(to, lit("int")))
			}
			return obj(pr("x", typ("int", to)))
		}
		qno++
		return allOf(obj(pr(fmt.Sprintf("q%d", qno), lit("int"))), to)
	}
	for i := 0; i < depth; i++ {
		to := name(i + 1)
		if i == depth-1 {
			to = "@end"
		}
		g.types = append(g.types, tdef{name(i), link(to, i == depth-1), i - 1})
	}
	g.types = append(g.types, td("@leaf", lit("int")))
	switch r.Intn(4) {
	case 0: // really missing
	case 1:
		g.types = append(g.types, tdef{"@end", lit("str"), depth - 1})
	case 2:
		g.types = append(g.types, td("@end", obj(pr("e", lit("int")))))
	default:
		g.types = append(g.types, tdef{"@end", obj(pr("e", lit("int"))), r.Intn(depth)})
	}
	switch r.Intn(6) {
	case 0, 1: // break the chain: one link added to the root instead
		g.types[1+r.Intn(depth-1)].owner = -1
	case 2: // cut the chain: one link added to nothing, the rest of the chain is in no table
		g.types[r.Intn(depth)].owner = -2
	}
	switch r.Intn(3) {
	case 0:
		g.root = obj(pr("r", ref(name(0))))
	case 1:
		g.root = ref(name(0))
	default:
		g.root = obj(pr("r", ref(name(0))), pr("s", ref(name(r.Intn(depth)))))
	}
	return g
}

// ---- hand-written corpus (run first) ----

func lit(jt string) *node                 { return &node{kind: kLit, jt: jt} }
func ref(names ...string) *node           { return &node{kind: kRef, names: names} }
func arr(items ...*node) *node            { return &node{kind: kArr, items: items} }
func obj(props ...prop) *node             { return &node{kind: kObj, props: props} }
func pr(k string, v *node) prop           { return prop{key: k, val: v} }
func sc(k string, v *node) prop           { return prop{key: k, shortcut: true, val: v} }
func typ(jt, t string) *node              { return &node{kind: kLit, jt: jt, typ: t} }
func orr(jt string, mm ...member) *node   { return &node{kind: kLit, jt: jt, members: mm} }
func u(n string) member                   { return member{user: true, name: n} }
func ut(n string) member                  { return member{user: true, name: n, obj: true} }
func b(jt string) member                  { return member{jt: jt} }
func bt(jt string) member                 { return member{jt: jt, obj: true} }
func allOf(o *node, pp ...string) *node   { o.allOf = pp; o.allOfList = len(pp) > 1; return o }
func addp(o *node, t string) *node        { o.addp = t; return o }
func enumLit(rule string) *node           { return &node{kind: kLit, jt: "str", enum: rule} }
func td(name string, body *node) tdef     { return tdef{name, body, -1} }

// in: the type is added to the type object number `owner` of the graph, not to the root
func in(owner int, t tdef) tdef { t.owner = owner; return t }
func gr(root *node, types ...tdef) *graph { return &graph{root: root, types: types, tag: "corpus"} }

func corpus() []*graph {
	long := "@" + strings.Repeat("L", 40)
	gs := []*graph{
		// every reference syntax, resolved
		gr(obj(pr("a", ref("@A")), pr("b", ref("@A", "@B")), pr("c", typ("int", "@I")), pr("d", orr("int", u("@I"), ut("@J"), b("int"))),
			sc("@S", lit("int")), pr("e", arr(ref("@A"), ref("@B")))),
			td("@A", obj()), td("@B", obj(pr("x", lit("int")))), td("@I", lit("int")), td("@J", lit("int")), td("@S", lit("str"))),
		gr(addp(allOf(obj(pr("own", lit("int"))), "@P", "@Q"), "@T"), td("@P", obj(pr("p", lit("int")))), td("@Q", obj(pr("q", lit("str")))), td("@T", lit("int"))),
		// the same, each form missing
		gr(ref("@M")), gr(ref("@A", "@M"), td("@A", obj())), gr(typ("int", "@M")), gr(orr("int", u("@M"), b("int"))), gr(orr("int", b("int"), ut("@M"))),
		gr(obj(sc("@M", lit("int")))), gr(addp(obj(), "@M")), gr(allOf(obj(), "@M")), gr(allOf(obj(), "@P", "@M"), td("@P", obj())),
		gr(arr(ref("@M"))), gr(obj(pr("a", obj(pr("b", arr(obj(pr("c", ref("@M"))))))))),
		// unreferenced added type with a dangling reference inside; references only inside added types
		gr(lit("int"), td("@Z", obj(pr("x", ref("@M9"))))),
		gr(lit("int"), td("@Z", obj(pr("x", ref("@Y")))), td("@Y", arr(ref("@M")))),
		gr(ref("@A"), td("@A", obj(pr("x", ref("@B")))), td("@B", obj(pr("y", ref("@C")))), td("@C", addp(obj(), "@M"))),
		// sort order of the table: "@B" < "@a"; digits < upper < lower; '-' < digits < '_'
		gr(lit("int"), td("@a", obj(pr("x", ref("@Ma")))), td("@B", obj(pr("x", ref("@MB"))))),
		gr(lit("int"), td("@a_b", ref("@M1")), td("@a-b", ref("@M2")), td("@a1", ref("@M3"))),
		gr(lit("int"), td("@t0", ref("@M1")), td("@T0", ref("@M2"))),
		// names differing in case; long names
		gr(obj(pr("a", ref("@ab")), pr("b", ref("@Ab"))), td("@Ab", obj())),
		gr(obj(pr("a", ref("@Ab")), pr("b", ref("@aB"))), td("@Ab", obj())),
		gr(ref(long), td(long, obj())), gr(ref(long[:len(long)-1]+"l"), td(long, obj())),
		// the same name many times
		gr(obj(pr("a", ref("@A")), pr("b", ref("@A")), pr("c", ref("@A", "@B")), sc("@A", lit("int")), pr("d", arr(ref("@A"), ref("@A")))), td("@A", lit("str")), td("@B", lit("int"))),
		gr(addp(allOf(obj(pr("a", ref("@M")), pr("b", ref("@M"))), "@M"), "@M")),
		// enum rule names are not type names
		{root: obj(pr("a", enumLit("@E")), pr("b", ref("@A"))), types: []tdef{td("@A", obj())}, rules: [][2]string{{"@E", `["ab", "cd"]`}}, tag: "corpus"},
		{root: obj(pr("a", enumLit("@A")), pr("b", ref("@A"))), types: []tdef{td("@A", obj())}, rules: [][2]string{{"@A", `["ab", "cd"]`}}, tag: "corpus"},
		{root: obj(pr("a", enumLit("@A")), pr("b", ref("@B"))), rules: [][2]string{{"@A", `["ab", "cd"]`}}, tag: "corpus"},
		{root: obj(pr("a", enumLit("@A"))), types: []tdef{td("@Z", enumLit("@A"))}, rules: [][2]string{{"@A", `["ab", "cd"]`}}, tag: "corpus"},
		// order of the lookups: allOf before everything; root before types; own children before inherited ones
		gr(obj(pr("a", ref("@M1")), pr("b", allOf(obj(), "@M2")))),
		gr(lit("int"), td("@A", allOf(obj(pr("k", ref("@N1"))), "@P")), td("@P", obj(pr("x", ref("@N2"))))),
		gr(allOf(obj(), "@P"), td("@P", obj(sc("@K", lit("int"))))),
		gr(addp(obj(sc("@M2", lit("int"))), "@M1")),
		gr(obj(pr("a", ref("@A")), pr("b", ref("@M1"))), td("@A", obj(pr("x", ref("@B", "@M2")))), td("@B", lit("int"))),
		gr(obj(pr("a", ref("@A"))), td("@A", obj(pr("x", ref("@B", "@M2")), pr("y", ref("@M3", "@B")))), td("@B", lit("int")), td("@0", ref("@M4"))),
		// descent of the JSON-type collection through type roots
		gr(orr("int", u("@A"), u("@N")), td("@A", typ("int", "@M"))),
		gr(orr("int", u("@A"), u("@N")), td("@A", ref("@M"))),
		gr(orr("int", u("@A"), b("int")), td("@A", orr("int", u("@B"), b("str"))), td("@B", typ("int", "@A"))),
		gr(typ("int", "@A"), td("@A", typ("int", "@A"))),
		gr(typ("int", "@S"), td("@S", lit("str"))),
		gr(obj(pr("a", typ("int", "@S")), pr("b", ref("@M"))), td("@S", lit("str"))),
		// key shortcut types
		gr(obj(sc("@K", lit("int"))), td("@K", ref("@S")), td("@S", lit("str"))),
		gr(obj(sc("@K", lit("int"))), td("@K", ref("@S", "@T")), td("@S", lit("str")), td("@T", lit("str"))),
		gr(obj(sc("@K", lit("int"))), td("@K", ref("@S", "@I")), td("@S", lit("str")), td("@I", lit("int"))),
		gr(obj(sc("@K", lit("int"))), td("@K", ref("@K"))),
		gr(obj(sc("@K", lit("int"))), td("@K", ref("@M"))),
		gr(obj(sc("@K", lit("int"))), td("@K", lit("int"))),
		gr(obj(sc("@K", lit("int"))), td("@K", typ("str", "@S")), td("@S", lit("str"))),
		// allOf: recursion, non-object parent, diamond, additionalProperties conflict
		gr(lit("int"), td("@A", allOf(obj(), "@A"))),
		gr(lit("int"), td("@A", allOf(obj(), "@B")), td("@B", allOf(obj(), "@A"))),
		gr(allOf(obj(), "@I"), td("@I", lit("int"))),
		gr(allOf(obj(), "@P", "@Q"), td("@P", allOf(obj(pr("p", lit("int"))), "@R")), td("@Q", allOf(obj(pr("q", lit("int"))), "@R")), td("@R", obj(pr("r", lit("int"))))),
		gr(allOf(obj(), "@P", "@Q"), td("@P", allOf(obj(pr("p", lit("int"))), "@R")), td("@Q", allOf(obj(pr("q", lit("int"))), "@R")), td("@R", obj())),
		gr(addp(allOf(obj(), "@P"), "@T"), td("@P", addp(obj(), "@U")), td("@T", lit("int")), td("@U", lit("int"))),
		gr(addp(allOf(obj(), "@P"), "@T"), td("@P", addp(obj(), "@T")), td("@T", lit("int"))),
		gr(allOf(obj(), "@P"), td("@P", addp(obj(), "@M"))),
		gr(obj(pr("n", allOf(obj(pr("o", lit("int"))), "@P"))), td("@P", obj(pr("x", allOf(obj(), "@Q")))), td("@Q", obj(sc("@M", lit("int"))))),
		// the statement at full strength fails because another error comes first (LK.witness703, theorem links_full_false)
		gr(allOf(obj(pr("b", ref("@M"))), "@A"), td("@A", allOf(obj(), "@A"))),
		// several key shortcuts, the bad one first / in the middle / last
		gr(obj(sc("@M", lit("int")), sc("@S", lit("int")), sc("@T", lit("int"))), td("@S", lit("str")), td("@T", lit("str"))),
		gr(obj(sc("@S", lit("int")), sc("@M", lit("int")), sc("@T", lit("int"))), td("@S", lit("str")), td("@T", lit("str"))),
		gr(obj(sc("@S", lit("int")), sc("@T", lit("int")), sc("@M", lit("int"))), td("@S", lit("str")), td("@T", lit("str"))),
		gr(obj(sc("@S", lit("int")), sc("@T", lit("int")), sc("@I", lit("int"))), td("@S", lit("str")), td("@T", lit("str")), td("@I", lit("int"))),
		gr(ref("@H"), td("@H", obj(sc("@S", lit("int")), pr("p", lit("int")), sc("@I", lit("int")), sc("@T", lit("int")))), td("@S", lit("str")), td("@T", lit("str")), td("@I", lit("int"))),
		// ownership chains: root <- @a <- @b <- @c
		gr(obj(pr("a", ref("@a"))), td("@a", obj(pr("b", ref("@b")))), in(0, td("@b", obj(pr("c", ref("@c"))))), in(1, td("@c", obj(pr("d", lit("int")))))),
		gr(obj(pr("a", ref("@a"))), td("@a", obj(pr("b", ref("@b")))), in(0, td("@b", obj(pr("c", ref("@c"))))), in(1, td("@c", obj(pr("d", ref("@m")))))),
		gr(obj(pr("a", ref("@a")), sc("@k", lit("int"))), td("@a", obj(pr("z", lit("int")))), in(0, td("@k", lit("str")))),
		gr(obj(pr("a", ref("@a"))), td("@a", obj(pr("z", ref("@b", "@c")))), in(0, td("@b", lit("int")))),
		// … before commit 8f3890e allOf was resolved against the root's OWN table only, and only the root's own types
		// were compiled (regression model LK.pinnedLinkCheckO): LK.witnessNestedAllOf (a missing allOf parent inside a
		// nested type went unnoticed) and LK.witnessNestedParent (an allOf parent that was added to another type was
		// reported as not found). On the current tree: 1302 "@m", resp. OK (LK.ownedNestedAllOf_now / ownedNestedParent_now).
		gr(obj(pr("a", ref("@a"))), td("@a", obj(pr("b", ref("@b")))), in(0, td("@b", allOf(obj(pr("x", lit("int"))), "@m")))),
		gr(allOf(obj(pr("a", ref("@a"))), "@b"), td("@a", obj(pr("k", lit("int")))), in(0, td("@b", obj(pr("x", lit("int")))))),
		gr(obj(pr("a", ref("@a"))), td("@a", allOf(obj(pr("k", lit("int"))), "@b")), in(0, td("@b", obj(pr("x", lit("int")))))),
		gr(obj(pr("a", ref("@a"))), td("@a", obj(pr("b", ref("@b")))), in(0, td("@b", allOf(obj(pr("x", lit("int"))), "@c"))), in(1, td("@c", obj(pr("d", lit("int")))))),
		// a type added to an object that is itself added to nothing is in no table
		gr(obj(pr("a", ref("@a"))), td("@a", obj(pr("b", ref("@b")))), tdef{"@z", lit("int"), -2}, in(2, td("@b", lit("int")))),
		// UsedUserTypes on texts with allOf (compile grafts the parent's properties and removes the rule)
		gr(allOf(obj(pr("own", ref("@A"))), "@P"), td("@P", obj(pr("p", ref("@Q")))), td("@Q", obj()), td("@A", lit("int"))),
		gr(ref("@T"), td("@T", allOf(obj(pr("own", ref("@A"))), "@P", "@P2")), td("@P", obj(pr("p", ref("@Q")))), td("@P2", addp(obj(sc("@K", lit("int"))), "@Q")), td("@Q", obj()), td("@A", lit("int")), td("@K", lit("str"))),
	}
	return gs
}
