// Package c09links: correspondence (T-diff) between the Lean model of the link check and of UsedUserTypes
// (lean/JSight/Links.lean: `LK.linkCheck`, `LK.used`, the subject of the theorems C09_links_* / C09_used_* in
// lean/JSight/Props/C09.lean) and the real library.
//
// A case is a root schema plus a table of added types (plain type objects, AddType'd to the root only, in the
// given order — or, in the ownership streams, to other type objects: `A.AddType("@b", B)`) plus enum rules. The
// case is printed as JSight text (one EXAMPLE node per line), run through a fixed call history by the real
// library in a child process (child.go), and sent as an S-expression to the Lean driver (request `lk`). Compared:
//
//   - UsedUserTypes(): the exact list (order included) against `LK.used` — for the root at every point of the
//     history (fresh, after AddType, Check, GetAST, Example, Validate, twice in a row) and for every type object
//     (fresh, after the root's Check, after its own Check);
//   - Check(): the verdict of the reference-resolving part of the compile pipeline (CompileAllOf +
//     CheckRootSchema): OK (also when the later recursion check fails with 104), 1302 + the missing NAME taken
//     from the message, 703, 704 + name, 705, 402 + key, 1301, 1303 + name, 1304 + key. When the named type
//     depends on the heap-address order of unnamed types the model lists every candidate and the real name must
//     be one of them. Any other error code of the real library (the example-against-rules check 204 …, which the
//     model does not cover) is counted (`skipped_E<code>`) and not compared.
package c09links

import (
	"fmt"
	"math/rand"
	"regexp"
	"strings"
	"sync"

	"verifharness/vh"
)

const command = "c09-links"

var (
	re1302 = regexp.MustCompile(`^E1302 Type "([^"]*)" not found`)
	re1303 = regexp.MustCompile(`^E1303 .*recursion of type "([^"]*)"`)
	re1304 = regexp.MustCompile(`^E1304 Key shortcut "([^"]*)"`)
	re704  = regexp.MustCompile(`^E704 .*The "([^"]*)" type`)
	re402  = regexp.MustCompile(`^E402 Duplicate keys \(([^)]*)\)`)
	reCode = regexp.MustCompile(`^E(\d+) `)
)

// canonImpl maps Check()'s rendered verdict to the driver's vocabulary; ok=false: outside the model.
func canonImpl(s string) (string, bool) {
	switch {
	case s == "OK", strings.HasPrefix(s, "E104 "), strings.HasPrefix(s, "X Infinity recursion detected"):
		return "OK", true
	case strings.HasPrefix(s, "E1302 "):
		if m := re1302.FindStringSubmatch(s); m != nil {
			return "MISS " + m[1], true
		}
		return "MISS ?", true
	case strings.HasPrefix(s, "E1303 "):
		if m := re1303.FindStringSubmatch(s); m != nil {
			return "E1303 " + m[1], true
		}
		return "E1303 ?", true
	case strings.HasPrefix(s, "E1304 "):
		if m := re1304.FindStringSubmatch(s); m != nil {
			return "E1304 " + m[1], true
		}
		return "E1304 ?", true
	case strings.HasPrefix(s, "E704 "):
		if m := re704.FindStringSubmatch(s); m != nil {
			return "E704 " + m[1], true
		}
		return "E704 ?", true
	case strings.HasPrefix(s, "E402 "):
		if m := re402.FindStringSubmatch(s); m != nil {
			return "E402 " + m[1], true
		}
		return "E402 ?", true
	case strings.HasPrefix(s, "E703 "):
		return "E703", true
	case strings.HasPrefix(s, "E705 "):
		return "E705", true
	case strings.HasPrefix(s, "E1301 "):
		return "E1301", true
	}
	return s, false
}

// agree: the model's verdict (possibly `MISS a|b|c`) against the real one.
func agree(model, impl string) bool {
	if model == impl {
		return true
	}
	if strings.HasPrefix(model, "MISS ") && strings.HasPrefix(impl, "MISS ") && strings.Contains(model, "|") {
		for _, c := range strings.Split(model[5:], "|") {
			if c == impl[5:] {
				return true
			}
		}
	}
	return false
}

func Run(args []string) {
	if len(args) > 0 && args[0] == "--child" {
		childMain()
		return
	}
	rep := vh.NewReport(command, "type graphs in the IR of the Lean model LK (literals with {type}/{or} references, type shortcuts and or-shortcuts, arrays, objects with 1..4 key shortcuts / allOf / additionalProperties: \"@T\", enum rule names) over 0..6 added types drawn from a pool of names differing in case, digits, '-', '_' and length; streams: a hand-written corpus, a structured mostly-resolvable stream (references follow the sorts of the types; 0 / 4 / 15 / 40 % of the references drawn from the whole pool), a wild stream (any name anywhere), a key-shortcut stream (2..4 key shortcuts per object, one of them — first, middle or last — missing or not a string type), an ownership-chain stream (types added to other types 3..5 levels deep, the name at the end added there, to the root, or nowhere); one third of the random graphs get an ownership structure (types added to earlier type objects); real Check() verdict of the reference-resolving phases vs LK.linkCheckO, and UsedUserTypes() of the root at eight points of a call history (fresh, after AddType / Check / GetAST / Example / Validate, twice) and of every type object (fresh, after the root's Check, after its own Check), on one set of objects (stability) AND as the FIRST call on a fresh set of objects that walked a prefix of the history without asking (point picked by the case number), vs LK.used; nontrivial = the graph holds a reference inside an added type or a missing name")
	type kase struct {
		g   *graph
		req string
	}
	var mu sync.Mutex
	cases := map[int]*kase{}
	reqs := make(chan *request, 256)
	n := vh.Pick(24000, 500000)
	cs := corpus()
	go func() {
		defer close(reqs)
		seed := vh.Seed()
		for i := 0; i < n+len(cs); i++ {
			var g *graph
			if i < len(cs) {
				g = cs[i]
			} else {
				r := rand.New(rand.NewSource(seed*1000003 + 4241 + int64(i)*7919))
				switch x := r.Intn(20); {
				case x < 3:
					g = keysGraph(r)
				case x < 6:
					g = chainGraph(r)
				default:
					g = randomGraph(r, 6, r.Intn(10) < 3)
				}
			}
			req := &request{ID: i, Root: g.root.text(), Rules: g.rules}
			for _, t := range g.types {
				req.Types = append(req.Types, typeReq{Name: t.name, Text: t.body.text(), Owner: t.owner})
			}
			mu.Lock()
			cases[i] = &kase{g, g.sx()}
			mu.Unlock()
			reqs <- req
		}
	}()
	type pending struct {
		links      string
		comparable bool
		used       []usedAt
		typeUsed   [][]usedAt
		g          *graph
	}
	var modelReqs []string
	var pend []pending
	runPool(16, reqs, func(req *request, res response) {
		mu.Lock()
		k := cases[req.ID]
		delete(cases, req.ID)
		mu.Unlock()
		g := k.g
		table := map[string]bool{}
		nested := false
		for _, t := range g.types {
			table[t.name] = true
			nested = nested || t.owner != -1
		}
		inner, missing := false, false
		stats := map[string]bool{}
		visit := func(n *node, inType, nestedType bool) {
			n.walk(func(m *node) {
				var rr []string
				rr = append(rr, m.names...)
				if m.typ != "" {
					rr = append(rr, m.typ)
					stats["form_type_rule"] = true
				}
				for _, mm := range m.members {
					if mm.user {
						rr = append(rr, mm.name)
						if mm.obj {
							stats["form_or_ruleset_type"] = true
						} else {
							stats["form_or_name"] = true
						}
					}
				}
				if len(m.names) == 1 {
					stats["form_type_shortcut"] = true
				}
				if len(m.names) > 1 {
					stats["form_or_shortcut"] = true
				}
				if len(m.allOf) > 0 {
					if m.allOfList {
						stats["form_allOf_list"] = true
					} else {
						stats["form_allOf_single"] = true
					}
					if nestedType {
						stats["allOf_inside_nested_type"] = true
					}
				}
				rr = append(rr, m.allOf...)
				if m.addp != "" {
					rr = append(rr, m.addp)
					stats["form_additionalProperties"] = true
				}
				nk := 0
				for _, p := range m.props {
					if p.shortcut {
						rr = append(rr, p.key)
						nk++
					}
				}
				if nk > 0 {
					stats[fmt.Sprintf("key_shortcuts_in_one_object_%d", nk)] = true
				}
				if m.enum != "" {
					stats["form_enum_rule"] = true
					if table[m.enum] {
						stats["enum_rule_named_like_a_type"] = true
					}
				}
				for _, r := range rr {
					if inType {
						inner = true
					}
					if !table[r] {
						missing = true
						if inType {
							stats["missing_inside_type"] = true
						} else {
							stats["missing_in_root"] = true
						}
					}
				}
			})
		}
		visit(g.root, false, false)
		for _, t := range g.types {
			visit(t.body, true, t.owner >= 0)
		}
		rep.Case(g.canon(), inner || missing)
		rep.Stat("stream_" + g.tag)
		rep.Stat(fmt.Sprintf("types_%d", len(g.types)))
		if nested {
			rep.Stat("with_types_added_to_types")
		}
		for s := range stats {
			rep.Stat(s)
		}
		if res.crash != "" || res.timeout {
			rep.AddDiff(vh.Diff{Component: "C09-links", Input: g.canon(), Impl: "CRASH/TIMEOUT " + res.crash, Model: "Check, UsedUserTypes, GetAST, Example, Validate return"})
			return
		}
		if res.AddErr != "" {
			// the generator prints loadable texts only
			rep.AddDiff(vh.Diff{Component: "C09-links", Level: "correspondence", Input: g.canon(), Impl: "load: " + res.AddErr, Model: "every generated text loads"})
			return
		}
		links, ok := canonImpl(res.Check)
		if ok {
			rep.Stat("real_" + strings.Fields(links)[0])
		} else if m := reCode.FindStringSubmatch(res.Check); m != nil {
			rep.Stat("skipped_E" + m[1])
		} else {
			rep.Stat("skipped_other")
		}
		mu.Lock()
		modelReqs = append(modelReqs, k.req)
		pend = append(pend, pending{links, ok, res.Used, res.TypeUsed, g})
		mu.Unlock()
	})
	model := vh.AskModelSharded(modelReqs, 8)
	for i := range modelReqs {
		p := pend[i]
		input := p.g.canon()
		parts := strings.Split(model[i], " ; ")
		if len(parts) != 2+len(p.g.types) {
			rep.AddDiff(vh.Diff{Component: "C09-links", Level: "correspondence", Input: input, Impl: p.links, Model: "driver: " + model[i], Note: modelReqs[i]})
			continue
		}
		for _, u := range p.used {
			rep.Stat("used_asked_" + strings.ReplaceAll(u.At, " ", "_"))
			if u.Used != parts[1] {
				rep.AddDiff(vh.Diff{Component: "C09-used", Input: input, Impl: "root.UsedUserTypes() " + u.At + " = " + u.Used, Model: "LK.used = " + parts[1] + " (the names the text references, at every point of the history)", Note: modelReqs[i]})
				break
			}
		}
		for j, tu := range p.typeUsed {
			for _, u := range tu {
				if u.Used != parts[2+j] {
					rep.AddDiff(vh.Diff{Component: "C09-used", Input: input, Impl: p.g.types[j].name + ".UsedUserTypes() " + u.At + " = " + u.Used, Model: "LK.used = " + parts[2+j], Note: modelReqs[i]})
					break
				}
			}
		}
		if strings.Contains(parts[0], "|") {
			rep.Stat("model_order_dependent")
		}
		if !p.comparable {
			continue
		}
		if !agree(parts[0], p.links) {
			rep.AddDiff(vh.Diff{Component: "C09-links", Input: input, Impl: "Check: " + p.links, Model: "LK.linkCheckO = " + parts[0], Note: modelReqs[i]})
		}
	}
	rep.Finish()
}
