package c09links

import (
	"math/rand"
	"sync"
)

var (
	corpusOnce sync.Once
	corpusLen  int
)

// BridgeGraph: the graphs of this package's generators (corpus first, then keysGraph / chainGraph / randomGraph in
// the proportions of Run) as TEXTS for the Lean-vs-Lean tie `c09-bridge`: root text + added types (name, text), all
// added to the root in the given order.
//
// What the text-level models of that tie do not express is flattened away, not skipped: types added to other type
// objects are added to the root instead (a type that was created but added to nothing — owner -2 — makes the graph
// unusable: ok=false), enum rules are dropped together with the `enum: @rule` annotations that name them. With
// probability 3/4 (drawn from the case's own PRNG) the graph is also "simplified": allOf lists are cleared and or
// rules keep only their user-type members written as names (`"@A"`; one member left: the rule becomes
// `type: "@A"`), so that graphs the models answer OUTSIDE for (allOf, builtin or rule-set members of an or rule)
// stay a minority. stream = the generator's tag (+ "+flat" / "+simple").
func BridgeGraph(seed int64, i int) (root string, names, texts []string, stream string, ok bool) {
	corpusOnce.Do(func() { corpusLen = len(corpus()) })
	var g *graph
	r := rand.New(rand.NewSource(seed*1000003 + 4241 + int64(i)*7919))
	if i < corpusLen {
		g = corpus()[i] // a fresh copy: the graph is edited below
	} else {
		switch x := r.Intn(20); {
		case x < 3:
			g = keysGraph(r)
		case x < 6:
			g = chainGraph(r)
		default:
			g = randomGraph(r, 6, r.Intn(10) < 3)
		}
	}
	stream = g.tag
	flat := false
	for k := range g.types {
		switch {
		case g.types[k].owner == -2:
			return "", nil, nil, stream, false
		case g.types[k].owner != -1:
			flat = true
		}
	}
	if flat {
		stream += "+flat"
	}
	simple := r.Intn(4) != 0
	if simple {
		stream += "+simple"
	}
	fix := func(n *node) {
		n.walk(func(m *node) {
			m.enum = ""
			if !simple {
				return
			}
			m.allOf = nil
			if len(m.members) > 0 {
				var keep []member
				for _, mm := range m.members {
					if mm.user {
						mm.obj = false
						keep = append(keep, mm)
					}
				}
				switch len(keep) {
				case 0:
					m.members = nil
				case 1:
					m.members = nil
					m.typ = keep[0].name
				default:
					m.members = keep
				}
			}
		})
	}
	fix(g.root)
	root = g.root.text()
	for _, t := range g.types {
		fix(t.body)
		names = append(names, t.name)
		texts = append(texts, t.body.text())
	}
	return root, names, texts, stream, true
}
