package c09links

// Child-process protocol of c09-links: every library call happens in a child (`vh c09-links --child`) under
// recover and under a deadline; a crash or a hang of the child is reported for the request it was working on.
//
// One request = one root schema + type objects + the OWNER of each type object (the root or another type object:
// `owner.AddType(name, type)`) + enum rules. The child walks a fixed call history and asks UsedUserTypes() at
// every point of it:
//
//	root.UsedUserTypes()                      "fresh"        (before anything else)
//	type_i.UsedUserTypes()                    "type fresh"
//	owner.AddType(name_i, type_i) …
//	root.UsedUserTypes()                      "after AddType"
//	root.Check()                              -> verdict
//	root.UsedUserTypes()                      "after Check"
//	root.GetAST(); root.UsedUserTypes()       "after GetAST"
//	root.Example(); root.UsedUserTypes()      "after Example"   (only when Check passed)
//	root.Validate(example); …UsedUserTypes()  "after Validate"  (only when Check passed)
//	root.UsedUserTypes() twice                "twice"
//	type_i.UsedUserTypes()                    "type after root Check"
//	type_i.Check(); type_i.UsedUserTypes()    "type after own Check"   (the type object compiled as a root itself)
//
// Then (serveLate) a FRESH set of objects walks a prefix of the same history without asking, and asks once at the
// end: the FIRST UsedUserTypes() call on the root / on every type object at that point.

import (
	"bufio"
	"encoding/json"
	"fmt"
	"io"
	"os"
	"os/exec"
	"runtime/debug"
	"strings"
	"sync"
	"time"

	jdoc "github.com/jsightapi/jsight-schema-go-library/formats/json"
	"github.com/jsightapi/jsight-schema-go-library/notations/jschema"
	"github.com/jsightapi/jsight-schema-go-library/rules/enum"
)

type typeReq struct {
	Name  string `json:"n"`
	Text  string `json:"t"`
	Owner int    `json:"o"` // -1: the root; i: the type object number i; -2: added to nothing
}

type request struct {
	ID    int         `json:"id"`
	Root  string      `json:"root"`
	Types []typeReq   `json:"types"`
	Rules [][2]string `json:"rules"`
}

type usedAt struct {
	At   string `json:"at"`
	Used string `json:"used"` // names joined by ",", "-" when empty, "ERR …" on error
}

type response struct {
	ID       int        `json:"id"`
	AddErr   string     `json:"addErr,omitempty"`
	Check    string     `json:"check"`
	Used     []usedAt   `json:"used"`     // the root at every point of the history
	TypeUsed [][]usedAt `json:"typeUsed"` // per type object
	crash    string
	timeout  bool
}

const callDeadline = 5 * time.Second

type coded interface {
	ErrCode() int
	Message() string
}

func errString(err error) string {
	if err == nil {
		return "OK"
	}
	if c, ok := err.(coded); ok {
		return fmt.Sprintf("E%d %s", c.ErrCode(), c.Message())
	}
	return "X " + err.Error()
}

var childTimedOut bool

func call(f func() string) string {
	ch := make(chan string, 1)
	go func() {
		defer func() {
			if r := recover(); r != nil {
				ch <- fmt.Sprintf("PANIC %v", r)
			}
		}()
		ch <- f()
	}()
	select {
	case s := <-ch:
		return s
	case <-time.After(callDeadline):
		childTimedOut = true
		return "TIMEOUT"
	}
}

func usedOf(s *jschema.Schema) string {
	return call(func() string {
		u, err := s.UsedUserTypes()
		if err != nil {
			return "ERR " + errString(err)
		}
		if len(u) == 0 {
			return "-"
		}
		return strings.Join(u, ",")
	})
}

func serve(req *request) response {
	res := response{ID: req.ID}
	mk := func(name, text string) *jschema.Schema {
		s := jschema.New(name, text)
		for _, r := range req.Rules {
			r := r
			if e := call(func() string { return errString(s.AddRule(r[0], enum.New(r[0], r[1]))) }); e != "OK" && res.AddErr == "" {
				res.AddErr = "rule " + r[0] + " of " + name + ": " + e
			}
		}
		return s
	}
	root := mk("root", req.Root)
	at := func(label string) { res.Used = append(res.Used, usedAt{label, usedOf(root)}) }
	at("fresh")
	ts := make([]*jschema.Schema, len(req.Types))
	res.TypeUsed = make([][]usedAt, len(req.Types))
	for i, t := range req.Types {
		ts[i] = mk(t.Name, t.Text)
		res.TypeUsed[i] = append(res.TypeUsed[i], usedAt{"type fresh", usedOf(ts[i])})
	}
	for i, t := range req.Types {
		i, t := i, t
		if t.Owner == -2 {
			continue
		}
		owner := root
		if t.Owner >= 0 {
			owner = ts[t.Owner]
		}
		if e := call(func() string { return errString(owner.AddType(t.Name, ts[i])) }); e != "OK" && res.AddErr == "" {
			res.AddErr = "type " + t.Name + ": " + e
		}
	}
	at("after AddType")
	res.Check = call(func() string { return errString(root.Check()) })
	at("after Check")
	if !childTimedOut {
		call(func() string { _, err := root.GetAST(); return errString(err) })
		at("after GetAST")
	}
	if res.Check == "OK" && !childTimedOut {
		var ex []byte
		e := call(func() string { b, err := root.Example(); ex = b; return errString(err) })
		at("after Example")
		if e == "OK" && !childTimedOut {
			call(func() string { return errString(root.Validate(jdoc.New("example", ex))) })
			at("after Validate")
		}
	}
	if !childTimedOut {
		at("twice (1)")
		at("twice (2)")
		for i := range ts {
			res.TypeUsed[i] = append(res.TypeUsed[i], usedAt{"type after root Check", usedOf(ts[i])})
		}
		for i := range ts {
			if childTimedOut {
				break
			}
			i := i
			call(func() string { return errString(ts[i].Check()) })
			res.TypeUsed[i] = append(res.TypeUsed[i], usedAt{"type after own Check", usedOf(ts[i])})
		}
		at("after the types' own Check")
	}
	if !childTimedOut {
		serveLate(req, &res, mk)
	}
	return res
}

// serveLate: a FRESH set of objects (root + types) walks a prefix of the history WITHOUT any UsedUserTypes() call,
// and only then asks — so the call is the FIRST one on its object at that point (a list computed lazily, on the
// first request, from the tree as it is by then would show here; the same-object sequence above only shows
// instability). The point is picked by the request number: after AddType / Check / GetAST / Example / Validate for
// the root; for the type objects after the root's Check or after their own Check as well.
func serveLate(req *request, res *response, mk func(name, text string) *jschema.Schema) {
	root := mk("root", req.Root)
	ts := make([]*jschema.Schema, len(req.Types))
	for i, t := range req.Types {
		ts[i] = mk(t.Name, t.Text)
	}
	for i, t := range req.Types {
		i, t := i, t
		if t.Owner == -2 {
			continue
		}
		owner := root
		if t.Owner >= 0 {
			owner = ts[t.Owner]
		}
		call(func() string { return errString(owner.AddType(t.Name, ts[i])) })
	}
	point := req.ID % 5
	label := "after AddType"
	if point >= 1 && !childTimedOut {
		label = "after Check"
		check := call(func() string { return errString(root.Check()) })
		if point == 2 && !childTimedOut {
			label = "after GetAST"
			call(func() string { _, err := root.GetAST(); return errString(err) })
		}
		if point >= 3 && check == "OK" && !childTimedOut {
			label = "after Example"
			var ex []byte
			e := call(func() string { b, err := root.Example(); ex = b; return errString(err) })
			if point == 4 && e == "OK" && !childTimedOut {
				label = "after Validate"
				call(func() string { return errString(root.Validate(jdoc.New("example", ex))) })
			}
		}
	}
	if childTimedOut {
		return
	}
	res.Used = append(res.Used, usedAt{"FIRST call " + label, usedOf(root)})
	ownCheck := (req.ID/5)%2 == 1
	for i := range ts {
		if childTimedOut {
			return
		}
		i := i
		tl := "type FIRST call, root " + label
		if ownCheck {
			tl += ", after own Check"
			call(func() string { return errString(ts[i].Check()) })
		}
		res.TypeUsed[i] = append(res.TypeUsed[i], usedAt{tl, usedOf(ts[i])})
	}
}

func childMain() {
	debug.SetMaxStack(96 << 20)
	in := bufio.NewReaderSize(os.Stdin, 1<<20)
	out := bufio.NewWriter(os.Stdout)
	for {
		line, err := in.ReadBytes('\n')
		if len(line) > 1 {
			var req request
			if e := json.Unmarshal(line, &req); e != nil {
				fmt.Fprintln(os.Stderr, "child: bad request:", e)
				os.Exit(4)
			}
			res := serve(&req)
			b, _ := json.Marshal(res)
			out.Write(b)
			out.WriteByte('\n')
			out.Flush()
			if childTimedOut {
				os.Exit(3)
			}
		}
		if err != nil {
			return
		}
	}
}

// ---- pool ----

type worker struct {
	cmd    *exec.Cmd
	stdin  io.WriteCloser
	stdout *bufio.Reader
	stderr *headBuf
}

type headBuf struct {
	mu  sync.Mutex
	buf []byte
}

func (t *headBuf) Write(p []byte) (int, error) {
	t.mu.Lock()
	defer t.mu.Unlock()
	if len(t.buf) < 600 {
		n := 600 - len(t.buf)
		if n > len(p) {
			n = len(p)
		}
		t.buf = append(t.buf, p[:n]...)
	}
	return len(p), nil
}

func (t *headBuf) String() string {
	t.mu.Lock()
	defer t.mu.Unlock()
	return string(t.buf)
}

func startWorker() *worker {
	exe, err := os.Executable()
	if err != nil {
		exe = os.Args[0]
	}
	cmd := exec.Command(exe, command, "--child")
	stdin, err := cmd.StdinPipe()
	if err != nil {
		panic(err)
	}
	stdout, err := cmd.StdoutPipe()
	if err != nil {
		panic(err)
	}
	hb := &headBuf{}
	cmd.Stderr = hb
	if err := cmd.Start(); err != nil {
		panic(fmt.Sprintf("cannot start child %s: %v", exe, err))
	}
	return &worker{cmd: cmd, stdin: stdin, stdout: bufio.NewReaderSize(stdout, 1<<20), stderr: hb}
}

func (w *worker) kill() {
	w.stdin.Close()
	w.cmd.Process.Kill()
	w.cmd.Wait()
}

func (w *worker) ask(req *request) (res response, alive bool) {
	b, _ := json.Marshal(req)
	b = append(b, '\n')
	type answer struct {
		line []byte
		err  error
	}
	ch := make(chan answer, 1)
	go func() {
		if _, err := w.stdin.Write(b); err != nil {
			ch <- answer{nil, err}
			return
		}
		line, err := w.stdout.ReadBytes('\n')
		ch <- answer{line, err}
	}()
	nCalls := 30 + 6*len(req.Types) + 2*len(req.Rules)*(1+len(req.Types))
	select {
	case a := <-ch:
		if len(a.line) > 1 {
			if e := json.Unmarshal(a.line, &res); e == nil {
				if res.Check == "TIMEOUT" {
					res.timeout = true
				}
				for _, u := range res.Used {
					if u.Used == "TIMEOUT" {
						res.timeout = true
					}
				}
				return res, !res.timeout
			}
		}
		w.cmd.Wait()
		res.ID = req.ID
		res.crash = fmt.Sprintf("child died (%v): %s", w.cmd.ProcessState, w.stderr.String())
		return res, false
	case <-time.After(time.Duration(nCalls)*callDeadline + 10*time.Second):
		res.ID = req.ID
		res.timeout = true
		return res, false
	}
}

// runPool feeds the requests to n children and calls handle (serialised) with every response.
func runPool(n int, reqs <-chan *request, handle func(*request, response)) {
	type pair struct {
		req *request
		res response
	}
	results := make(chan pair, 4*n)
	var wg sync.WaitGroup
	for i := 0; i < n; i++ {
		wg.Add(1)
		go func() {
			defer wg.Done()
			w := startWorker()
			defer func() { w.kill() }()
			for req := range reqs {
				res, alive := w.ask(req)
				if !alive {
					w.kill()
					w = startWorker()
				}
				results <- pair{req, res}
			}
		}()
	}
	go func() {
		wg.Wait()
		close(results)
	}()
	for p := range results {
		handle(p.req, p.res)
	}
}
