// Package e2e: harness command `e2e-text`.
//
// TEXT-level differential: the IR generators of sem-types / sem-addprops / sem-keys / sem-rules / c01 are reused to
// PRINT schema texts (root + four named types + four key types) and document texts, but the Lean side gets the
// TEXTS only (driver word `e2e` / `e2eo`): schema scanner model -> loader model -> Compile (constraint creation,
// CompileBasic, Check) -> JSON scanner model -> validator machine. Nothing of the IR is sent.
//
// Compared: the outcome class of the real library (AddType / Check / Validate) and of the model:
//
//	ACC | REJ | SERR <code> | DERR <code>
//
// (schema errors by code, scanner / loader errors also by byte offset; a document scanner error — code and offset —
// is DERR only if the validator had not failed before it).
// Model replies `UNSUP <why>` (the construct is outside the modelled fragment) are counted per reason.
package e2e

import (
	stderrors "errors"
	"fmt"
	"math/rand"
	"runtime"
	"strings"
	"sync"

	jdoc "github.com/jsightapi/jsight-schema-go-library/formats/json"
	"github.com/jsightapi/jsight-schema-go-library/notations/jschema"

	"verifharness/vh"
)

const (
	command = "e2e-text"
	salt    = 4242
)

type Node struct {
	Kind     string // lit any arr obj ref tref oref
	Lit      string // i f s b n
	Tok      string // example token of a literal
	Nullable bool
	NulFalse bool
	Items    []*Node
	Props    []*Prop
	Names    []string
	Add      string
	Extra    []string // scalar rules as text
	AnyEx    string
}
type Prop struct {
	Short bool
	Key   string // decoded key / key type name
	Mark  int    // 0 unmarked, 1 optional: true, 2 optional: false
	Val   *Node
}
type Doc struct {
	Kind  string // l a o
	Lit   string
	Tok   string
	Items []*Doc
	Keys  []string
}

var typeNames = []string{"t0", "t1", "t2", "t3"}
var keyTypeNames = []string{"k0", "k1", "k2", "k3"}
var keyTypeText = map[string]string{"k0": `"ab" // {minLength: 2}`, "k1": `"a" // {maxLength: 1}`, "k2": `"zz"`, "k3": `"abc" // {minLength: 3}`}
var shortKeys = map[string][]string{"k0": {"xy", "ab", "wxyz"}, "k1": {"q", "e"}, "k2": {"zz"}, "k3": {"abc", "wxyz"}}
var keyPool = []string{"a", "b", "c", "f", "zz", "a\"b", "a\\b", "line\nbreak", "été", "sl/ash", " ", "\U0001F600k"}
var docKeys = []string{"a", "b", "c", "f", "e", "q", "zz", "ab", "xy", "abc", "wxyz", "a\"b", "été"}

var intToks = []string{"1", "0", "-12", "7", "-0", "10"}
var fltToks = []string{"1.5", "-0.25", "2.5", "1.50", "0.5"}
var strToks = []string{`"s"`, `""`, `"a b"`, `"abc"`, `"1.5"`, `"true"`, `"null"`, `"é"`, `"é"`}
var docNumToks = []string{"1", "0", "-12", "7", "2", "5", "10", "1e1", "2e0", "15e-1", "1.0", "1.00", "1.5", "-0.25", "2.5", "0.15e1", "100", "-5", "-0", "3.75", "0e1"}

var noiseRules = []string{"min: 1", "max: 0", "minLength: 2", "maxLength: 0", "precision: 2", "exclusiveMinimum: true",
	"exclusiveMaximum: false", "optional: true", "optional: false", "nullable: true", "const: true", "const: false",
	`type: "integer"`, `type: "string"`, `type: "float"`, `type: "object"`, `type: "array"`, `type: "any"`, `type: "mixed"`,
	`type: "enum"`, `type: "decimal"`, `type: "uuid"`, `type: "email"`, `type: "@t0"`, `type: "@zz"`, `type: "wrong"`, "type: 5",
	"foo: 1", "minItems: 1", "maxItems: 0", `regex: "a"`, `allOf: "@t0"`, "additionalProperties: true",
	`additionalProperties: "wrong"`, `additionalProperties: "@t1"`, "enum: [1, 1]", `enum: [1, "1", 1.0]`, `or: ["@t0"]`,
	`or: ["@t0", "@t1"]`, `or: [{type: "integer"}, "@t1"]`, `or: ["integer", "string"]`, "or: []", "or: 1", "nullable: 1",
	"minLength: -1", `min: "x"`, "min: 1e1", "precision: 0", "optional: 1", "enum: 1", `enum: @e`, "const: 1"}

type gen struct {
	noise int  // one node in `noise` gets a rule from noiseRules (0 = never)
	noisy bool // a noise rule was printed
	r     *rand.Rand
	opt  bool // KeysAreOptionalByDefault on the root
	zexp bool // the last printed document holds the token 0e1 (K-C10-zeroexp)
}

func (g *gen) pick(xs []string) string { return xs[g.r.Intn(len(xs))] }

func (g *gen) litNode() *Node {
	r := g.r
	n := &Node{Kind: "lit", Lit: []string{"i", "f", "s", "b", "n"}[r.Intn(5)], Nullable: r.Intn(4) == 0}
	n.NulFalse = !n.Nullable && r.Intn(8) == 0
	switch n.Lit {
	case "i":
		n.Tok = g.pick(intToks)
		if r.Intn(3) == 0 {
			mn := g.pick([]string{"-5", "0", "1", "-0", "0.5", "1.0", "-12"})
			n.Extra = append(n.Extra, "min: "+mn)
			if r.Intn(3) == 0 {
				n.Extra = append(n.Extra, "exclusiveMinimum: "+g.pick([]string{"true", "false"}))
			}
		}
		if r.Intn(3) == 0 {
			n.Extra = append(n.Extra, "max: "+g.pick([]string{"1", "2", "7", "1.5", "1e1", "10", "100"}))
			if r.Intn(3) == 0 {
				n.Extra = append(n.Extra, "exclusiveMaximum: "+g.pick([]string{"true", "false"}))
			}
		}
	case "f":
		n.Tok = g.pick(fltToks)
		if r.Intn(3) == 0 {
			n.Extra = append(n.Extra, "min: "+g.pick([]string{"-5", "0", "1.5", "1.50", "0.15e1", "1", "-0.25"}))
			if r.Intn(3) == 0 {
				n.Extra = append(n.Extra, "exclusiveMinimum: "+g.pick([]string{"true", "false"}))
			}
		}
		if r.Intn(3) == 0 {
			n.Extra = append(n.Extra, "max: "+g.pick([]string{"1.5", "2", "7.25", "15e-1", "100", "2.5"}))
			if r.Intn(3) == 0 {
				n.Extra = append(n.Extra, "exclusiveMaximum: "+g.pick([]string{"true", "false"}))
			}
		}
		if r.Intn(6) == 0 {
			n.Extra = append(n.Extra, `type: "decimal"`, "precision: "+g.pick([]string{"1", "2", "3"}))
		}
	case "s":
		n.Tok = g.pick(strToks)
		if r.Intn(3) == 0 {
			n.Extra = append(n.Extra, fmt.Sprintf("minLength: %d", r.Intn(4)))
		}
		if r.Intn(3) == 0 {
			n.Extra = append(n.Extra, fmt.Sprintf("maxLength: %d", 1+r.Intn(5)))
		}
		if len(n.Extra) == 0 && r.Intn(8) == 0 {
			if r.Intn(2) == 0 {
				n.Tok = `"2024-02-29"`
				n.Extra = append(n.Extra, `type: "date"`)
			} else {
				n.Tok = `"550e8400-e29b-41d4-a716-446655440000"`
				n.Extra = append(n.Extra, `type: "uuid"`)
			}
		}
	case "b":
		n.Tok = g.pick([]string{"true", "false"})
	default:
		n.Tok = "null"
	}
	if len(n.Extra) == 0 && r.Intn(8) == 0 {
		switch r.Intn(3) {
		case 0:
			n.Extra = append(n.Extra, "const: "+g.pick([]string{"true", "false"}))
		case 1:
			if n.Lit != "n" {
				n.Extra = append(n.Extra, "enum: ["+n.Tok+", "+g.pick([]string{`"zz"`, "42", "2.5", "false", "null"})+"]")
			}
		default:
			n.Extra = append(n.Extra, `type: "`+map[string]string{"i": "integer", "f": "float", "s": "string", "b": "boolean", "n": "null"}[n.Lit]+`"`)
		}
	}
	return n
}

func (g *gen) refNames() []string {
	var names []string
	cnt := 1 + g.r.Intn(3)
	for i := 0; i < cnt; i++ {
		nm := typeNames[g.r.Intn(len(typeNames))]
		dup := false
		for _, x := range names {
			dup = dup || x == nm
		}
		if !dup {
			names = append(names, nm)
		}
	}
	return names
}

func (g *gen) genNode(depth int, allowRef bool) *Node {
	r := g.r
	k := r.Intn(22)
	if depth <= 0 && k >= 8 && k <= 14 {
		k = 0
	}
	switch {
	case k <= 7:
		return g.litNode()
	case k <= 10:
		n := &Node{Kind: "arr", Nullable: r.Intn(8) == 0}
		for i := r.Intn(4); i > 0; i-- {
			n.Items = append(n.Items, g.genNode(depth-1, allowRef))
		}
		return n
	case k <= 14:
		n := &Node{Kind: "obj", Nullable: r.Intn(8) == 0}
		if r.Intn(2) == 0 {
			adds := []string{"any", "object", "array", "string", "integer", "float", "boolean", "null", "true", "false", "enum", "decimal", "date"}
			if allowRef {
				adds = append(adds, "@t0", "@t1", "@t2", "@t3")
			}
			n.Add = adds[r.Intn(len(adds))]
		}
		cnt := r.Intn(4)
		perm := r.Perm(len(keyPool))
		if r.Intn(3) != 0 {
			perm = r.Perm(4)
		}
		for i := 0; i < cnt; i++ {
			n.Props = append(n.Props, &Prop{Key: keyPool[perm[i]], Mark: r.Intn(3), Val: g.genNode(depth-1, allowRef)})
		}
		if allowRef && r.Intn(3) == 0 {
			perm := r.Perm(4)
			for i := r.Intn(3); i > 0; i-- {
				p := &Prop{Short: true, Key: fmt.Sprintf("k%d", perm[i]), Mark: r.Intn(3), Val: g.genNode(depth-1, allowRef)}
				pos := r.Intn(len(n.Props) + 1)
				n.Props = append(n.Props[:pos], append([]*Prop{p}, n.Props[pos:]...)...)
			}
		}
		return n
	case k <= 18 && allowRef:
		n := &Node{Kind: "ref", Nullable: r.Intn(4) == 0, Names: g.refNames()}
		switch r.Intn(6) {
		case 0: // a literal example with {type: "@A"}
			n.Kind = "tref"
			n.Names = n.Names[:1]
			n.Lit = []string{"i", "f", "s", "b", "n"}[r.Intn(5)]
			n.Tok = map[string]string{"i": "1", "f": "1.5", "s": `"s"`, "b": "true", "n": "null"}[n.Lit]
		case 1: // a literal example with {or: ["@A", "@B"]}
			if len(n.Names) >= 2 {
				n.Kind = "oref"
				n.Lit = []string{"i", "f", "s", "b", "n"}[r.Intn(5)]
				n.Tok = map[string]string{"i": "1", "f": "1.5", "s": `"s"`, "b": "true", "n": "null"}[n.Lit]
			}
		}
		return n
	default:
		return &Node{Kind: "any", Nullable: r.Intn(4) == 0, AnyEx: g.pick([]string{"1", `"z"`, "null", "true", "{}", "[]", "1.5"})}
	}
}

// spell a decoded name as a JSON string literal
func spell(name string, r *rand.Rand, plain bool) string {
	var sb strings.Builder
	sb.WriteByte('"')
	mode := r.Intn(4)
	if plain {
		mode = 0
	}
	for _, c := range name {
		esc := mode == 1 || (mode >= 2 && r.Intn(3) == 0)
		switch {
		case c == '"' && !esc:
			sb.WriteString("\\\"")
		case c == '\\' && !esc:
			sb.WriteString("\\\\")
		case c == '\n' && !esc:
			sb.WriteString("\\n")
		case c == '\t' && !esc:
			sb.WriteString("\\t")
		case c < 0x20 || esc:
			if c > 0xffff {
				c -= 0x10000
				fmt.Fprintf(&sb, "\\u%04x\\u%04X", 0xd800+(c>>10), 0xdc00+(c&0x3ff))
			} else {
				fmt.Fprintf(&sb, "\\u%04x", c)
			}
		default:
			sb.WriteRune(c)
		}
	}
	sb.WriteByte('"')
	return sb.String()
}

// annotation text of a node ("" if none); style: 0 inline `// {…}`, 1 multi-line `/* {…} */`
func (g *gen) rules(n *Node, mark int) string {
	r := g.r
	var rs []string
	if mark == 1 {
		rs = append(rs, "optional: true")
	} else if mark == 2 {
		rs = append(rs, "optional: false")
	}
	switch n.Kind {
	case "any":
		rs = append(rs, `type: "any"`)
	case "tref":
		rs = append(rs, `type: "@`+n.Names[0]+`"`)
	case "oref":
		var nm []string
		for _, x := range n.Names {
			nm = append(nm, `"@`+x+`"`)
		}
		rs = append(rs, "or: ["+strings.Join(nm, ", ")+"]")
	}
	if n.Nullable {
		rs = append(rs, "nullable: true")
	} else if n.NulFalse {
		rs = append(rs, "nullable: false")
	}
	if n.Kind == "obj" && n.Add != "" {
		if n.Add == "true" || n.Add == "false" {
			rs = append(rs, "additionalProperties: "+n.Add)
		} else {
			rs = append(rs, `additionalProperties: "`+n.Add+`"`)
		}
	}
	rs = append(rs, n.Extra...)
	if g.noise > 0 && r.Intn(g.noise) == 0 { // a rule that may not apply here: error paths of the loader / compiler / checker
		for i := 1 + r.Intn(2); i > 0; i-- {
			rs = append(rs, noiseRules[r.Intn(len(noiseRules))])
		}
		g.noisy = true
	}
	if len(rs) == 0 {
		return ""
	}
	r.Shuffle(len(rs), func(i, j int) { rs[i], rs[j] = rs[j], rs[i] })
	if r.Intn(4) == 0 { // quoted rule names
		for i, x := range rs {
			p := strings.Index(x, ":")
			rs[i] = `"` + x[:p] + `"` + x[p:]
		}
	}
	body := "{" + strings.Join(rs, ", ") + "}"
	if r.Intn(5) == 0 {
		body = "{ " + strings.Join(rs, " , ") + " , }"
	}
	if r.Intn(6) == 0 {
		body += " - a note"
	}
	if r.Intn(5) == 0 {
		return " /* " + body + " */"
	}
	return " // " + body
}

func exampleTok(n *Node) string {
	switch n.Kind {
	case "lit", "tref", "oref":
		return n.Tok
	case "any":
		return n.AnyEx
	case "ref":
		var nm []string
		for _, x := range n.Names {
			nm = append(nm, "@"+x)
		}
		return strings.Join(nm, " | ")
	}
	return ""
}

// printNode returns the lines of the node; the first line gets `prefix`, a single-line node gets the comma before
// its annotation.
func (g *gen) printNode(n *Node, indent int, prefix, comma string, mark int) []string {
	pad := strings.Repeat("  ", indent)
	switch n.Kind {
	case "arr":
		if len(n.Items) == 0 {
			return []string{pad + prefix + g.pick([]string{"[]", "[ ]"}) + comma + g.rules(n, mark)}
		}
		out := []string{pad + prefix + "[" + g.rules(n, mark)}
		for i, it := range n.Items {
			c := ","
			if i == len(n.Items)-1 {
				c = ""
			}
			out = append(out, g.printNode(it, indent+1, "", c, 0)...)
		}
		return append(out, pad+"]"+comma)
	case "obj":
		if len(n.Props) == 0 {
			return []string{pad + prefix + g.pick([]string{"{}", "{ }"}) + comma + g.rules(n, mark)}
		}
		out := []string{pad + prefix + "{" + g.rules(n, mark)}
		for i, p := range n.Props {
			c := ","
			if i == len(n.Props)-1 {
				c = ""
			}
			pre := spell(p.Key, g.r, false) + g.pick([]string{": ", ":", " : "})
			if p.Short {
				pre = "@" + p.Key + ": "
			}
			out = append(out, g.printNode(p.Val, indent+1, pre, c, p.Mark)...)
			if g.r.Intn(12) == 0 {
				out = append(out, pad+"  # a user comment")
			}
		}
		return append(out, pad+"}"+comma)
	default:
		return []string{pad + prefix + exampleTok(n) + comma + g.rules(n, mark)}
	}
}

func (g *gen) text(n *Node) string {
	lines := g.printNode(n, 0, "", "", 0)
	nl := "\n"
	if g.r.Intn(6) == 0 {
		nl = "\r\n"
	}
	s := strings.Join(lines, nl)
	if g.r.Intn(4) == 0 {
		s += nl
	}
	return s
}

func required(p *Prop, opt bool) bool { return p.Mark == 2 || (p.Mark == 0 && !opt) }

func (g *gen) genDoc(depth int) *Doc {
	r := g.r
	k := r.Intn(8)
	if depth <= 0 && k >= 5 {
		k = 0
	}
	switch {
	case k <= 4:
		return &Doc{Kind: "l", Lit: []string{"i", "f", "s", "b", "n"}[r.Intn(5)]}
	case k == 5 || k == 6:
		d := &Doc{Kind: "a"}
		for i := r.Intn(4); i > 0; i-- {
			d.Items = append(d.Items, g.genDoc(depth-1))
		}
		return d
	default:
		d := &Doc{Kind: "o"}
		for i := r.Intn(4); i > 0; i-- {
			d.Keys = append(d.Keys, docKeys[r.Intn(len(docKeys))])
			d.Items = append(d.Items, g.genDoc(depth-1))
		}
		return d
	}
}

// sample draws a document that is likely to be accepted.
func (g *gen) sample(n *Node, types map[string]*Node, fuel int, opt bool) *Doc {
	r := g.r
	if fuel <= 0 {
		return &Doc{Kind: "l", Lit: "n"}
	}
	if n.Nullable && r.Intn(4) == 0 {
		return &Doc{Kind: "l", Lit: "n"}
	}
	switch n.Kind {
	case "lit":
		d := &Doc{Kind: "l", Lit: n.Lit}
		if n.Lit == "f" && r.Intn(2) == 0 {
			d.Lit = "i"
		}
		if r.Intn(2) == 0 {
			d.Tok = n.Tok
		}
		return d
	case "any":
		return g.genDoc(1)
	case "ref", "tref", "oref":
		return g.sample(types[n.Names[r.Intn(len(n.Names))]], types, fuel-1, false)
	case "arr":
		d := &Doc{Kind: "a"}
		if len(n.Items) == 0 {
			return d
		}
		cnt := r.Intn(len(n.Items) + 2)
		for i := 0; i < cnt; i++ {
			j := i
			if j >= len(n.Items) {
				j = len(n.Items) - 1
			}
			d.Items = append(d.Items, g.sample(n.Items[j], types, fuel-1, opt))
		}
		return d
	default:
		d := &Doc{Kind: "o"}
		perm := r.Perm(len(n.Props))
		for _, i := range perm {
			p := n.Props[i]
			if required(p, opt) || r.Intn(2) == 0 {
				k := p.Key
				if p.Short {
					ks := shortKeys[p.Key]
					k = ks[r.Intn(2)%len(ks)]
				}
				d.Keys = append(d.Keys, k)
				d.Items = append(d.Items, g.sample(p.Val, types, fuel-1, opt))
			}
		}
		if n.Add != "" && r.Intn(2) == 0 {
			var v *Doc
			switch n.Add {
			case "any", "true", "false", "enum":
				v = g.genDoc(1)
			case "object":
				v = &Doc{Kind: "o"}
			case "array":
				v = &Doc{Kind: "a", Items: []*Doc{g.genDoc(0)}}
			case "string", "date":
				v = &Doc{Kind: "l", Lit: "s"}
			case "integer":
				v = &Doc{Kind: "l", Lit: "i"}
			case "float", "decimal":
				v = &Doc{Kind: "l", Lit: []string{"f", "i"}[r.Intn(2)]}
			case "boolean":
				v = &Doc{Kind: "l", Lit: "b"}
			case "null":
				v = &Doc{Kind: "l", Lit: "n"}
			default:
				v = g.sample(types[n.Add[1:]], types, fuel-1, false)
			}
			d.Keys = append(d.Keys, "e")
			d.Items = append(d.Items, v)
		}
		return d
	}
}

func (g *gen) mutateDoc(d *Doc) *Doc {
	r := g.r
	switch r.Intn(6) {
	case 0:
		return g.genDoc(1)
	case 1:
		if d.Kind == "o" && len(d.Keys) > 0 {
			i := r.Intn(len(d.Keys))
			nd := &Doc{Kind: "o"}
			for j := range d.Keys {
				if j != i {
					nd.Keys = append(nd.Keys, d.Keys[j])
					nd.Items = append(nd.Items, d.Items[j])
				}
			}
			return nd
		}
	case 2:
		if d.Kind == "o" {
			nd := &Doc{Kind: "o", Keys: append([]string{}, d.Keys...), Items: append([]*Doc{}, d.Items...)}
			if len(d.Keys) > 0 && r.Intn(3) == 0 { // repeat a key
				i := r.Intn(len(d.Keys))
				nd.Keys = append(nd.Keys, d.Keys[i])
				nd.Items = append(nd.Items, d.Items[i])
			} else {
				nd.Keys = append(nd.Keys, docKeys[r.Intn(len(docKeys))])
				nd.Items = append(nd.Items, g.genDoc(1))
			}
			return nd
		}
	case 3:
		if d.Kind == "a" {
			nd := &Doc{Kind: "a", Items: append([]*Doc{}, d.Items...)}
			nd.Items = append(nd.Items, g.genDoc(1))
			return nd
		}
	}
	if len(d.Items) > 0 {
		i := r.Intn(len(d.Items))
		nd := &Doc{Kind: d.Kind, Keys: d.Keys, Items: append([]*Doc{}, d.Items...)}
		nd.Items[i] = g.mutateDoc(d.Items[i])
		return nd
	}
	return d
}

func (g *gen) ws() string { return g.pick([]string{"", "", "", " ", "\n", "\t ", " \r\n "}) }

func (g *gen) docText(d *Doc, plainKeys bool) string {
	switch d.Kind {
	case "l":
		if d.Tok != "" {
			return d.Tok
		}
		switch d.Lit {
		case "i", "f":
			t := g.pick(docNumToks)
			if t == "0e1" {
				if g.r.Intn(8) != 0 {
					t = "3"
				} else {
					g.zexp = true
				}
			}
			return t
		case "s":
			return g.pick(strToks)
		case "b":
			return g.pick([]string{"true", "false"})
		}
		return "null"
	case "a":
		var xs []string
		for _, it := range d.Items {
			xs = append(xs, g.ws()+g.docText(it, plainKeys)+g.ws())
		}
		if len(xs) == 0 {
			return "[" + g.ws() + "]"
		}
		return "[" + strings.Join(xs, ",") + "]"
	default:
		var xs []string
		for i, k := range d.Keys {
			xs = append(xs, g.ws()+spell(k, g.r, plainKeys)+g.ws()+":"+g.ws()+g.docText(d.Items[i], plainKeys)+g.ws())
		}
		if len(xs) == 0 {
			return "{" + g.ws() + "}"
		}
		return "{" + strings.Join(xs, ",") + "}"
	}
}

type coder interface{ ErrCode() int }
type positioner interface{ Position() uint }

// codes whose byte offset the model states too (scanner and loader errors): compared together with the code
var posCodes = map[int]bool{301: true, 302: true, 303: true, 304: true, 801: true, 802: true, 803: true, 804: true, 402: true, 701: true}

func errClass(prefix string, err error) string {
	var pe coder
	if stderrors.As(err, &pe) {
		var pp positioner
		if posCodes[pe.ErrCode()] && stderrors.As(err, &pp) {
			return fmt.Sprintf("%s %d %d", prefix, pe.ErrCode(), pp.Position())
		}
		return fmt.Sprintf("%s %d", prefix, pe.ErrCode())
	}
	if strings.Contains(err.Error(), "Infinity recursion detected") {
		return prefix + " 104" // K-C07-recerr: a bare error
	}
	return prefix + " other " + err.Error()
}

type typeText struct{ name, text string }

// validate: a fresh schema object per call; every library call under recover.
func validate(rootText string, opt bool, types []typeText, doc string) string {
	return vh.Recover(func() string {
		var s *jschema.Schema
		if opt {
			s = jschema.New("root", rootText, jschema.KeysAreOptionalByDefault())
		} else {
			s = jschema.New("root", rootText)
		}
		for _, t := range types {
			if err := s.AddType(t.name, jschema.New(t.name, t.text)); err != nil {
				return errClass("SERR", err)
			}
		}
		if err := s.Check(); err != nil {
			return errClass("SERR", err)
		}
		if err := s.Validate(jdoc.New("doc", doc)); err != nil {
			var pe coder
			if stderrors.As(err, &pe) {
				switch pe.ErrCode() {
				case 301, 303:
					var pp positioner
					if stderrors.As(err, &pp) {
						return fmt.Sprintf("DERR %d %d", pe.ErrCode(), pp.Position())
					}
					return fmt.Sprintf("DERR %d", pe.ErrCode())
				case 203:
					return "DERR 203"
				case 202:
					return "SERR 202"
				}
			}
			return "REJ"
		}
		return "ACC"
	})
}

// the model's reply reduced to what is compared
func reduce(m string) string {
	w := strings.Fields(m)
	if len(w) >= 3 && (w[0] == "SERR" || w[0] == "DERR") {
		c := 0
		fmt.Sscan(w[1], &c)
		if posCodes[c] {
			return w[0] + " " + w[1] + " " + w[2]
		}
		return w[0] + " " + w[1]
	}
	return m
}

func emptyAlts(types map[string]*Node, names []string) bool {
	seen := map[string]bool{}
	todo := append([]string{}, names...)
	for len(todo) > 0 {
		nm := todo[len(todo)-1]
		todo = todo[:len(todo)-1]
		if seen[nm] {
			continue
		}
		seen[nm] = true
		switch t := types[nm]; t.Kind {
		case "ref", "tref", "oref":
			if t.Nullable {
				return false
			}
			todo = append(todo, t.Names...)
		default:
			return false
		}
	}
	return true
}

// an uninhabited alias cycle is reachable from the root (see sem-keys: K-C09-cycle)
func reachEmpty(n *Node, types map[string]*Node, done map[string]bool) bool {
	switch n.Kind {
	case "ref", "tref", "oref":
		if !n.Nullable && emptyAlts(types, n.Names) {
			return true
		}
		for _, nm := range n.Names {
			if !done[nm] {
				done[nm] = true
				if reachEmpty(types[nm], types, done) {
					return true
				}
			}
		}
	case "arr":
		for _, it := range n.Items {
			if reachEmpty(it, types, done) {
				return true
			}
		}
	case "obj":
		if strings.HasPrefix(n.Add, "@") {
			if emptyAlts(types, []string{n.Add[1:]}) {
				return true
			}
			if nm := n.Add[1:]; !done[nm] {
				done[nm] = true
				if reachEmpty(types[nm], types, done) {
					return true
				}
			}
		}
		for _, p := range n.Props {
			if reachEmpty(p.Val, types, done) {
				return true
			}
		}
	}
	return false
}

func features(n *Node, f map[string]bool) {
	f["kind_"+n.Kind] = true
	if n.Nullable {
		f["nullable_"+n.Kind] = true
	}
	if len(n.Extra) > 0 {
		f["scalar_rules"] = true
	}
	if n.Add != "" {
		f["additionalProperties"] = true
	}
	for _, it := range n.Items {
		features(it, f)
	}
	for _, p := range n.Props {
		if p.Short {
			f["key_shortcut"] = true
		}
		features(p.Val, f)
	}
}

type oneCase struct {
	line, impl, input, class string
	nontrivial              bool
	stats                   []string
}
type tableResult struct {
	stats []string
	cases []oneCase
}

func request(opt bool, rootText string, types []typeText, doc string) string {
	hx := func(s string) string {
		if s == "" {
			return "-"
		}
		return vh.Hex([]byte(s))
	}
	var sb strings.Builder
	if opt {
		sb.WriteString("e2eo ")
	} else {
		sb.WriteString("e2e ")
	}
	sb.WriteString(hx(rootText))
	fmt.Fprintf(&sb, " %d", len(types))
	for _, t := range types {
		sb.WriteString(" " + hx(t.name) + " " + hx(t.text))
	}
	sb.WriteString(" " + hx(doc))
	return sb.String()
}

func showInput(opt bool, rootText string, types []typeText, doc string) string {
	var sb strings.Builder
	fmt.Fprintf(&sb, "KeysAreOptionalByDefault=%v\nSCHEMA:\n%s\nTYPES (AddType name = text):", opt, rootText)
	for _, t := range types {
		sb.WriteString("\n" + t.name + " = " + t.text)
	}
	sb.WriteString("\nDOCUMENT: " + doc)
	return sb.String()
}

var mutAlphabet = []byte("{}[],:\"@/#*|- \n\\ae1.5tn")

// oneTable: one type table + root, 12 documents; the last two cases are malformed texts.
func oneTable(seed int64) tableResult {
	g := &gen{r: rand.New(rand.NewSource(seed))}
	r := g.r
	var res tableResult
	withTypes := r.Intn(4) != 0
	g.opt = r.Intn(4) == 0
	if r.Intn(5) == 0 {
		g.noise = 4 + r.Intn(8)
	}
	types := map[string]*Node{}
	var tts []typeText
	if withTypes {
		for _, nm := range typeNames {
			types[nm] = g.genNode(2, true)
			tts = append(tts, typeText{"@" + nm, g.text(types[nm])})
		}
		for _, nm := range keyTypeNames {
			tts = append(tts, typeText{"@" + nm, keyTypeText[nm]})
		}
	}
	root := g.genNode(3, withTypes)
	rootText := g.text(root)
	f := map[string]bool{}
	features(root, f)
	class := ""
	if withTypes && reachEmpty(root, types, map[string]bool{}) {
		class = "K-C09-cycle"
		res.stats = append(res.stats, "table_uninhabited_alias_cycle_reachable")
	}
	res.stats = append(res.stats, "tables", "root_"+root.Kind)
	if g.opt {
		res.stats = append(res.stats, "table_keys_optional_by_default")
	}
	if g.noisy {
		res.stats = append(res.stats, "table_with_noise_rule")
	}
	for k := range f {
		res.stats = append(res.stats, "table_uses_"+k)
	}
	plainKeys := f["key_shortcut"] // the rule-free key type @k2 compares raw key tokens: see the model's UNSUP reason
	for j := 0; j < 12; j++ {
		var d *Doc
		var st []string
		switch {
		case j < 5:
			d = g.sample(root, types, 6, g.opt)
			st = append(st, "doc_sampled")
		case j < 9:
			d = g.mutateDoc(g.sample(root, types, 6, g.opt))
			st = append(st, "doc_mutated")
		default:
			d = g.genDoc(2)
			st = append(st, "doc_random")
		}
		g.zexp = false
		dt := g.ws() + g.docText(d, plainKeys && r.Intn(4) != 0) + g.ws()
		rt, ty := rootText, tts
		cls := class
		if g.zexp {
			cls = "K-C10-zeroexp"
		}
		if j >= 10 { // malformed stream
			switch r.Intn(3) {
			case 0:
				dt = string(vh.Mutate(r, []byte(dt), mutAlphabet))
				st = append(st, "malformed_document")
			case 1:
				rt = string(vh.Mutate(r, []byte(rootText), mutAlphabet))
				st = append(st, "malformed_root")
			default:
				if len(tts) > 0 {
					ty = append([]typeText{}, tts...)
					i := r.Intn(4)
					ty[i].text = string(vh.Mutate(r, []byte(ty[i].text), mutAlphabet))
					st = append(st, "malformed_type")
				} else {
					rt = string(vh.Mutate(r, []byte(rootText), mutAlphabet))
					st = append(st, "malformed_root")
				}
			}
		}
		v := validate(rt, g.opt, ty, dt)
		st = append(st, "impl_"+strings.Join(strings.Fields(v)[:1], ""))
		if strings.HasPrefix(v, "SERR") || strings.HasPrefix(v, "DERR") {
			st = append(st, "impl_"+strings.ReplaceAll(strings.Join(strings.Fields(v)[:2], "_"), " ", "_"))
		}
		res.cases = append(res.cases, oneCase{
			line: request(g.opt, rt, ty, dt), impl: v, input: showInput(g.opt, rt, ty, dt), class: cls,
			nontrivial: root.Kind == "obj" || root.Kind == "arr" || withTypes, stats: st,
		})
		if strings.HasPrefix(v, "SERR") && j < 10 {
			break // the schema is refused: one case is enough
		}
	}
	return res
}

func Run(args []string) {
	rep := vh.NewReport(command, "random type tables (4 named types + 4 key types, root of depth<=3; 1 table in 4 without types; 1 in 4 with KeysAreOptionalByDefault) over the union of the IRs of sem-types / sem-addprops / sem-keys / sem-rules / c01: scalars of 5 kinds with odd token spellings, type any, arrays, objects (keys from a pool incl. quotes, backslashes, line breaks, non-ASCII, astral characters spelled with random escapes; unmarked / optional:true / optional:false), nullable on every node kind (also nullable:false), additionalProperties in all modes incl. true / false / enum / decimal / date / user types, references @a, @a | @b, {type: \"@a\"} and {or: [\"@a\", \"@b\"]} on a literal example, key shortcuts @k0..@k3, min / max / exclusiveMinimum / exclusiveMaximum / minLength / maxLength / precision+decimal / const / enum / type date|uuid|<json kind>; printed one node per line with inline or multi-line annotations, rules shuffled, quoted rule names, trailing commas, notes, user comments, LF or CRLF; documents: 5 sampled, 4 sampled+mutated (drop / add / repeat member, append item, regenerate), 1 random, printed with random white space and key escapes, numbers from a pool of odd spellings, then 2 malformed cases (byte-level mutation of the document, the root text or a type text); the TEXTS go to the Lean driver (`e2e`), the outcome class ACC / REJ / SERR code / DERR code of the real AddType+Check+Validate is compared with the model's; UNSUP replies are counted per reason; nontrivial = container root or a table with types")
	r := vh.NewRand(salt)
	nTables := vh.Pick(10000, 200000)
	const batch = 2500
	for done := 0; done < nTables; done += batch {
		n := batch
		if nTables-done < n {
			n = nTables - done
		}
		seeds := make([]int64, n)
		for i := range seeds {
			seeds[i] = r.Int63()
		}
		results := make([]tableResult, n)
		var wg sync.WaitGroup
		next := make(chan int, n)
		for i := 0; i < n; i++ {
			next <- i
		}
		close(next)
		for w := runtime.NumCPU(); w > 0; w-- {
			wg.Add(1)
			go func() {
				defer wg.Done()
				for i := range next {
					results[i] = oneTable(seeds[i])
				}
			}()
		}
		wg.Wait()
		var reqs []string
		var cases []oneCase
		for _, res := range results {
			for _, s := range res.stats {
				rep.Stat(s)
			}
			for _, c := range res.cases {
				for _, s := range c.stats {
					rep.Stat(s)
				}
				rep.Case(c.line, c.nontrivial)
				reqs = append(reqs, c.line)
				cases = append(cases, c)
			}
		}
		for i, m := range vh.AskModelSharded(reqs, 16) {
			c := cases[i]
			if strings.HasPrefix(m, "UNSUP") {
				rep.Stat("model_UNSUP")
				rep.Stat("model_" + strings.ReplaceAll(m, " ", "_"))
				continue
			}
			rep.Stat("model_answered")
			if reduce(m) != c.impl {
				rep.AddDiff(vh.Diff{Component: command + ":" + strings.Join(strings.Fields(c.impl+" -")[:2], "_") + "/" + strings.Join(strings.Fields(m+" -")[:2], "_"),
					Input: c.input, Impl: c.impl, Model: m, Class: c.class, Note: c.line})
			}
		}
	}
	rep.Finish()
}
