package e2e

// Exported view of the text generator of `e2e-text` for the Lean-vs-Lean tie `bridge-models` (package x/bridge):
// the schema TEXTS of one random table (root + 4 named types + 4 key types), no documents.

import "math/rand"

// BridgeTable is one table of schema texts.
type BridgeTable struct {
	Root  string
	Names []string
	Texts []string
	Noisy bool
	Stats []string
}

// BridgeTexts draws one table as `e2e-text` does; noise > 0: one node in `noise` gets one or two rules from the
// pool of rules that may not apply there (error paths of the loader / compiler / checker).
func BridgeTexts(seed int64, noise int) BridgeTable {
	g := &gen{r: rand.New(rand.NewSource(seed)), noise: noise}
	r := g.r
	var out BridgeTable
	withTypes := r.Intn(4) != 0
	types := map[string]*Node{}
	if withTypes {
		for _, nm := range typeNames {
			types[nm] = g.genNode(2, true)
			out.Names = append(out.Names, "@"+nm)
			out.Texts = append(out.Texts, g.text(types[nm]))
		}
		for _, nm := range keyTypeNames {
			out.Names = append(out.Names, "@"+nm)
			out.Texts = append(out.Texts, keyTypeText[nm])
		}
	}
	root := g.genNode(3, withTypes)
	out.Root = g.text(root)
	out.Noisy = g.noisy
	f := map[string]bool{}
	features(root, f)
	for k := range f {
		out.Stats = append(out.Stats, "e2e_uses_"+k)
	}
	return out
}
