// Package c14model: harness command `c14-model` — the tie of the C14 theorems about the schema scanner's Len
// (Props/C14.lean: C14_schema_len_shortcut, C14_schema_len_annotated_scalar, C14_schema_len_annotated).
//
// Every case is a triple (S, separator, tail) drawn from the grammar of one theorem; three numbers must agree:
//
//	real    = the library's scanner in length mode (hook VerifSchemaLen; also the public Schema.Len())
//	model   = SchemaScan.length (driver request `sscan L <hex>`)
//	closed  = the closed form the theorem states, computed HERE in Go from the grammar object (never from the text
//	          by scanning): |ws0|+|shortcut|, resp. the length of S without trailing blanks.
//
// Streams:
//   - shortcut:  ws0 @name(|@name)* w tail   with tail = "" or a byte allowed by `scTailOk` and anything behind it.
//   - annscalar: ws0 scalar s1 // body LB w x rest   (body = note | {rules} [- note]; LB = LF, CR or CRLF);
//     annshortcut: the same behind a root type shortcut.
//   - tokens:    a JSON value with layout between the tokens: blanks, line breaks, `#` line comments, inline
//     annotations — generated loosely (places where the scanner usually accepts them); the driver request
//     `stok` runs the token-level scanner `Len.trun` of the theorem's hypothesis and says whether the case
//     is inside the theorem (ACC n): then real = model = n = closed is demanded. Outside (REJ / NOEND) only
//     real = model is demanded. With tail = "" (end of input: not covered by the theorem) the same closed
//     form is checked as component "eof".
//   - events:    the token text ALONE: the real scanner's events (hook VerifSchemaEvents) = the events the token-level
//     scanner computes (`stoke`: Len.trun + the end of a top-level scalar; theorem
//     schema_events_tokens_whole / C14_schema_prefix_same_events) — this ties `trun` itself to the code.
//   - prefix:    a strict prefix of a token text cut at a token boundary: when `stokx` says something is left open
//     (eofErrK: C14_schema_len_error) real Len must fail with 303 at the last byte; some prefixes are
//     continued by an unterminated string (real = model only).
//   - malformed: 1-3 byte edits of texts of the three streams, and shortcut tails that violate `scTailOk`:
//     real = model only.
package c14model

import (
	"fmt"
	"math/rand"
	"strings"
	"sync"

	"github.com/jsightapi/jsight-schema-go-library/notations/jschema"

	"verifharness/vh"
)

const (
	command = "c14-model"
	salt    = 1414
)

// ---------------------------------------------------------------------------------------------------------
// byte classes (mirror of SchemaScan.classify, only what the closed forms need)

func isBlank(c byte) bool { return c == ' ' || c == '\t' || c == '\n' || c == '\r' }
func isNameCh(c byte) bool {
	return c == '-' || c == '_' || c >= '0' && c <= '9' || c >= 'a' && c <= 'z' || c >= 'A' && c <= 'Z'
}
func isForeign(c byte) bool { return !isBlank(c) && c != '/' && c != '#' }

func rtrimLen(s string) int {
	n := len(s)
	for n > 0 && isBlank(s[n-1]) {
		n--
	}
	return n
}

// ---------------------------------------------------------------------------------------------------------
// generators of the pieces

func pick(r *rand.Rand, xs []string) string { return xs[r.Intn(len(xs))] }

func blanks(r *rand.Rand, max int) string {
	n := r.Intn(max + 1)
	var b strings.Builder
	for i := 0; i < n; i++ {
		b.WriteByte(" \t\n\r  \n"[r.Intn(7)])
	}
	return b.String()
}

func spTabs(r *rand.Rand, max int) string {
	n := r.Intn(max + 1)
	var b strings.Builder
	for i := 0; i < n; i++ {
		b.WriteByte("  \t"[r.Intn(3)])
	}
	return b.String()
}

const nameAlpha = "abcdefxyzABCXYZ0189_-tnE"

func typeName(r *rand.Rand) string {
	n := 1 + r.Intn(5)
	var b strings.Builder
	for i := 0; i < n; i++ {
		b.WriteByte(nameAlpha[r.Intn(len(nameAlpha))])
	}
	return b.String()
}

func shortcut(r *rand.Rand) string {
	s := "@" + typeName(r)
	for k := r.Intn(4); k > 0; k-- {
		s += spTabs(r, 2) + "|" + spTabs(r, 2) + "@" + typeName(r)
	}
	return s
}

var scalars = []string{"1", "0", "12", "-7", "0.5", "-0.25", "3.10", "100", "true", "false", "null", `""`, `"a"`, `"a b"`,
	`"\n"`, `"\u00e9x"`, `"q\"q"`, `"//"`, `"#"`, `"{}"`, `"é"`, `"@a"`, `"1 // x"`}

var keys = []string{`"a"`, `"b"`, `"id"`, `"k k"`, `"\u0041"`, `""`, `"#"`, `"/"`, `"ключ"`}

const tailAlpha = "GETPath09:{}[]\"@/# \n\t.,-_|eE*x\r"

func anyBytes(r *rand.Rand, max int) string {
	n := r.Intn(max + 1)
	var b strings.Builder
	for i := 0; i < n; i++ {
		b.WriteByte(tailAlpha[r.Intn(len(tailAlpha))])
	}
	return b.String()
}

var foreignFirst = []byte("GxP09:{}[]\"@.,-_|eE*=\\'\x00\xc3")

func foreignByte(r *rand.Rand) byte { return foreignFirst[r.Intn(len(foreignFirst))] }

// note text: no line break, no '#', does not start with space / tab
func noteText(r *rand.Rand, allowBrace bool) string {
	const alpha = "abc xyz 019 ,.:;-_*/{}[]\"'@|\\é\t"
	n := r.Intn(9)
	var b strings.Builder
	for i := 0; i < n; i++ {
		b.WriteByte(alpha[r.Intn(len(alpha))])
	}
	s := b.String()
	for len(s) > 0 && (s[0] == ' ' || s[0] == '\t' || (!allowBrace && s[0] == '{')) {
		s = s[1:]
	}
	return s
}

var ruleNames = []string{"min", "max", "minLength", "type", "optional", "nullable", "x", "a-b", "n_1", "0"}
var ruleVals = []string{"0", "1", "5", "-3", "2.5", "true", "false", "null", `"integer"`, `"a b"`, `"}"`, `"\""`}

// rule object between the braces, and its `stok` spelling
func ruleObj(r *rand.Rand) (text, spec string) {
	if r.Intn(5) == 0 {
		b0 := spTabs(r, 2)
		return b0, "E" + vh.Hex([]byte(b0))
	}
	n := 1 + r.Intn(3)
	var ts, ss []string
	for i := 0; i < n; i++ {
		b1, name, n2, b3, val, b4 := spTabs(r, 2), pick(r, ruleNames), r.Intn(3), spTabs(r, 2), pick(r, ruleVals), spTabs(r, 2)
		ts = append(ts, b1+name+strings.Repeat(" ", n2)+":"+b3+val+b4)
		ss = append(ss, fmt.Sprintf("%s:%s:%d:%s:%s:%s", vh.Hex([]byte(b1)), vh.Hex([]byte(name)), n2, vh.Hex([]byte(b3)), vh.Hex([]byte(val)), vh.Hex([]byte(b4))))
	}
	text, spec = strings.Join(ts, ","), strings.Join(ss, "+")
	if r.Intn(4) == 0 {
		b5 := spTabs(r, 2)
		text += "," + b5
		spec += "~" + vh.Hex([]byte(b5))
	}
	return
}

// annotation body (what stands between `//` and the line break) and its `stok` spelling
func annBody(r *rand.Rand) (text, spec string) {
	s2 := spTabs(r, 2)
	if r.Intn(2) == 0 {
		txt := noteText(r, false)
		return s2 + txt, "aN." + vh.Hex([]byte(s2)) + "." + vh.Hex([]byte(txt))
	}
	ob, obSpec := ruleObj(r)
	s3 := spTabs(r, 2)
	text = s2 + "{" + ob + "}" + s3
	spec = "aO." + vh.Hex([]byte(s2)) + "." + obSpec + "." + vh.Hex([]byte(s3))
	if r.Intn(2) == 0 {
		s4, txt := spTabs(r, 2), noteText(r, true)
		text += "-" + s4 + txt
		spec += "." + vh.Hex([]byte(s4)) + "." + vh.Hex([]byte(txt))
	}
	return
}

func lineBreak(r *rand.Rand) string { return pick(r, []string{"\n", "\n", "\r\n", "\r"}) }

// ---------------------------------------------------------------------------------------------------------
// token lists

type tokGen struct {
	r     *rand.Rand
	text  strings.Builder
	spec  []string
	texts []string
}

func (g *tokGen) emit(text, spec string) {
	g.text.WriteString(text)
	g.spec = append(g.spec, spec)
	g.texts = append(g.texts, text)
}

func (g *tokGen) blank() {
	c := " \t "[g.r.Intn(3)]
	g.emit(string(c), fmt.Sprintf("s%02x", c))
}

func (g *tokGen) nl() {
	lb := lineBreak(g.r)
	for i := 0; i < len(lb); i++ {
		g.emit(lb[i:i+1], "n")
	}
}

func (g *tokGen) comment() {
	txt := noteText(g.r, true)
	txt = strings.TrimLeft(strings.ReplaceAll(txt, "#", "+"), "#")
	lb := lineBreak(g.r)
	g.emit("#"+txt+lb[:1], "c"+vh.Hex([]byte(txt)))
	for i := 1; i < len(lb); i++ {
		g.emit(lb[i:i+1], "n")
	}
}

func (g *tokGen) annotation() {
	body, spec := annBody(g.r)
	lb := lineBreak(g.r)
	g.emit("//"+body+lb[:1], spec)
	for i := 1; i < len(lb); i++ {
		g.emit(lb[i:i+1], "n")
	}
}

// layout at a place between tokens; ann / cmt say whether annotations / comments are plausible there
func (g *tokGen) layout(ann, cmt bool, weight int) {
	for k := g.r.Intn(weight + 1); k > 0; k-- {
		switch x := g.r.Intn(10); {
		case x < 4:
			g.blank()
		case x < 6:
			g.nl()
		case x < 8 && cmt:
			g.comment()
		case x >= 8 && ann:
			g.annotation()
			ann = g.r.Intn(6) == 0 // a second annotation in the same place is (nearly always) an error
		default:
			g.blank()
		}
	}
}

func (g *tokGen) value(depth int) {
	switch x := g.r.Intn(10); {
	case x < 5 || depth == 0:
		s := pick(g.r, scalars)
		g.emit(s, "v"+vh.Hex([]byte(s)))
	case x < 7:
		g.emit("[", "l")
		g.layout(true, true, 2)
		n := g.r.Intn(4)
		for i := 0; i < n; i++ {
			g.value(depth - 1)
			g.layout(true, true, 2)
			if i+1 < n {
				g.emit(",", "m")
				g.layout(true, true, 2)
			}
		}
		g.emit("]", "r")
	default:
		g.emit("{", "L")
		g.layout(true, true, 2)
		n := g.r.Intn(4)
		for i := 0; i < n; i++ {
			k := pick(g.r, keys)
			g.emit(k, "k"+vh.Hex([]byte(k)))
			g.layout(g.r.Intn(8) == 0, false, 1)
			g.emit(":", "o")
			g.layout(g.r.Intn(8) == 0, false, 1)
			g.value(depth - 1)
			g.layout(true, true, 2)
			if i+1 < n {
				g.emit(",", "m")
				g.layout(true, true, 2)
			}
		}
		g.emit("}", "R")
	}
}

func tokenSchema(r *rand.Rand) (text, spec string, g *tokGen) {
	g = &tokGen{r: r}
	g.layout(false, true, 2)
	g.value(3)
	g.layout(true, true, 3)
	return g.text.String(), strings.Join(g.spec, ","), g
}

// ---------------------------------------------------------------------------------------------------------

type kase struct {
	evReq  string // `stoke` request: events of the token text scanned alone ("" = none)
	errReq string // `stokx` request: the text must make Len fail with 303 at its last byte when the reply is OPEN
	stream string
	text   string // the whole input
	closed int    // closed form; -1 = none demanded
	stok   string // driver request deciding whether the closed form is demanded ("" = always)
	eof    bool   // tokens stream with an empty tail: closed form checked as component "eof"
	s      string // the schema part (for the report)
}

func realLen(text string) string {
	return vh.Recover(func() string { return jschema.VerifSchemaLen([]byte(text)) })
}

func publicLen(text string) string {
	return vh.Recover(func() string {
		n, err := jschema.New("s", text).Len()
		if err != nil {
			return "ERR"
		}
		return fmt.Sprintf("LEN %d", n)
	})
}

func Run(args []string) {
	nSc, nAnn, nTok, nMal := vh.Pick(60000, 1000000), vh.Pick(60000, 1000000), vh.Pick(180000, 3000000), vh.Pick(60000, 1000000)
	rep := vh.NewReport(command, fmt.Sprintf("(S, separator, tail) triples from the grammars of the C14 schema-Len theorems: %d root shortcuts, %d annotated top-level scalars, %d token lists (value trees of depth <= 3 with blanks, line breaks, # comments, inline annotations between the tokens), %d malformed (byte edits, shortcut tails outside scTailOk), plus for a third of the token lists the events of the text alone (real scanner = Len.trun) and for a fifth a token-boundary prefix (Len must fail when something stays open); per case real Len (scanner hook + public Schema.Len) = model length (sscan L) = closed form computed in Go; token lists: demanded when `stok` (Len.trun + EndsAt) accepts; nontrivial = the schema part has at least 3 bytes", nSc, nAnn, nTok, nMal))
	r := vh.NewRand(salt)
	const batches = 20
	for b := 0; b < batches; b++ {
		runBatch(rep, r, nSc/batches, nAnn/batches, nTok/batches, nMal/batches)
	}
	rep.Finish()
}

func runBatch(rep *vh.Report, r *rand.Rand, nSc, nAnn, nTok, nMal int) {
	var cases []kase
	for i := 0; i < nSc; i++ {
		ws0, sc, w := blanks(r, 3), shortcut(r), blanks(r, 3)
		tail := ""
		if r.Intn(5) != 0 {
			var x byte
			for {
				x = foreignByte(r)
				spOnly := strings.Trim(w, " \t") == ""
				if spOnly && x == '|' {
					continue
				}
				if w == "" && isNameCh(x) {
					continue
				}
				break
			}
			tail = string(x) + anyBytes(r, 6)
		}
		cases = append(cases, kase{stream: "shortcut", text: ws0 + sc + w + tail, closed: len(ws0) + len(sc), s: sc})
	}
	for i := 0; i < nAnn; i++ {
		ws0, tok, s1 := blanks(r, 3), pick(r, scalars), spTabs(r, 2)
		body, _ := annBody(r)
		s := ws0 + tok + s1 + "//" + body
		x := foreignByte(r)
		text := s + lineBreak(r) + blanks(r, 3) + string(x) + anyBytes(r, 6)
		cases = append(cases, kase{stream: "annscalar", text: text, closed: rtrimLen(s), s: s})
		if i%3 == 0 { // the same behind a root type shortcut (C14_schema_len_annotated_shortcut)
			ws0, sc, s1 := blanks(r, 3), shortcut(r), spTabs(r, 2)
			body, _ := annBody(r)
			s := ws0 + sc + s1 + "//" + body
			text := s + lineBreak(r) + blanks(r, 3) + string(foreignByte(r)) + anyBytes(r, 6)
			cases = append(cases, kase{stream: "annshortcut", text: text, closed: rtrimLen(s), s: s})
		}
	}
	for i := 0; i < nTok; i++ {
		s, spec, g := tokenSchema(r)
		if r.Intn(5) == 0 && len(g.spec) > 1 {
			// a strict prefix at a token boundary: Len must fail when something is left open (C14_schema_len_error)
			k := 1 + r.Intn(len(g.spec)-1)
			pre := strings.Join(g.texts[:k], "")
			if r.Intn(4) == 0 { // … or inside a string that starts where the cut is (C14_schema_len_error_string is not asked: model only)
				pre += "\"ab\\n"
				cases = append(cases, kase{stream: "prefix", text: pre, closed: -1, s: pre})
			} else {
				cases = append(cases, kase{stream: "prefix", text: pre, closed: -1, errReq: "stokx " + strings.Join(g.spec[:k], ","), s: pre})
			}
		}
		if r.Intn(3) == 0 {
			// the token text alone: events of the real scanner = events the token-level scanner computes
			cases = append(cases, kase{stream: "events", text: s, closed: -1, evReq: "stoke " + spec, s: s})
		}
		if r.Intn(6) == 0 {
			cases = append(cases, kase{stream: "tokens", text: s, closed: rtrimLen(s), stok: "stok " + spec + " 78", eof: true, s: s})
			continue
		}
		x := foreignByte(r)
		if r.Intn(8) == 0 {
			x = "0123456789.eE"[r.Intn(13)] // may continue a number: `stok` decides (adjOk)
		}
		cases = append(cases, kase{stream: "tokens", text: s + string(x) + anyBytes(r, 6), closed: rtrimLen(s),
			stok: fmt.Sprintf("stok %s %02x", spec, x), s: s})
	}
	nValid := len(cases)
	nValid = len(cases)
	for i := 0; i < nMal; i++ {
		if r.Intn(4) == 0 { // shortcut with a tail that violates scTailOk
			sc := shortcut(r)
			w := spTabs(r, 2)
			x := "|/#abc_-09"[r.Intn(10)]
			cases = append(cases, kase{stream: "malformed", text: blanks(r, 2) + sc + w + string(x) + anyBytes(r, 5), closed: -1, s: sc})
			continue
		}
		base := cases[r.Intn(nValid)]
		m := vh.Mutate(r, []byte(base.text), []byte(tailAlpha))
		cases = append(cases, kase{stream: "malformed", text: string(m), closed: -1, s: string(m)})
	}

	// evaluate
	n := len(cases)
	implEv := make([]string, n)
	impl, pub := make([]string, n), make([]string, n)
	var wg sync.WaitGroup
	const workers = 16
	for w := 0; w < workers; w++ {
		wg.Add(1)
		go func(w int) {
			defer wg.Done()
			for i := w; i < n; i += workers {
				impl[i] = realLen(cases[i].text)
				pub[i] = publicLen(cases[i].text)
				if cases[i].evReq != "" {
					t := cases[i].text
					implEv[i] = vh.Recover(func() string { return jschema.VerifSchemaEvents([]byte(t)) })
				}
			}
		}(w)
	}
	wg.Wait()
	reqs := make([]string, 0, 2*n)
	for _, c := range cases {
		reqs = append(reqs, "sscan L "+vh.Hex([]byte(c.text)))
	}
	stokAt := make([]int, n)
	for i, c := range cases {
		stokAt[i] = -1
		if c.stok != "" {
			stokAt[i] = len(reqs)
			reqs = append(reqs, c.stok)
		}
	}
	evAt, errAt := make([]int, n), make([]int, n)
	for i, c := range cases {
		evAt[i], errAt[i] = -1, -1
		if c.evReq != "" {
			evAt[i] = len(reqs)
			reqs = append(reqs, c.evReq)
		}
		if c.errReq != "" {
			errAt[i] = len(reqs)
			reqs = append(reqs, c.errReq)
		}
	}
	model := vh.AskModelSharded(reqs, 16)

	for i, c := range cases {
		rep.Case(c.stream+"|"+c.text, len(c.s) >= 3)
		rep.Stat("in_" + c.stream)
		in := fmt.Sprintf("%q", c.text)
		if impl[i] != model[i] {
			rep.AddDiff(vh.Diff{Component: "schema-len model", Input: in, Impl: impl[i], Model: model[i], Level: "correspondence",
				Note: "sscan L (stream " + c.stream + ")"})
		}
		if strings.HasPrefix(impl[i], "LEN ") != strings.HasPrefix(pub[i], "LEN ") || strings.HasPrefix(impl[i], "LEN ") && impl[i] != pub[i] {
			rep.AddDiff(vh.Diff{Component: "Schema.Len vs scanner hook", Input: in, Impl: pub[i], Model: impl[i], Level: "correspondence"})
		}
		if strings.HasPrefix(impl[i], "LEN ") {
			rep.Stat("len_ok_" + c.stream)
		} else {
			rep.Stat("len_err_" + c.stream)
		}
		if evAt[i] >= 0 {
			v := model[evAt[i]]
			rep.Stat("stoke_" + strings.Fields(v)[0])
			if strings.HasPrefix(v, "EV") {
				if strings.TrimSpace(strings.TrimPrefix(v, "EV")) != implEv[i] {
					rep.AddDiff(vh.Diff{Component: "events of the token text: real scanner vs Len.trun", Input: in, Impl: implEv[i], Model: v})
				}
			} else if v == "INC" || strings.HasPrefix(v, "REJ") {
				if !strings.HasPrefix(implEv[i], "ERR") {
					rep.Stat("stoke_rejected_but_scanner_ok")
				}
			}
		}
		if errAt[i] >= 0 {
			v := model[errAt[i]]
			rep.Stat("stokx_" + strings.Fields(v)[0])
			if v == "OPEN" {
				want := fmt.Sprintf("ERR 303 %d", len(c.text)-1)
				if impl[i] != want {
					rep.AddDiff(vh.Diff{Component: "Len error on an incomplete schema", Input: in, Impl: impl[i], Model: want})
				}
			}
		}
		if c.closed < 0 {
			continue
		}
		want := fmt.Sprintf("LEN %d", c.closed)
		comp := "closed form " + c.stream
		if c.stok != "" {
			v := model[stokAt[i]]
			f := strings.Fields(v)
			rep.Stat("stok_" + f[0])
			if f[0] == "REJ" {
				if strings.HasPrefix(impl[i], "LEN ") {
					rep.Stat("stok_REJ_but_len_ok")
				} else {
					rep.Stat("stok_REJ_and_len_err")
				}
			}
			if f[0] == "ACC" {
				if strings.Contains(c.stok, ",aN") || strings.Contains(c.stok, ",aO") {
					rep.Stat("acc_with_annotation")
				}
				if strings.Contains(c.stok, ",c") {
					rep.Stat("acc_with_comment")
				}
				if strings.Contains(c.stok, ",L") || strings.Contains(c.stok, " L") || strings.Contains(c.stok, ",l") || strings.Contains(c.stok, " l") {
					rep.Stat("acc_container_root_or_nested")
				}
				rep.Stat(fmt.Sprintf("acc_tokens_%d0s", len(strings.Split(c.stok, ","))/10))
			}
			if c.eof {
				// end of input (C14_schema_len_annotated_whole): demanded when the token list is accepted and complete — for the
				// probe byte 'x' (foreign, continues no number) `EndsAt` is `Complete`, so ACC says exactly that
				if f[0] != "ACC" {
					continue
				}
				comp = "closed form tokens, end of input"
			} else {
				if f[0] != "ACC" {
					continue
				}
				if v != "ACC "+fmt.Sprint(c.closed) {
					rep.AddDiff(vh.Diff{Component: "rtrimLen: Lean vs Go", Input: in, Impl: want, Model: v, Level: "correspondence"})
				}
			}
		}
		rep.Stat("demanded_" + c.stream)
		if impl[i] != want {
			rep.AddDiff(vh.Diff{Component: comp, Input: in, Impl: impl[i], Model: want, Note: "schema part: " + fmt.Sprintf("%q", c.s)})
		}
	}
}
