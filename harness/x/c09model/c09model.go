// Package c09model: correspondence (T-diff) between the Lean model TG.check of the recursion checker
// (lean/JSight/TypeGraph.lean, the subject of theorem C09_never_rejects_legal) and the real Check():
// on type graphs of the model's fragment — literals, arrays, objects with required / optional
// properties, type shortcuts `@a` and or-shortcuts `@a | @b` — built with plain type objects (every
// type AddType'd to the root only: the table of a type object holds no named types, which is what the
// model says), the real verdict "recursion error or not" equals the model's.
package c09model

import (
	"fmt"
	"math/rand"
	"strings"
	"sync"

	tg "verifharness/x/tgraph"
	"verifharness/vh"
)

const command = "c09-model"

func genNode(r *rand.Rand, names []string, depth int, top bool) *tg.Node {
	k := r.Intn(10)
	switch {
	case k < 2 || (depth == 0 && k < 5):
		return &tg.Node{Kind: tg.KLit, Lit: []string{"1", `"s"`, "true", "2.5"}[r.Intn(4)]}
	case k < 3:
		n := &tg.Node{Kind: tg.KArr}
		if r.Intn(2) == 0 {
			n.Items = []*tg.Node{{Kind: tg.KRef, Names: []string{names[r.Intn(len(names))]}}}
		}
		return n
	case k < 6 || depth == 0:
		n := &tg.Node{Kind: tg.KRef}
		m := 1 + r.Intn(3)
		if r.Intn(3) > 0 {
			m = 1
		}
		seen := map[string]bool{}
		for len(n.Names) < m {
			x := names[r.Intn(len(names))]
			if !seen[x] {
				seen[x] = true
				n.Names = append(n.Names, x)
			}
			if len(seen) == len(names) {
				break
			}
		}
		return n
	default:
		n := &tg.Node{Kind: tg.KObj}
		for i, m := 0, 1+r.Intn(3); i < m; i++ {
			v := genNode(r, names, depth-1, false)
			v.Optional = r.Intn(3) == 0
			n.Props = append(n.Props, tg.Prop{Key: fmt.Sprintf("k%d", i), Val: v})
		}
		return n
	}
}

func sx(n *tg.Node) string {
	switch n.Kind {
	case tg.KLit:
		return "s"
	case tg.KArr:
		return "a"
	case tg.KRef:
		return "(r " + strings.Join(n.Names, " ") + ")"
	default:
		var sb strings.Builder
		sb.WriteString("(o")
		for _, p := range n.Props {
			o := "0"
			if p.Val.Optional {
				o = "1"
			}
			sb.WriteString(" (p " + o + " " + sx(p.Val) + ")")
		}
		sb.WriteString(")")
		return sb.String()
	}
}

func Run(args []string) {
	if len(args) > 0 && args[0] == "--child" {
		tg.ChildMain()
		return
	}
	rep := vh.NewReport(command, "random type graphs of the fragment of the Lean model TG.check (literals, arrays, objects with required/optional properties, type shortcuts and or-shortcuts over 1..5 user types, depth <= 3), plain type objects added to the root only, existing names only; real Check() recursion verdict (error 104 / 1303 or not) vs TG.check; nontrivial = some type body holds a reference")
	type kase struct {
		g   *tg.Graph
		req string
	}
	var mu sync.Mutex
	cases := map[int]*kase{}
	reqs := make(chan *tg.Req, 256)
	n := vh.Pick(12000, 300000)
	go func() {
		defer close(reqs)
		seed := vh.Seed()
		for i := 0; i < n; i++ {
			r := rand.New(rand.NewSource(seed*1000003 + 977 + int64(i)*7919))
			nt := 1 + r.Intn(5)
			names := make([]string, nt)
			for j := range names {
				names[j] = fmt.Sprintf("@t%d", j)
			}
			g := &tg.Graph{Root: genNode(r, names, 3, true)}
			for _, nm := range names {
				g.Types = append(g.Types, tg.TypeDef{Name: nm, Body: genNode(r, names, 2+r.Intn(2), true)})
			}
			var sb strings.Builder
			sb.WriteString("tg (g root " + sx(g.Root))
			req := &tg.Req{ID: i, Schemas: []tg.SchemaReq{{Name: "root", Text: g.Root.Text()}}}
			for _, t := range g.Types {
				sb.WriteString(" (t " + t.Name + " " + sx(t.Body) + ")")
				req.Types = append(req.Types, [2]string{t.Name, t.Body.Text()})
			}
			sb.WriteString(")")
			mu.Lock()
			cases[i] = &kase{g, sb.String()}
			mu.Unlock()
			reqs <- req
		}
	}()
	var modelReqs, impl, inputs []string
	tg.RunPool(command, 16, reqs, func(req *tg.Req, res tg.Res) bool {
		mu.Lock()
		k := cases[req.ID]
		delete(cases, req.ID)
		mu.Unlock()
		refs := false
		for _, t := range k.g.Types {
			if len(t.Body.Refs()) > 0 {
				refs = true
			}
		}
		rep.Case(k.g.Canon(), refs)
		if res.Crash != "" || res.Timeout || len(res.Schemas) != 1 {
			rep.AddDiff(vh.Diff{Component: "C09-model", Input: k.g.Canon(), Impl: "CRASH/TIMEOUT " + res.Crash, Model: "Check returns"})
			return true
		}
		c := res.Schemas[0].Check
		var verdict string
		switch {
		case c == "OK":
			verdict = "1"
			rep.Stat("real_accepts")
		case strings.HasPrefix(c, "E104 "), strings.HasPrefix(c, "X Infinity recursion detected"), strings.HasPrefix(c, "E1303 "):
			verdict = "0"
			rep.Stat("real_recursion_error")
		default:
			rep.Stat("real_other_error_skipped")
			return true
		}
		mu.Lock()
		modelReqs = append(modelReqs, k.req)
		impl = append(impl, verdict)
		inputs = append(inputs, k.g.Canon())
		mu.Unlock()
		return true
	})
	model := vh.AskModelSharded(modelReqs, 4)
	for i := range modelReqs {
		if impl[i] != model[i] {
			rep.AddDiff(vh.Diff{Component: "C09-model", Level: "correspondence", Input: inputs[i], Impl: "real Check: recursion verdict " + impl[i] + " (1 = no recursion error)", Model: "TG.check = " + model[i], Note: modelReqs[i]})
		}
	}
	rep.Finish()
}
